#!/venv/bin/python
"""markdown table of the seeded changes and which checks catch them (from seeded/*/meta.json)"""
import json
from pathlib import Path
V = Path(__file__).resolve().parent.parent
rows = []
for d in sorted((V / "seeded").iterdir()):
    m = json.loads((d / "meta.json").read_text())
    checks = m.get("checks_run", {})
    det = []
    for p, c in checks.items():
        if c["exit"] == 1:
            det.append(f"{p}: {'failing input' if c.get('replay_kind') == 'failing-input' else 'proof/correspondence broken, no failing input'}")
        else:
            det.append(f"{p}: missed")
    rows.append((d.name, m.get("breaks_property"), m.get("summary", "").replace("|", "/").replace("\n", " ")[:160],
                 m.get("needs", "").replace("|", "/").replace("\n", " ")[:140], "; ".join(det)))
print("| id | property | change | needs | result |\n|---|---|---|---|---|")
for r in rows:
    print("| " + " | ".join(str(x) for x in r) + " |")
