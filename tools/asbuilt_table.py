#!/venv/bin/python
"""markdown table 'as built' per property: theorems, model files, what the tie compares (from claims, Props, evidence)"""
import json, re
from pathlib import Path
V = Path(__file__).resolve().parent.parent
print("| id | theorems | Lean files (model / props) | technique | quick run (evaluations, non-trivial, wall) |\n|---|---|---|---|---|")
for pid in [f"C{i:02d}" for i in range(1, 21)]:
    c = json.loads((V / "harness" / "claims" / f"{pid}.json").read_text())
    props = (V / "lean" / "Koreo" / "Props" / f"{pid}.lean").read_text()
    n = len(re.findall(r"^theorem ", props, flags=re.M))
    imports = re.findall(r"^import (Koreo\.\S+)", props, flags=re.M)
    ev = V / "evidence" / f"{pid}.json"
    run = ""
    if ev.exists():
        e = json.loads(ev.read_text())
        cov = e["coverage"]
        run = f"{cov.get('evaluations')} / {cov.get('distinct_nontrivial')} / {e.get('wall_s')} s ({e.get('tier')})"
    print(f"| {pid} | {n} | {', '.join(i.replace('Koreo.', '') for i in imports)} | {c['technique']} | {run} |")
