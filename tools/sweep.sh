#!/bin/sh
# tools/sweep.sh "<props>" "<seeds>" [tier]   — runs the checks sequentially, one summary line each
props="$1"; seeds="$2"; tier="${3:-quick}"
cd "$(dirname "$0")/.."
for p in $props; do for s in $seeds; do
  out=$(VERIF_SEED=$s ./check $p $tier 2>&1); rc=$?
  echo "$p seed=$s rc=$rc :: $(echo "$out" | grep -E '^\[|^VIOLATION|^KNOWN|^INFRA' | tr '\n' ' ' | cut -c1-260)"
done; done
