#!/venv/bin/python
"""Re-run every filed seeded / harmless change against the current checks and rewrite its meta.json.

usage: tools/reverify_all.py [seeded|benign|both] [--jobs N] [--only Cxx ...] [--skip Cyy ...] [--touch Czz ...] [--match -x ...] [--nomatch -x ...]

Changes are vetted in place (tools/file_seed.py / tools/file_benign.py on the filed directory).
Checks of one lock group are never run concurrently against different trees (they share generated
tables and a driver binary), so each job takes its groups' locks first.
"""
import fcntl
import json
import subprocess
import sys
from concurrent.futures import ThreadPoolExecutor
from pathlib import Path

VERIF = Path(__file__).resolve().parent.parent
GROUPS = [{"C04", "C05"}, {"C06", "C07", "C08"}, {"C14", "C20"}, {"C18", "C19"}, {"C16", "C17"}]


def group_of(p):
    for g in GROUPS:
        if p in g:
            return "-".join(sorted(g))
    return p


def run(job):
    kind, d, prop, also = job
    locks = sorted({group_of(p) for p in [prop] + also})
    fhs = []
    try:
        for l in locks:
            fh = open(f"/tmp/reverify_{l}.lock", "w")
            fcntl.flock(fh, fcntl.LOCK_EX)
            fhs.append(fh)
        tool = "file_seed.py" if kind == "seeded" else "file_benign.py"
        cmd = [str(VERIF / "tools" / tool), str(d), d.name, "--prop", prop] + (["--also"] + also if also else [])
        p = subprocess.run(cmd, capture_output=True, text=True)
        line = (p.stdout.strip().splitlines() or ["{}"])[-1]
        return d.name, line
    finally:
        for fh in fhs:
            fcntl.flock(fh, fcntl.LOCK_UN)
            fh.close()


def main():
    args = sys.argv[1:]
    which = args[0] if args and args[0] in ("seeded", "benign", "both") else "both"
    jobs_n = int(args[args.index("--jobs") + 1]) if "--jobs" in args else 6
    def opt(name):
        if name not in args:
            return None
        out = []
        for a in args[args.index(name) + 1:]:
            if a.startswith("--"):
                break
            out.append(a)
        return set(out)
    only, skip, touch = opt("--only"), opt("--skip") or set(), opt("--touch")
    nomatch = opt("--nomatch")
    match = opt("--match")      # keep only changes whose directory name contains one of these strings
    jobs = []
    for kind in (["seeded", "benign"] if which == "both" else [which]):
        for d in sorted((VERIF / kind).iterdir()):
            if not (d / "meta.json").exists():
                continue
            if match and not any(m in d.name for m in match):
                continue
            if nomatch and any(m in d.name for m in nomatch):
                continue
            meta = json.loads((d / "meta.json").read_text())
            prop = meta.get("breaks_property") or meta["property"]
            also = [p for p in (meta.get("checks_run") or {}) if p != prop]
            if only and prop not in only:
                continue
            if skip & set([prop] + also):
                continue
            if touch and not (touch & set([prop] + also)):
                continue
            jobs.append((kind, d, prop, also))
    # interleave the properties so that the pool is not queued up behind one lock
    jobs.sort(key=lambda j: (j[0], j[1].name.split("-")[1], j[2]))
    with ThreadPoolExecutor(jobs_n) as ex:
        for name, line in ex.map(run, jobs):
            print(name, line[:400], flush=True)


if __name__ == "__main__":
    main()
