#!/bin/sh
# usage: tools/benign_batch.sh "C01 C02"   — vet and file /tmp/benign/<Cxx>/benign_{1,2,3} as benign/<Cxx>-b{1,2,3}
cd "$(dirname "$0")/.."
for p in $1; do
  for i in 1 2 3; do
    d=/tmp/benign/$p/benign_$i
    [ -f "$d/patch.diff" ] || { echo "{\"id\": \"$p-b$i\", \"missing\": true}"; continue; }
    /venv/bin/python tools/file_benign.py "$d" "$p-b$i" --prop "$p" 2>&1 | tail -1
  done
done
