#!/bin/sh
# tools/final_evidence.sh [seed] — quick run of all 20 checks against /repo, lock groups in parallel, one summary line each
seed="${1:-1}"
cd "$(dirname "$0")/.."
run_group() { for p in "$@"; do
  out=$(VERIF_SEED=$seed ./check $p quick 2>&1); rc=$?
  echo "$p seed=$seed rc=$rc :: $(echo "$out" | grep -E '^\[|^VIOLATION|^KNOWN|^INFRA' | tr '\n' ' ' | cut -c1-240)"
done; }
run_group C04 C05 & run_group C06 C07 C08 & run_group C14 C20 & run_group C18 C19 & run_group C16 C17 C15 C03 &
run_group C01 C13 & run_group C02 C12 & run_group C09 C10 C11 &
wait
