#!/bin/sh
# usage: mut.sh <prop> <name> <file-rel> <python-expr-old> <new>   (sed-free: python replace)
prop=$1; name=$2; file=$3; old=$4; new=$5
wt=/tmp/mut_$name
git -C /repo worktree add -f $wt HEAD >/dev/null 2>&1
OLD="$old" NEW="$new" /venv/bin/python - "$wt/$file" <<'PY'
import sys,os
p=sys.argv[1]; s=open(p).read()
old=os.environ['OLD']; new=os.environ['NEW']
assert s.count(old)>=1, "pattern not found"
open(p,'w').write(s.replace(old,new,1))
PY
echo "== $name: suite:"; (cd $wt && /venv/bin/python -m pytest -q -p no:cacheprovider --timeout=60 2>&1 | tail -1)
echo "== $name: check:"; (cd /verif && VERIF_REPO=$wt ./check $prop quick | tail -3)
git -C /repo worktree remove --force $wt
