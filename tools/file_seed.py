#!/venv/bin/python
"""vet a seeded change (tools/try_seed.py), then file it as /verif/seeded/<id>/ with what was run
usage: tools/file_seed.py <seed-dir> <id> [--prop Cxx] [--also Cyy ...]"""
import json, shutil, subprocess, sys
from pathlib import Path
VERIF = Path(__file__).resolve().parent.parent
seed, sid = Path(sys.argv[1]), sys.argv[2]
rest = sys.argv[3:]
prop = rest[rest.index("--prop") + 1] if "--prop" in rest else None
also = rest[rest.index("--also") + 1:] if "--also" in rest else []
meta = json.loads((seed / "meta.json").read_text())
prop = prop or meta["property"]
runs = {}
first = None
for i, p in enumerate([prop] + also):
    args = [str(VERIF / "tools" / "try_seed.py"), str(seed), "--prop", p] + (["--skip-suite"] if i else [])
    out = subprocess.run(args, capture_output=True, text=True).stdout
    d = json.loads(out[out.index("{"):])
    runs[p] = d
    first = first or d
ok = (first.get("patch_applies") and first.get("suite_with_change", {}).get("rc") == 0
      and first["demo_without_change"]["rc"] == 0 and first["demo_with_change"]["rc"] != 0)
dest = VERIF / "seeded" / sid
if ok:
    dest.mkdir(parents=True, exist_ok=True)
    if (seed / "patch.diff").resolve() != (dest / "patch.diff").resolve():
        shutil.copy(seed / "patch.diff", dest / "patch.diff")
    for n in ("demo.py", "demo_test.py", "test_demo.py"):
        if (seed / n).exists() and (seed / n).resolve() != (dest / n).resolve():
            shutil.copy(seed / n, dest / n)
    meta["breaks_property"] = prop
    meta["confirmed_by_coordinator"] = {
        "repo_head": subprocess.run(["git", "-C", "/repo", "rev-parse", "--short", "HEAD"], capture_output=True, text=True).stdout.strip(),
        "patch_applies": True, "suite_with_change": first["suite_with_change"]["tail"],
        "demo_without_change_rc": first["demo_without_change"]["rc"], "demo_with_change_rc": first["demo_with_change"]["rc"],
        "how": "tools/try_seed.py: scratch worktree of /repo HEAD, pinned pytest with --timeout=120, demo with PYTHONPATH=<tree>/src",
    }
    meta["checks_run"] = {p: {"cmd": f"VERIF_REPO=<scratch worktree with patch> ./check {p} quick", "exit": d["check"]["rc"],
                              "lines": d["check"]["lines"], "replay_kind": d["check"].get("replay_kind"),
                              "first_witness": d["check"].get("first")} for p, d in runs.items()}
    meta["detected"] = any(d["check"]["rc"] == 1 for d in runs.values())
    (dest / "meta.json").write_text(json.dumps(meta, indent=1) + "\n")
print(json.dumps({"id": sid, "kept": bool(ok), "detected": {p: d["check"]["rc"] if "check" in d else None for p, d in runs.items()},
                  "kind": {p: d["check"].get("replay_kind") if "check" in d else None for p, d in runs.items()},
                  "suite": first.get("suite_with_change"), "demo": [first["demo_without_change"]["rc"], first["demo_with_change"]["rc"]]}))
