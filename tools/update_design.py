#!/venv/bin/python
"""rewrites the generated parts of DESIGN.md (between <!-- AUTO:x --> markers): as-built table, seeded table"""
import subprocess
from pathlib import Path
V = Path(__file__).resolve().parent.parent
p = V / "DESIGN.md"
s = p.read_text()

def put(tag, text):
    global s
    a, b = f"<!-- AUTO:{tag} -->", f"<!-- /AUTO:{tag} -->"
    if a not in s:
        raise SystemExit(f"marker {a} missing")
    i, j = s.index(a) + len(a), s.index(b)
    s = s[:i] + "\n" + text.strip() + "\n" + s[j:]

put("asbuilt", subprocess.run([str(V / "tools" / "asbuilt_table.py")], capture_output=True, text=True).stdout)
put("seeded", subprocess.run([str(V / "tools" / "seed_table.py")], capture_output=True, text=True).stdout)
put("benign", subprocess.run([str(V / "tools" / "benign_table.py")], capture_output=True, text=True).stdout)
p.write_text(s)
print("DESIGN.md updated")
