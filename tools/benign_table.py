#!/venv/bin/python
"""markdown table of the harmless changes and what the checks said (from benign/*/meta.json)"""
import json
from pathlib import Path
V = Path(__file__).resolve().parent.parent
rows = []
for d in sorted((V / "benign").iterdir()):
    m = json.loads((d / "meta.json").read_text())
    res = []
    for p, c in (m.get("checks_run") or {}).items():
        if c["exit"] == 0:
            res.append(f"{p}: quiet")
        else:
            res.append(f"{p}: ALARM ({'failing input' if c.get('replay_kind') == 'failing-input' else 'no-failing-input-found'})")
    rows.append((d.name, m.get("kind", ""), ", ".join(Path(f).name for f in m.get("files", []))[:60],
                 m.get("summary", "").replace("|", "/").replace("\n", " ")[:170], "; ".join(res)))
print("| id | kind | files | change | result |\n|---|---|---|---|---|")
for r in rows:
    print("| " + " | ".join(str(x) for x in r) + " |")
