#!/venv/bin/python
"""vet a HARMLESS change (behaviour-preserving refactor etc.) and file it as /verif/benign/<id>/
with what was run: the patch must apply to /repo HEAD, the pinned suite must pass with it, and the
property's own check (plus any `--also` ones) is run against it; the expected result is exit 0.
usage: tools/file_benign.py <dir> <id> [--prop Cxx] [--also Cyy ...]"""
import json, shutil, subprocess, sys
from pathlib import Path
VERIF = Path(__file__).resolve().parent.parent
src, bid = Path(sys.argv[1]), sys.argv[2]
rest = sys.argv[3:]
prop = rest[rest.index("--prop") + 1] if "--prop" in rest else None
also = rest[rest.index("--also") + 1:] if "--also" in rest else []
meta = json.loads((src / "meta.json").read_text())
prop = prop or meta["property"]
runs = {}
first = None
for i, p in enumerate([prop] + also):
    args = [str(VERIF / "tools" / "try_seed.py"), str(src), "--prop", p] + (["--skip-suite"] if i else [])
    out = subprocess.run(args, capture_output=True, text=True).stdout
    d = json.loads(out[out.index("{"):])
    runs[p] = d
    first = first or d
ok = bool(first.get("patch_applies") and first.get("suite_with_change", {}).get("rc") == 0)
dest = VERIF / "benign" / bid
if ok:
    dest.mkdir(parents=True, exist_ok=True)
    if (src / "patch.diff").resolve() != (dest / "patch.diff").resolve():
        shutil.copy(src / "patch.diff", dest / "patch.diff")
    meta["confirmed_by_coordinator"] = {
        "repo_head": subprocess.run(["git", "-C", "/repo", "rev-parse", "--short", "HEAD"], capture_output=True, text=True).stdout.strip(),
        "patch_applies": True, "suite_with_change": first["suite_with_change"]["tail"],
        "how": "tools/try_seed.py: scratch worktree of /repo HEAD, pinned pytest with --timeout=120",
    }
    meta["checks_run"] = {p: {"cmd": f"VERIF_REPO=<scratch worktree with patch> ./check {p} quick", "exit": d["check"]["rc"],
                              "lines": d["check"]["lines"], "replay_kind": d["check"].get("replay_kind"),
                              "first_witness": d["check"].get("first")} for p, d in runs.items()}
    meta["alarm"] = any(d["check"]["rc"] != 0 for d in runs.values())
    (dest / "meta.json").write_text(json.dumps(meta, indent=1) + "\n")
print(json.dumps({"id": bid, "kept": ok, "exit": {p: d["check"]["rc"] if "check" in d else None for p, d in runs.items()},
                  "kind": {p: d["check"].get("replay_kind") if "check" in d else None for p, d in runs.items()},
                  "suite": first.get("suite_with_change"),
                  "first": {p: d["check"].get("first", "")[:300] for p, d in runs.items() if d.get("check", {}).get("rc")}}))
