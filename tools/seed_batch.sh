#!/bin/sh
# usage: tools/seed_batch.sh "C01 C02" v /tmp/seed4 — vet and file <src>/<Cxx>/seed_{1..4} as seeded/<Cxx>-<letter>{1..4}
cd "$(dirname "$0")/.."
for p in $1; do
  for i in 1 2 3 4; do
    d=$3/$p/seed_$i
    [ -f "$d/patch.diff" ] || { echo "{\"id\": \"$p-$2$i\", \"missing\": true}"; continue; }
    /venv/bin/python tools/file_seed.py "$d" "$p-$2$i" --prop "$p" 2>&1 | tail -1
  done
done
