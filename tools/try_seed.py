#!/venv/bin/python
"""Vet a seeded change and run a property check against it.

usage: tools/try_seed.py <seed-dir> [--prop Cxx] [--tier quick] [--in-repo]

<seed-dir> holds patch.diff, demo.py (or demo_test.py), meta.json.  By default the patch is
applied to a scratch worktree of /repo HEAD under /tmp (removed afterwards) and the check is
pointed at it with VERIF_REPO; with --in-repo it is applied to /repo itself and undone
straight afterwards (only when nobody else is using /repo).
Prints a JSON summary: suite, demo with/without the change, check exit code and VIOLATION line.
"""
import json
import os
import subprocess
import sys
import tempfile
from pathlib import Path

VERIF = Path(__file__).resolve().parent.parent
PY = "/venv/bin/python"


def sh(cmd, cwd=None, env=None, timeout=3600):
    e = dict(os.environ)
    if env:
        e.update(env)
    p = subprocess.run(cmd, cwd=cwd, env=e, capture_output=True, text=True, timeout=timeout, shell=isinstance(cmd, str))
    return p.returncode, (p.stdout or "") + (p.stderr or "")


def main():
    args = sys.argv[1:]
    seed = Path(args[0]).resolve()
    prop = args[args.index("--prop") + 1] if "--prop" in args else None
    tier = args[args.index("--tier") + 1] if "--tier" in args else "quick"
    in_repo = "--in-repo" in args
    skip_suite = "--skip-suite" in args
    meta = json.loads((seed / "meta.json").read_text()) if (seed / "meta.json").exists() else {}
    prop = prop or meta.get("property")
    demo = next((seed / n for n in ("demo.py", "demo_test.py", "test_demo.py") if (seed / n).exists()), None)
    out = {"seed": str(seed), "property": prop}

    gen_dir = VERIF / "lean" / "Koreo" / "Gen"
    gen_before = {f.name: f.read_text() for f in gen_dir.glob("*.lean")}
    clean = tempfile.mkdtemp(prefix="seedclean_")
    os.rmdir(clean)
    sh(["git", "-C", "/repo", "worktree", "add", "-f", clean, "HEAD"])
    if in_repo:
        tree = "/repo"
    else:
        tree = tempfile.mkdtemp(prefix="seedwt_")
        os.rmdir(tree)
        sh(["git", "-C", "/repo", "worktree", "add", "-f", tree, "HEAD"])
    try:
        def run_demo(t):
            if demo is None:
                return None
            if demo.name.startswith("test_") or demo.name.endswith("_test.py"):
                rc, o = sh([PY, "-m", "pytest", "-q", "-p", "no:cacheprovider", "--timeout=120", str(demo)],
                           cwd=t, env={"PYTHONPATH": f"{t}/src"})
            else:
                rc, o = sh([PY, str(demo)], cwd=t, env={"PYTHONPATH": f"{t}/src"}, timeout=600)
            return {"rc": rc, "tail": o[-400:]}

        out["demo_without_change"] = run_demo(clean)
        rc, o = sh(["git", "-C", tree, "apply", str(seed / "patch.diff")])
        out["patch_applies"] = rc == 0
        if rc != 0:
            out["apply_error"] = o[-400:]
            print(json.dumps(out, indent=1))
            return 1
        if not skip_suite:
            rc, o = sh([PY, "-m", "pytest", "-q", "-p", "no:cacheprovider", "--timeout=120"], cwd=tree,
                       env={"PYTHONPATH": f"{tree}/src"})
            out["suite_with_change"] = {"rc": rc, "tail": o.strip().splitlines()[-1] if o.strip() else ""}
        out["demo_with_change"] = run_demo(tree)
        if prop:
            rc, o = sh([str(VERIF / "check"), prop, tier], cwd=str(VERIF), env={"VERIF_REPO": tree})
            lines = [l for l in o.splitlines() if l.startswith(("VIOLATION", "KNOWN-FINDING", "[", "INFRA"))]
            out["check"] = {"rc": rc, "lines": lines[-6:]}
            rp = VERIF / "replay" / f"{prop}-{os.environ.get('VERIF_SEED', '0')}.json"
            if rc == 1 and rp.exists():
                try:
                    d = json.loads(rp.read_text())
                    out["check"]["replay_kind"] = d.get("kind")
                    v = (d.get("violations") or d.get("no_longer_checks") or [None])[0]
                    out["check"]["first"] = json.dumps(v, default=str)[:600]
                except Exception as e:  # pragma: no cover
                    out["check"]["replay_error"] = repr(e)
    finally:
        if in_repo:
            sh(["git", "-C", "/repo", "checkout", "--", "."])
        else:
            sh(["git", "-C", "/repo", "worktree", "remove", "--force", tree])
        sh(["git", "-C", "/repo", "worktree", "remove", "--force", clean])
        # The generated tables now reflect the scratch tree; they are NOT put back (a restore from this
        # run's snapshot clobbered tables that concurrent runs had regenerated in the meantime). Every
        # check regenerates the tables it needs from its own VERIF_REPO when it starts.
    print(json.dumps(out, indent=1))
    return 0


if __name__ == "__main__":
    sys.exit(main())
