#!/bin/sh
# build every model, theorem and per-property driver from files on disk only (offline)
set -e
cd "$(dirname "$0")/lean"
exes=$(sed -n 's/^name = "\(driver_c[0-9]*\)"/\1/p' lakefile.toml)
props=$(ls Koreo/Props/C*.lean | sed 's#/#.#g; s#\.lean$##')
lake build $props $exes
