/-
  C04 — "the create overlay does not contradict the target", as a decidable predicate on the written
  (evaluated) create overlay, over C12's overlay model (`Koreo/Overlay.lean`: `OSpec`, `mergeV/mergeO` =
  deep merge of a written overlay — maps written in the overlay merge key by key, leaves replace).

  `noContradict t ov`: wherever the overlay writes at a path the target specifies it either descends
  into a map the target has there, or writes a scalar leaf equal (as a JSON scalar) to the target's;
  at paths the target does not specify it may write anything.  Core Lean only.
-/
import Koreo.Overlay
import Koreo.Reconcile45
namespace Koreo.R45
open Koreo Koreo.JVal Koreo.Compare Koreo.Overlay

mutual
def ncV (t : JVal) (s : OSpec JVal) : Bool :=
  match s with
  | .leaf v => isScalar t && isScalar v && scalarEq t v
  | .node kvs =>
    match t with
    | .obj tkvs => ncO tkvs kvs
    | _ => false
termination_by structural s
def ncO (tkvs : List (String × JVal)) (kvs : List (String × OSpec JVal)) : Bool :=
  match kvs with
  | [] => true
  | (k, s) :: rest =>
    (isDirective k ||
      (match lookup k tkvs with
       | none => true
       | some tv => ncV tv s)) && ncO tkvs rest
termination_by structural kvs
end

/-- the create overlay `ov` (as written, leaves evaluated) does not contradict the target map -/
def noContradict (t : JVal) (ov : List (String × OSpec JVal)) : Bool :=
  match t with
  | .obj tkvs => ncO tkvs ov
  | _ => false

/-- `resource_view` as `_create_api_resource` hands it to `_prepare_for_api`: the target with the create
    overlay merged in and, where ownership applies, the owner references written.  (The forced
    kind/name overlay is applied once more in between; it is C06's and writes what a non-contradicting
    overlay left in place.) -/
def createViewOf (t : JVal) (ov : List (String × OSpec JVal)) (refs : Option JVal) : Option JVal :=
  match t with
  | .obj tkvs =>
    match refs with
    | none => some (.obj (mergeO tkvs ov))
    | some r => setOwnerRefs r (.obj (mergeO tkvs ov))
  | _ => none

end Koreo.R45
