/-
  C19 — the FunctionTest runner's OWN exact comparator
  (src/koreo/function_test/run.py: `_validate_match`, `_validate_dict_match`, `_validate_list_match`,
  `_validate_set_match`, `_obj_to_key`, `_list_to_object`, `_strip_last_applied_annotation`).

  This is NOT the ResourceFunction comparator (validate.py → Koreo/Compare.lean): the runner
  compares in both directions (missing AND unexpected keys), has no last-applied logic and has
  its own `_list_to_object`.

  The model is of the REPAIRED code:
    fixes/F6-runner-typed-set.diff        set-directed lists compare typed scalars (bool ≠ number)
    fixes/F9-runner-map-directed-type.diff a map-directed key whose value is not a list of objects on
                                          both sides is compared plainly (no raise, no ""/{}/[] conflation)
    fixes/F8-strip-annotation.diff        only the last-applied entry is stripped; an annotations map
                                          left empty is dropped, on the expected side as well
  `setMatchLegacy` / `stripLegacy` keep the unrepaired behaviour for the witness theorems.

  Core Lean only.  Functions are structural recursions over `JVal` (`exactMatch`, `listMatch`,
  `dictFwd`, `keyedFwd`).
-/
import Koreo.Json
import Koreo.Directives
namespace Koreo.Exact
open Koreo JVal

/-! ## Python fragments used by the comparator -/

def isScalar : JVal → Bool
  | .arr _ => false
  | .obj _ => false
  | _ => true

/-- typed scalar equality: JSON equality on scalars — numbers by value (`1 == 1.0`),
    bool ≠ number, nothing equals a container -/
def scalarEq : JVal → JVal → Bool
  | .null, .null => true
  | .bool a, .bool b => a == b
  | .str a, .str b => a == b
  | .int a, .int b => a == b
  | .int a, .flt b => a * 8 == b
  | .flt a, .int b => a == b * 8
  | .flt a, .flt b => a == b
  | _, _ => false

/-- `str.isspace` code points (what `str.strip()` removes) -/
def isPySpace (c : Char) : Bool :=
  let n := c.toNat
  (9 ≤ n && n ≤ 13) || (28 ≤ n && n ≤ 32) || n == 0x85 || n == 0xa0 || n == 0x1680 ||
  (0x2000 ≤ n && n ≤ 0x200a) || n == 0x2028 || n == 0x2029 || n == 0x202f || n == 0x205f || n == 0x3000

def pyStrip (s : String) : String :=
  String.ofList ((s.toList.dropWhile isPySpace).reverse.dropWhile isPySpace).reverse

/-- `repr` of the float e/8 (magnitudes below 1e16, which is all the harness emits) -/
def fltRepr (e : Int) : String :=
  let a := e.natAbs
  let frac := match a % 8 with
    | 0 => "0" | 1 => "125" | 2 => "25" | 3 => "375" | 4 => "5" | 5 => "625" | 6 => "75" | _ => "875"
  (if e < 0 then "-" else "") ++ toString (a / 8) ++ "." ++ frac

mutual
/-- `repr(v)`: exact for scalars whose strings need no escaping; containers in the default layout -/
def pyRepr : JVal → String
  | .null => "None"
  | .bool b => if b then "True" else "False"
  | .int n => toString n
  | .flt e => fltRepr e
  | .str s => "'" ++ s ++ "'"
  | .arr xs => "[" ++ pyReprL xs ++ "]"
  | .obj kvs => "{" ++ pyReprO kvs ++ "}"
def pyReprL : List JVal → String
  | [] => ""
  | [x] => pyRepr x
  | x :: xs => pyRepr x ++ ", " ++ pyReprL xs
def pyReprO : List (String × JVal) → String
  | [] => ""
  | [(k, v)] => "'" ++ k ++ "': " ++ pyRepr v
  | (k, v) :: rest => "'" ++ k ++ "': " ++ pyRepr v ++ ", " ++ pyReprO rest
end

/-- `f"{v}"` -/
def pyStr : JVal → String
  | .str s => s
  | v => pyRepr v

/-- `obj.get(field)` then `f"{…}".strip()`; a field that is not a string never is a key of a JSON map -/
def fieldStr (o : List (String × JVal)) (f : JVal) : String :=
  match f with
  | .str s => pyStrip (pyStr ((lookup s o).getD .null))
  | _ => pyStrip (pyStr .null)

def keySep : String := "$"

/-- `_obj_to_key(obj, fields)`: `"$".join(...)` -/
def objKey (fields : List JVal) (o : List (String × JVal)) : String :=
  keySep.intercalate (fields.map (fieldStr o))

/-- key of a member of a map-directed list (members are objects where this is used) -/
def memberKey (fields : List JVal) : JVal → String
  | .obj o => objKey fields o
  | _ => ""

/-- value of `_list_to_object(xs, fields)[κ]`: the LAST member with that key wins -/
def lastWith (fields : List JVal) (κ : String) : List JVal → Option JVal
  | [] => none
  | x :: rest =>
    match lastWith fields κ rest with
    | some y => some y
    | none => if memberKey fields x = κ then some x else none

/-! ## directives of a target map -/

/-- `{key for key in target.get("x-koreo-compare-as-set", ()) if key}` (string members matter only) -/
def setKeysOf (t : List (String × JVal)) : List String :=
  match lookup compareAsSet t with
  | some (.arr xs) => xs.filterMap fun x => match x with
    | .str s => if s = "" then none else some s
    | _ => none
  | _ => []

/-- `{key: [f for f in fields if f] for key, fields in target.get("x-koreo-compare-as-map", {}).items() if key}` -/
def mapKeysOf (t : List (String × JVal)) : List (String × List JVal) :=
  match lookup compareAsMap t with
  | some (.obj kfs) => kfs.filterMap fun kf => match kf with
    | (k, .arr fs) => if k = "" then none else some (k, fs.filter truthy)
    | _ => none
  | _ => []

def fieldsFor (k : String) : List (String × List JVal) → Option (List JVal)
  | [] => none
  | (k', fs) :: rest => if k' = k then some fs else fieldsFor k rest

def allObj (xs : List JVal) : Bool := xs.all isObj

/-- which comparison `_validate_dict_match` applies to the values `v`, `w` found under key `k` -/
inductive Mode where
  | plain
  | set (ts as : List JVal)
  | keyed (fields : List JVal) (ts as : List JVal)

def modeOf (sk : List String) (mk : List (String × List JVal)) (k : String) (v w : JVal) : Mode :=
  match v, w with
  | .arr ts, .arr as =>
    match fieldsFor k mk with
    | some fs =>
      if allObj ts && allObj as then .keyed fs ts as
      else if sk.contains k then .set ts as else .plain
    | none => if sk.contains k then .set ts as else .plain
  | _, _ => .plain

/-! ## sets -/

/-- REPAIRED `_validate_set_match`: both lists as sets of (is-bool, value) pairs; an unhashable
    member (list / map) makes the comparison fail -/
def setMatch (ts as : List JVal) : Bool :=
  ts.all isScalar && as.all isScalar &&
  ts.all (fun x => as.any (fun y => scalarEq x y)) &&
  as.all (fun y => ts.any (fun x => scalarEq x y))

/-- the unrepaired `_validate_set_match`: Python set equality, which conflates `True`/`1`, `False`/`0` (F6) -/
def setMatchLegacy (ts as : List JVal) : Bool :=
  ts.all isScalar && as.all isScalar &&
  ts.all (fun x => as.any (fun y => pyEq x y)) &&
  as.all (fun y => ts.any (fun x => pyEq x y))

/-! ## the comparator -/

/-- the members of the map-directed actual list that no target member accounts for
    (`actual_keys - target_keys` of the two synthesised maps), directive-named keys dropped -/
def keyedBack (fields : List JVal) (ts as : List JVal) : Bool :=
  as.all fun y => isDirective (memberKey fields y) || (lastWith fields (memberKey fields y) ts).isSome

mutual
/-- `_validate_match(target, actual)` (`compare_list_as_set=False`) -/
def exactMatch : JVal → JVal → Bool
  | .obj t, a =>
    match a with
    | .obj akvs =>
      dictFwd (setKeysOf t) (mapKeysOf t) t akvs &&
      akvs.all (fun kv => isDirective kv.1 || (lookup kv.1 t).isSome)
    | _ => false
  | .arr ts, a =>
    match a with
    | .arr as => ts.length == as.length && listMatch ts as
    | _ => false
  | .bool x, a =>
    match a with
    | .bool y => x == y
    | _ => false
  | t, a =>
    match a with
    | .obj _ => false
    | .arr _ => false
    | .bool _ => false
    | a => pyEq t a
termination_by structural t => t
/-- `_validate_list_match` after the length test: element by element -/
def listMatch (ts0 as0 : List JVal) : Bool :=
  match ts0, as0 with
  | [], _ => true
  | t :: ts, a :: as => exactMatch t a && listMatch ts as
  | _ :: _, [] => false
termination_by structural ts0
/-- the loops of `_validate_dict_match` over the target's bindings: a missing key fails,
    a common key is compared according to the directives `sk` / `mk` of the target map -/
def dictFwd (sk : List String) (mk : List (String × List JVal))
    (t0 : List (String × JVal)) (a : List (String × JVal)) : Bool :=
  match t0 with
  | [] => true
  | (k, v) :: rest =>
    (if isDirective k then true
     else match lookup k a with
       | none => false
       | some w =>
         match v with
         | .arr ts =>
           (match w with
            | .arr as =>
              (match fieldsFor k mk with
               | some fs =>
                 if allObj ts && allObj as then keyedFwd fs ts as && keyedBack fs ts as
                 else if sk.contains k then setMatch ts as
                 else ts.length == as.length && listMatch ts as
               | none =>
                 if sk.contains k then setMatch ts as
                 else ts.length == as.length && listMatch ts as)
            | _ => false)
         | v => exactMatch v w)
    && dictFwd sk mk rest a
termination_by structural t0
/-- `_validate_match(_list_to_object(target…), _list_to_object(actual…))`, the target side:
    every key of the synthesised target map (a member that is the last with its key) must be a key
    of the synthesised actual map and the two members must match. -/
def keyedFwd (fields : List JVal) (ts0 : List JVal) (as : List JVal) : Bool :=
  match ts0 with
  | [] => true
  | t :: rest =>
    (if isDirective (memberKey fields t) then true
     else if (lastWith fields (memberKey fields t) rest).isSome then true   -- shadowed by a later member
     else match lastWith fields (memberKey fields t) as with
       | some a => exactMatch t a
       | none => false)
    && keyedFwd fields rest as
termination_by structural ts0
end

/-! ## last-applied annotation -/

def lastApplied : String := "koreo.dev/last-applied-configuration"

/-- REPAIRED `_strip_last_applied_annotation`: drop the last-applied entry; drop an annotations map
    that is (then) empty.  Applied to the expected object and to the materialised one. -/
def stripLastApplied (v : JVal) : JVal :=
  match v with
  | .obj kvs =>
    match lookup "metadata" kvs with
    | some (.obj md) =>
      match lookup "annotations" md with
      | some (.obj ann) =>
        let ann' := erase lastApplied ann
        let md' := if ann'.isEmpty then erase "annotations" md else insert "annotations" (.obj ann') md
        .obj (insert "metadata" (.obj md') kvs)
      | _ => v
    | _ => v
  | _ => v

/-- the unrepaired function (F8): a one-entry annotations map is deleted whatever it holds, an empty
    one is kept, and the expected object is not touched.  `none` = KeyError. -/
def stripLegacy (v : JVal) : Option JVal :=
  match v with
  | .obj kvs =>
    if kvs.isEmpty then some v else
    match lookup "metadata" kvs with
    | some (.obj md) =>
      match lookup "annotations" md with
      | some (.obj ann) =>
        if ann.length = 0 then some v
        else if ann.length = 1 then some (.obj (insert "metadata" (.obj (erase "annotations" md)) kvs))
        else if (lookup lastApplied ann).isSome then
          some (.obj (insert "metadata" (.obj (insert "annotations" (.obj (erase lastApplied ann)) md)) kvs))
        else none
      | _ => some v
    | _ => some v
  | _ => some v

end Koreo.Exact
