/-
  C15 — model of the prepare cache in `src/koreo/cache.py` for sequential histories with atomic
  preparers that declare no subscriptions (DESIGN.md section 7: background re-preparation is C16).

    prepare_and_cache(resource_class, preparer, metadata, spec, _system_data)   ↦ `Op.offer`
    delete_from_cache(resource_class, cache_key, version=None)                  ↦ `Op.delete`
    get_resource_from_cache(resource_class, cache_key)                          ↦ `Op.lookup`
    get_resource_system_data_from_cache(resource_class, cache_key)              ↦ `Op.systemData`

  `__CACHE` is an association list keyed by `Resource(resource_type, name)` = (kind, name).  The
  oracle `prep` stands for the whole guarded preparation `try: await preparer(key, deepcopy(spec))
  except RecursionError: PermFail(...)`: `ok r` = an Ok outcome, `failed e` = any non-Ok outcome, whether
  the preparer returned it or the guard produced it for a spec nested too deeply to copy.  The
  preparer is an oracle `prep kind name spec`; every theorem holds for every oracle.  Each call of the
  preparer gets a serial number (the number of calls before it), which stands for the identity of the
  object it returned: "returns the cached result" means "returns the object with the same serial".
  Core Lean only.
-/
namespace Koreo.Cache

/-- `Resource(resource_type, name)`: the class (an index) and the cache key -/
abbrev Key := Nat × String

/-- what a preparer hands back -/
inductive PrepResult (ρ : Type) where
  | ok (r : ρ)       -- `(resource, None)`: an Ok outcome (no subscriptions declared)
  | failed (e : ρ)   -- a non-Ok outcome (PermFail, Retry, …): cached as such
  deriving DecidableEq, Repr

/-- `__CachedResource` (without `prepared_at`, a clock reading) plus the serial of the preparer call -/
structure Entry (σ ρ : Type) where
  spec : σ
  resource : PrepResult ρ
  serial : Nat
  version : String
  sys : Option Nat
  deriving DecidableEq, Repr

structure State (σ ρ : Type) where
  cache : List (Key × Entry σ ρ)
  calls : Nat            -- how often a preparer has been called
  deriving Repr

def init {σ ρ : Type} : State σ ρ := ⟨[], 0⟩

section assoc
variable {β : Type}

def find? : List (Key × β) → Key → Option β
  | [], _ => none
  | (k', v) :: m, k => if k' = k then some v else find? m k

def set : List (Key × β) → Key → β → List (Key × β)
  | [], k, v => [(k, v)]
  | (k', v') :: m, k, v => if k' = k then (k, v) :: m else (k', v') :: set m k v

def del : List (Key × β) → Key → List (Key × β)
  | [], _ => []
  | (k', v') :: m, k => if k' = k then del m k else (k', v') :: del m k

end assoc

inductive Op (σ : Type) where
  /-- `prepare_and_cache(kind, preparer, {"name": name, "resourceVersion": version}, spec, sys)`.
      `cycle` is the registry's answer, an oracle like the preparer: `true` = wiring up the declared
      subscriptions (`_handle_notifications` → `registry.subscribe_only_to`) raises `SubscriptionCycle`.
      That call comes AFTER the entry is stored, so it can only change the outcome, never the cache. -/
  | offer (k : Key) (version : Option String) (spec : σ) (sys : Option Nat) (cycle : Bool)
  /-- `delete_from_cache(kind, name, version)` -/
  | delete (k : Key) (version : Option String)
  /-- `delete_resource_from_cache(kind, {"name": name, "resourceVersion": version})`: the metadata-driven
      delete; the metadata's resourceVersion is validated and otherwise ignored -/
  | deleteMeta (k : Key) (version : Option String)
  | lookup (k : Key)
  | systemData (k : Key)
  /-- `seconds` of (monotonic) time pass and nothing else happens.  The cache reads the clock only to stamp
      `prepared_at` and registry events; none of the modelled functions looks at those stamps, so the
      model has no clock and the passage of time is the identity on states. -/
  | elapse (seconds : Nat)
  deriving Repr

inductive Out (σ ρ : Type) where
  | typeError                                                  -- `_extract_meta` raised
  | returned (r : PrepResult ρ) (serial : Nat) (prepared : Bool)  -- value of `prepare_and_cache`; was the preparer called?
  | raisedCycle (r : PrepResult ρ) (serial : Nat)              -- prepared and stored `r`, then SubscriptionCycle escaped
  | unit                                                       -- `delete_from_cache` returns None
  | found (r : Option (PrepResult ρ × Nat))                    -- `get_resource_from_cache`
  | entry (e : Option (Entry σ ρ))                             -- `get_resource_system_data_from_cache`
  deriving Repr

/-- Python truthiness of `str | None` -/
def truthy : Option String → Bool
  | none => false
  | some s => s != ""

/-- `_extract_meta`: `if not (resource_name and resource_version): raise TypeError` -/
def validMeta (k : Key) (version : Option String) : Bool := k.2 != "" && truthy version

variable {σ ρ : Type}

/-- One operation.  `if cached:` on a 5-field NamedTuple is `cached is not None` (a non-empty tuple is
    truthy whatever it holds), hence the plain `match`. -/
def step (prep : Nat → String → σ → PrepResult ρ) (s : State σ ρ) : Op σ → State σ ρ × Out σ ρ
  | .offer k version spec sys cycle =>
    if validMeta k version then
      let v := version.getD ""
      let r := prep k.1 k.2 spec
      let stored : State σ ρ := ⟨set s.cache k ⟨spec, r, s.calls, v, sys⟩, s.calls + 1⟩
      let out : Out σ ρ := if cycle then .raisedCycle r s.calls else .returned r s.calls true
      match find? s.cache k with
      | some e =>
        if e.version = v then (s, .returned e.resource e.serial false)      -- version short-circuit
        else (stored, out)
      | none => (stored, out)
    else (s, .typeError)
  | .delete k version =>
    match find? s.cache k with
    | none => (s, .unit)
    | some e =>
      -- `if version and version != cached.resource_version: return` — `None` and `""` delete unconditionally
      if truthy version && decide (version.getD "" ≠ e.version) then (s, .unit)
      else ({ s with cache := del s.cache k }, .unit)
  | .deleteMeta k version =>
    if validMeta k version then
      match find? s.cache k with
      | none => (s, .unit)
      | some _ => ({ s with cache := del s.cache k }, .unit)
    else (s, .typeError)
  | .lookup k => (s, .found ((find? s.cache k).map fun e => (e.resource, e.serial)))
  | .systemData k => (s, .entry (find? s.cache k))
  | .elapse _ => (s, .unit)

/-- what an offer handed back or, when it raised after storing, what it had prepared -/
def Out.value? : Out σ ρ → Option (PrepResult ρ × Nat)
  | .returned r n _ => some (r, n)
  | .raisedCycle r n => some (r, n)
  | _ => none

def run (prep : Nat → String → σ → PrepResult ρ) (s : State σ ρ) : List (Op σ) → State σ ρ
  | [] => s
  | op :: ops => run prep (step prep s op).1 ops

def outs (prep : Nat → String → σ → PrepResult ρ) (s : State σ ρ) : List (Op σ) → List (Out σ ρ)
  | [] => []
  | op :: ops => (step prep s op).2 :: outs prep (step prep s op).1 ops

/-! ## the specification: a plain map from keys to the latest (version, result) -/

structure Spec (σ ρ : Type) where
  map : Key → Option (Entry σ ρ)
  calls : Nat

def Spec.init : Spec σ ρ := ⟨fun _ => none, 0⟩

def upd (m : Key → Option (Entry σ ρ)) (k : Key) (v : Option (Entry σ ρ)) : Key → Option (Entry σ ρ) :=
  fun k' => if k = k' then v else m k'

/-- the obvious rules -/
def specStep (prep : Nat → String → σ → PrepResult ρ) (S : Spec σ ρ) : Op σ → Spec σ ρ × Out σ ρ
  | .offer k version spec sys cycle =>
    if validMeta k version then
      let v := version.getD ""
      let r := prep k.1 k.2 spec
      let stored : Spec σ ρ := ⟨upd S.map k (some ⟨spec, r, S.calls, v, sys⟩), S.calls + 1⟩
      let out : Out σ ρ := if cycle then .raisedCycle r S.calls else .returned r S.calls true
      match S.map k with
      | some e =>
        if e.version = v then (S, .returned e.resource e.serial false)
        else (stored, out)
      | none => (stored, out)
    else (S, .typeError)
  | .delete k version =>
    match S.map k with
    | none => (S, .unit)
    | some e =>
      if truthy version && decide (version.getD "" ≠ e.version) then (S, .unit)
      else (⟨upd S.map k none, S.calls⟩, .unit)
  | .deleteMeta k version =>
    if validMeta k version then
      match S.map k with
      | none => (S, .unit)
      | some _ => (⟨upd S.map k none, S.calls⟩, .unit)
    else (S, .typeError)
  | .lookup k => (S, .found ((S.map k).map fun e => (e.resource, e.serial)))
  | .systemData k => (S, .entry (S.map k))
  | .elapse _ => (S, .unit)

def specRun (prep : Nat → String → σ → PrepResult ρ) (S : Spec σ ρ) : List (Op σ) → Spec σ ρ
  | [] => S
  | op :: ops => specRun prep (specStep prep S op).1 ops

def specOuts (prep : Nat → String → σ → PrepResult ρ) (S : Spec σ ρ) : List (Op σ) → List (Out σ ρ)
  | [] => []
  | op :: ops => (specStep prep S op).2 :: specOuts prep (specStep prep S op).1 ops

/-- abstraction: forget the list representation -/
def abs (s : State σ ρ) : Spec σ ρ := ⟨fun k => find? s.cache k, s.calls⟩

/-- operations that cannot change what is cached for `k` while it holds version `v`: anything on
    another key, lookups, re-offers of `v` itself, malformed offers, deletes naming another version,
    any amount of time passing -/
def Quiet (k : Key) (v : String) : Op σ → Prop
  | .offer k' version _ _ _ => k' ≠ k ∨ version = some v ∨ validMeta k' version = false
  | .delete k' version => k' ≠ k ∨ ∃ w, version = some w ∧ w ≠ "" ∧ w ≠ v
  | .deleteMeta k' version => k' ≠ k ∨ validMeta k' version = false
  | .lookup _ => True
  | .systemData _ => True
  | .elapse _ => True

/-! ## metadata: what `_extract_meta` reads -/

/-- a Kubernetes `metadata` object as offered: the two fields the cache reads, `generation`, and
    whatever else it carries (uid, labels, annotations, managedFields, creationTimestamp, …) -/
structure Meta where
  name : Option String
  resourceVersion : Option String
  generation : Option Nat
  others : List (String × String)
  deriving Repr

/-- `prepare_and_cache(kind, preparer, metadata, spec, sys)`: the key is (kind, `metadata.name`), the
    version is `metadata.resourceVersion`; nothing else of the metadata takes part -/
def offerOf (kind : Nat) (m : Meta) (spec : σ) (sys : Option Nat) (cycle : Bool) : Op σ :=
  .offer (kind, m.name.getD "") m.resourceVersion spec sys cycle

/-- `delete_resource_from_cache(kind, metadata)` -/
def deleteMetaOf (kind : Nat) (m : Meta) : Op σ :=
  .deleteMeta (kind, m.name.getD "") m.resourceVersion

end Koreo.Cache
