/-
  C08 — Payloads are clean: no directives, truthful last-applied, owners preserved.
  Property theorems only; helper lemmas are in `Koreo/Lemmas/Payload.lean`.
  Models: `Koreo.strip` (Koreo/Directives.lean), `Koreo/Payload.lean` (`prepareForApi`,
  `updatedOwnerRefs`, `ownerReffed`), `Koreo/ResourceFn.lean` (`createPayload`, `patchPayload`,
  `patchView`, `reconcile`), `Koreo.mergePatch` (the server's PATCH), `Koreo/Gen/RfDefaults.lean`
  (regenerated).  The patch branch is the repaired one (koreo-core fa30b95, former finding F7).

  JSON text is abstract: `enc` stands for `json.dumps`, and the theorems hold for every `enc`
  that some `dec` undoes.
-/
import Koreo.Lemmas.Payload
import Koreo.Gen.RfDefaults

namespace Koreo.C08
open Koreo JVal Koreo.Identity Koreo.Payload Koreo.ResourceFn

/-! ## the constants are the source's -/

theorem extraction_ok : Koreo.Gen.RfDefaults.extractionOk = true := by decide

/-- `KOREO_DIRECTIVE_KEYS` of constants.py is exactly the set `strip` removes -/
theorem directive_keys_match_source (k : String) :
    k ∈ Gen.RfDefaults.directiveKeys ↔ isDirective k = true := by
  have h : Gen.RfDefaults.directiveKeys = [compareAsMap, compareAsSet, compareLastApplied] := by decide
  rw [h]
  simp only [isDirective, directiveKeys, List.contains_eq_mem, List.mem_cons, List.not_mem_nil, or_false,
    decide_eq_true_eq]
  constructor
  · rintro (h | h | h) <;> simp [h]
  · rintro (h | h | h) <;> simp [h]

theorem last_applied_key_matches_source : Gen.RfDefaults.lastAppliedAnnotation = lastApplied := by decide

/-! ## no directive key survives, at any depth or list position -/

/-- `_strip_koreo_directives` leaves no directive key anywhere: inside maps, inside list items,
    at every depth (mutual induction over values / lists / bindings) -/
theorem strip_no_directives (v : JVal) : noDirectiveKey (strip v) = true := Rf.strip_noDir v

theorem stripL_no_directives (xs : List JVal) : noDirectiveKeyL (stripL xs) = true := Rf.stripL_noDir xs

/-- … and removes nothing else: a value without directive keys is left exactly as it is -/
theorem strip_only_directives (v : JVal) (h : noDirectiveKey v = true) : strip v = v := Rf.strip_id_of_noDir v h

theorem strip_idempotent (v : JVal) : strip (strip v) = strip v :=
  Rf.strip_id_of_noDir _ (Rf.strip_noDir v)

/-- the payload `_prepare_for_api` hands to kr8s has no directive key (the annotation text is a
    string; its content is `strip o`, see `annotation_truthful`) -/
theorem payload_no_directives (enc : JVal → String) (o p : JVal) (h : prepareForApi enc o = some p) :
    noDirectiveKey p = true := Rf.prepareForApi_noDir h

/-- every body a reconcile sends — POST or PATCH, whatever the template, overlays, create overlay,
    owner, live object and comparator — is free of directive keys at every depth -/
theorem request_body_no_directives (enc : JVal → String) (defNs : String) (cmp : JVal → JVal → Bool) (pp : Bool)
    (rf : Rf) (owner : Owner) (stored : Option JVal) (req : Request) (b : JVal)
    (h : (reconcile enc defNs cmp pp rf owner stored).request = some req) (hb : req.body = some b) :
    noDirectiveKey b = true := by
  have h' : (reconcileKrm enc defNs cmp rf owner stored).request = some req := Rf.request_of_reconcile h
  rcases Rf.request_cases enc defNs cmp rf owner stored req h' with
    ⟨_, _, _, _, view, p, _, hp, hq⟩ | ⟨live, e, p, _, _, _, _, _, hp, hq⟩ | ⟨live, _, hq⟩
  · have hpn : noDirectiveKey p = true := by
      unfold createPayload at hp
      cases hv : applyCreateOv rf.createOv view with
      | none => rw [hv] at hp; simp at hp
      | some v =>
        rw [hv] at hp
        simp only [Option.bind_some] at hp
        cases hw : withOwner (rf.owned && owner.ns == rf.ns) (deepOverlay v (forced rf.target)) owner.ref
            (deepOverlay v (forced rf.target)) with
        | none => rw [hw] at hp; simp at hp
        | some w => rw [hw] at hp; exact Rf.prepareForApi_noDir hp
    unfold createRequest at hq
    simp only [Option.map_eq_some_iff] at hq
    obtain ⟨o, ho, rfl⟩ := hq
    simp only [Option.some.injEq] at hb
    subst hb
    exact Rf.krRaw_noDir _ (Rf.krNew_noDir ho hpn)
  · simp only [patchRequest, Option.map_eq_some_iff] at hq
    obtain ⟨n, _, rfl⟩ := hq
    simp only [Option.some.injEq] at hb
    subst hb
    unfold patchPayload at hp
    cases hw : patchView e live owner.ref (rf.owned && owner.ns == rf.ns)
        (if (rf.owned && owner.ns == rf.ns) = true then ownerReffed live owner.ref else true) with
    | none => rw [hw] at hp; simp at hp
    | some w => rw [hw] at hp; exact Rf.prepareForApi_noDir hp
  · simp only [deleteRequest, Option.map_eq_some_iff] at hq
    obtain ⟨n, _, rfl⟩ := hq
    simp at hb

/-! ## the last-applied annotation is truthful -/

/-- The annotation decodes to exactly the stripped object (it is dumped *before* the annotation
    is added), and the payload without the annotation is that same object — up to only the empty
    `metadata` / `annotations` containers created to hold it.  (Hypothesis: the target does not
    itself set Koreo's bookkeeping annotation; see `own_last_applied_is_overwritten`.) -/
theorem annotation_truthful (enc : JVal → String) (dec : String → Option JVal) (hrt : ∀ v, dec (enc v) = some v)
    (o p : JVal) (h : prepareForApi enc o = some p) (hl : LacksLastApplied o) :
    (annotationOf p).bind dec = some (strip o) ∧ HolderEq (removeAnnotation p) (strip o) := by
  refine ⟨?_, Rf.removeAnnotation_prepareForApi h hl⟩
  rw [Rf.annotationOf_prepareForApi h]
  exact hrt _

/-- without the hypothesis the decoding part still holds … -/
theorem annotation_decodes_to_stripped (enc : JVal → String) (dec : String → Option JVal)
    (hrt : ∀ v, dec (enc v) = some v) (o p : JVal) (h : prepareForApi enc o = some p) :
    (annotationOf p).bind dec = some (strip o) := by
  rw [Rf.annotationOf_prepareForApi h]
  exact hrt _

def ownAnnotationTarget : JVal :=
  .obj [("metadata", .obj [("annotations", .obj [(lastApplied, .str "mine"), ("keep", .str "k")])]), ("spec", .int 1)]

/-- … but a target that sets the bookkeeping annotation itself has it overwritten: the dumped
    object still carries the target's value, the payload minus the annotation does not (a corner
    outside the property's intent; the generators do not produce it) -/
theorem own_last_applied_is_overwritten :
    ((prepareForApi (fun _ => "dump") ownAnnotationTarget).map fun p =>
        ((metaKey "annotations" (removeAnnotation p)).bind (getKey lastApplied)).isSome) = some false ∧
    ((metaKey "annotations" (strip ownAnnotationTarget)).bind (getKey lastApplied)).isSome = true := by
  decide

/-- What is POSTed is exactly the payload whose annotation was computed: kr8s (constructor
    namespace, `raw`'s kind/apiVersion) changes nothing, because the forced overlay has already put
    apiConfig's namespace — given for a namespaced or a cluster-scoped kind alike — kind and
    apiVersion into the payload BEFORE it was dumped.  So `annotation_truthful` speaks about the
    object as sent. -/
theorem create_body_is_the_recorded_payload (enc : JVal → String) (defNs : String) (cmp : JVal → JVal → Bool)
    (pp : Bool) (rf : Rf) (owner : Owner) (stored : Option JVal) (req : Request)
    (h : (reconcile enc defNs cmp pp rf owner stored).request = some req) (hm : req.method = .post) :
    ∃ view p, createPayload enc (forced rf.target) view rf.createOv (rf.owned && owner.ns == rf.ns) owner.ref = some p ∧
      req.body = some p := by
  rcases Rf.request_cases enc defNs cmp rf owner stored req (Rf.request_of_reconcile h) with
    ⟨_, _, _, _, view, p, _, hp, hq⟩ | ⟨live, e, p, _, _, _, _, _, _, hq⟩ | ⟨live, _, hq⟩
  · exact ⟨view, p, hp, Rf.createRequest_body_eq rf.target rf.api defNs rfl rfl
      (Rf.createPayload_pinned rf.target enc view _ _ _ hp) hq⟩
  · simp only [patchRequest, Option.map_eq_some_iff] at hq
    obtain ⟨n, _, rfl⟩ := hq
    cases hm
  · simp only [deleteRequest, Option.map_eq_some_iff] at hq
    obtain ⟨n, _, rfl⟩ := hq
    cases hm

/-! ## owner references -/

/-- A created object carries a reference with the parent's uid whenever the function is owning
    and parent and object share a namespace … -/
theorem create_owner_if (enc : JVal → String) (defNs : String) (cmp : JVal → JVal → Bool) (pp : Bool)
    (rf : Rf) (owner : Owner) (stored : Option JVal) (req : Request) (s : String)
    (h : (reconcile enc defNs cmp pp rf owner stored).request = some req) (hm : req.method = .post)
    (hu : uidOf owner.ref = .str s) (hown : rf.owned = true ∧ owner.ns = rf.ns) :
    ∃ b, req.body = some b ∧ hasUid (.str s) (ownerRefsOf b) = true := by
  have h' := toKrm h
  rcases Rf.request_cases enc defNs cmp rf owner stored req h' with
    ⟨_, _, _, _, view, p, _, hp, hq⟩ | ⟨live, e, p, _, _, _, _, _, _, hq⟩ | ⟨live, _, hq⟩
  · obtain ⟨b, hb, hrefs⟩ := Rf.ownerRefsOf_createRequest hq
    refine ⟨b, hb, ?_⟩
    rw [hrefs]
    exact (Rf.createPayload_owner hu hp).1 (by simp [hown.1, hown.2])
  · simp only [patchRequest, Option.map_eq_some_iff] at hq
    obtain ⟨n, _, rfl⟩ := hq
    cases hm
  · simp only [deleteRequest, Option.map_eq_some_iff] at hq
    obtain ⟨n, _, rfl⟩ := hq
    cases hm
where
  toKrm {enc : JVal → String} {defNs : String} {cmp : JVal → JVal → Bool} {pp : Bool}
      {rf : Rf} {owner : Owner} {stored : Option JVal} {req : Request}
      (h : (reconcile enc defNs cmp pp rf owner stored).request = some req) :
      (reconcileKrm enc defNs cmp rf owner stored).request = some req := Rf.request_of_reconcile h

/-- … and — when the target (after create.overlay) does not itself list the parent — only then:
    `ownerRef ∈ created.ownerReferences ↔ owned ∧ ownerNs = ns` -/
theorem create_owner_iff (enc : JVal → String) (defNs : String) (cmp : JVal → JVal → Bool) (pp : Bool)
    (rf : Rf) (owner : Owner) (stored : Option JVal) (req : Request) (s : String)
    (h : (reconcile enc defNs cmp pp rf owner stored).request = some req) (hm : req.method = .post)
    (hu : uidOf owner.ref = .str s)
    (hT : ∀ view v, materialise (forced rf.target) rf.tmpl rf.steps = some view →
        applyCreateOv rf.createOv view = some v →
        hasUid (.str s) (ownerRefsOf (deepOverlay v (forced rf.target))) = false) :
    ∃ b, req.body = some b ∧
      (hasUid (.str s) (ownerRefsOf b) = true ↔ (rf.owned = true ∧ owner.ns = rf.ns)) := by
  have h' := create_owner_if.toKrm h
  rcases Rf.request_cases enc defNs cmp rf owner stored req h' with
    ⟨_, _, _, _, view, p, hv, hp, hq⟩ | ⟨live, e, p, _, _, _, _, _, _, hq⟩ | ⟨live, _, hq⟩
  · obtain ⟨b, hb, hrefs⟩ := Rf.ownerRefsOf_createRequest hq
    refine ⟨b, hb, ?_⟩
    rw [hrefs, (Rf.createPayload_owner hu hp).2 (fun v hv' => hT view v hv hv')]
    simp
  · simp only [patchRequest, Option.map_eq_some_iff] at hq
    obtain ⟨n, _, rfl⟩ := hq
    cases hm
  · simp only [deleteRequest, Option.map_eq_some_iff] at hq
    obtain ⟨n, _, rfl⟩ := hq
    cases hm

/-- what the cluster holds after the PATCH of a reconcile, as far as owner references go:
    either the live list with ours appended (we should own it and are not on it), or — whatever
    the target says about ownerReferences — exactly the live list -/
theorem patch_result_refs (enc : JVal → String) (defNs : String) (cmp : JVal → JVal → Bool) (pp : Bool)
    (rf : Rf) (owner : Owner) (stored : JVal) (req : Request) (s : String)
    (h : (reconcile enc defNs cmp pp rf owner (some stored)).request = some req) (hm : req.method = .patch)
    (hu : uidOf owner.ref = .str s)
    (hU : ∀ e, materialise (forced rf.target) rf.tmpl rf.steps = some e → Rf.Uniq2 e) :
    ∃ b live, req.body = some b ∧ krLoaded rf.api stored rf.ns = some live ∧
      (((rf.owned = true ∧ owner.ns = rf.ns) ∧ ownerReffed live owner.ref = false) →
        ownerRefsOf (mergePatch stored b) = stripL (ownerRefsOf stored) ++ [strip owner.ref]) ∧
      (¬((rf.owned = true ∧ owner.ns = rf.ns) ∧ ownerReffed live owner.ref = false) →
        ownerRefsOf (mergePatch stored b) = ownerRefsOf stored) := by
  have h' := create_owner_if.toKrm h
  rcases Rf.request_cases enc defNs cmp rf owner (some stored) req h' with
    ⟨_, _, _, _, view, p, _, hp, hq⟩ | ⟨live, e, p, hl, _, _, _, he, hp, hq⟩ | ⟨live, _, hq⟩
  · unfold createRequest at hq
    simp only [Option.map_eq_some_iff] at hq
    obtain ⟨o, _, rfl⟩ := hq
    cases hm
  · simp only [patchRequest, Option.map_eq_some_iff] at hq
    obtain ⟨n, _, rfl⟩ := hq
    have hl' : krLoaded rf.api stored rf.ns = some live := by simpa [Rf.loadedOf] using hl
    have hrefs := Rf.ownerRefsOf_krLoaded hl'
    obtain ⟨hA, hB⟩ := Rf.patch_merged_refs stored hu (hU e he) hp
    refine ⟨p, live, rfl, hl', ?_, ?_⟩
    · rintro ⟨⟨ho, hn⟩, hr⟩
      have hso : (rf.owned && owner.ns == rf.ns) = true := by simp [ho, hn]
      rw [← hrefs]
      exact hA hso (by simp [hso, hr]) hr
    · intro hneg
      apply hB
      by_cases hso : (rf.owned && owner.ns == rf.ns) = true
      · have hr : ownerReffed live owner.ref = true := by
          cases hrr : ownerReffed live owner.ref with
          | true => rfl
          | false =>
            exfalso; apply hneg
            simp only [Bool.and_eq_true, beq_iff_eq] at hso
            exact ⟨hso, hrr⟩
        simp [hso, hr]
      · have : (rf.owned && owner.ns == rf.ns) = false := by simpa using hso
        simp [this]
  · simp only [deleteRequest, Option.map_eq_some_iff] at hq
    obtain ⟨n, _, rfl⟩ := hq
    cases hm

/-- A patch adds the parent's reference — under the same condition as a create — when the live
    object lacks it: afterwards the cluster's list is the live list followed by ours. -/
theorem patch_adds_owner_when_missing (enc : JVal → String) (defNs : String) (cmp : JVal → JVal → Bool) (pp : Bool)
    (rf : Rf) (owner : Owner) (stored : JVal) (req : Request) (s : String)
    (h : (reconcile enc defNs cmp pp rf owner (some stored)).request = some req) (hm : req.method = .patch)
    (hu : uidOf owner.ref = .str s)
    (hU : ∀ e, materialise (forced rf.target) rf.tmpl rf.steps = some e → Rf.Uniq2 e)
    (hown : rf.owned = true ∧ owner.ns = rf.ns)
    (hmiss : ∀ live, krLoaded rf.api stored rf.ns = some live → ownerReffed live owner.ref = false) :
    ∃ b, req.body = some b ∧
      ownerRefsOf (mergePatch stored b) = stripL (ownerRefsOf stored) ++ [strip owner.ref] ∧
      hasUid (.str s) (ownerRefsOf (mergePatch stored b)) = true := by
  obtain ⟨b, live, hb, hl, hA, _⟩ := patch_result_refs enc defNs cmp pp rf owner stored req s h hm hu hU
  have := hA ⟨hown, hmiss live hl⟩
  refine ⟨b, hb, this, ?_⟩
  rw [this, Rf.hasUid_append]
  have : hasUid (.str s) [strip owner.ref] = true := by
    simp [hasUid, Rf.uidOf_strip, hu, strip, JVal.pyEq]
  simp [this]

/-- Owner references already on the live object are never dropped by a patch — for EVERY target,
    including one that itself specifies `metadata.ownerReferences` (since fa30b95 the patch branch
    does not send the target's list; before, this needed `TargetHasNoOwnerRefs`: finding F7).
    (`hclean`: live references carry no Koreo directive key — the patch re-sends stripped copies;
    `hU`: map keys are distinct, as in any Python dict.) -/
theorem patch_preserves_live_owners (enc : JVal → String) (defNs : String) (cmp : JVal → JVal → Bool)
    (pp : Bool) (rf : Rf) (owner : Owner) (stored : JVal) (req : Request) (s : String)
    (h : (reconcile enc defNs cmp pp rf owner (some stored)).request = some req) (hm : req.method = .patch)
    (hu : uidOf owner.ref = .str s)
    (hU : ∀ e, materialise (forced rf.target) rf.tmpl rf.steps = some e → Rf.Uniq2 e)
    (hclean : noDirectiveKeyL (ownerRefsOf stored) = true) :
    ∃ b, req.body = some b ∧ ∀ r ∈ ownerRefsOf stored, r ∈ ownerRefsOf (mergePatch stored b) := by
  obtain ⟨b, live, hb, hl, hA, hB⟩ := patch_result_refs enc defNs cmp pp rf owner stored req s h hm hu hU
  refine ⟨b, hb, ?_⟩
  by_cases hc : (rf.owned = true ∧ owner.ns = rf.ns) ∧ ownerReffed live owner.ref = false
  · rw [hA hc, Rf.stripL_id_of_noDir _ hclean]
    intro r hr
    simp [hr]
  · rw [hB hc]
    intro r hr
    exact hr

/-- … and a patch never *removes or reorders* anything either: when it does not add ours, the
    cluster's list is exactly the live list -/
theorem patch_leaves_owner_list_alone (enc : JVal → String) (defNs : String) (cmp : JVal → JVal → Bool)
    (pp : Bool) (rf : Rf) (owner : Owner) (stored : JVal) (req : Request) (s : String)
    (h : (reconcile enc defNs cmp pp rf owner (some stored)).request = some req) (hm : req.method = .patch)
    (hu : uidOf owner.ref = .str s)
    (hU : ∀ e, materialise (forced rf.target) rf.tmpl rf.steps = some e → Rf.Uniq2 e)
    (hno : ¬(rf.owned = true ∧ owner.ns = rf.ns)) :
    ∃ b, req.body = some b ∧ ownerRefsOf (mergePatch stored b) = ownerRefsOf stored := by
  obtain ⟨b, live, hb, _, _, hB⟩ := patch_result_refs enc defNs cmp pp rf owner stored req s h hm hu hU
  exact ⟨b, hb, hB (fun hc => hno hc.1)⟩

/-! ### regression: the former F7 witness (corpus/C08/target_owner_refs.json) -/

section f7
def f7Parent : JVal := .obj [("kind", .str "Trigger"), ("name", .str "parent"), ("uid", .str "uid-parent")]
def f7Other : JVal := .obj [("kind", .str "ConfigMap"), ("name", .str "someone-else"), ("uid", .str "uid-other")]
def f7Pinned : JVal := .obj [("kind", .str "Deployment"), ("name", .str "wanted"), ("uid", .str "uid-wanted")]
/-- a target that itself lists an owner -/
def f7Template : JVal :=
  .obj [("metadata", .obj [("ownerReferences", .arr [f7Pinned])]), ("spec", .obj [("a", .int 1)])]
def f7Rf : Rf :=
  { api := ⟨"verif.test/v1", "Widget", "widgets", true⟩, name := "obj", ns := some "ns1", readonly := false,
    owned := true, createEnabled := true, deleteIfExists := false, policy := .patch,
    tmpl := f7Template, steps := [], createOv := none }
def f7Owner : Owner := ⟨some "ns1", f7Parent⟩
/-- the live object: owned by the parent and by someone else, drifted in `spec` -/
def f7Stored : JVal :=
  .obj [("apiVersion", .str "verif.test/v1"), ("kind", .str "Widget"),
        ("metadata", .obj [("name", .str "obj"), ("namespace", .str "ns1"),
                           ("ownerReferences", .arr [f7Parent, f7Other])]),
        ("spec", .obj [("a", .int 2)])]

/-- Before fa30b95 this patch replaced the live owner list by the target's (parent and third party
    gone); now both live references are still there after the PATCH, and the target's own list is
    not applied to an existing object. -/
example :
    (((reconcile (fun _ => "") "default" (fun _ _ => false) true f7Rf f7Owner (some f7Stored)).request.bind
        fun r => r.body).map fun b =>
      (hasUid (.str "uid-parent") (ownerRefsOf (mergePatch f7Stored b)),
       hasUid (.str "uid-other") (ownerRefsOf (mergePatch f7Stored b)),
       hasUid (.str "uid-wanted") (ownerRefsOf (mergePatch f7Stored b)),
       (metaKey "ownerReferences" b).isSome)) = some (true, true, false, false) := by
  decide

/-- on create the target's own list *is* applied, with ours added -/
example :
    (((reconcile (fun _ => "") "default" (fun _ _ => false) true f7Rf f7Owner none).request.bind
        fun r => r.body).map fun b =>
      (hasUid (.str "uid-parent") (ownerRefsOf b), hasUid (.str "uid-wanted") (ownerRefsOf b))) =
      some (true, true) := by
  decide
end f7

/-! ### a lost creation race: absent at the load, somebody else's object there when the POST arrives -/

/-- One reconcile is one request.  When the load found nothing that request is a POST (or nothing),
    so if a competitor has created the object in the meantime — whatever it looks like, whatever
    owners it lists — the server answers 409 and the competitor's object is exactly as it was:
    no PATCH with the create payload (whose `ownerReferences` list knows nothing of the live one and
    would replace it) follows within the reconcile.  The next reconcile loads the object and is then
    subject to `patch_preserves_live_owners`. -/
theorem lost_creation_race_leaves_winner_alone (enc : JVal → String) (defNs : String)
    (cmp : JVal → JVal → Bool) (pp : Bool) (rf : Rf) (owner : Owner) (theirs : JVal) :
    Rf.serverAfter (some theirs) (reconcile enc defNs cmp pp rf owner none).request = some theirs := by
  cases h : (reconcile enc defNs cmp pp rf owner none).request with
  | none => rfl
  | some req =>
    have hm := Rf.absent_request_is_post h
    simp [Rf.serverAfter, hm]

/-- … in particular every owner reference the winner carries is still there, in place -/
theorem lost_creation_race_keeps_winner_owners (enc : JVal → String) (defNs : String)
    (cmp : JVal → JVal → Bool) (pp : Bool) (rf : Rf) (owner : Owner) (theirs : JVal) :
    (Rf.serverAfter (some theirs) (reconcile enc defNs cmp pp rf owner none).request).map ownerRefsOf =
      some (ownerRefsOf theirs) := by
  rw [lost_creation_race_leaves_winner_alone]
  rfl

/-- the two reconciles of a lost race on the F7 function: the first (nothing loaded, the
    competitor's object — owned by someone else — arrives before the POST) leaves it alone, the
    second (it is loaded now) adopts it by a PATCH that keeps the competitor's owner and adds ours;
    and `serverAfter` is not vacuous: the same POST against a cluster that is still empty creates -/
example :
    let theirs : JVal :=
      .obj [("apiVersion", .str "verif.test/v1"), ("kind", .str "Widget"),
            ("metadata", .obj [("name", .str "obj"), ("namespace", .str "ns1"), ("ownerReferences", .arr [f7Other])]),
            ("spec", .obj [("a", .int 2)])]
    let run (stored : Option JVal) := reconcile (fun _ => "") "default" (fun _ _ => false) true f7Rf f7Owner stored
    let after1 := Rf.serverAfter (some theirs) (run none).request
    let after2 := Rf.serverAfter after1 (run after1).request
    (run none).action = .create ∧
    (after1.map fun o => (hasUid (.str "uid-other") (ownerRefsOf o), hasUid (.str "uid-parent") (ownerRefsOf o)))
      = some (true, false) ∧
    (run after1).action = .patch ∧
    (after2.map fun o => (hasUid (.str "uid-other") (ownerRefsOf o), hasUid (.str "uid-parent") (ownerRefsOf o)))
      = some (true, true) ∧
    ((Rf.serverAfter none (run none).request).map fun o => hasUid (.str "uid-parent") (ownerRefsOf o)) = some true := by
  decide

/-! ## non-vacuity -/

section examples
def dirty : JVal :=
  .obj [("spec", .obj [("x-koreo-compare-as-set", .arr [.str "items"]),
                       ("items", .arr [.obj [("x-koreo-compare-as-map", .obj []), ("n", .int 1)], .int 2])]),
        ("x-koreo-compare-last-applied", .arr [])]

/-- directives at the top, inside a map and inside a list item are all removed, the rest stays -/
example : noDirectiveKey dirty = false ∧ noDirectiveKey (strip dirty) = true ∧
    getKey "spec" (strip dirty) = some (.obj [("items", .arr [.obj [("n", .int 1)], .int 2])]) :=
  ⟨by decide, by decide, by rfl⟩

/-- `annotation_truthful`'s hypotheses are met by a payload that is actually produced -/
example : LacksLastApplied dirty ∧ (prepareForApi (fun _ => "dump") dirty).isSome = true := by
  refine ⟨by rfl, by decide⟩

/-- a patch that adds the owner: live object without references, owning function, same namespace -/
example :
    (((reconcile (fun _ => "") "default" (fun _ _ => true) true
        { f7Rf with tmpl := .obj [("spec", .obj [("a", .int 1)])] } f7Owner
        (some (.obj [("metadata", .obj [("name", .str "obj"), ("ownerReferences", .arr [f7Other])])]))).request.bind
      fun r => r.body).map fun b => (ownerRefsOf b).length) = some 2 := by decide
/-- directives on maps inside lists that sit directly inside lists (any nesting) are removed too -/
example :
    noDirectiveKey (strip (.arr [.arr [.obj [("x-koreo-compare-as-set", .arr []), ("n", .int 1)],
                                        .arr [.arr [.obj [("x-koreo-compare-as-map", .obj []), ("m", .int 2)]]]], .int 3])) = true ∧
    strip (.arr [.arr [.obj [("x-koreo-compare-as-set", .arr []), ("n", .int 1)]]]) = .arr [.arr [.obj [("n", .int 1)]]] :=
  ⟨by decide, by rfl⟩

/-- a reference with the parent's kind and name but ANOTHER uid (an earlier incarnation of the
    parent) does not count as the parent's: `ownerReffed` says no, and the patch adds ours after it
    (`updatedOwnerRefs` and `ownerReffed` both decide by uid) -/
example :
    let stale : JVal := .obj [("kind", .str "Trigger"), ("name", .str "parent"), ("uid", .str "uid-previous")]
    let stored : JVal := .obj [("metadata", .obj [("name", .str "obj"), ("ownerReferences", .arr [stale])])]
    ownerReffed stored f7Parent = false ∧
    (((reconcile (fun _ => "") "default" (fun _ _ => true) true
        { f7Rf with tmpl := .obj [("spec", .obj [("a", .int 1)])] } f7Owner (some stored)).request.bind
      fun r => r.body).map fun b =>
        (hasUid (.str "uid-parent") (ownerRefsOf (mergePatch stored b)),
         hasUid (.str "uid-previous") (ownerRefsOf (mergePatch stored b)))) = some (true, true) := by
  decide
end examples

end Koreo.C08
