/-
  C04 — ResourceFunction reaches a fixpoint: no mutation once the target is met.
  Property theorems only; helper lemmas are in `Koreo/Lemmas/Compare*.lean`, `Koreo/Lemmas/Reconcile45.lean`.
  Models: `Koreo/Compare.lean` (validate.py, as repaired by fixes/F9-compare-as-map.diff and
  fixes/F6-typed-set.diff), `Koreo/Reconcile45.lean` (reconcile/__init__.py:315-376, 606-715, 822-854;
  prepare.py:465-478), `Koreo/MergePatch.lean` (the API server's PATCH).

  `Meets t live la` is the property's "the live object contains every field of the target with an
  equal value" (spec relation, written independently of the comparator; keys compared against the
  last-applied tree by directive are read from `la`).
-/
import Koreo.Lemmas.CompareSound
import Koreo.Lemmas.CompareComplete
import Koreo.Lemmas.ComparePatch
import Koreo.Lemmas.CompareStrip
import Koreo.Lemmas.Reconcile45
import Koreo.Lemmas.CompareLaShape
import Koreo.Lemmas.OwnerRefs

namespace Koreo.C04
open Koreo Koreo.JVal Koreo.Compare Koreo.R45 Koreo.Overlay

/-- the stated domain of the fixpoint clauses: directives well formed, maps with distinct keys,
    no explicit nulls, and the target does not itself set koreo's last-applied annotation -/
structure TargetOk (t : JVal) : Prop where
  wf : DirectivesWF t
  nodup : NoDupKeys t
  nonulls : NoNulls t
  annFree : annFree t = true
  /-- the target has a `metadata` map (the forced overlay makes one) that does not set
      `ownerReferences` — that key is C08's and is never patched from the target (fix F7) -/
  ownerFree : ownerRefsFree t = true

/-! ## the comparator accepts whatever meets the target -/

/-- extra keys at any depth, status, bookkeeping, reordered / duplicated set members, reordered keyed
    lists with extra members: none of it is reported (no hypothesis on `live` beyond `Meets`) -/
theorem meets_implies_match (t live la : JVal) (hw : DirectivesWF t) (hm : Meets t live la) :
    validateMatch t live la false = .ok :=
  vm_of_meets t live la hw hm

/-! ## one pass -/

/-- a pass over an object that meets the target (and carries the owner reference where ownership
    applies) sends nothing, leaves the cluster as it is and hands the live object on to
    postconditions / return value -/
theorem no_mutation_at_target (c : Cfg) (t live la : JVal) (hw : DirectivesWF t)
    (hla : extractLastApplied c.codec live = some la) (hm : Meets t live la)
    (ho : ownerFixOf c live = some .none) :
    pass c t (some live) = [⟨some live, .okLive live, []⟩] := by
  simp only [pass, passPresent, ho, hla, meets_implies_match t live la hw hm, OwnerFix.isNone, ↓reduceIte,
    unchanged]

/-- … in particular when the parent's reference really is among the live owner references, whatever
    other owners (before or after it) the object has, and when the function does not own at all -/
theorem no_mutation_at_target_co_owned (c : Cfg) (t live la : JVal) (hw : DirectivesWF t)
    (hla : extractLastApplied c.codec live = some la) (hm : Meets t live la)
    (ho : refPresent c live = true ∨ c.shouldOwn = false) :
    pass c t (some live) = [⟨some live, .okLive live, []⟩] := by
  apply no_mutation_at_target c t live la hw hla hm
  rcases ho with h | h
  · exact ownerFix_of_present c live h
  · simp [ownerFixOf, h]

/-- the delay a mutating pass has to report: the create delay when the object was absent, the
    update policy's delay otherwise -/
def configuredDelay (c : Cfg) (cluster : Option JVal) : Option JVal :=
  match cluster with
  | none => some c.createDelay
  | some _ =>
    match c.policy with
    | .patch d => some d
    | .recreate d => some d
    | .never => none

/-- any possible result of a pass that sent a request or changed the cluster is a Retry with the
    configured delay — never Ok, PermFail or an exception -/
theorem mutation_returns_retry (c : Cfg) (t : JVal) (cluster : Option JVal) (r : PassResult)
    (hr : r ∈ pass c t cluster) (hmut : r.reqs ≠ [] ∨ r.cluster ≠ cluster) :
    ∃ d, configuredDelay c cluster = some d ∧ r.outcome = .retry d := by
  cases cluster with
  | none =>
    simp only [pass, passAbsent] at hr
    split at hr
    · simp only [List.mem_singleton] at hr; subst hr; simp at hmut
    · split at hr
      · simp only [List.mem_singleton] at hr; subst hr; simp at hmut
      · simp only [List.mem_singleton] at hr; subst hr; exact ⟨_, rfl, rfl⟩
  | some live =>
    have hcorrect : ∀ fix r, r = correct c fix t live → (r.reqs ≠ [] ∨ r.cluster ≠ some live) →
        ∃ d, configuredDelay c (some live) = some d ∧ r.outcome = .retry d := by
      intro fix r hr hmut
      subst hr
      unfold correct at hmut ⊢
      cases hp : c.policy with
      | never => simp [hp, unchanged] at hmut
      | recreate d => exact ⟨d, by simp [configuredDelay, hp], rfl⟩
      | patch d =>
        simp only [hp] at hmut ⊢
        split at hmut
        · simp at hmut
        · split at hmut
          · simp [raisedAt] at hmut
          · split at hmut
            · simp [raisedAt] at hmut
            · exact ⟨d, by simp [configuredDelay, hp], rfl⟩
    simp only [pass, passPresent] at hr
    split at hr
    · simp only [List.mem_singleton] at hr; subst hr; simp [raisedAt] at hmut
    · rename_i fix _
      split at hr
      · simp only [List.mem_singleton] at hr; subst hr; simp [raisedAt] at hmut
      · split at hr
        · split at hr
          · simp only [List.mem_singleton] at hr; subst hr; simp [unchanged] at hmut
          · simp only [List.mem_singleton] at hr; exact hcorrect fix r hr hmut
        · rename_i d x _
          simp only [List.mem_append] at hr
          rcases hr with hr | hr
          · cases d <;> simp only [↓reduceIte, List.mem_singleton, Bool.false_eq_true, List.not_mem_nil] at hr
            exact hcorrect fix r hr hmut
          · cases x <;> simp only [↓reduceIte, List.mem_singleton, Bool.false_eq_true, List.not_mem_nil] at hr
            subst hr; simp [raisedAt] at hmut

/-- when the load of the object is answered with an error the pass makes no write at all — whether the
    object meets the target, has drifted, or does not exist — and reports Retry with the load delay -/
theorem load_failure_no_mutation (cluster : Option JVal) :
    ∀ r ∈ passLoadFailed cluster, r.reqs = [] ∧ r.cluster = cluster ∧ r.outcome = .retry (.int loadRetryDelay) := by
  intro r hr
  simp only [passLoadFailed, List.mem_singleton] at hr
  subst hr; exact ⟨rfl, rfl, rfl⟩

/-! ## the mutation reaches the target -/

/-- merge-patching the payload into *any* live object gives an object that meets the target, whose
    last-applied annotation reads back as the payload — and that payload is a well-shaped last-applied
    tree for the target (no separate hypothesis about the annotation's shape) -/
theorem patch_reaches_target (c : Codec) (t : JVal) (h : TargetOk t) (hc : c.reads (strip t)) :
    ∃ body, prepareForApi c t = some body ∧ LaShaped t (strip t) ∧ ∀ live,
      Meets t (mergePatch live body) (strip t) ∧
      extractLastApplied c (mergePatch live body) = some (strip t) := by
  obtain ⟨body, hb, hf⟩ := payload_facts c t h.wf h.nodup h.annFree
  exact ⟨body, hb, laOk_strip_self t h.wf h.nodup,
    fun live => ⟨meets_mergePatch t body _ live h.nonulls hf.nodup hf.meets, hf.la live hc⟩⟩

/-- the same at the level of a pass with update policy `patch` whose comparison reported differences
    (owner reference in place): exactly one PATCH, and the resulting object meets the target -/
theorem patch_pass_reaches_target (c : Cfg) (t live : JVal) (d : JVal) (h : TargetOk t)
    (hc : c.codec.reads (strip t)) (hp : c.policy = .patch d) :
    ∃ body, correct c .none t live = ⟨some (mergePatch live body), .retry d, [.patch body]⟩ ∧
      Meets t (mergePatch live body) (strip t) := by
  obtain ⟨body, hb, _, hall⟩ := patch_reaches_target c.codec t h hc
  exact ⟨body, by simp [correct, hp, hb, dropOwnerRefs, h.ownerFree], (hall live).1⟩

/-! ## creation -/

/-- the create pass itself: exactly one POST of the prepared create view, Retry with the create delay -/
theorem create_pass (c : Cfg) (t body : JVal) (he : c.createEnabled = true)
    (hb : prepareForApi c.codec c.createView = some body) :
    pass c t none = [⟨some body, .retry c.createDelay, [.post body]⟩] := by
  simp [pass, passAbsent, he, hb]

/-- creation with a create overlay that does not contradict the target (`noContradict`, a decidable
    predicate on the written overlay: at target-specified paths it only descends into the target's maps or
    writes a scalar equal to the target's; elsewhere it may add anything), owner references written
    where ownership applies: one POST, Retry(create delay), the stored object meets the target and its
    annotation reads back as the stripped view -/
theorem create_reaches_target (c : Cfg) (t body : JVal) (ov : List (String × OSpec JVal)) (refs : Option JVal)
    (h : TargetOk t) (hov : WFO ov) (hnc : noContradict t ov = true)
    (hv : createViewOf t ov refs = some c.createView) (he : c.createEnabled = true)
    (hb : prepareForApi c.codec c.createView = some body) (hc : c.codec.reads (strip c.createView)) :
    pass c t none = [⟨some body, .retry c.createDelay, [.post body]⟩] ∧
      Meets t body (strip c.createView) ∧
      extractLastApplied c.codec body = some (strip c.createView) := by
  have hm := create_view_meets t c.createView ov refs h.wf h.nodup h.ownerFree hov hnc hv
  have hf := view_body_facts c.codec t c.createView body h.nodup h.annFree hm hb hc
  exact ⟨create_pass c t body he hb, hf.1, hf.2⟩

/-- a function that may not create (`create.enabled: false`) never writes for an absent object: it waits -/
theorem no_create_when_disabled (c : Cfg) (t : JVal) (he : c.createEnabled = false) :
    pass c t none = [⟨none, .retry (.int loadRetryDelay), []⟩] := by
  simp [pass, passAbsent, he]

/-- without a create overlay the created object is the payload, which meets the target -/
theorem create_plain (c : Cfg) (t : JVal) (h : TargetOk t) (hv : c.createView = t) :
    ∃ body, prepareForApi c.codec c.createView = some body ∧ Meets t body (strip t) := by
  obtain ⟨body, hb, hf⟩ := payload_facts c.codec t h.wf h.nodup h.annFree
  exact ⟨body, by rw [hv]; exact hb, hf.meets⟩

/-! ## the owner-reference branch -/

/-- target met, but the parent's reference is missing (`ownerFixOf` asks for `r` to be written):
    under update policy patch exactly one PATCH whose body is the payload of the target with those
    references, Retry with the patch delay -/
theorem owner_missing_patched (c : Cfg) (t live la r x body d : JVal) (hw : DirectivesWF t)
    (hla : extractLastApplied c.codec live = some la) (hm : Meets t live la)
    (ho : ownerFixOf c live = some (.refs r)) (hp : c.policy = .patch d)
    (hx : setOwnerRefs r t = some x) (hb : prepareForApi c.codec x = some body) :
    pass c t (some live) = [⟨some (mergePatch live body), .retry d, [.patch body]⟩] := by
  simp [pass, passPresent, ho, hla, meets_implies_match t live la hw hm, OwnerFix.isNone, correct, hp, hx, hb]

/-- what is written: the live references in their order plus the parent's — co-owners are preserved -/
theorem owner_fix_keeps_co_owners (c : Cfg) (live r : JVal) (ho : ownerFixOf c live = some (.refs r)) :
    r = .arr [c.ownerRef] ∨ ∃ xs, liveRefs live = some (.arr xs) ∧ r = .arr (xs ++ [c.ownerRef]) :=
  ownerFix_refs_shape c live r ho

/-- the body of that PATCH exists, and merge-patched into *any* live object it gives an object that
    meets the target, whose annotation reads back, and whose owner references are exactly the written ones -/
theorem owner_fix_reaches_target (c : Codec) (t : JVal) (rs : List JVal) (h : TargetOk t)
    (hr : noDupB (.arr rs) = true) :
    ∃ x body, setOwnerRefs (.arr rs) t = some x ∧ prepareForApi c x = some body ∧
      (c.reads (strip x) → ∀ live,
        Meets t (mergePatch live body) (strip x) ∧
        extractLastApplied c (mergePatch live body) = some (strip x) ∧
        liveRefs (mergePatch live body) = some (.arr (stripL rs))) := by
  obtain ⟨x, hx, hxn, hxm⟩ := owner_view t (.arr rs) h.wf h.nodup h.ownerFree hr
  obtain ⟨body, hb⟩ := owner_view_prepares c t (.arr rs) x h.annFree hx
  refine ⟨x, body, hx, hb, fun hc live => ?_⟩
  have hp := view_patch_facts c t x body h.nodup h.nonulls h.annFree hxn hxm hb hc
  exact ⟨hp.meets live, hp.la live, refs_set_by_owner_patch c t x body rs hx hp live⟩

/-- afterwards the reference is present and the next pass mutates nothing -/
theorem owner_fix_then_quiet (c : Cfg) (t live : JVal) (ys : List JVal) (refkvs : List (String × JVal))
    (u : String) (h : TargetOk t) (href : c.ownerRef = .obj refkvs) (hys : allObj ys = true)
    (hu : lookup "uid" refkvs = some (.str u))
    (hr : noDupB (.arr (ys ++ [c.ownerRef])) = true) :
    ∃ x body, setOwnerRefs (.arr (ys ++ [c.ownerRef])) t = some x ∧ prepareForApi c.codec x = some body ∧
      (c.codec.reads (strip x) →
        refPresent c (mergePatch live body) = true ∧
        pass c t (some (mergePatch live body)) =
          [⟨some (mergePatch live body), .okLive (mergePatch live body), []⟩]) := by
  obtain ⟨x, body, hx, hb, hall⟩ := owner_fix_reaches_target c.codec t (ys ++ [c.ownerRef]) h hr
  refine ⟨x, body, hx, hb, fun hc => ?_⟩
  obtain ⟨hm, hla, hrefs⟩ := hall hc live
  have huid : pyEq (uidOf (stripO refkvs)) (uidOf refkvs) = true := by
    simp [uidOf, lookup_stripO "uid" (by decide), hu, strip, pyEq]
  have hpres : refPresent c (mergePatch live body) = true := by
    unfold refPresent
    rw [hrefs, href, stripL_append]
    simp only [stripL, strip.eq_1, beq_iff_eq]
    exact scanRefs_append _ _ huid _ (by rw [allObj_stripL]; exact hys)
  exact ⟨hpres, no_mutation_at_target_co_owned c t _ _ h.wf hla hm (Or.inl hpres)⟩

/-! ## no update loop -/

/-- after a patch the next pass (same target) mutates nothing: the patch leaves the live owner
    references alone, so a reference that was in place (co-owners or not) still is -/
theorem no_update_loop (c : Cfg) (t live : JVal) (d : JVal) (h : TargetOk t)
    (hc : c.codec.reads (strip t)) (hp : c.policy = .patch d)
    (ho : refPresent c live = true ∨ c.shouldOwn = false) :
    ∀ r, r = correct c .none t live →
      ∃ live', r.cluster = some live' ∧ pass c t r.cluster = [⟨some live', .okLive live', []⟩] := by
  intro r hr
  obtain ⟨body, hb, _, hall⟩ := patch_reaches_target c.codec t h hc
  have hcor : correct c .none t live = ⟨some (mergePatch live body), .retry d, [.patch body]⟩ := by
    simp [correct, hp, hb, dropOwnerRefs, h.ownerFree]
  subst hr
  rw [hcor]
  refine ⟨_, rfl, no_mutation_at_target_co_owned c t _ _ h.wf (hall live).2 (hall live).1 ?_⟩
  rcases ho with ho | ho
  · left
    have hpf := view_patch_facts c.codec t t body h.nodup h.nonulls h.annFree h.nodup
      (meets_strip_self t h.wf h.nodup) hb hc
    rw [refPresent_congr c live _ (refs_kept_by_target_patch c.codec t body h.ownerFree hpf live)]
    exact ho
  · exact Or.inr ho

/-- after a create with a non-contradicting create overlay the next pass mutates nothing -/
theorem no_update_loop_after_create (c : Cfg) (t body : JVal) (ov : List (String × OSpec JVal))
    (refs : Option JVal) (h : TargetOk t) (hov : WFO ov) (hnc : noContradict t ov = true)
    (hv : createViewOf t ov refs = some c.createView) (he : c.createEnabled = true)
    (hb : prepareForApi c.codec c.createView = some body) (hc : c.codec.reads (strip c.createView))
    (ho : ownerFixOf c body = some .none) :
    ∀ r ∈ pass c t none, pass c t r.cluster = [⟨some body, .okLive body, []⟩] := by
  intro r hr
  obtain ⟨hpass, hm, hla⟩ := create_reaches_target c t body ov refs h hov hnc hv he hb hc
  rw [hpass, List.mem_singleton] at hr
  subst hr
  exact no_mutation_at_target c t body _ h.wf hla hm ho

/-! ## where ownership applies: one decision for the create site and the compare site

  `shouldOwnOf own ownerNs ns` is what both `_create_api_resource` (write the parent's reference into the
  create body) and `reconcile_krm_resource` (`should_own`: require it on the live object) evaluate.  It holds
  exactly when the function owns its resource and parent and object share their scope — in particular for
  a cluster-scoped object of a cluster-scoped parent (`none`, `none`).  The create theorems take the
  references written at create (`refs`) and `Cfg.shouldOwn` from this one value; a create site that
  decides otherwise falsifies `ho` of `no_update_loop_after_create`. -/

theorem should_own_same_scope (ns : Option String) : shouldOwnOf true ns ns = true := by
  simp [shouldOwnOf]

theorem should_own_iff (own : Bool) (ownerNs ns : Option String) :
    shouldOwnOf own ownerNs ns = true ↔ own = true ∧ ownerNs = ns := by
  simp [shouldOwnOf]

/-- where ownership does not apply nothing about owner references is ever asked of the live object -/
theorem not_owned_no_owner_fix (c : Cfg) (live : JVal) (own : Bool) (ownerNs ns : Option String)
    (hs : c.shouldOwn = shouldOwnOf own ownerNs ns) (hne : own = false ∨ ownerNs ≠ ns) :
    ownerFixOf c live = some .none := by
  have : c.shouldOwn = false := by
    rw [hs]
    cases hne with
    | inl h => simp [shouldOwnOf, h]
    | inr h => simp [shouldOwnOf, h]
  simp [ownerFixOf, this]

example : shouldOwnOf true none none = true := by decide
example : shouldOwnOf true (some "ns1") none = false := by decide
example : shouldOwnOf true none (some "ns1") = false := by decide

/-! ## the forced kind/name overlay never brings an explicit null into the target

  `NoNulls` is the stated domain of the fixpoint clauses because a null member can never be met: the
  API server does not store it and a merge-patch with it deletes the key.  The part of every target that
  koreo itself supplies (`_forced_overlay`, C12's `forcedOverlay`) respects that domain for namespaced and
  for cluster-scoped kinds alike: without a namespace the `namespace` member is absent, not null. -/

theorem forced_overlay_no_nulls (apiVersion kind name : String) (ns : Option String) :
    noNullsB (.obj (forcedOverlay apiVersion kind name ns)) = true := by
  cases ns <;> rfl

/-- … and a target that did carry `namespace: null` could not be met by any object the server stores
    (an object without nulls): the key is either missing or holds something that is not null -/
theorem null_member_never_met (tkvs lkvs : List (String × JVal)) (la : JVal) (k : String)
    (hk : isDirective k = false) (hn : keysNoDup tkvs = true) (ht : lookup k tkvs = some .null)
    (hp : plainKey tkvs k = true) (hl : noNullsB (.obj lkvs) = true) :
    meetsB .full (.obj tkvs) (.obj lkvs) la = false := by
  cases h : meetsB .full (.obj tkvs) (.obj lkvs) la with
  | false => rfl
  | true =>
    rw [meetsB.eq_1, Bool.and_eq_true] at h
    have hkey := (meetsO_forall _ _ _ _ tkvs).mp h.2 (k, .null) (lookup_mem _ _ _ ht)
    obtain ⟨_, cv, hcv, hm⟩ := (key_nonarr_iff _ _ _ _ _ hk rfl).mp hkey
    simp only [plainKey, Bool.and_eq_true, Bool.not_eq_true'] at hp
    simp only [cmpValue, hp.2, Bool.false_eq_true, ↓reduceIte] at hcv
    have hcvn : cv = .null := by
      cases cv <;> first | rfl | (rw [meetsB.eq_def] at hm; simp [scalarEq] at hm)
    subst hcvn
    rw [noNullsB.eq_3] at hl
    have : noNullsB .null = true := noNullsO_lookup lkvs k .null hl hcv
    cases this

/-! ## non-vacuity: a concrete target with every directive, a decorated live object, a codec -/

def exTarget : JVal := .obj [
  ("metadata", .obj [("labels", .obj [("app", .str "web")])]),
  ("spec", .obj [
    (compareAsSet, .arr [.str "zones"]),
    (compareAsMap, .obj [("ports", .arr [.str "name"])]),
    (compareLastApplied, .arr [.str "seed"]),
    ("zones", .arr [.str "a", .int 1]),
    ("ports", .arr [.obj [("name", .str "http"), ("port", .int 80)], .obj [("name", .str "dns"), ("port", .int 53)]]),
    ("seed", .str "s1"),
    ("replicas", .int 2), ("on", .bool false), ("args", .arr [.str "x", .flt 12])])]

/-- decorated: extra keys, status, reordered set and keyed lists with an extra member, `1.0` for `1`,
    a different value under the last-applied-directed key -/
def exLive : JVal := .obj [
  ("status", .obj [("ready", .bool true)]),
  ("spec", .obj [
    ("replicas", .flt 16), ("on", .bool false), ("args", .arr [.str "x", .flt 12]),
    ("seed", .str "rotated"),
    ("zones", .arr [.flt 8, .str "a", .str "a"]),
    ("ports", .arr [.obj [("name", .str "extra"), ("port", .int 1)],
                    .obj [("name", .str "dns"), ("port", .int 53), ("protocol", .str "UDP")],
                    .obj [("name", .str "http"), ("port", .int 80)]]),
    ("added", .null)]),
  ("metadata", .obj [("labels", .obj [("app", .str "web"), ("x", .str "y")]), ("uid", .str "u")])]

/-- a codec that reads back the one text the example needs -/
def exCodec : Codec where
  dumps _ := "T"
  loads s := if s = "T" then some (strip exTarget) else none

example : TargetOk exTarget :=
  ⟨by unfold DirectivesWF; decide, by unfold NoDupKeys; decide, by unfold NoNulls; decide, by decide, by decide⟩
example : exCodec.reads (strip exTarget) := ⟨by decide, rfl⟩
example : Meets exTarget exLive (strip exTarget) := by decide
example : validateMatch exTarget exLive (strip exTarget) false = .ok := by decide
/-- a create overlay that adds keys (a map the target does not have, a new key inside `spec`), descends
    into the target's `metadata.labels` and re-writes a scalar with the target's own value -/
def exCreateOverlay : List (String × OSpec JVal) := [
  ("createOnly", .leaf (.str "z")),
  ("spec", .node [("seededBy", .leaf (.obj [("who", .str "create")])), ("replicas", .leaf (.flt 16))]),
  ("metadata", .node [("labels", .node [("tier", .leaf (.str "web"))])])]

example : noContradict exTarget exCreateOverlay = true := by decide
/-- … while one that changes a target-specified leaf is rejected -/
example : noContradict exTarget [("spec", .node [("replicas", .leaf (.int 3))])] = false := by decide

def exOwner : JVal := .obj [("kind", .str "Trigger"), ("name", .str "parent"), ("uid", .str "uid-parent")]
def exForeign (u : String) : JVal := .obj [("kind", .str "Other"), ("uid", .str u)]
def exCfg : Cfg := { codec := exCodec, policy := .patch (.int 7), shouldOwn := true, ownerRef := exOwner,
                     createEnabled := true, createDelay := .int 11, createView := exTarget }
def liveWithRefs (refs : JVal) : JVal :=
  .obj [("metadata", .obj [("name", .str "w"), ("ownerReferences", refs)])]

/-- co-owned (the parent's reference between two foreign ones): nothing to write -/
example : refPresent exCfg (liveWithRefs (.arr [exForeign "a", exOwner, exForeign "b"])) = true := by decide
/-- only foreign owners: the live references plus the parent's have to be written -/
example : (match ownerFixOf exCfg (liveWithRefs (.arr [exForeign "a"])) with
    | some (.refs (.arr xs)) => xs.length == 2 && scanRefs (.str "a") (xs.take 1) == some true &&
        scanRefs (.str "uid-parent") (xs.drop 1) == some true
    | _ => false) = true := by decide
/-- the parent was re-created under the same name: its old entry (same kind and name, another uid) is not
    ours — the check is by uid, so the live references plus the parent's current one are written -/
example : (match ownerFixOf exCfg (liveWithRefs (.arr [.obj [("kind", .str "Trigger"), ("name", .str "parent"),
      ("uid", .str "uid-before-recreation")]])) with
    | some (.refs (.arr xs)) => xs.length == 2 && scanRefs (.str "uid-parent") (xs.drop 1) == some true
    | _ => false) = true := by decide
/-- a member that is not a map before any match: `_validate_owner_reffed` raises -/
example : (ownerFixOf exCfg (liveWithRefs (.arr [.str "junk", exOwner]))).isNone = true := by decide

/-- and the hypotheses are not trivially true: a changed leaf does not meet -/
example : ¬ Meets exTarget (.obj [("spec", .obj [("replicas", .int 3)])]) .null := by decide

end Koreo.C04
