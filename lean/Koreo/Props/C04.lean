/-
  C04 — ResourceFunction reaches a fixpoint: no mutation once the target is met.
  Property theorems only; helper lemmas are in `Koreo/Lemmas/Compare*.lean`, `Koreo/Lemmas/Reconcile45.lean`.
  Models: `Koreo/Compare.lean` (validate.py, as repaired by fixes/F9-compare-as-map.diff and
  fixes/F6-typed-set.diff), `Koreo/Reconcile45.lean` (reconcile/__init__.py:315-376, 606-715, 822-854;
  prepare.py:465-478), `Koreo/MergePatch.lean` (the API server's PATCH).

  `Meets t live la` is the property's "the live object contains every field of the target with an
  equal value" (spec relation, written independently of the comparator; keys compared against the
  last-applied tree by directive are read from `la`).
-/
import Koreo.Lemmas.CompareSound
import Koreo.Lemmas.CompareComplete
import Koreo.Lemmas.ComparePatch
import Koreo.Lemmas.CompareStrip
import Koreo.Lemmas.Reconcile45

namespace Koreo.C04
open Koreo Koreo.JVal Koreo.Compare Koreo.R45

/-- the stated domain of the fixpoint clauses: directives well formed, maps with distinct keys,
    no explicit nulls, and the target does not itself set koreo's last-applied annotation -/
structure TargetOk (t : JVal) : Prop where
  wf : DirectivesWF t
  nodup : NoDupKeys t
  nonulls : NoNulls t
  annFree : annFree t = true
  /-- the target has a `metadata` map (the forced overlay makes one) that does not set
      `ownerReferences` — that key is C08's and is never patched from the target (fix F7) -/
  ownerFree : ownerRefsFree t = true

/-! ## the comparator accepts whatever meets the target -/

/-- extra keys at any depth, status, bookkeeping, reordered / duplicated set members, reordered keyed
    lists with extra members: none of it is reported (no hypothesis on `live` beyond `Meets`) -/
theorem meets_implies_match (t live la : JVal) (hw : DirectivesWF t) (hm : Meets t live la) :
    validateMatch t live la false = .ok :=
  vm_of_meets t live la hw hm

/-! ## one pass -/

/-- a pass over an object that meets the target (and carries the owner reference where ownership
    applies) sends nothing, leaves the cluster as it is and hands the live object on to
    postconditions / return value -/
theorem no_mutation_at_target (c : Cfg) (t live la : JVal) (hw : DirectivesWF t)
    (hla : extractLastApplied c.codec live = some la) (hm : Meets t live la) (ho : ownerOk c = true) :
    pass c t (some live) = [⟨some live, .okLive live, []⟩] := by
  simp only [pass, passPresent, hla, meets_implies_match t live la hw hm, ho, ↓reduceIte, unchanged]

/-- the delay a mutating pass has to report: the create delay when the object was absent, the
    update policy's delay otherwise -/
def configuredDelay (c : Cfg) (cluster : Option JVal) : Option JVal :=
  match cluster with
  | none => some c.createDelay
  | some _ =>
    match c.policy with
    | .patch d => some d
    | .recreate d => some d
    | .never => none

/-- any possible result of a pass that sent a request or changed the cluster is a Retry with the
    configured delay — never Ok, PermFail or an exception -/
theorem mutation_returns_retry (c : Cfg) (t : JVal) (cluster : Option JVal) (r : PassResult)
    (hr : r ∈ pass c t cluster) (hmut : r.reqs ≠ [] ∨ r.cluster ≠ cluster) :
    ∃ d, configuredDelay c cluster = some d ∧ r.outcome = .retry d := by
  cases cluster with
  | none =>
    simp only [pass, passAbsent] at hr
    split at hr
    · simp only [List.mem_singleton] at hr; subst hr; simp at hmut
    · split at hr
      · simp only [List.mem_singleton] at hr; subst hr; simp at hmut
      · simp only [List.mem_singleton] at hr; subst hr; exact ⟨_, rfl, rfl⟩
  | some live =>
    have hcorrect : ∀ r, r = correct c t live → (r.reqs ≠ [] ∨ r.cluster ≠ some live) →
        ∃ d, configuredDelay c (some live) = some d ∧ r.outcome = .retry d := by
      intro r hr hmut
      subst hr
      unfold correct at hmut ⊢
      cases hp : c.policy with
      | never => simp [hp, unchanged] at hmut
      | recreate d => exact ⟨d, by simp [configuredDelay, hp], rfl⟩
      | patch d =>
        simp only [hp] at hmut ⊢
        split at hmut
        · simp at hmut
        · split at hmut
          · simp [raisedAt] at hmut
          · split at hmut
            · simp [raisedAt] at hmut
            · exact ⟨d, by simp [configuredDelay, hp], rfl⟩
    simp only [pass, passPresent] at hr
    split at hr
    · simp only [List.mem_singleton] at hr; subst hr; simp [raisedAt] at hmut
    · split at hr
      · split at hr
        · simp only [List.mem_singleton] at hr; subst hr; simp [unchanged] at hmut
        · simp only [List.mem_singleton] at hr; exact hcorrect r hr hmut
      · rename_i d x _
        simp only [List.mem_append] at hr
        rcases hr with hr | hr
        · cases d <;> simp only [↓reduceIte, List.mem_singleton, Bool.false_eq_true, List.not_mem_nil] at hr
          exact hcorrect r hr hmut
        · cases x <;> simp only [↓reduceIte, List.mem_singleton, Bool.false_eq_true, List.not_mem_nil] at hr
          subst hr; simp [raisedAt] at hmut

/-! ## the mutation reaches the target -/

/-- merge-patching the payload into *any* live object gives an object that meets the target, and
    whose last-applied annotation reads back as the payload -/
theorem patch_reaches_target (c : Codec) (t : JVal) (h : TargetOk t) (hc : c.reads (strip t)) :
    ∃ body, prepareForApi c t = some body ∧ ∀ live,
      Meets t (mergePatch live body) (strip t) ∧
      extractLastApplied c (mergePatch live body) = some (strip t) := by
  obtain ⟨body, hb, hf⟩ := payload_facts c t h.wf h.nodup h.annFree
  exact ⟨body, hb, fun live => ⟨meets_mergePatch t body _ live h.nonulls hf.nodup hf.meets, hf.la live hc⟩⟩

/-- the same at the level of a pass with update policy `patch` whose comparison reported differences:
    exactly one PATCH, and the resulting object meets the target -/
theorem patch_pass_reaches_target (c : Cfg) (t live : JVal) (d : JVal) (h : TargetOk t)
    (hc : c.codec.reads (strip t)) (hp : c.policy = .patch d) (ho : c.ownerFix = .none) :
    ∃ body, correct c t live = ⟨some (mergePatch live body), .retry d, [.patch body]⟩ ∧
      Meets t (mergePatch live body) (strip t) := by
  obtain ⟨body, hb, hall⟩ := patch_reaches_target c.codec t h hc
  exact ⟨body, by simp [correct, hp, ho, hb, dropOwnerRefs, h.ownerFree], (hall live).1⟩

/-- creation: when what the create overlay produced does not contradict the target (explicit
    hypothesis `hm`; `create_plain` below shows it holds when there is no create overlay), the pass
    sends exactly one POST, reports Retry with the create delay, and the stored object meets the target -/
theorem create_reaches_target (c : Cfg) (t body la : JVal) (he : c.createEnabled = true)
    (hb : prepareForApi c.codec c.createView = some body) (hm : Meets t body la) :
    pass c t none = [⟨some body, .retry c.createDelay, [.post body]⟩] ∧ Meets t body la := by
  simp [pass, passAbsent, he, hb, hm]

/-- a function that may not create (`create.enabled: false`) never writes for an absent object: it waits -/
theorem no_create_when_disabled (c : Cfg) (t : JVal) (he : c.createEnabled = false) :
    pass c t none = [⟨none, .retry (.int loadRetryDelay), []⟩] := by
  simp [pass, passAbsent, he]

/-- without a create overlay the created object is the payload, which meets the target -/
theorem create_plain (c : Cfg) (t : JVal) (h : TargetOk t) (hv : c.createView = t) :
    ∃ body, prepareForApi c.codec c.createView = some body ∧ Meets t body (strip t) := by
  obtain ⟨body, hb, hf⟩ := payload_facts c.codec t h.wf h.nodup h.annFree
  exact ⟨body, by rw [hv]; exact hb, hf.meets⟩

/-! ## no update loop -/

/-- after a patch the next pass (same target; the owner reference is in place) mutates nothing -/
theorem no_update_loop (c : Cfg) (t live : JVal) (d : JVal) (h : TargetOk t)
    (hc : c.codec.reads (strip t)) (hp : c.policy = .patch d) (ho : c.ownerFix = .none) :
    ∀ r, r = correct c t live →
      ∃ live', r.cluster = some live' ∧ pass c t r.cluster = [⟨some live', .okLive live', []⟩] := by
  intro r hr
  obtain ⟨body, hb, hall⟩ := patch_reaches_target c.codec t h hc
  have hcor : correct c t live = ⟨some (mergePatch live body), .retry d, [.patch body]⟩ := by
    simp [correct, hp, ho, hb, dropOwnerRefs, h.ownerFree]
  subst hr
  rw [hcor]
  exact ⟨_, rfl, no_mutation_at_target c t _ _ h.wf (hall live).2 (hall live).1 (by simp [ownerOk, ho])⟩

/-- after a create whose object meets the target the next pass mutates nothing -/
theorem no_update_loop_after_create (c : Cfg) (t body la : JVal) (hw : DirectivesWF t)
    (he : c.createEnabled = true) (hb : prepareForApi c.codec c.createView = some body) (hm : Meets t body la)
    (hla : extractLastApplied c.codec body = some la) (ho : ownerOk c = true) :
    ∀ r ∈ pass c t none, pass c t r.cluster = [⟨some body, .okLive body, []⟩] := by
  intro r hr
  rw [(create_reaches_target c t body la he hb hm).1, List.mem_singleton] at hr
  subst hr
  exact no_mutation_at_target c t body la hw hla hm ho

/-! ## non-vacuity: a concrete target with every directive, a decorated live object, a codec -/

def exTarget : JVal := .obj [
  ("metadata", .obj [("labels", .obj [("app", .str "web")])]),
  ("spec", .obj [
    (compareAsSet, .arr [.str "zones"]),
    (compareAsMap, .obj [("ports", .arr [.str "name"])]),
    (compareLastApplied, .arr [.str "seed"]),
    ("zones", .arr [.str "a", .int 1]),
    ("ports", .arr [.obj [("name", .str "http"), ("port", .int 80)], .obj [("name", .str "dns"), ("port", .int 53)]]),
    ("seed", .str "s1"),
    ("replicas", .int 2), ("on", .bool false), ("args", .arr [.str "x", .flt 12])])]

/-- decorated: extra keys, status, reordered set and keyed lists with an extra member, `1.0` for `1`,
    a different value under the last-applied-directed key -/
def exLive : JVal := .obj [
  ("status", .obj [("ready", .bool true)]),
  ("spec", .obj [
    ("replicas", .flt 16), ("on", .bool false), ("args", .arr [.str "x", .flt 12]),
    ("seed", .str "rotated"),
    ("zones", .arr [.flt 8, .str "a", .str "a"]),
    ("ports", .arr [.obj [("name", .str "extra"), ("port", .int 1)],
                    .obj [("name", .str "dns"), ("port", .int 53), ("protocol", .str "UDP")],
                    .obj [("name", .str "http"), ("port", .int 80)]]),
    ("added", .null)]),
  ("metadata", .obj [("labels", .obj [("app", .str "web"), ("x", .str "y")]), ("uid", .str "u")])]

/-- a codec that reads back the one text the example needs -/
def exCodec : Codec where
  dumps _ := "T"
  loads s := if s = "T" then some (strip exTarget) else none

example : TargetOk exTarget :=
  ⟨by unfold DirectivesWF; decide, by unfold NoDupKeys; decide, by unfold NoNulls; decide, by decide, by decide⟩
example : exCodec.reads (strip exTarget) := ⟨by decide, rfl⟩
example : Meets exTarget exLive (strip exTarget) := by decide
example : validateMatch exTarget exLive (strip exTarget) false = .ok := by decide
/-- and the hypotheses are not trivially true: a changed leaf does not meet -/
example : ¬ Meets exTarget (.obj [("spec", .obj [("replicas", .int 3)])]) .null := by decide

end Koreo.C04
