/-
  C15 — Cache is keyed by resourceVersion: prepare once per version, latest wins.
  Property theorems only; helper lemmas are in `Koreo/Lemmas/Cache.lean`.
  Model: `Koreo/Cache.lean` (hand transcription of `prepare_and_cache`, `delete_from_cache`,
  `get_resource_from_cache`, `get_resource_system_data_from_cache`, `_extract_meta` of
  src/koreo/cache.py).  Every theorem holds for every preparer oracle `prep` and — except where a
  history is mentioned — for every state, in particular for every state a history can reach.
-/
import Koreo.Lemmas.Cache

namespace Koreo.C15
open Koreo.Cache
variable {σ ρ : Type} (prep : Nat → String → σ → PrepResult ρ)

/-! ## refinement: the cache is a plain map keyed by (kind, name) -/

/-- one step of the cache is one step of the map specification, with the same output -/
theorem refinement_step (s : State σ ρ) (op : Op σ) :
    abs (step prep s op).1 = (specStep prep (abs s) op).1 ∧
    (step prep s op).2 = (specStep prep (abs s) op).2 := by
  cases op with
  | offer k version spec sys c =>
    simp only [step, specStep, abs]
    split
    · cases hf : find? s.cache k with
      | none =>
        refine ⟨?_, rfl⟩
        simp only [Spec.mk.injEq, and_true]
        funext k'; simp [upd]
      | some e =>
        simp only []
        split
        · exact ⟨rfl, rfl⟩
        · refine ⟨?_, rfl⟩
          simp only [Spec.mk.injEq, and_true]
          funext k'; simp [upd]
    · exact ⟨rfl, rfl⟩
  | delete k version =>
    simp only [step, specStep, abs]
    cases hf : find? s.cache k with
    | none => exact ⟨rfl, rfl⟩
    | some e =>
      simp only []
      split
      · exact ⟨rfl, rfl⟩
      · refine ⟨?_, rfl⟩
        simp only [Spec.mk.injEq, and_true]
        funext k'; simp [upd]
  | deleteMeta k version =>
    simp only [step, specStep, abs]
    split
    · cases hf : find? s.cache k with
      | none => exact ⟨rfl, rfl⟩
      | some e =>
        refine ⟨?_, rfl⟩
        simp only [Spec.mk.injEq, and_true]
        funext k'; simp [upd]
    · exact ⟨rfl, rfl⟩
  | lookup k => exact ⟨rfl, rfl⟩
  | systemData k => exact ⟨rfl, rfl⟩
  | elapse n => exact ⟨rfl, rfl⟩

/-- hence for every operation sequence: same abstract state, same outputs -/
theorem refinement (s : State σ ρ) (ops : List (Op σ)) :
    abs (run prep s ops) = specRun prep (abs s) ops ∧ outs prep s ops = specOuts prep (abs s) ops := by
  induction ops generalizing s with
  | nil => exact ⟨rfl, rfl⟩
  | cons op ops ih =>
    obtain ⟨h1, h2⟩ := refinement_step prep s op
    obtain ⟨i1, i2⟩ := ih (step prep s op).1
    simp only [run, specRun, outs, specOuts]
    rw [← h1, ← h2]
    exact ⟨i1, by rw [i2]⟩

theorem refinement_from_empty (ops : List (Op σ)) :
    abs (run prep init ops) = specRun prep Spec.init ops ∧
    outs prep init ops = specOuts prep Spec.init ops :=
  refinement prep init ops

/-! ## offering -/

/-- Offering the name and resourceVersion already cached returns the cached result (the very object:
    same serial) without calling the preparer, without touching the registry and without changing
    anything — whatever spec is offered. -/
theorem same_version_not_reprepared (s : State σ ρ) (k : Key) (v : String) (spec : σ) (sys : Option Nat)
    (c : Bool) (e : Entry σ ρ) (hk : k.2 ≠ "") (hv : v ≠ "") (hc : find? s.cache k = some e)
    (hver : e.version = v) :
    step prep s (.offer k (some v) spec sys c) = (s, .returned e.resource e.serial false) :=
  step_offer_hit prep s k (some v) spec sys c e ((validMeta_iff k _).mpr ⟨hk, v, rfl, hv⟩) hc hver

/-- Time is not an input of the cache: while nothing but time passes — any number of waits of any
    length — the state (entries, versions, call count) stays exactly what it was. -/
theorem time_passing_changes_nothing (s : State σ ρ) (waits : List Nat) :
    run prep s (waits.map .elapse) = s ∧
    outs prep s (waits.map .elapse) = waits.map (fun _ => .unit) := by
  induction waits with
  | nil => exact ⟨rfl, rfl⟩
  | cons n t ih =>
    obtain ⟨i1, i2⟩ := ih
    exact ⟨i1, by simp only [List.map_cons, outs, step]; rw [i2]⟩

/-- "Prepare once per version" has no expiry: however long the entry has been cached — whatever its
    result is, a failed one (a `Retry` with a delay long past included) — offering its name and
    resourceVersion again returns that very object without calling the preparer. -/
theorem same_version_not_reprepared_after_any_time (s : State σ ρ) (k : Key) (v : String) (spec : σ)
    (sys : Option Nat) (c : Bool) (e : Entry σ ρ) (waits : List Nat) (hk : k.2 ≠ "") (hv : v ≠ "")
    (hc : find? s.cache k = some e) (hver : e.version = v) :
    step prep (run prep s (waits.map .elapse)) (.offer k (some v) spec sys c) =
      (s, .returned e.resource e.serial false) := by
  rw [(time_passing_changes_nothing prep s waits).1]
  exact same_version_not_reprepared prep s k v spec sys c e hk hv hc hver

/-- Offering a different resourceVersion (or a name not cached) always calls the preparer once, on the
    offered spec, and caches exactly what it returned — a failed preparation included — under the
    offered version; the offer hands that result back, or, when wiring up the declared subscriptions
    raises `SubscriptionCycle`, raises after having stored it. -/
theorem new_version_reprepared (s : State σ ρ) (k : Key) (v : String) (spec : σ) (sys : Option Nat)
    (c : Bool) (hk : k.2 ≠ "") (hv : v ≠ "") (hdiff : ∀ e, find? s.cache k = some e → e.version ≠ v) :
    let r := prep k.1 k.2 spec
    let s' := (step prep s (.offer k (some v) spec sys c)).1
    (step prep s (.offer k (some v) spec sys c)).2 =
      (if c then .raisedCycle r s.calls else .returned r s.calls true) ∧
    s'.calls = s.calls + 1 ∧
    find? s'.cache k = some ⟨spec, r, s.calls, v, sys⟩ ∧
    ∀ k', k' ≠ k → find? s'.cache k' = find? s.cache k' := by
  have hm : validMeta k (some v) = true := (validMeta_iff k _).mpr ⟨hk, v, rfl, hv⟩
  have hstep := step_offer_miss prep s k (some v) spec sys c hm hdiff
  intro r s'
  show (step prep s (.offer k (some v) spec sys c)).2 = _ ∧
    (step prep s (.offer k (some v) spec sys c)).1.calls = _ ∧
    find? (step prep s (.offer k (some v) spec sys c)).1.cache k = _ ∧
    ∀ k', k' ≠ k → find? (step prep s (.offer k (some v) spec sys c)).1.cache k' = _
  rw [hstep]
  refine ⟨rfl, rfl, by simp [r], ?_⟩
  intro k' hk'
  simp only [find_set]
  exact if_neg (Ne.symm hk')

/-- A failed preparation — a non-Ok outcome of the preparer, or the PermFail the cache substitutes when
    the spec is nested too deeply to copy — is cached under its version exactly like a successful one:
    lookups return it, and offering the same version again returns that very object without preparing. -/
theorem failed_preparation_is_cached (s : State σ ρ) (k : Key) (v : String) (spec spec' : σ)
    (sys sys' : Option Nat) (c c' : Bool) (err : ρ) (hk : k.2 ≠ "") (hv : v ≠ "")
    (hdiff : ∀ e, find? s.cache k = some e → e.version ≠ v) (hfail : prep k.1 k.2 spec = .failed err) :
    let s' := (step prep s (.offer k (some v) spec sys c)).1
    (step prep s' (.lookup k)).2 = .found (some (.failed err, s.calls)) ∧
    step prep s' (.offer k (some v) spec' sys' c') = (s', .returned (.failed err) s.calls false) := by
  intro s'
  obtain ⟨_, _, h3, _⟩ := new_version_reprepared prep s k v spec sys c hk hv hdiff
  have hfind : find? s'.cache k = some ⟨spec, .failed err, s.calls, v, sys⟩ := by rw [← hfail]; exact h3
  refine ⟨by simp [step, hfind], ?_⟩
  exact same_version_not_reprepared prep s' k v spec' sys' c' _ hk hv hfind rfl

/-- the registry's answer never changes what is cached: an offer that raises `SubscriptionCycle`
    leaves exactly the state the same offer leaves when it succeeds -/
theorem cycle_raise_still_caches (s : State σ ρ) (k : Key) (version : Option String) (spec : σ)
    (sys : Option Nat) :
    (step prep s (.offer k version spec sys true)).1 = (step prep s (.offer k version spec sys false)).1 ∧
    (step prep s (.offer k version spec sys true)).2.value? =
      (step prep s (.offer k version spec sys false)).2.value? := by
  rcases step_offer_cases prep s k version spec sys true with ⟨hb, h⟩ | ⟨e, hm, he, hv, h⟩ | ⟨hm, hd, h⟩
  · rw [h, step_offer_bad prep s k version spec sys false hb]; exact ⟨rfl, rfl⟩
  · rw [h, step_offer_hit prep s k version spec sys false e hm he hv]; exact ⟨rfl, rfl⟩
  · rw [h, step_offer_miss prep s k version spec sys false hm hd]; exact ⟨rfl, rfl⟩

/-- for a well-formed offer the preparer runs iff the cached version differs (or nothing is cached) -/
theorem prepared_iff_version_differs (s : State σ ρ) (k : Key) (v : String) (spec : σ) (sys : Option Nat)
    (c : Bool) (hk : k.2 ≠ "") (hv : v ≠ "") :
    (step prep s (.offer k (some v) spec sys c)).1.calls = s.calls + 1 ↔
      ∀ e, find? s.cache k = some e → e.version ≠ v := by
  constructor
  · intro h e he hver
    rw [same_version_not_reprepared prep s k v spec sys c e hk hv he hver] at h
    simp at h
  · intro h; exact (new_version_reprepared prep s k v spec sys c hk hv h).2.1

/-- an offer without a name or without a resourceVersion raises and changes nothing -/
theorem malformed_offer_rejected (s : State σ ρ) (k : Key) (version : Option String) (spec : σ)
    (sys : Option Nat) (c : Bool) (h : validMeta k version = false) :
    step prep s (.offer k version spec sys c) = (s, .typeError) :=
  step_offer_bad prep s k version spec sys c h

/-- The cache is keyed by (kind, name) and versioned by `metadata.resourceVersion` alone: two metadata
    objects that agree on name and resourceVersion are the same operation, whatever `generation`, uid,
    labels, annotations, managedFields or timestamps they carry — for offers and for deletes by metadata. -/
theorem metadata_beyond_name_and_version_irrelevant (kind : Nat) (m m' : Meta) (spec : σ) (sys : Option Nat)
    (c : Bool) (hn : m.name = m'.name) (hv : m.resourceVersion = m'.resourceVersion) (s : State σ ρ) :
    step prep s (offerOf kind m spec sys c) = step prep s (offerOf kind m' spec sys c) ∧
    step prep s (deleteMetaOf kind m) = step prep s (deleteMetaOf kind m') := by
  simp [offerOf, deleteMetaOf, hn, hv]

/-- in particular a new resourceVersion under an unchanged `generation` (a label, annotation or status
    write) is a new version: it is prepared again -/
theorem same_generation_new_version_reprepared (s : State σ ρ) (kind : Nat) (name v v' : String) (g : Nat)
    (others others' : List (String × String)) (spec spec' : σ) (sys : Option Nat)
    (hn : name ≠ "") (hv : v ≠ "") (hv' : v' ≠ "") (hne : v ≠ v') :
    let s1 := (step prep s (offerOf kind ⟨some name, some v, some g, others⟩ spec sys false)).1
    (step prep s1 (offerOf kind ⟨some name, some v', some g, others'⟩ spec' sys false)).2 =
      .returned (prep kind name spec') s1.calls true := by
  intro s1
  have hk : ((kind, name) : Key).2 ≠ "" := hn
  have hm : validMeta (kind, name) (some v) = true := (validMeta_iff _ _).mpr ⟨hk, v, rfl, hv⟩
  have hfind : ∃ e, find? s1.cache (kind, name) = some e ∧ e.version = v := by
    show ∃ e, find? (step prep s (offerOf kind ⟨some name, some v, some g, others⟩ spec sys false)).1.cache
      (kind, name) = some e ∧ e.version = v
    simp only [offerOf, Option.getD_some]
    rcases step_offer_cases prep s (kind, name) (some v) spec sys false with ⟨hb, _⟩ | ⟨e, _, he, hver, h⟩ | ⟨_, _, h⟩
    · rw [hm] at hb; cases hb
    · rw [h]; exact ⟨e, he, hver⟩
    · rw [h]; exact ⟨⟨spec, prep kind name spec, s.calls, v, sys⟩, by simp, rfl⟩
  obtain ⟨e, he, hver⟩ := hfind
  have := new_version_reprepared prep s1 (kind, name) v' spec' sys false hk hv'
    (by intro e' he'; rw [he] at he'; cases he'; rw [hver]; exact hne)
  simpa [offerOf] using this.1

/-! ## lookups -/

/-! `Quiet k v op` (in `Koreo/Cache.lean`): `op` cannot change what is cached for `k` while it holds
    version `v` — anything on another key, lookups, re-offers of `v` itself, malformed offers and
    deletes, deletes naming another (non-empty) version. -/

/-- Lookups return the result for the most recently offered version: after an offer of (`k`, `v`) —
    whether it returned or raised `SubscriptionCycle` after preparing — and any further operations
    that do not offer another version of `k` nor delete it, both lookups of `k` give exactly what that
    offer prepared or found cached — the same object (serial), Ok or failed alike — under version `v`. -/
theorem lookup_returns_latest_offered (s : State σ ρ) (k : Key) (v : String) (spec : σ) (sys : Option Nat)
    (c : Bool) (hk : k.2 ≠ "") (hv : v ≠ "") (later : List (Op σ)) (hq : ∀ op ∈ later, Quiet k v op) :
    ∃ r n e,
      (step prep s (.offer k (some v) spec sys c)).2.value? = some (r, n) ∧
      (step prep (run prep (step prep s (.offer k (some v) spec sys c)).1 later) (.lookup k)).2 = .found (some (r, n)) ∧
      (step prep (run prep (step prep s (.offer k (some v) spec sys c)).1 later) (.systemData k)).2 = .entry (some e) ∧
      e.resource = r ∧ e.serial = n ∧ e.version = v ∧
      ((step prep s (.offer k (some v) spec sys c)).1.calls = s.calls + 1 →
        r = prep k.1 k.2 spec ∧ e.spec = spec ∧ e.sys = sys) := by
  have hm : validMeta k (some v) = true := (validMeta_iff k _).mpr ⟨hk, v, rfl, hv⟩
  -- the entry right after the offer
  have h0 : ∃ r n e, (step prep s (.offer k (some v) spec sys c)).2.value? = some (r, n) ∧
      find? (step prep s (.offer k (some v) spec sys c)).1.cache k = some e ∧
      e.resource = r ∧ e.serial = n ∧ e.version = v ∧
      ((step prep s (.offer k (some v) spec sys c)).1.calls = s.calls + 1 →
        r = prep k.1 k.2 spec ∧ e.spec = spec ∧ e.sys = sys) := by
    rcases step_offer_cases prep s k (some v) spec sys c with ⟨hb, _⟩ | ⟨e, _, he, hver, h⟩ | ⟨_, _, h⟩
    · rw [hm] at hb; cases hb
    · rw [h]
      exact ⟨e.resource, e.serial, e, rfl, he, rfl, rfl, hver, fun hc => by simp at hc⟩
    · rw [h]
      refine ⟨_, _, ⟨spec, prep k.1 k.2 spec, s.calls, v, sys⟩, ?_, by simp, rfl, rfl, rfl,
        fun _ => ⟨rfl, rfl, rfl⟩⟩
      cases c <;> rfl
  obtain ⟨r, n, e, hout, hfind, hr, hn, hver, hp⟩ := h0
  -- carried through the quiet operations
  have hkeep : ∀ (t : List (Op σ)) (s1 : State σ ρ), (∀ op ∈ t, Quiet k v op) →
      find? s1.cache k = some e → find? (run prep s1 t).cache k = some e := by
    intro t
    induction t with
    | nil => intro s1 _ h; exact h
    | cons op t ih =>
      intro s1 hq1 h
      exact ih _ (fun o ho => hq1 o (List.mem_cons_of_mem _ ho))
        (quiet_step prep s1 k v e op (hq1 op List.mem_cons_self) h hver)
  have hfin := hkeep later _ hq hfind
  generalize run prep (step prep s (.offer k (some v) spec sys c)).1 later = S at hfin ⊢
  refine ⟨r, n, e, hout, ?_, ?_, hr, hn, hver, hp⟩
  · simp [step, hfin, hr, hn]
  · simp [step, hfin]

/-- lookups never change the cache and agree with each other -/
theorem lookups_are_pure (s : State σ ρ) (k : Key) :
    (step prep s (.lookup k)).1 = s ∧ (step prep s (.systemData k)).1 = s ∧
    (step prep s (.lookup k)).2 = .found ((find? s.cache k).map fun e => (e.resource, e.serial)) ∧
    (step prep s (.systemData k)).2 = .entry (find? s.cache k) := ⟨rfl, rfl, rfl, rfl⟩

/-! ## deleting -/

/-- Deleting by name (no version, or the cached version) removes the entry: both lookups answer
    "nothing" afterwards, every other key is untouched, no preparer runs. -/
theorem delete_removes (s : State σ ρ) (k : Key) (version : Option String)
    (h : version = none ∨ ∃ e, find? s.cache k = some e ∧ version = some e.version) :
    let s' := (step prep s (.delete k version)).1
    find? s'.cache k = none ∧ (step prep s' (.lookup k)).2 = .found none ∧
    (step prep s' (.systemData k)).2 = .entry none ∧ s'.calls = s.calls ∧
    ∀ k', k' ≠ k → find? s'.cache k' = find? s.cache k' := by
  have key : find? (step prep s (.delete k version)).1.cache k = none ∧
      (step prep s (.delete k version)).1.calls = s.calls ∧
      ∀ k', k' ≠ k → find? (step prep s (.delete k version)).1.cache k' = find? s.cache k' := by
    simp only [step]
    cases hf : find? s.cache k with
    | none => exact ⟨hf, rfl, fun _ _ => rfl⟩
    | some e =>
      have hcond : (truthy version && decide (version.getD "" ≠ e.version)) = false := by
        rcases h with rfl | ⟨e', he', rfl⟩
        · simp [truthy]
        · rw [hf] at he'; cases he'; simp
      simp only [hcond]
      refine ⟨by simp, rfl, ?_⟩
      intro k' hk'
      simp only [Bool.false_eq_true, if_false, find_del]
      exact if_neg (Ne.symm hk')
  obtain ⟨h1, h2, h3⟩ := key
  intro s'
  have h1' : find? s'.cache k = none := h1
  refine ⟨h1, ?_, ?_, h2, h3⟩
  · show (step prep s' (.lookup k)).2 = _
    simp only [step, h1']; rfl
  · show (step prep s' (.systemData k)).2 = _
    simp only [step, h1']

/-- The metadata-driven entry point `delete_resource_from_cache` deletes by NAME: whatever
    resourceVersion the delete's metadata carries (a Kubernetes DELETED event carries a newer one than
    the cached), it does exactly what the unversioned `delete_from_cache` does. -/
theorem delete_by_metadata_removes (s : State σ ρ) (k : Key) (version : Option String)
    (h : validMeta k version = true) :
    step prep s (.deleteMeta k version) = step prep s (.delete k none) ∧
    find? (step prep s (.deleteMeta k version)).1.cache k = none := by
  have e1 : step prep s (.deleteMeta k version) = step prep s (.delete k none) := by
    simp only [step, h, if_true]
    cases find? s.cache k with
    | none => rfl
    | some e => simp [truthy]
  exact ⟨e1, by rw [e1]; exact (delete_removes prep s k none (.inl rfl)).1⟩

/-- delete metadata without a name or a resourceVersion is rejected by `_extract_meta`; nothing changes -/
theorem malformed_delete_rejected (s : State σ ρ) (k : Key) (version : Option String)
    (h : validMeta k version = false) : step prep s (.deleteMeta k version) = (s, .typeError) := by
  simp [step, h]

/-- A delete that names a stale version (non-empty, different from the cached one) leaves the newer
    entry — and everything else — untouched. -/
theorem stale_delete_keeps_newer (s : State σ ρ) (k : Key) (w : String) (e : Entry σ ρ)
    (hc : find? s.cache k = some e) (hw : w ≠ "") (hstale : w ≠ e.version) :
    step prep s (.delete k (some w)) = (s, .unit) := by
  simp [step, hc, truthy, hw, hstale]

/-- The corner of `if version and …`: an empty-string version is falsy, so such a delete is
    unconditional — it removes whatever version is cached.  (This is what the code does; the property
    speaks of "a delete that names a stale version", and `""` names none.) -/
theorem empty_version_delete_is_unconditional (s : State σ ρ) (k : Key) :
    step prep s (.delete k (some "")) = step prep s (.delete k none) := by
  simp only [step]
  cases find? s.cache k with
  | none => rfl
  | some e => simp [truthy]

/-- deleting what is not cached does nothing -/
theorem delete_absent_noop (s : State σ ρ) (k : Key) (version : Option String)
    (h : find? s.cache k = none) : step prep s (.delete k version) = (s, .unit) := by
  simp [step, h]

/-! ## frame: names and kinds do not interfere -/

theorem other_keys_untouched (s : State σ ρ) (op : Op σ) (k' : Key)
    (h : match op with
      | .offer k _ _ _ _ => k ≠ k'
      | .delete k _ => k ≠ k'
      | .deleteMeta k _ => k ≠ k'
      | _ => True) :
    find? (step prep s op).1.cache k' = find? s.cache k' := by
  cases op with
  | offer k version spec sys c =>
    have hk : k ≠ k' := h
    rcases step_offer_cases prep s k version spec sys c with ⟨_, e⟩ | ⟨_, _, _, _, e⟩ | ⟨_, _, e⟩
    · rw [e]
    · rw [e]
    · rw [e]; simp [hk]
  | delete k version =>
    simp only [step]
    cases find? s.cache k with
    | none => rfl
    | some e =>
      simp only []
      split
      · rfl
      · simp [show k ≠ k' from h]
  | deleteMeta k version =>
    simp only [step]
    split
    · cases find? s.cache k with
      | none => rfl
      | some e => simp [show k ≠ k' from h]
    · rfl
  | lookup k => rfl
  | systemData k => rfl
  | elapse n => rfl

/-! ## identity: serials of cached entries are distinct, so "same serial" is "same object" -/

/-- after any history every cached entry carries the serial of an earlier preparer call, and two
    different keys never share one -/
theorem serials_identify (ops : List (Op σ)) :
    let s := run prep (init : State σ ρ) ops
    (∀ k e, find? s.cache k = some e → e.serial < s.calls) ∧
    (∀ k k' e e', find? s.cache k = some e → find? s.cache k' = some e' → e.serial = e'.serial → k = k') := by
  have inv : ∀ (ops : List (Op σ)) (s : State σ ρ),
      ((∀ k e, find? s.cache k = some e → e.serial < s.calls) ∧
       (∀ k k' e e', find? s.cache k = some e → find? s.cache k' = some e' → e.serial = e'.serial → k = k')) →
      ((∀ k e, find? (run prep s ops).cache k = some e → e.serial < (run prep s ops).calls) ∧
       (∀ k k' e e', find? (run prep s ops).cache k = some e → find? (run prep s ops).cache k' = some e' →
          e.serial = e'.serial → k = k')) := by
    intro ops
    induction ops with
    | nil => intro s h; exact h
    | cons op ops ih =>
      intro s ⟨h1, h2⟩
      apply ih
      -- a step either leaves the cache alone, deletes a key, or stores a fresh serial `s.calls`
      have fresh : ∀ (k : Key) (ne : Entry σ ρ), ne.serial = s.calls →
          ((∀ k0 e, find? (set s.cache k ne) k0 = some e → e.serial < s.calls + 1) ∧
           (∀ k0 k0' e e', find? (set s.cache k ne) k0 = some e → find? (set s.cache k ne) k0' = some e' →
              e.serial = e'.serial → k0 = k0')) := by
        intro k ne hne
        constructor
        · intro k0 e he
          rw [find_set] at he
          split at he
          · cases he; omega
          · have := h1 k0 e he; omega
        · intro k0 k0' e e' he he' hs
          rw [find_set] at he he'
          split at he <;> split at he'
          · rename_i a b; exact a.symm.trans b
          · cases he; have := h1 k0' e' he'; omega
          · cases he'; have := h1 k0 e he; omega
          · exact h2 k0 k0' e e' he he' hs
      have gone : ∀ (k : Key),
          ((∀ k0 e, find? (del s.cache k) k0 = some e → e.serial < s.calls) ∧
           (∀ k0 k0' e e', find? (del s.cache k) k0 = some e → find? (del s.cache k) k0' = some e' →
              e.serial = e'.serial → k0 = k0')) := by
        intro k
        constructor
        · intro k0 e he
          rw [find_del] at he
          split at he
          · cases he
          · exact h1 k0 e he
        · intro k0 k0' e e' he he' hs
          rw [find_del] at he he'
          split at he
          · cases he
          · split at he'
            · cases he'
            · exact h2 k0 k0' e e' he he' hs
      cases op with
      | offer k version spec sys c =>
        rcases step_offer_cases prep s k version spec sys c with ⟨_, e⟩ | ⟨_, _, _, _, e⟩ | ⟨_, _, e⟩
        · rw [e]; exact ⟨h1, h2⟩
        · rw [e]; exact ⟨h1, h2⟩
        · rw [e]; exact fresh k _ rfl
      | deleteMeta k version =>
        simp only [step]
        split
        · cases hf : find? s.cache k with
          | none => exact ⟨h1, h2⟩
          | some e0 => exact gone k
        · exact ⟨h1, h2⟩
      | delete k version =>
        simp only [step]
        cases hf : find? s.cache k with
        | none => exact ⟨h1, h2⟩
        | some e0 =>
          simp only []
          split
          · exact ⟨h1, h2⟩
          · constructor
            · intro k0 e he
              rw [find_del] at he
              split at he
              · cases he
              · exact h1 k0 e he
            · intro k0 k0' e e' he he' hs
              rw [find_del] at he he'
              split at he
              · cases he
              · split at he'
                · cases he'
                · exact h2 k0 k0' e e' he he' hs
      | lookup k => exact ⟨h1, h2⟩
      | systemData k => exact ⟨h1, h2⟩
      | elapse n => exact ⟨h1, h2⟩
  intro s
  exact inv ops init ⟨by intro k e h; simp [init, find?] at h, by intro k k' e e' h; simp [init, find?] at h⟩

/-! ## the hypotheses are satisfiable: a concrete history -/

/-- a preparer that fails on odd specs -/
def demoPrep : Nat → String → Nat → PrepResult (String × Nat) :=
  fun _ name spec => if spec % 2 = 1 then .failed (name, spec) else .ok (name, spec)

/-- versions going back and forth, a failing preparation, a stale delete, a delete, a re-offer of an
    old version: prepared exactly when the version differs from the cached one -/
example :
    (outs demoPrep init
      [.offer (0, "a") (some "1") 10 none false, .offer (0, "a") (some "1") 12 none false,
       .offer (0, "a") (some "2") 13 none true, .lookup (0, "a"), .offer (1, "a") (some "2") 20 none false,
       .offer (0, "a") (some "1") 14 none false, .delete (0, "a") (some "2"), .lookup (0, "a"),
       .delete (0, "a") (some ""), .lookup (0, "a"), .offer (0, "a") (some "1") 16 none false,
       .offer (0, "a") none 18 none false, .lookup (1, "a"), .deleteMeta (1, "a") (some "9"),
       .lookup (1, "a")]).map
      (fun o => match o with
        | .returned _ n p => (n, p)
        | .raisedCycle _ n => (n, true)
        | .found (some (_, n)) => (n, false)
        | _ => (99, false)) =
    [(0, true), (0, false), (1, true), (1, false), (2, true), (3, true), (99, false), (3, false),
     (99, false), (99, false), (4, true), (99, false), (2, false), (99, false), (99, false)] := by decide

example : Quiet (σ := Nat) (0, "a") "1" (.delete (0, "a") (some "2")) := .inr ⟨"2", rfl, by decide, by decide⟩

example : Quiet (σ := Nat) (0, "a") "1" (.elapse 86400) := trivial

/-- a failed preparation is served for its version after a day as after a second -/
example :
    (outs demoPrep init
      [.offer (0, "a") (some "1") 11 none false, .elapse 1, .offer (0, "a") (some "1") 11 none false,
       .elapse 86400, .offer (0, "a") (some "1") 13 none false, .lookup (0, "a")]).map
      (fun o => match o with
        | .returned _ n p => (n, p)
        | .found (some (_, n)) => (n, false)
        | _ => (99, false)) =
    [(0, true), (99, false), (0, false), (99, false), (0, false), (0, false)] := by decide

end Koreo.C15
