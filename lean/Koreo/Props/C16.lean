import Koreo.HotReload
namespace Koreo.C16
open Koreo.HotReload
theorem placeholder : (init : State Nat).clock = 0 := rfl
end Koreo.C16
