/-
  C16 — Hot reload is coherent: dependents are re-prepared after every change.
  Property theorems only; the inductive invariant and its preservation lemmas are in
  `Koreo/Lemmas/HotReload.lean`, the transition system in `Koreo/HotReload.lean`.

  Quantification: every universe of resources `R` (any size), every rank function (i.e. every
  acyclic declaration of dependencies), every finite history of offers / deletes / monitor
  steps in any interleaving (`Reachable`).
-/
import Koreo.Lemmas.HotReload
import Koreo.Lemmas.HotReloadLive
import Koreo.Gen.CacheFacts

namespace Koreo.C16
open Koreo.HotReload
variable {R : Type} [DecidableEq R]

/-- The atomicity facts the transition system relies on (offers, deletes and re-preparations do
    not suspend; the registry never awaits; the monitor awaits only its queue and the
    re-preparation; the drop rule is `event_time <= own prepare start`; `_handle_notifications`
    sets the prepare time, replaces subscriptions, notifies, then starts the monitor) are
    re-read from the current cache.py / registry.py on every run. -/
theorem atomicity_facts_hold : Koreo.Gen.CacheFacts.allHold = true := by decide

/-- reachable by some interleaving of operations and monitor steps whose declared dependencies
    respect `rank` -/
def Reachable (rank : R → Nat) (s : State R) : Prop :=
  ∃ acts : List (Action R), (∀ a ∈ acts, Ranked rank a) ∧ s = run init acts

theorem reachable_inv {rank : R → Nat} {s : State R} (h : Reachable rank s) : Inv rank s := by
  obtain ⟨acts, ha, rfl⟩ := h
  exact inv_run acts (inv_init rank) ha

/-- **Coherence.**  Once the system is idle, each cached entry was built from the current
    state of everything it depends on — for any timing of offers, deletes and monitor steps. -/
theorem coherent_when_idle {rank : R → Nat} {s : State R} (h : Reachable rank s) (hi : Idle s) :
    Coherent s := by
  have inv := reachable_inv h
  intro r e hc d hd
  rcases inv.fresh r e hc d hd with h1 | ⟨q, hq, t, ht, _⟩
  · exact h1
  · -- a pending event contradicts idleness: the entry has dependencies, so it has a monitor
    have hne : e.deps ≠ [] := fun h0 => by rw [h0] at hd; cases hd
    have hmon := inv.watched r e hc hne
    have ⟨hns, hw⟩ := hi r
    have : s.mon r = .waiting := by
      cases hm : s.mon r with
      | none => exact absurd hm hmon
      | starting => exact absurd hm hns
      | waiting => rfl
    rw [hw this] at hq; cases hq; cases ht

/-- coherence is transitive by construction: the entry of a dependency is itself coherent, so an
    idle system is consistent along every dependency path -/
theorem coherent_along_paths {rank : R → Nat} {s : State R} (h : Reachable rank s) (hi : Idle s)
    (r d : R) (e ed : Entry R) (hc : s.cache r = some e) (hd : d ∈ e.deps)
    (hcd : s.cache d = some ed) : e.seen d = s.gen d ∧ ∀ d' ∈ ed.deps, ed.seen d' = s.gen d' :=
  ⟨coherent_when_idle h hi r e hc d hd, fun d' hd' => coherent_when_idle h hi d ed hcd d' hd'⟩

/-- a change that is not yet reflected is always on its way: between idle points every stale
    dependency of a cached entry has an unprocessed event newer than the entry's preparation -/
theorem stale_implies_pending {rank : R → Nat} {s : State R} (h : Reachable rank s)
    (r : R) (e : Entry R) (hc : s.cache r = some e) (d : R) (hd : d ∈ e.deps)
    (hstale : e.seen d ≠ s.gen d) : Pending s r ∧ s.mon r ≠ .none := by
  have inv := reachable_inv h
  refine ⟨(inv.fresh r e hc d hd).resolve_left hstale, ?_⟩
  exact inv.watched r e hc (fun h0 => by rw [h0] at hd; cases hd)

/-- **A deleted resource leaves no watcher behind**: no subscriptions, no registry queue, no
    monitor — in every reachable state, not only at idle points. -/
theorem deleted_leaves_no_watcher {rank : R → Nat} {s : State R} (h : Reachable rank s) (r : R)
    (hc : s.cache r = none) : s.subs r = [] ∧ s.queue r = none ∧ s.mon r = .none := by
  obtain ⟨a, b, c⟩ := (reachable_inv h).uncached r hc
  exact ⟨a, c, b⟩

/-- an unversioned (or matching-version) delete does uncache -/
theorem delete_uncaches (s : State R) (r : R) : (delete s r none).cache r = none := by
  cases hc : s.cache r with
  | none => simp [delete, hc]
  | some e => rw [delete_eq hc rfl]; simp [deleteState]

/-- a delete that names a stale version changes nothing -/
theorem stale_delete_noop (s : State R) (r : R) (e : Entry R) (v : Nat) (hc : s.cache r = some e)
    (hv : v ≠ e.version) : delete s r (some v) = s := by
  simp [delete, hc, staleVersion, hv]

/-- **A (re-)offered resource is watched again**: every cached entry is subscribed to exactly
    its declared dependencies, has a registry queue and, if it has dependencies, a monitor —
    in every reachable state, in particular straight after delete-then-offer. -/
theorem cached_is_watched {rank : R → Nat} {s : State R} (h : Reachable rank s) (r : R)
    (e : Entry R) (hc : s.cache r = some e) :
    s.subs r = e.deps ∧ (s.queue r).isSome = true ∧ (e.deps ≠ [] → s.mon r ≠ .none) := by
  have inv := reachable_inv h
  exact ⟨(inv.cached r e hc).1, (inv.cached r e hc).2, inv.watched r e hc⟩

/-- offering a version that is not the cached one always (re)prepares: the new entry carries the
    offered version and dependencies and was built from the current generations -/
theorem offer_new_version_prepares (s : State R) (r : R) (v : Nat) (deps : List R)
    (hnew : ∀ e, s.cache r = some e → e.version ≠ v) :
    ∃ e, (offer s r v deps).cache r = some e ∧ e.version = v ∧ e.deps = deps ∧
      (offer s r v deps).gen r = s.gen r + 1 := by
  have : offer s r v deps = offerNew s r v deps := by
    unfold offer
    cases hc : s.cache r with
    | none => rfl
    | some e => simp [hnew e hc]
  rw [this, offerNew_eq, handle_eq]
  have hg : (register (tick s) r).gen = s.gen := by
    unfold register; split <;> rfl
  exact ⟨{ version := v, deps := deps, seen := (register (tick s) r).gen }, by simp [commitState],
    rfl, rfl, by simp [commitState, hg]⟩

/-- offering the cached version again is a no-op (nothing is prepared, nobody is notified) -/
theorem offer_same_version_noop (s : State R) (r : R) (e : Entry R) (deps : List R)
    (hc : s.cache r = some e) : offer s r e.version deps = s := by
  simp [offer, hc]

/-- **Latest offer wins, whatever the monitors do** (the cache's C15 clause in the presence of
    background re-preparation): in every state reached by any interleaving of offers, deletes
    and monitor steps, the version and declared dependencies the cache shows for each resource
    are exactly those of the last effective offer (`track` is a plain map that follows offers
    and deletes and ignores monitor steps) — a re-preparation never resurrects an older version
    or spec, and never brings a deleted entry back. No rank hypothesis is needed. -/
theorem cache_shows_last_offer (acts : List (Action R)) :
    view (run (init : State R) acts) = acts.foldl track (fun _ => none) := by
  rw [view_run]; rfl

/-- in particular a monitor step never changes what is cached for whom -/
theorem monitor_step_keeps_versions (s : State R) (r : R) : view (bg s r) = view s := view_bg s r

/-- the subscription graph always respects the rank, so it is acyclic and the registry's cycle
    check (C17) never refuses a subscription issued by the cache -/
theorem subscriptions_ranked {rank : R → Nat} {s : State R} (h : Reachable rank s) :
    ∀ x, ∀ d ∈ s.subs x, rank d < rank x := (reachable_inv h).ranked

/-- **Idleness is attainable** (so the premise of `coherent_when_idle` is not vacuous): from every
    reachable state, letting each monitor run once, in rank order, reaches an idle — hence
    coherent — reachable state without any further operation. -/
theorem eventually_idle {rank : R → Nat} {s : State R} (h : Reachable rank s) :
    ∃ rs : List R, Idle (run s (rs.map Action.bg)) ∧ Reachable rank (run s (rs.map Action.bg)) ∧
      Coherent (run s (rs.map Action.bg)) := by
  obtain ⟨acts, ha, rfl⟩ := h
  let le : R → R → Bool := fun a b => decide (rank a ≤ rank b)
  let rs := (offered acts).mergeSort le
  have hsorted : rs.Pairwise (fun a b => rank a ≤ rank b) := by
    have := List.pairwise_mergeSort (le := le)
      (fun a b c hab hbc => by simp only [le, decide_eq_true_eq] at *; omega)
      (fun a b => by simp only [le, Bool.or_eq_true, decide_eq_true_eq]; omega) (offered acts)
    exact this.imp (fun hab => by simpa [le] using hab)
  have hcover : ∀ x, x ∈ rs ∨ (run init acts).mon x = .none ∨
      (Quiet (run init acts) x ∧ ∀ y ∈ rs, ¬ rank y < rank x) := by
    intro x
    by_cases hm : (run init acts).mon x = .none
    · exact Or.inr (Or.inl hm)
    · rcases mon_only_offered acts init x hm with h0 | h0
      · exact absurd rfl h0
      · exact Or.inl (List.mem_mergeSort.2 h0)
  have hreach : Reachable rank (run (run init acts) (rs.map Action.bg)) := by
    refine ⟨acts ++ rs.map Action.bg, ?_, by simp [run, List.foldl_append]⟩
    intro a hmem
    rcases List.mem_append.1 hmem with h1 | h1
    · exact ha a h1
    · obtain ⟨r, _, rfl⟩ := List.mem_map.1 h1; trivial
  have hidle := settle_aux rs (inv_run acts (inv_init rank) ha) hsorted hcover
  exact ⟨rs, hidle, hreach, coherent_when_idle hreach hidle⟩

/-! ## non-vacuity: a concrete history (delete, then offer again at once) reaches a non-trivial
    state; one monitor step later the system is idle, and it is coherent -/

def demoRank : Nat → Nat := id

def demoActs : List (Action Nat) :=
  [.offer 0 1 [], .offer 1 1 [0], .bg 1, .delete 1 none, .offer 1 2 [0], .offer 0 2 [], .bg 1]

example : ∀ a ∈ demoActs, Ranked demoRank a := by
  intro a ha
  simp only [demoActs, List.mem_cons, List.mem_nil_iff, or_false] at ha
  rcases ha with rfl | rfl | rfl | rfl | rfl | rfl | rfl <;> simp [Ranked, demoRank]

/-- before the last monitor step entry 1 is stale (built from generation 1 of resource 0, which is
    at generation 2) and has a pending event; after it the entry is current and the system idle -/
example : ((run init (demoActs.take 6)).cache 1).map (fun e => e.seen 0) = some 1 ∧
    (run init (demoActs.take 6)).gen 0 = 2 ∧
    (run init (demoActs.take 6)).queue 1 = some [11] ∧
    ((run init demoActs).cache 1).map (fun e => e.seen 0) = some 2 ∧
    (run init demoActs).queue 1 = some [] ∧ (run init demoActs).mon 1 = .waiting := by
  decide

end Koreo.C16
