/-
  C16 — Hot reload is coherent: dependents are re-prepared after every change.
  Property theorems only; the inductive invariant and its preservation lemmas are in
  `Koreo/Lemmas/HotReload.lean`, the transition system in `Koreo/HotReload.lean`.

  Quantification: every universe of resources `R` (any size), every rank function (i.e. every
  acyclic declaration of dependencies), every finite history of offers / deletes / monitor
  steps in any interleaving (`Reachable`).
-/
import Koreo.Lemmas.HotReload
import Koreo.Lemmas.HotReloadLive
import Koreo.Lemmas.HotReloadRegistry
import Koreo.Gen.CacheFacts

namespace Koreo.C16
open Koreo.HotReload
variable {R : Type} [DecidableEq R] {Spec : Type}

/-- The atomicity facts the transition system relies on (offers, deletes and re-preparations do
    not suspend; the registry never awaits; the monitor awaits only its queue and the
    re-preparation; the drop rule is `event_time <= own prepare start`; `_handle_notifications`
    sets the prepare time, replaces subscriptions, notifies, then starts the monitor) are
    re-read from the current cache.py / registry.py on every run. -/
theorem atomicity_facts_hold : Koreo.Gen.CacheFacts.allHold = true := by decide

/-- reachable by some interleaving of operations and monitor steps; whatever the preparer `decl`
    may declare for an offered spec (it may look at which resources are cached) respects `rank` -/
def Reachable (decl : Spec → (R → Bool) → List R) (rank : R → Nat) (s : State R Spec) : Prop :=
  ∃ acts : List (Action R Spec), (∀ a ∈ acts, Ranked decl rank a) ∧ s = run decl init acts

theorem reachable_inv {decl : Spec → (R → Bool) → List R} {rank : R → Nat} {s : State R Spec}
    (h : Reachable decl rank s) : Inv decl rank s := by
  obtain ⟨acts, ha, rfl⟩ := h
  exact inv_run acts (inv_init decl rank) ha

/-- **Coherence.**  Once the system is idle, each cached entry was built from the current
    state of everything it depends on — for any timing of offers, deletes and monitor steps. -/
theorem coherent_when_idle {decl : Spec → (R → Bool) → List R} {rank : R → Nat} {s : State R Spec}
    (h : Reachable decl rank s) (hi : Idle s) : Coherent s := by
  have inv := reachable_inv h
  intro r e hc d hd
  rcases inv.fresh r e hc d hd with h1 | ⟨q, hq, t, ht, _⟩
  · exact h1
  · -- a pending event contradicts idleness: the entry has dependencies, so it has a monitor
    have hne : e.deps ≠ [] := fun h0 => by rw [h0] at hd; cases hd
    have hmon := inv.watched r e hc hne
    have ⟨hns, hw⟩ := hi r
    have : s.mon r = .waiting := by
      cases hm : s.mon r with
      | none => exact absurd hm hmon
      | starting => exact absurd hm hns
      | waiting => rfl
    rw [hw this] at hq; cases hq; cases ht

/-- coherence is transitive by construction: the entry of a dependency is itself coherent, so an
    idle system is consistent along every dependency path -/
theorem coherent_along_paths {decl : Spec → (R → Bool) → List R} {rank : R → Nat} {s : State R Spec}
    (h : Reachable decl rank s) (hi : Idle s)
    (r d : R) (e ed : Entry R Spec) (hc : s.cache r = some e) (hd : d ∈ e.deps)
    (hcd : s.cache d = some ed) : e.seen d = s.gen d ∧ ∀ d' ∈ ed.deps, ed.seen d' = s.gen d' :=
  ⟨coherent_when_idle h hi r e hc d hd, fun d' hd' => coherent_when_idle h hi d ed hcd d' hd'⟩

/-- a change that is not yet reflected is always on its way: between idle points every stale
    dependency of a cached entry has an unprocessed event newer than the entry's preparation -/
theorem stale_implies_pending {decl : Spec → (R → Bool) → List R} {rank : R → Nat} {s : State R Spec}
    (h : Reachable decl rank s) (r : R) (e : Entry R Spec) (hc : s.cache r = some e) (d : R) (hd : d ∈ e.deps)
    (hstale : e.seen d ≠ s.gen d) : Pending s r ∧ s.mon r ≠ .none := by
  have inv := reachable_inv h
  refine ⟨(inv.fresh r e hc d hd).resolve_left hstale, ?_⟩
  exact inv.watched r e hc (fun h0 => by rw [h0] at hd; cases hd)

/-- **A deleted resource leaves no watcher behind**: no subscriptions, no registry queue, no
    monitor — in every reachable state, not only at idle points. -/
theorem deleted_leaves_no_watcher {decl : Spec → (R → Bool) → List R} {rank : R → Nat} {s : State R Spec}
    (h : Reachable decl rank s) (r : R)
    (hc : s.cache r = none) : s.subs r = [] ∧ s.queue r = none ∧ s.mon r = .none := by
  obtain ⟨a, b, c⟩ := (reachable_inv h).uncached r hc
  exact ⟨a, c, b⟩

/-- an unversioned (or matching-version) delete does uncache -/
theorem delete_uncaches (s : State R Spec) (r : R) : (delete s r none).cache r = none := by
  cases hc : s.cache r with
  | none => simp [delete, hc]
  | some e => rw [delete_eq hc rfl]; simp [deleteState]

/-- a delete that names a stale version changes nothing -/
theorem stale_delete_noop (s : State R Spec) (r : R) (e : Entry R Spec) (v : Nat) (hc : s.cache r = some e)
    (hv : v ≠ e.version) : delete s r (some v) = s := by
  simp [delete, hc, staleVersion, hv]

/-- **A (re-)offered resource is watched again**: every cached entry is subscribed to exactly
    its declared dependencies, has a registry queue and, if it has dependencies, a monitor —
    in every reachable state, in particular straight after delete-then-offer. -/
theorem cached_is_watched {decl : Spec → (R → Bool) → List R} {rank : R → Nat} {s : State R Spec}
    (h : Reachable decl rank s) (r : R)
    (e : Entry R Spec) (hc : s.cache r = some e) :
    s.subs r = e.deps ∧ (s.queue r).isSome = true ∧ (e.deps ≠ [] → s.mon r ≠ .none) := by
  have inv := reachable_inv h
  exact ⟨(inv.cached r e hc).1, (inv.cached r e hc).2, inv.watched r e hc⟩

/-- offering a version that is not the cached one always (re)prepares: the new entry carries the
    offered version and spec, declares what the preparer says for the cache as it is then, and was
    built from the current generations -/
theorem offer_new_version_prepares (decl : Spec → (R → Bool) → List R) (s : State R Spec) (r : R) (v : Nat)
    (spec : Spec) (hnew : ∀ e, s.cache r = some e → e.version ≠ v) :
    ∃ e, (offer decl s r v spec).cache r = some e ∧ e.version = v ∧ e.spec = spec ∧
      e.deps = decl spec (cachedB s) ∧ (offer decl s r v spec).subs r = e.deps ∧
      (offer decl s r v spec).gen r = s.gen r + 1 := by
  have : offer decl s r v spec = offerNew decl s r v spec := by
    unfold offer
    cases hc : s.cache r with
    | none => rfl
    | some e => simp [hnew e hc]
  rw [this, offerNew_eq, handle_eq]
  have hg : (register (tick s) r).gen = s.gen := by
    unfold register; split <;> rfl
  have hcb : cachedB (register (tick s) r) = cachedB s := by
    unfold cachedB; rw [register_cache]; rfl
  exact ⟨{ version := v, spec := spec, deps := decl spec (cachedB (register (tick s) r)),
           seen := (register (tick s) r).gen }, by simp [commitState],
    rfl, rfl, by rw [hcb], by simp [commitState], by simp [commitState, hg]⟩

/-- offering the cached version again is a no-op (nothing is prepared, nobody is notified) -/
theorem offer_same_version_noop (decl : Spec → (R → Bool) → List R) (s : State R Spec) (r : R)
    (e : Entry R Spec) (spec : Spec) (hc : s.cache r = some e) : offer decl s r e.version spec = s := by
  simp [offer, hc]

/-- **A background re-preparation re-declares.**  The preparer runs again on the cached spec and
    may declare other dependencies than last time (it looks at which resources are cached now);
    the entry records the new declaration and the resource follows exactly that from then on —
    while version and spec stay those of the last offer.  (`cached_is_watched` then says the
    subscription graph always equals the latest declarations.) -/
theorem reprepare_redeclares (decl : Spec → (R → Bool) → List R) (s : State R Spec) (r : R)
    (e : Entry R Spec) (hc : s.cache r = some e) :
    ∃ e', (reprepare decl s r).cache r = some e' ∧ e'.version = e.version ∧ e'.spec = e.spec ∧
      e'.deps = decl e.spec (cachedB s) ∧ (reprepare decl s r).subs r = e'.deps ∧
      e'.seen = s.gen ∧ (reprepare decl s r).gen r = s.gen r + 1 := by
  rw [reprepare_eq hc, handle_eq]
  exact ⟨{ version := e.version, spec := e.spec, deps := decl e.spec (cachedB (tick s)),
           seen := (tick s).gen }, by simp [commitState], rfl, rfl, rfl, by simp [commitState], rfl,
    by simp [commitState, tick]⟩

/-- **Latest offer wins, whatever the monitors do** (the cache's C15 clause in the presence of
    background re-preparation): in every state reached by any interleaving of offers, deletes
    and monitor steps, the version and spec the cache shows for each resource are exactly those
    of the last effective offer (`track` is a plain map that follows offers and deletes and
    ignores monitor steps) — a re-preparation never resurrects an older version or spec, and
    never brings a deleted entry back. No rank hypothesis is needed. -/
theorem cache_shows_last_offer (decl : Spec → (R → Bool) → List R) (acts : List (Action R Spec)) :
    view (run decl (init : State R Spec) acts) = acts.foldl track (fun _ => none) := by
  rw [view_run]; rfl

/-- in particular a monitor step never changes what is cached for whom -/
theorem monitor_step_keeps_versions (decl : Spec → (R → Bool) → List R) (s : State R Spec) (r : R) :
    view (bg decl s r) = view s := view_bg decl s r

/-- the subscription graph always respects the rank, so it is acyclic and the registry's cycle
    check (C17) never refuses a subscription issued by the cache -/
theorem subscriptions_ranked {decl : Spec → (R → Bool) → List R} {rank : R → Nat} {s : State R Spec}
    (h : Reachable decl rank s) :
    ∀ x, ∀ d ∈ s.subs x, rank d < rank x := (reachable_inv h).ranked

/-- **Idleness is attainable** (so the premise of `coherent_when_idle` is not vacuous): from every
    reachable state, letting each monitor run once, in rank order, reaches an idle — hence
    coherent — reachable state without any further operation. -/
theorem eventually_idle {decl : Spec → (R → Bool) → List R} {rank : R → Nat} {s : State R Spec}
    (h : Reachable decl rank s) :
    ∃ rs : List R, Idle (run decl s (rs.map Action.bg)) ∧
      Reachable decl rank (run decl s (rs.map Action.bg)) ∧
      Coherent (run decl s (rs.map Action.bg)) := by
  obtain ⟨acts, ha, rfl⟩ := h
  let le : R → R → Bool := fun a b => decide (rank a ≤ rank b)
  let rs := (offered acts).mergeSort le
  have hsorted : rs.Pairwise (fun a b => rank a ≤ rank b) := by
    have := List.pairwise_mergeSort (le := le)
      (fun a b c hab hbc => by simp only [le, decide_eq_true_eq] at *; omega)
      (fun a b => by simp only [le, Bool.or_eq_true, decide_eq_true_eq]; omega) (offered acts)
    exact this.imp (fun hab => by simpa [le] using hab)
  have hcover : ∀ x, x ∈ rs ∨ (run decl init acts).mon x = .none ∨
      (Quiet (run decl init acts) x ∧ ∀ y ∈ rs, ¬ rank y < rank x) := by
    intro x
    by_cases hm : (run decl init acts).mon x = .none
    · exact Or.inr (Or.inl hm)
    · rcases mon_only_offered decl acts init x hm with h0 | h0
      · exact absurd rfl h0
      · exact Or.inl (List.mem_mergeSort.2 h0)
  have hreach : Reachable decl rank (run decl (run decl init acts) (rs.map Action.bg)) := by
    refine ⟨acts ++ rs.map Action.bg, ?_, by simp [run, List.foldl_append]⟩
    intro a hmem
    rcases List.mem_append.1 hmem with h1 | h1
    · exact ha a h1
    · obtain ⟨r, _, rfl⟩ := List.mem_map.1 h1; trivial
  have hidle := settle_aux rs (inv_run acts (inv_init decl rank) ha) hsorted hcover
  exact ⟨rs, hidle, hreach, coherent_when_idle hreach hidle⟩

/-! ## the registry abstraction is faithful to the C17 model of `registry.py` -/

section Link
open Koreo.HotReload.Link
variable {SpecN : Type}

/-- **C16 ↔ C17.**  The hot-reload system abstracts the registry to `subs`/`queue`.  For every
    history (any interleaving, ranked declarations, resources numbered by `Nat` as in the C17
    model) there is a state `g` of the detailed C17 registry model — reached from its initial
    state by `registry.py` operations as the cache issues them (`register`, `subscribe_only_to`,
    `notify_subscribers`, `kill_resource`, `deregister`) and by the monitors emptying their own
    queues — such that the two agree: same subscriptions, and resource by resource the same
    (open, unbounded) queue holding the same event times.  In particular `subscribe_only_to` is
    never refused on the way (`sim_setSubs`: the level-wise cycle check answers "no cycle" because
    declarations are ranked), so no `SubscriptionCycle` escapes into the cache. -/
theorem registry_view_is_c17_reachable (decl : SpecN → (Nat → Bool) → List Nat) (rank : Nat → Nat)
    (acts : List (Action Nat SpecN)) (ha : ∀ a ∈ acts, Ranked decl rank a) :
    ∃ g, RegReach g ∧ Abs g (run decl init acts) :=
  sim_run acts sim_init w_init ha

/-- hence what C17 proves of its model holds for the registry as the cache uses it: the two
    subscription indexes are inverse views of each other and duplicate-free, and the subscription
    graph is acyclic -/
theorem registry_invariants_transfer (decl : SpecN → (Nat → Bool) → List Nat) (rank : Nat → Nat)
    (acts : List (Action Nat SpecN)) (ha : ∀ a ∈ acts, Ranked decl rank a) :
    ∃ g, Abs g (run decl init acts) ∧
      (∀ a b, b ∈ g.subs a ↔ a ∈ g.subscribers b) ∧
      Koreo.Registry.Acyclic (Koreo.Registry.Edge g) ∧
      (∀ a, (g.subs a).Nodup ∧ (g.subscribers a).Nodup) := by
  obtain ⟨g, hr, habs⟩ := registry_view_is_c17_reachable decl rank acts ha
  have hg := regReach_good hr
  exact ⟨g, habs, hg.1.inv, hg.1.acyclic, fun a => ⟨hg.1.nodupSubs a, hg.1.nodupSubscribers a⟩⟩

/-- and a notification reaches exactly the subscribers that have a queue, once each: the
    deliveries the detailed delivery loop reports are those of the abstract `notify` -/
theorem notify_delivers_as_c17 {g : G} {s : State Nat SpecN} (hr : RegReach g) (h : Abs g s) (d t : Nat) :
    Abs (Koreo.Registry.step g (.notify d t)).1 (notify s d t) ∧
    ∃ ds, (Koreo.Registry.step g (.notify d t)).2 = .delivered ds ∧
      ∀ y, y ∈ ds ↔ (d ∈ s.subs y ∧ (s.queue y).isSome = true) :=
  abs_notifyWith (regReach_good hr) h d t (some t) (by intro t' e; cases e; rfl) .delivered

end Link

/-! ## non-vacuity: concrete histories over the preparer family the harness installs
    (`condDecl`: static dependencies plus dependencies declared only while another resource is
    cached) reach non-trivial states -/

/-- the harness's preparer family respects a rank as soon as the static and the conditional
    dependencies of the spec do (a failing preparation declares nothing) -/
theorem condDecl_specRanked {rank : R → Nat} {r : R} (sp : CondSpec R)
    (h1 : ∀ d ∈ sp.static, rank d < rank r) (h2 : ∀ p ∈ sp.cond, rank p.2 < rank r) :
    SpecRanked condDecl rank r sp := by
  intro c d hd
  unfold condDecl at hd
  split at hd
  · cases hd
  · rcases List.mem_append.1 hd with h | h
    · exact h1 d h
    · obtain ⟨p, hp, rfl⟩ := List.mem_map.1 h
      exact h2 p (List.mem_filter.1 hp).1

def demoRank : Nat → Nat := id

abbrev DS := CondSpec Nat
def st (l : List Nat) : DS := { static := l, cond := [] }

/-- delete, then offer again at once -/
def demoActs : List (Action Nat DS) :=
  [.offer 0 1 (st []), .offer 1 1 (st [0]), .bg 1, .delete 1 none, .offer 1 2 (st [0]),
   .offer 0 2 (st []), .bg 1]

example : ∀ a ∈ demoActs, Ranked condDecl demoRank a := by
  intro a ha
  simp only [demoActs, List.mem_cons, List.mem_nil_iff, or_false] at ha
  rcases ha with rfl | rfl | rfl | rfl | rfl | rfl | rfl <;>
    first
      | trivial
      | exact condDecl_specRanked _ (by simp [st, demoRank]) (by simp [st])

/-- before the last monitor step entry 1 is stale (built from generation 1 of resource 0, which is
    at generation 2) and has a pending event; after it the entry is current and the system idle -/
example : ((run condDecl init (demoActs.take 6)).cache 1).map (fun e => e.seen 0) = some 1 ∧
    (run condDecl init (demoActs.take 6)).gen 0 = 2 ∧
    (run condDecl init (demoActs.take 6)).queue 1 = some [11] ∧
    ((run condDecl init demoActs).cache 1).map (fun e => e.seen 0) = some 2 ∧
    (run condDecl init demoActs).queue 1 = some [] ∧ (run condDecl init demoActs).mon 1 = .waiting := by
  decide

/-- a preparer that looks at the cache (the FunctionTest shape): resource 2 follows 1 and, once 1
    is cached, 0 as well.  Offered while 1 is missing it follows `[1]`; after 1 is offered, the
    monitor re-prepares 2, which now follows `[1, 0]`; a later change of 0 reaches it. -/
def demoDyn : List (Action Nat DS) :=
  [.offer 2 1 { static := [1], cond := [(1, 0)] }, .offer 1 1 (st []), .bg 2, .offer 0 1 (st []), .bg 2]

example : ∀ a ∈ demoDyn, Ranked condDecl demoRank a := by
  intro a ha
  simp only [demoDyn, List.mem_cons, List.mem_nil_iff, or_false] at ha
  rcases ha with rfl | rfl | rfl | rfl | rfl
  · exact condDecl_specRanked _ (by simp [demoRank]) (by simp [demoRank])
  all_goals first
    | trivial
    | exact condDecl_specRanked _ (by simp [st]) (by simp [st])

example : (run condDecl init (demoDyn.take 1)).subs 2 = [1] ∧
    (run condDecl init (demoDyn.take 3)).subs 2 = [1, 0] ∧
    ((run condDecl init (demoDyn.take 4)).cache 2).map (fun e => e.seen 0) = some 0 ∧
    (run condDecl init (demoDyn.take 4)).gen 0 = 1 ∧
    ((run condDecl init demoDyn).cache 2).map (fun e => e.seen 0) = some 1 ∧
    (run condDecl init demoDyn).queue 2 = some [] := by
  decide

/-- a preparation that FAILS: resource 2 follows 1; its preparer fails while 0 is cached.  After 0
    arrives and 1 changes, the monitor re-prepares 2, the preparation fails, the failure is cached
    under the same version and 2 follows nothing any more — and its own watcher 3 is told. -/
def demoFail : List (Action Nat DS) :=
  [.offer 1 1 (st []), .offer 2 1 { static := [1], cond := [], failWhen := [0] }, .offer 3 1 (st [2]),
   .offer 0 1 (st []), .offer 1 2 (st []), .bg 2, .bg 3]

example : (run condDecl init (demoFail.take 3)).subs 2 = [1] ∧
    (run condDecl init demoFail).subs 2 = [] ∧
    ((run condDecl init demoFail).cache 2).map (fun e => e.version) = some 1 ∧
    ((run condDecl init (demoFail.take 6)).cache 3).map (fun e => e.seen 2) = some 1 ∧
    ((run condDecl init demoFail).cache 3).map (fun e => e.seen 2) = some 2 ∧
    (run condDecl init demoFail).gen 2 = 2 := by
  decide

end Koreo.C16
