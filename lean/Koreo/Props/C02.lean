/-
  C02 — Workflow result is independent of step completion order.
  Property theorems only; helper lemmas are in `Koreo/Lemmas/WorkflowAsync.lean`.
  Model: `Koreo/Workflow.lean` — `runAsync` executes a *schedule* (a list of completion events: a step,
  or one iteration of a forEach step; an event is enabled iff it has not happened and every dependency
  of its step is done) and then `collect`s in LISTED order; `reconcile` is the sequential reference.

  All theorems hold for every CEL oracle, every Function oracle (in particular `runAt`, which runs
  sub-workflows), every trigger, every well-formed workflow of any size and every schedule.

  NOT expressible in this functional model (checked by the schedule sweep of harness/c02.py only):
  aliasing between forEach iterations (the per-iteration `copy.deepcopy(inputs)`), and *where* asyncio
  collects (inside the task vs. after the task group) — the model has no shared mutable maps.
-/
import Koreo.Lemmas.WorkflowAsync
import Koreo.Lemmas.WorkflowSchedule
import Koreo.Lemmas.WorkflowNested
import Koreo.Gen.WorkflowConsts
import Koreo.Lemmas.KindLookup

namespace Koreo.C02
open Koreo Koreo.Workflow

variable (eval : EvalFn) (run : RunFn) (trig : JVal) (wf : Workflow)

/-! ## every completion order gives the sequential answer -/

/-- invariant made visible: at every point of every executable schedule (complete or not), whatever has
    finished carries exactly the value the sequential reference computes for it -/
theorem partial_schedule_agrees (hwf : wf.WF = true) (σ : List Event) {st : AState}
    (h : runEvents eval run trig wf σ {} = some st) :
    (∀ l o, lookupL l st.done = some o → lookupL l (trace eval run trig wf).results = some o) ∧
    (∀ l i o, lookupI l i st.items = some o → ItemRef eval run trig wf (trace eval run trig wf).results l i o) :=
  let inv := inv_run eval run trig wf hwf σ (inv_init eval run trig wf _) h
  ⟨inv.done_ref, inv.items_ref⟩

/-- **C02**: for EVERY valid complete completion order σ (any number of steps and items) the asynchronous
    run returns exactly the sequential reference result — per-step outcomes, overall outcome, state,
    state errors, conditions and resource ids -/
theorem schedule_independent (hwf : wf.WF = true) (σ : List Event)
    (h : ValidComplete eval run trig wf σ) :
    runAsync eval run trig wf σ = some (reconcile eval run trig wf) := by
  obtain ⟨st, hrun, hall⟩ := h
  have inv := inv_run eval run trig wf hwf σ (inv_init eval run trig wf _) hrun
  unfold runAsync reconcile
  rw [hrun]
  simp only [Option.map_some, Option.some.injEq]
  apply collect_congr
  apply listed_congr
  intro s hs
  have hd := hall s hs
  unfold isDone at hd
  cases hl : lookupL s.label st.done with
  | none => simp [hl] at hd
  | some o => rw [inv.done_ref _ _ hl]

/-- two completion orders never disagree -/
theorem any_two_schedules_agree (hwf : wf.WF = true) (σ₁ σ₂ : List Event)
    (h₁ : ValidComplete eval run trig wf σ₁) (h₂ : ValidComplete eval run trig wf σ₂) :
    runAsync eval run trig wf σ₁ = runAsync eval run trig wf σ₂ := by
  rw [schedule_independent eval run trig wf hwf σ₁ h₁, schedule_independent eval run trig wf hwf σ₂ h₂]

/-- the hypothesis is never vacuous: every well-formed workflow has a valid complete schedule — completing
    everything in listed / source order (whatever the oracles answer) -/
theorem valid_schedule_exists (hwf : wf.WF = true) :
    ValidComplete eval run trig wf (listedSchedule eval run trig wf.steps {}) :=
  listedSchedule_validComplete eval run trig wf hwf

/-- the sequential pass is one of the asynchronous runs -/
theorem sequential_is_a_schedule (hwf : wf.WF = true) :
    runAsync eval run trig wf (listedSchedule eval run trig wf.steps {}) = some (reconcile eval run trig wf) :=
  schedule_independent eval run trig wf hwf _ (valid_schedule_exists eval run trig wf hwf)

/-- the same with sub-workflows reconciled `n` levels deep (each level is itself an instance of the theorem) -/
theorem schedule_independent_subworkflows (base : RunFn) (defs : Env) (n : Nat) (hwf : wf.WF = true)
    (σ : List Event) (h : ValidComplete eval (runAt eval base defs n) trig wf σ) :
    runAsync eval (runAt eval base defs n) trig wf σ = some (reconcile eval (runAt eval base defs n) trig wf) :=
  schedule_independent eval _ trig wf hwf σ h

/-! ## what the single answer is -/

/-- per-step results are the reference results, in listed order -/
theorem steps_listed_order (hwf : wf.WF = true) :
    (reconcile eval run trig wf).steps = (trace eval run trig wf).results := by
  unfold reconcile collect
  simp only
  rw [listed_trace eval run trig wf hwf]
  have := (zip_labels wf.steps _ (trace_labels eval run trig wf)).1
  simpa using this

/-- a forEach step returns its results in SOURCE-list order whatever the completion order, iteration `j`
    having been evaluated on exactly the step's inputs plus item `j` under `inputKey` -/
theorem foreach_source_order (hwf : wf.WF = true) {s : Step} (hs : s ∈ wf.steps) {act inputs key items}
    (hg : gate eval trig (depRes (trace eval run trig wf).results s.deps) s = .each act inputs key items)
    (σ : List Event) (h : ValidComplete eval run trig wf σ) :
    ∃ r outs, runAsync eval run trig wf σ = some r ∧
      lookupL s.label r.steps = some (combineItems outs) ∧
      outs.length = items.length ∧
      (∀ j, outs[j]? = (items[j]?).map fun it =>
        (runLogic eval run s.label (some j) act (setKey key it inputs) s.logic).1) ∧
      ((∀ o ∈ outs, o.res.isErr = false) →
        (combineItems outs).res = .ok (.arr (outs.map fun o => encodeItem o.res))) := by
  refine ⟨reconcile eval run trig wf,
    (runItems eval run s.label act inputs key s.logic 0 items).map (·.1),
    schedule_independent eval run trig wf hwf σ h, ?_, ?_, ?_, ?_⟩
  · rw [steps_listed_order eval run trig wf hwf, trace_result eval run trig wf hwf hs]
    unfold stepResult; rw [hg]
  · simp [runItems_length]
  · intro j
    rw [List.getElem?_map, runItems_getElem?]
    cases items[j]? <;> simp
  · intro hne
    rw [combineItems_no_err _ hne]

/-- the merged state is the fold of the steps' published maps in LISTED order, whatever σ -/
theorem state_merge_listed_order (hwf : wf.WF = true) (σ : List Event)
    (h : ValidComplete eval run trig wf σ) (k : String) :
    ∃ r, runAsync eval run trig wf σ = some r ∧
      JVal.lookup k r.state =
        stateSpec eval k (wf.steps.zip ((trace eval run trig wf).results.map (·.2))) none := by
  refine ⟨_, schedule_independent eval run trig wf hwf σ h, ?_⟩
  unfold reconcile collect
  simp only
  rw [lookup_mergeState, listed_trace eval run trig wf hwf]
  rfl

/-- on a shared key the LATER LISTED step wins — not the one that happened to finish last -/
theorem later_listed_step_wins (hwf : wf.WF = true) (σ : List Event)
    (h : ValidComplete eval run trig wf σ) {pre post : List (Step × StepOut)} {s : Step} {o : StepOut}
    {kvs : List (String × JVal)} {k : String} {v : JVal}
    (hx : wf.steps.zip ((trace eval run trig wf).results.map (·.2)) = pre ++ (s, o) :: post)
    (hs : stateStep eval s o = .upd kvs) (hv : lastWrite k kvs none = some v)
    (hpost : ∀ x ∈ post, ∀ kvs', stateStep eval x.1 x.2 = .upd kvs' → ∀ kv ∈ kvs', kv.1 ≠ k) :
    ∃ r, runAsync eval run trig wf σ = some r ∧ JVal.lookup k r.state = some v := by
  obtain ⟨r, hr, hk⟩ := state_merge_listed_order eval run trig wf hwf σ h k
  refine ⟨r, hr, ?_⟩
  rw [hk, hx, stateSpec_append]
  simp only [stateSpec, hs]
  rw [stateSpec_untouched eval k post _ hpost, lastWrite_some, hv]

/-- the overall outcome is `unwrapped_combine` (C03 model) of the results in LISTED order, whatever σ;
    so are the conditions and the resource ids -/
theorem overall_is_combine_listed (hwf : wf.WF = true) (σ : List Event)
    (h : ValidComplete eval run trig wf σ) :
    ∃ r, runAsync eval run trig wf σ = some r ∧
      r.overall = overallOf ((trace eval run trig wf).results.map (·.2)) ∧
      r.conditions = stepConds (wf.steps.zip ((trace eval run trig wf).results.map (·.2))) ++
        [{ type := "Ready", reason := reason r.overall }] ∧
      r.resourceIds = .obj [("workflow", .str wf.name),
        ("resources", .obj ((wf.steps.zip ((trace eval run trig wf).results.map (·.2))).map
          fun x => (x.1.label, x.2.rid)))] := by
  refine ⟨_, schedule_independent eval run trig wf hwf σ h, ?_, ?_, ?_⟩
  · unfold reconcile collect
    simp only
    rw [listed_trace eval run trig wf hwf, (zip_labels wf.steps _ (trace_labels eval run trig wf)).2]
  · unfold reconcile collect
    simp only
    rw [listed_trace eval run trig wf hwf]
  · unfold reconcile collect
    simp only
    rw [listed_trace eval run trig wf hwf]

/-! ## nested schedules: inner steps of sub-workflows interleaved with outer steps

`Koreo/WorkflowNested.lean`: events are addressed by a path (`inside l idx e`: event `e` of the sub-workflow invocation
made by step `l`, for its forEach iteration `idx` if any); an inner event is enabled when the enclosing step has started
(dependencies done, gate passed, the Logic evaluated there is a sub-workflow with a definition) and the event is enabled
inside that invocation; the enclosing step / iteration completes only after all inner steps, with the inner result
collected in the inner LISTED order.  The reference is `reconcile` with `run := runAt eval base defs n`
(sub-workflows reconciled sequentially, `n` levels deep).  `defs` must hold well-formed definitions. -/

variable (base : RunFn) (defs : Env)

/-- the invariant made visible at every nesting level: after any executable nested prefix, whatever has finished
    in the top invocation carries the sequential reference value (and so, recursively, in every nested one: `NInv`) -/
theorem partial_nested_schedule_agrees (hdefs : ∀ name w, lookupL name defs = some w → w.WF = true)
    (n : Nat) (hwf : wf.WF = true) (σ : List NEvent) {st : NState}
    (h : nrunEvents eval base defs n wf trig σ .empty = some st) :
    NInv eval base defs n wf trig st ∧
    ∀ l o, lookupL l st.top.done = some o →
      lookupL l (trace eval (runAt eval base defs n) trig wf).results = some o := by
  have inv := ninv_run eval base defs hdefs n wf trig hwf σ (ninv_empty eval base defs n wf trig) h
  exact ⟨inv, inv.topInv.done_ref⟩

/-- **C02, nested**: for EVERY valid complete nested schedule — inner and outer completion events interleaved in
    any enabled order, at ANY nesting depth `n`, any number of steps / items / invocations — the asynchronous run
    returns exactly the sequential reference result -/
theorem schedule_independent_nested (hdefs : ∀ name w, lookupL name defs = some w → w.WF = true)
    (n : Nat) (hwf : wf.WF = true) (σ : List NEvent)
    (h : ValidCompleteNested eval base defs n trig wf σ) :
    runAsyncNested eval base defs n trig wf σ = some (reconcile eval (runAt eval base defs n) trig wf) := by
  obtain ⟨st, hrun, hall⟩ := h
  have inv := ninv_run eval base defs hdefs n wf trig hwf σ (ninv_empty eval base defs n wf trig) hrun
  unfold runAsyncNested reconcile
  rw [hrun]
  simp only [Option.map_some, Option.some.injEq]
  exact collect_of_complete inv.topInv hall

/-- two nested schedules never disagree, and a nested schedule never disagrees with a flat one (in which every
    sub-workflow step is atomic) -/
theorem nested_schedules_agree (hdefs : ∀ name w, lookupL name defs = some w → w.WF = true)
    (n : Nat) (hwf : wf.WF = true) (σ₁ σ₂ : List NEvent) (τ : List Event)
    (h₁ : ValidCompleteNested eval base defs n trig wf σ₁) (h₂ : ValidCompleteNested eval base defs n trig wf σ₂)
    (h₃ : ValidComplete eval (runAt eval base defs n) trig wf τ) :
    runAsyncNested eval base defs n trig wf σ₁ = runAsyncNested eval base defs n trig wf σ₂ ∧
    runAsyncNested eval base defs n trig wf σ₁ = runAsync eval (runAt eval base defs n) trig wf τ := by
  rw [schedule_independent_nested eval trig wf base defs hdefs n hwf σ₁ h₁,
    schedule_independent_nested eval trig wf base defs hdefs n hwf σ₂ h₂,
    schedule_independent eval _ trig wf hwf τ h₃]
  exact ⟨rfl, rfl⟩

/-- at depth 0 (nothing is looked inside) a nested schedule is a flat one -/
theorem nested_depth_zero (σ : List Event) (st : AState)
    (h : runEvents eval base trig wf σ {} = some st) :
    (nrunEvents eval base defs 0 wf trig (σ.map .here) .empty).map (·.top) = some st := by
  have key : ∀ (σ : List Event) (a : AState) (subs : List (Frame × NState)),
      (nrunEvents eval base defs 0 wf trig (σ.map .here) (.mk a subs)).map (·.top) =
        runEvents eval base trig wf σ a := by
    intro σ
    induction σ with
    | nil => intro a subs; rfl
    | cons e rest ih =>
      intro a subs
      simp only [List.map_cons, nrunEvents, nstep, runEvents, NState.top, NState.subs]
      cases stepEvent eval base trig wf a e with
      | none => rfl
      | some a' => exact ih a' subs
  rw [← h]; exact key σ {} []

/-! ## the model's condition table is the one the source has now -/

/-- the translator understood `_condition_helper` (one `reason` per outcome class, constant `status`) and
    found the three constants -/
theorem extraction_ok : Koreo.Gen.WorkflowConsts.extractionOk = true := by decide

/-- outcome class → condition `reason` (and the constant `status`) as regenerated from
    `_condition_helper` in src/koreo/workflow/reconcile.py -/
theorem condition_reasons_match_source :
    reason .depSkip = Koreo.Gen.WorkflowConsts.reasonDepSkip ∧
    reason .skip = Koreo.Gen.WorkflowConsts.reasonSkip ∧
    (∀ d, reason (.retry d) = Koreo.Gen.WorkflowConsts.reasonRetry) ∧
    reason .permFail = Koreo.Gen.WorkflowConsts.reasonPermFail ∧
    (∀ v, reason (.ok v) = Koreo.Gen.WorkflowConsts.reasonOk) ∧
    (∀ v, reason (.ok v) = Koreo.Gen.WorkflowConsts.reasonUnwrappedOk) ∧
    ({ type := "t", reason := "r" } : Condition).status = Koreo.Gen.WorkflowConsts.conditionStatus := by
  refine ⟨by decide, by decide, fun _ => ?_, by decide, fun _ => ?_, fun _ => ?_, by decide⟩ <;>
    (simp only [reason]; decide)

/-! ## non-vacuity: one workflow, three different valid complete completion orders, one answer -/

section example_
def exRun : RunFn := fun t inputs =>
  match t with
  | .fn "f" => ⟨.ok (.obj [("site", .str "f"), ("got", inputs)]), .obj [("name", .str "f")], ["GET f"]⟩
  | .fn "g" => ⟨.ok (.obj [("site", .str "g"), ("got", inputs)]), .null, []⟩
  | .fn "r" => ⟨.retry 7, .null, ["GET r", "POST r"]⟩
  | _ => ⟨.permFail, .null, []⟩

/-- `a` and `b` are independent and publish the same state key; `each` iterates over two items; `z` needs both -/
def exWf : Workflow :=
  { name := "ex"
    steps := [
      { label := "a", logic := .ref (.fn "f"), state := some (.mapE [("k", .path "value" ["site"])]),
        cond := some ("Ca", "a") },
      { label := "b", logic := .ref (.fn "g"), state := some (.mapE [("k", .path "value" ["site"])]) },
      { label := "each", deps := ["a"], logic := .ref (.fn "g"),
        inputs := some (.mapE [("from", .path "steps" ["a", "site"])]),
        forEach := some ⟨.lit (.arr [.str "p", .str "q"]), "item"⟩ },
      { label := "z", deps := ["b", "each"], logic := .ref (.fn "r"), cond := some ("Cz", "z") } ] }

def listedOrder : List Event := [.step "a", .step "b", .item "each" 0, .item "each" 1, .step "each", .step "z"]
def reversedOrder : List Event := [.step "b", .step "a", .item "each" 1, .item "each" 0, .step "each", .step "z"]
def interleaved : List Event := [.step "a", .item "each" 1, .step "b", .item "each" 0, .step "each", .step "z"]

example : exWf.WF = true := by decide

example : ValidComplete evalStd exRun .null exWf reversedOrder := by
  have : (match runEvents evalStd exRun .null exWf reversedOrder {} with
     | some st => exWf.steps.all fun s => isDone st s.label
     | none => false) = true := by decide
  cases h : runEvents evalStd exRun .null exWf reversedOrder {} with
  | none => simp [h] at this
  | some st =>
    simp only [h, List.all_eq_true] at this
    exact ⟨st, h, this⟩

example : ValidComplete evalStd exRun .null exWf interleaved := by
  have : (match runEvents evalStd exRun .null exWf interleaved {} with
     | some st => exWf.steps.all fun s => isDone st s.label
     | none => false) = true := by decide
  cases h : runEvents evalStd exRun .null exWf interleaved {} with
  | none => simp [h] at this
  | some st =>
    simp only [h, List.all_eq_true] at this
    exact ⟨st, h, this⟩

example : runAsync evalStd exRun .null exWf listedOrder = some (reconcile evalStd exRun .null exWf) :=
  schedule_independent _ _ _ _ (by decide) _ (by
    have : (match runEvents evalStd exRun .null exWf listedOrder {} with
       | some st => exWf.steps.all fun s => isDone st s.label
       | none => false) = true := by decide
    cases h : runEvents evalStd exRun .null exWf listedOrder {} with
    | none => simp [h] at this
    | some st =>
      simp only [h, List.all_eq_true] at this
      exact ⟨st, h, this⟩)

/-- `b` finishes before `a` in `reversedOrder`, yet the later LISTED step `b` owns key `k`; the forEach list is
    in source order although item 1 finished first; the overall outcome is the Retry of `z` -/
example : ((runAsync evalStd exRun .null exWf reversedOrder).map fun r =>
      (r.state.map (·.1), (match JVal.lookup "k" r.state with | some (.str s) => s | _ => "?"), reason r.overall,
       r.conditions.map fun c => (c.type, c.reason))) =
    some (["k"], "g", "Wait", [("Ca", "Ready"), ("Cz", "Wait"), ("Ready", "Wait")]) := by decide

/-- a schedule that completes a step before its dependency is not executable -/
example : runEvents evalStd exRun .null exWf [.step "z"] {} = none := by decide
example : runEvents evalStd exRun .null exWf [.step "a", .step "each"] {} = none := by decide
end example_

/-! ### nested non-vacuity: inner steps of two sub-workflow invocations interleaved with outer steps -/

section nested_example
def nDefs : Env :=
  [("sub", { name := "sub"
             steps := [
               { label := "in0", logic := .ref (.fn "g"), inputs := some (.mapE [("p", .path "parent" ["p"])]),
                 state := some (.mapE [("first", .path "value" ["got", "p"])]) },
               { label := "in1", deps := ["in0"], logic := .ref (.fn "f"),
                 state := some (.mapE [("second", .path "steps" ["nope"])]) } ] })]

/-- `s` runs the sub-workflow once, `each` once per item, `z` joins -/
def nWf : Workflow :=
  { name := "outer"
    steps := [
      { label := "a", logic := .ref (.fn "f") },
      { label := "s", deps := ["a"], logic := .ref (.wf "sub"),
        inputs := some (.mapE [("p", .path "steps" ["a", "site"])]), cond := some ("Cs", "s") },
      { label := "each", logic := .ref (.wf "sub"), inputs := some (.mapE [("k", .lit (.int 1))]),
        forEach := some ⟨.lit (.arr [.str "x", .str "y"]), "p"⟩ },
      { label := "z", deps := ["s", "each"], logic := .ref (.fn "g") } ] }

/-- inner events of `s`, of iteration 1 and of iteration 0 interleaved with each other and with outer events -/
def nSchedule : List NEvent :=
  [ .inside "each" (some 1) (.here (.step "in0")),
    .here (.step "a"),
    .inside "s" none (.here (.step "in0")),
    .inside "each" (some 0) (.here (.step "in0")),
    .inside "each" (some 1) (.here (.step "in1")),
    .inside "s" none (.here (.step "in1")),
    .here (.item "each" 1),
    .here (.step "s"),
    .inside "each" (some 0) (.here (.step "in1")),
    .here (.item "each" 0),
    .here (.step "each"),
    .here (.step "z") ]

example : nWf.WF = true ∧ ∀ name w, lookupL name nDefs = some w → w.WF = true := by
  refine ⟨by decide, ?_⟩
  intro name w h
  simp only [nDefs, lookupL] at h
  split at h
  · cases h; decide
  · cases h

private theorem nSchedule_valid : ValidCompleteNested evalStd exRun nDefs 1 .null nWf nSchedule := by
  have : (match nrunEvents evalStd exRun nDefs 1 nWf .null nSchedule .empty with
     | some st => allDone nWf st.top
     | none => false) = true := by decide
  cases h : nrunEvents evalStd exRun nDefs 1 nWf .null nSchedule .empty with
  | none => simp [h] at this
  | some st =>
    simp only [h, allDone, List.all_eq_true] at this
    exact ⟨st, h, this⟩

example : runAsyncNested evalStd exRun nDefs 1 .null nWf nSchedule =
    some (reconcile evalStd (runAt evalStd exRun nDefs 1) .null nWf) :=
  schedule_independent_nested evalStd .null nWf exRun nDefs
    (by intro name w h
        simp only [nDefs, lookupL] at h
        split at h
        · cases h; decide
        · cases h)
    1 (by decide) nSchedule nSchedule_valid

/-- an outer step may not complete before the inner steps of its sub-workflow, an inner step not before the
    enclosing step's dependencies -/
example : nrunEvents evalStd exRun nDefs 1 nWf .null [.here (.step "a"), .here (.step "s")] .empty = none := by
  decide
example : nrunEvents evalStd exRun nDefs 1 nWf .null [.inside "s" none (.here (.step "in0"))] .empty = none := by
  decide
end nested_example

/-! ## kind discovery inside a pass (`kind_lookup.get_plural_kind`) does not make the result depend on timing

Model `Koreo/KindLookup.lean`: tasks entering `get_plural_kind` (`call`), the API answering an owner's discovery
call (`answer`) and waiters running again (`wake`), in ANY interleaving, from the cold tables of a first pass.
If the in-flight lock is filed under the key the result is remembered under (`lk` injective — at HEAD it is the
same string), every request returns the plural the API serves for ITS OWN `kind.apiVersion`, whichever
discovery was in flight when it arrived: nobody raises "Waiting on … failed." and nobody is handed another
group's plural.  So the step outcome built on it is the same under every timing. -/
section kind_lookup
open Koreo.KindLookup

/-- every interleaving, any number of kinds / groups / requesters, lock entries kept or released -/
theorem discovery_independent_of_timing (c : Cfg) (hinj : ∀ a b, c.lk a = c.lk b → a = b)
    (σ : List Ev) {s : St} (h : KindLookup.run c cold σ = some s) (r : Nat) (k : Key) (p : Option String)
    (hr : s.reqs r = some (.done k p)) : p = some (c.srv k) :=
  (inv_run c hinj σ cold s (inv_cold c) h).done_ok r k p hr

/-- the code at HEAD (lock key = result key, entries kept) is an instance -/
theorem discovery_independent_of_timing_head (srv : Key → String) (σ : List Ev) {s : St}
    (h : KindLookup.run (head srv) cold σ = some s) (r : Nat) (k : Key) (p : Option String)
    (hr : s.reqs r = some (.done k p)) : p = some (srv k) :=
  discovery_independent_of_timing (head srv) (fun _ _ e => e) σ h r k p hr

/-- two schedules that end with the same request answered give it the same answer -/
theorem discovery_schedules_agree (c : Cfg) (hinj : ∀ a b, c.lk a = c.lk b → a = b) (σ₁ σ₂ : List Ev) (r : Nat)
    (p₁ p₂ : Option String) (h₁ : KindLookup.answerOf c σ₁ r = some p₁) (h₂ : KindLookup.answerOf c σ₂ r = some p₂)
    (k : Key) (hk₁ : ∀ s, KindLookup.run c cold σ₁ = some s → ∃ p, s.reqs r = some (.done k p))
    (hk₂ : ∀ s, KindLookup.run c cold σ₂ = some s → ∃ p, s.reqs r = some (.done k p)) : p₁ = p₂ := by
  unfold KindLookup.answerOf at h₁ h₂
  cases e₁ : KindLookup.run c cold σ₁ with
  | none => simp [e₁] at h₁
  | some s₁ =>
    cases e₂ : KindLookup.run c cold σ₂ with
    | none => simp [e₂] at h₂
    | some s₂ =>
      obtain ⟨q₁, hq₁⟩ := hk₁ s₁ e₁
      obtain ⟨q₂, hq₂⟩ := hk₂ s₂ e₂
      simp only [e₁, hq₁, Option.some.injEq] at h₁
      simp only [e₂, hq₂, Option.some.injEq] at h₂
      subst h₁ h₂
      rw [discovery_independent_of_timing c hinj σ₁ e₁ r k q₁ hq₁,
          discovery_independent_of_timing c hinj σ₂ e₂ r k q₂ hq₂]

/-- the hypothesis is needed: with the lock filed under the bare kind word (two groups share it) and released
    when the lookup ends, request 2 (`Bucket.aws.x/v1`) is served when it arrives after the discovery of
    `Bucket.gcp.x/v1` has ended, and FAILS when it arrives while that call is in flight -/
private def srvEx : Key → String := fun k => "plural of " ++ k
private def wordCfg : Cfg := ⟨kindWord, true, srvEx⟩
private def gcp := lookupKey "Bucket" "gcp.x/v1"
private def aws := lookupKey "Bucket" "aws.x/v1"

example : KindLookup.answerOf wordCfg [.call 1 gcp, .answer 1, .call 2 aws, .answer 2] 2 = some (some "plural of Bucket.aws.x/v1") := by decide
example : KindLookup.answerOf wordCfg [.call 1 gcp, .call 2 aws, .answer 1, .wake 2] 2 = some none := by decide
/-- … whereas at HEAD both arrivals are served (and two tasks of ONE group share one discovery) -/
example : KindLookup.answerOf (head srvEx) [.call 1 gcp, .answer 1, .call 2 aws, .answer 2] 2 = some (some "plural of Bucket.aws.x/v1") := by decide
example : KindLookup.answerOf (head srvEx) [.call 1 gcp, .call 2 aws, .answer 1, .answer 2] 2 = some (some "plural of Bucket.aws.x/v1") := by decide
example : KindLookup.answerOf (head srvEx) [.call 1 gcp, .call 2 aws, .call 3 gcp, .answer 2, .answer 1, .wake 3] 3
    = some (some "plural of Bucket.gcp.x/v1") := by decide
/-- a waiter cannot run before its event is set; an owner is answered once -/
example : KindLookup.answerOf (head srvEx) [.call 1 gcp, .call 3 gcp, .wake 3] 3 = none := by decide
end kind_lookup

end Koreo.C02
