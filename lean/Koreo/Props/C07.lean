/-
  C07 — Management modes bound the API calls a ResourceFunction may make.
  Property theorems only.  Model: `Koreo.ResourceFn.decide` (lean/Koreo/ResourceFn.lean), the
  `if` cascade of `reconcile_krm_resource` behind the precondition gate of
  `reconcile_resource_function`, as a table over
      2^5 flags × 3 update policies × 2 precondition results × {create.overlay written?} × {plural given?}
      × 5 cluster situations (absent, three present ones, absent-at-load-but-409-on-create).
  The quantifier of every theorem below is that finite table, so `cases`/`decide` is a proof.
  `Koreo/Gen/RfDefaults.lean` is regenerated from the source on every run.
-/
import Koreo.Lemmas.ResourceFn
import Koreo.Gen.RfDefaults

namespace Koreo.C07
open Koreo.ResourceFn

/-! ## the model's flag defaults are the ones the source has now -/

/-- constants.py could be read and the public prepare accepted the probe spec -/
theorem extraction_ok : Koreo.Gen.RfDefaults.extractionOk = true := by decide

/-- A spec that omits a flag is prepared (schema validation + `_prepare_api_config` /
    `_prepare_create` / `_prepare_update`) to the model's default; wherever prepare.py's own
    `spec.get(key, default)` or the CRD declares a default it is the same value; the delays are
    the constants of constants.py. -/
theorem defaults_match_source :
    Gen.RfDefaults.effNamespaced = namespacedDefault ∧ Gen.RfDefaults.effOwned = ownedDefault ∧
    Gen.RfDefaults.effReadonly = readonlyDefault ∧ Gen.RfDefaults.effDeleteIfExists = deleteIfExistsDefault ∧
    Gen.RfDefaults.effCreateEnabled = createEnabledDefault ∧
    Gen.RfDefaults.effCreateDelay = createDelayDefault ∧
    Gen.RfDefaults.effCreateDelayEnabledOnly = createDelayDefault ∧
    Gen.RfDefaults.effUpdatePolicy = "patch" ∧ policyDefault = .patch ∧
    Gen.RfDefaults.effUpdateDelay = updateDelayDefault ∧ Gen.RfDefaults.effPatchDelay = updateDelayDefault ∧
    Gen.RfDefaults.effRecreateDelay = updateDelayDefault ∧
    (∀ b, Gen.RfDefaults.srcNamespaced = some b → b = namespacedDefault) ∧
    (∀ b, Gen.RfDefaults.srcOwned = some b → b = ownedDefault) ∧
    (∀ b, Gen.RfDefaults.srcReadonly = some b → b = readonlyDefault) ∧
    (∀ b, Gen.RfDefaults.srcDeleteIfExists = some b → b = deleteIfExistsDefault) ∧
    (∀ b, Gen.RfDefaults.srcCreateEnabled = some b → b = createEnabledDefault) ∧
    (∀ d, Gen.RfDefaults.srcCreateDelay = some d → d = createDelayDefault) ∧
    (∀ p, Gen.RfDefaults.srcUpdatePolicy = some p → p = "patch") ∧
    (∀ d, Gen.RfDefaults.srcUpdateDelay = some d → d = updateDelayDefault) ∧
    (∀ b, Gen.RfDefaults.crdNamespaced = some b → b = namespacedDefault) ∧
    (∀ b, Gen.RfDefaults.crdOwned = some b → b = ownedDefault) ∧
    (∀ b, Gen.RfDefaults.crdReadonly = some b → b = readonlyDefault) ∧
    (∀ b, Gen.RfDefaults.crdDeleteIfExists = some b → b = deleteIfExistsDefault) ∧
    (∀ b, Gen.RfDefaults.crdCreateEnabled = some b → b = createEnabledDefault) ∧
    (∀ d, Gen.RfDefaults.crdCreateDelay = some d → d = createDelayDefault) ∧
    (∀ p, Gen.RfDefaults.crdUpdatePolicy = some p → p = "patch") ∧
    (∀ d, Gen.RfDefaults.crdPatchDelay = some d → d = updateDelayDefault) ∧
    (∀ d, Gen.RfDefaults.crdRecreateDelay = some d → d = updateDelayDefault) ∧
    Gen.RfDefaults.defaultCreateDelay = createDelayDefault ∧
    Gen.RfDefaults.defaultPatchDelay = updateDelayDefault ∧
    Gen.RfDefaults.defaultLoadRetryDelay = loadRetryDelay := by
  refine ⟨by decide, by decide, by decide, by decide, by decide, by decide, by decide, by decide, rfl,
    by decide, by decide, by decide, ?_, ?_, ?_, ?_, ?_, ?_, ?_, ?_, ?_, ?_, ?_, ?_, ?_, ?_, ?_, ?_, ?_,
    by decide, by decide, by decide⟩
  · intro b h; unfold Gen.RfDefaults.srcNamespaced at h; cases h <;> decide
  · intro b h; unfold Gen.RfDefaults.srcOwned at h; cases h <;> decide
  · intro b h; unfold Gen.RfDefaults.srcReadonly at h; cases h <;> decide
  · intro b h; unfold Gen.RfDefaults.srcDeleteIfExists at h; cases h <;> decide
  · intro b h; unfold Gen.RfDefaults.srcCreateEnabled at h; cases h <;> decide
  · intro b h; unfold Gen.RfDefaults.srcCreateDelay at h; cases h <;> decide
  · intro b h; unfold Gen.RfDefaults.srcUpdatePolicy at h; cases h <;> decide
  · intro b h; unfold Gen.RfDefaults.srcUpdateDelay at h; cases h <;> decide
  · intro b h; unfold Gen.RfDefaults.crdNamespaced at h; cases h <;> decide
  · intro b h; unfold Gen.RfDefaults.crdOwned at h; cases h <;> decide
  · intro b h; unfold Gen.RfDefaults.crdReadonly at h; cases h <;> decide
  · intro b h; unfold Gen.RfDefaults.crdDeleteIfExists at h; cases h <;> decide
  · intro b h; unfold Gen.RfDefaults.crdCreateEnabled at h; cases h <;> decide
  · intro b h; unfold Gen.RfDefaults.crdCreateDelay at h; cases h <;> decide
  · intro b h; unfold Gen.RfDefaults.crdUpdatePolicy at h; cases h <;> decide
  · intro b h; unfold Gen.RfDefaults.crdPatchDelay at h; cases h <;> decide
  · intro b h; unfold Gen.RfDefaults.crdRecreateDelay at h; cases h <;> decide

/-- a spec that omits every flag is the default management mode: owning, namespaced, may create, patches -/
theorem omitted_flags_cfg (pp : Bool) :
    ({} : FlagSpec).cfg pp =
      ⟨false, true, true, true, false, .patch, pp, false, true⟩ := rfl

/-- whether `create.overlay` is written and whether `plural` is given never changes what is
    decided (the first must not re-enable a disabled create; the second only adds the discovery
    call of `discovers`) -/
theorem decide_ignores (ro ow ns ce de : Bool) (pol : Policy) (pp co pg : Bool) (s : Situation) :
    ResourceFn.decide ⟨ro, ow, ns, ce, de, pol, pp, co, pg⟩ s =
      ResourceFn.decide ⟨ro, ow, ns, ce, de, pol, pp, false, true⟩ s := rfl

theorem create_overlay_and_plural_irrelevant (c : Cfg) (co pg : Bool) (s : Situation) :
    ResourceFn.decide { c with createOverlay := co, pluralGiven := pg } s = ResourceFn.decide c s := rfl

/-! ## the clauses of the property, each for the whole table -/

/-- a readonly function never creates or patches -/
theorem readonly_never_creates_or_patches (c : Cfg) (s : Situation) (h : c.readonly = true) :
    (ResourceFn.decide c s).1 ≠ .create ∧ (ResourceFn.decide c s).1 ≠ .patch := by
  obtain ⟨ro, ow, ns, ce, de, pol, pp, co, pg⟩ := c
  try dsimp only at *
  simp only [decide_ignores ro ow ns ce de pol pp co pg]
  subst h
  cases ow <;> cases ns <;> cases ce <;> cases de <;> cases pol <;> cases pp <;> cases s <;> decide

/-- … and outside the explicit delete-if-exists mode it makes no mutating call at all -/
theorem readonly_without_delete_mode_never_mutates (c : Cfg) (s : Situation)
    (h : c.readonly = true) (hd : c.deleteIfExists = false) :
    (ResourceFn.decide c s).1 = .none ∨ (ResourceFn.decide c s).1 = .noApiAtAll := by
  obtain ⟨ro, ow, ns, ce, de, pol, pp, co, pg⟩ := c
  try dsimp only at *
  simp only [decide_ignores ro ow ns ce de pol pp co pg]
  subst h; subst hd
  cases ow <;> cases ns <;> cases ce <;> cases pol <;> cases pp <;> cases s <;> decide

/-- with create disabled a function never creates -/
theorem create_disabled_never_creates (c : Cfg) (s : Situation) (h : c.createEnabled = false) :
    (ResourceFn.decide c s).1 ≠ .create := by
  obtain ⟨ro, ow, ns, ce, de, pol, pp, co, pg⟩ := c
  try dsimp only at *
  simp only [decide_ignores ro ow ns ce de pol pp co pg]
  subst h
  cases ro <;> cases ow <;> cases ns <;> cases de <;> cases pol <;> cases pp <;> cases s <;> decide

/-- with update policy `never` it never patches or deletes an existing object
    (the only exception is the explicit delete-if-exists mode) -/
theorem never_policy_no_patch_no_delete (c : Cfg) (s : Situation)
    (h : c.policy = .never) (hd : c.deleteIfExists = false) :
    (ResourceFn.decide c s).1 ≠ .patch ∧ (ResourceFn.decide c s).1 ≠ .delete := by
  obtain ⟨ro, ow, ns, ce, de, pol, pp, co, pg⟩ := c
  try dsimp only at *
  simp only [decide_ignores ro ow ns ce de pol pp co pg]
  subst h; subst hd
  cases ro <;> cases ow <;> cases ns <;> cases ce <;> cases pp <;> cases s <;> decide

/-- with policy `patch` it never deletes (same exception) -/
theorem patch_policy_never_deletes (c : Cfg) (s : Situation)
    (h : c.policy = .patch) (hd : c.deleteIfExists = false) :
    (ResourceFn.decide c s).1 ≠ .delete := by
  obtain ⟨ro, ow, ns, ce, de, pol, pp, co, pg⟩ := c
  try dsimp only at *
  simp only [decide_ignores ro ow ns ce de pol pp co pg]
  subst h; subst hd
  cases ro <;> cases ow <;> cases ns <;> cases ce <;> cases pp <;> cases s <;> decide

/-- with policy `recreate` it never patches — in any mode -/
theorem recreate_policy_never_patches (c : Cfg) (s : Situation) (h : c.policy = .recreate) :
    (ResourceFn.decide c s).1 ≠ .patch := by
  obtain ⟨ro, ow, ns, ce, de, pol, pp, co, pg⟩ := c
  try dsimp only at *
  simp only [decide_ignores ro ow ns ce de pol pp co pg]
  subst h
  cases ro <;> cases ow <;> cases ns <;> cases ce <;> cases de <;> cases pp <;> cases s <;> decide

/-- the delete-if-exists mode only ever deletes: never a create, never a patch, and a delete
    exactly when the object is there (and the preconditions passed) -/
theorem delete_if_exists_only_deletes (c : Cfg) (s : Situation) (h : c.deleteIfExists = true) :
    (ResourceFn.decide c s).1 ≠ .create ∧ (ResourceFn.decide c s).1 ≠ .patch ∧
    ((ResourceFn.decide c s).1 = .delete ↔ (c.precondPass = true ∧ s.isAbsent = false)) := by
  obtain ⟨ro, ow, ns, ce, de, pol, pp, co, pg⟩ := c
  try dsimp only at *
  simp only [decide_ignores ro ow ns ce de pol pp co pg]
  subst h
  cases ro <;> cases ow <;> cases ns <;> cases ce <;> cases pol <;> cases pp <;> cases s <;> decide

/-- a delete outside the delete-if-exists mode is the `recreate` policy acting on a present
    object that needs an update -/
theorem delete_only_by_mode_or_recreate (c : Cfg) (s : Situation)
    (h : (ResourceFn.decide c s).1 = .delete) :
    s.isAbsent = false ∧ (c.deleteIfExists = true ∨ (c.policy = .recreate ∧ c.readonly = false ∧ s ≠ .presentMatching)) := by
  obtain ⟨ro, ow, ns, ce, de, pol, pp, co, pg⟩ := c
  try dsimp only at *
  simp only [decide_ignores ro ow ns ce de pol pp co pg] at h
  revert h
  cases ro <;> cases ow <;> cases ns <;> cases ce <;> cases de <;> cases pol <;> cases pp <;> cases s <;> decide

/-- object absent and the function is readonly or may not create: no mutating call, and it
    reports Retry (waiting) instead of a fabricated value.  (In delete-if-exists mode an absent
    object is the goal: `delete_mode_absent_is_done`.) -/
theorem absent_unmanageable_retries_without_mutation (c : Cfg)
    (hp : c.precondPass = true) (hd : c.deleteIfExists = false)
    (h : c.readonly = true ∨ c.createEnabled = false) (s : Situation) (hs : s.isAbsent = true) :
    ResourceFn.decide c s = (.none, .retry) := by
  obtain ⟨ro, ow, ns, ce, de, pol, pp, co, pg⟩ := c
  try dsimp only at *
  simp only [decide_ignores ro ow ns ce de pol pp co pg]
  subst hp; subst hd
  revert h hs
  cases ro <;> cases ow <;> cases ns <;> cases ce <;> cases pol <;> cases s <;> decide

theorem delete_mode_absent_is_done (c : Cfg) (hp : c.precondPass = true) (hd : c.deleteIfExists = true)
    (s : Situation) (hs : s.isAbsent = true) :
    ResourceFn.decide c s = (.none, .ok) := by
  obtain ⟨ro, ow, ns, ce, de, pol, pp, co, pg⟩ := c
  try dsimp only at *
  simp only [decide_ignores ro ow ns ce de pol pp co pg]
  subst hp; subst hd
  revert hs
  cases ro <;> cases ow <;> cases ns <;> cases ce <;> cases pol <;> cases s <;> decide

/-- a lost creation race (absent at the load, 409 on the POST) is decided exactly like an absent
    object: the one create attempt and Retry — never a follow-up patch or delete, whatever the policy -/
theorem conflict_is_a_create_attempt_only (c : Cfg) :
    ResourceFn.decide c .absentConflict = ResourceFn.decide c .absent := by
  obtain ⟨ro, ow, ns, ce, de, pol, pp, co, pg⟩ := c
  try dsimp only at *
  simp only [decide_ignores ro ow ns ce de pol pp co pg]
  cases ro <;> cases ow <;> cases ns <;> cases ce <;> cases de <;> cases pol <;> cases pp <;> decide

/-- The server rejects the mutating call (422 / 409 / 500 …): what is attempted is exactly what
    would have been attempted anyway — the one PATCH under policy `patch`, the one DELETE under
    `recreate` / delete-if-exists, nothing under `never` / readonly — never a fallback to another
    kind of mutation; the error propagates instead of a Retry. -/
theorem rejected_mutation_is_the_only_attempt (c : Cfg) :
    (ResourceFn.decide c .presentDriftedRejected).1 = (ResourceFn.decide c .presentDrifted).1 ∧
    ((ResourceFn.decide c .presentDriftedRejected).2 = .raised ↔
      (ResourceFn.decide c .presentDrifted).1.isMutation = true) := by
  obtain ⟨ro, ow, ns, ce, de, pol, pp, co, pg⟩ := c
  simp only [decide_ignores ro ow ns ce de pol pp co pg]
  cases ro <;> cases ow <;> cases ns <;> cases ce <;> cases de <;> cases pol <;> cases pp <;> decide

/-- The object vanishes between the load and the mutating call (404): again exactly the one call
    the mode allows is attempted — in delete-if-exists mode the DELETE and nothing after it, in
    particular NOT the create the function would do for an absent object — and the error propagates. -/
theorem vanished_object_is_not_recreated (c : Cfg) :
    (ResourceFn.decide c .presentVanished).1 = (ResourceFn.decide c .presentDrifted).1 ∧
    (ResourceFn.decide c .presentVanished).1 ≠ .create ∧
    (c.deleteIfExists = true → c.precondPass = true → ResourceFn.decide c .presentVanished = (.delete, .raised)) := by
  obtain ⟨ro, ow, ns, ce, de, pol, pp, co, pg⟩ := c
  simp only [decide_ignores ro ow ns ce de pol pp co pg]
  cases ro <;> cases ow <;> cases ns <;> cases ce <;> cases de <;> cases pol <;> cases pp <;> decide

/-- preconditions do not pass: no API call at all (not even the load), whatever the mode and
    whatever is in the cluster; the outcome is the precondition's own -/
theorem precond_fail_no_api (c : Cfg) (s : Situation) (h : c.precondPass = false) :
    ResourceFn.decide c s = (.noApiAtAll, .precond) ∧ discovers c = false := by
  obtain ⟨ro, ow, ns, ce, de, pol, pp, co, pg⟩ := c
  try dsimp only at *
  subst h
  exact ⟨by cases s <;> rfl, rfl⟩

/-- the kind-to-plural discovery call is made exactly when the plural is not given and the
    preconditions passed (cold cache) — in every mode, in front of the load -/
theorem discovery_iff (c : Cfg) : discovers c = true ↔ (c.precondPass = true ∧ c.pluralGiven = false) := by
  obtain ⟨ro, ow, ns, ce, de, pol, pp, co, pg⟩ := c
  try dsimp only at *
  cases pp <;> cases pg <;> simp [discovers]

/-- … and conversely the API is left alone only then -/
theorem no_api_iff_precond_fail (c : Cfg) (s : Situation) :
    (ResourceFn.decide c s).1 = .noApiAtAll ↔ c.precondPass = false := by
  obtain ⟨ro, ow, ns, ce, de, pol, pp, co, pg⟩ := c
  try dsimp only at *
  simp only [decide_ignores ro ow ns ce de pol pp co pg]
  cases ro <;> cases ow <;> cases ns <;> cases ce <;> cases de <;> cases pol <;> cases pp <;> cases s <;> decide

/-- every mutation is reported as Retry (the caller comes back to look at the result); a run
    that reports Ok has only read -/
theorem mutation_reports_retry (c : Cfg) (s : Situation) (hs : s.mutationRejected = false) :
    ((ResourceFn.decide c s).1 = .create ∨ (ResourceFn.decide c s).1 = .patch ∨ (ResourceFn.decide c s).1 = .delete) →
    (ResourceFn.decide c s).2 = .retry := by
  obtain ⟨ro, ow, ns, ce, de, pol, pp, co, pg⟩ := c
  try dsimp only at *
  simp only [decide_ignores ro ow ns ce de pol pp co pg]
  revert hs
  cases ro <;> cases ow <;> cases ns <;> cases ce <;> cases de <;> cases pol <;> cases pp <;> cases s <;> decide

/-- a create happens exactly in the one cell family that allows it -/
theorem create_iff (c : Cfg) (s : Situation) :
    (ResourceFn.decide c s).1 = .create ↔
      (c.precondPass = true ∧ c.deleteIfExists = false ∧ c.readonly = false ∧ c.createEnabled = true ∧ s.isAbsent = true) := by
  obtain ⟨ro, ow, ns, ce, de, pol, pp, co, pg⟩ := c
  try dsimp only at *
  simp only [decide_ignores ro ow ns ce de pol pp co pg]
  cases ro <;> cases ow <;> cases ns <;> cases ce <;> cases de <;> cases pol <;> cases pp <;> cases s <;> decide

/-- a patch happens exactly when a managed (not readonly, not delete-mode) present object is
    drifted, or lacks the owner reference it should have, under policy `patch` -/
theorem patch_iff (c : Cfg) (s : Situation) :
    (ResourceFn.decide c s).1 = .patch ↔
      (c.precondPass = true ∧ c.deleteIfExists = false ∧ c.readonly = false ∧ c.policy = .patch ∧
        (s.isDrifted = true ∨ (s = .presentNoOwnerRef ∧ c.owned = true ∧ c.namespaced = true))) := by
  obtain ⟨ro, ow, ns, ce, de, pol, pp, co, pg⟩ := c
  try dsimp only at *
  simp only [decide_ignores ro ow ns ce de pol pp co pg]
  cases ro <;> cases ow <;> cases ns <;> cases ce <;> cases de <;> cases pol <;> cases pp <;> cases s <;> decide

/-! ## the payload pipeline follows the table -/

/-- `reconcile` (the full model with payloads, used by C06/C08) takes, for every function, owner,
    stored object and comparator, the action and outcome the table gives for its mode and
    situation — or, when materialising the target fails, stops after the load with no mutation. -/
theorem reconcile_follows_table (enc : JVal → String) (defNs : String) (cmp : JVal → JVal → Bool)
    (pp : Bool) (rf : Rf) (owner : Owner) (stored : Option JVal)
    (hns : (owner.ns == rf.ns) = rf.api.namespaced) (hw : (rf.api.namespaced && rf.ns.isNone) = false) :
    let run := reconcile enc defNs cmp pp rf owner stored
    (run.action = .none ∧ run.outcome = none ∧ run.request.isNone) ∨
    ∃ s, (run.action, run.outcome) = ((ResourceFn.decide (rf.cfg pp) s).1, some (ResourceFn.decide (rf.cfg pp) s).2) ∧
      (s = .absent ↔ (stored.bind fun o => Identity.krLoaded rf.api o rf.ns) = none) :=
  Koreo.Rf.reconcile_follows_table enc defNs cmp pp rf owner stored hns hw

/-! ## non-vacuity -/

/-- the default mode creates an absent object, patches a drifted one, leaves a matching one alone -/
example : ResourceFn.decide (({} : FlagSpec).cfg true) .absent = (.create, .retry) ∧
    ResourceFn.decide (({} : FlagSpec).cfg true) .presentDrifted = (.patch, .retry) ∧
    ResourceFn.decide (({} : FlagSpec).cfg true) .presentNoOwnerRef = (.patch, .retry) ∧
    ResourceFn.decide (({} : FlagSpec).cfg true) .presentMatching = (.none, .ok) := by decide

/-- the hypotheses of the clause theorems are met by cells that do something -/
example : ∃ c s, c.readonly = true ∧ c.deleteIfExists = true ∧ (ResourceFn.decide c s).1 = .delete :=
  ⟨⟨true, true, true, true, true, .patch, true, false, true⟩, .presentMatching, rfl, rfl, by decide⟩

example : ∃ c, c.policy = .recreate ∧ (ResourceFn.decide c .presentDrifted) = (.delete, .retry) :=
  ⟨⟨false, true, true, true, false, .recreate, true, false, true⟩, rfl, by decide⟩

/-- a disabled create stays disabled when a create.overlay is written; a lost race under policy
    `never` is one create attempt -/
example : ResourceFn.decide ⟨false, true, true, false, false, .patch, true, true, true⟩ .absent = (.none, .retry) ∧
    ResourceFn.decide ⟨false, true, true, true, false, .never, true, false, true⟩ .absentConflict = (.create, .retry) ∧
    discovers ⟨false, true, true, true, false, .patch, true, false, false⟩ = true := by decide

example : ∃ c, c.policy = .never ∧ c.deleteIfExists = false ∧ (ResourceFn.decide c .presentDrifted) = (.none, .ok) :=
  ⟨⟨false, true, true, true, false, .never, true, false, true⟩, rfl, rfl, by decide⟩

end Koreo.C07
