/-
  C12 — Targets and returns are ordered deep merges; evaluation is pure.
  Property theorems only; helper lemmas are in `Koreo/Lemmas/Overlay.lean`.
  Model: `Koreo/Overlay.lean` (hand transcription of `_overlay_indexer`, `_overlay_applier`,
  `evaluate_overlay`, `_deep_overlay`, `_construct_resource_template`,
  `_materialize_from_overlays`, `_create_api_resource`, `reconcile_value_function`).

  CEL evaluation is the oracle parameter `ev` (or `f`, the leaf evaluation): every theorem holds
  for every such function.  The one hypothesis, `WFO spec` / `HDO forced`, says that a written map
  has pairwise distinct keys — true of every Python `dict`; `written_overlay_wf` carries it from
  the written JSON to the compiled tree and the last `example`s show it cannot be dropped.

  **Purity** ("never modifies the inputs, the base, a cached template or the function itself") is
  *not* a theorem here: the model is made of mathematical functions, which cannot modify anything,
  so such a statement would be vacuous.  It is decided on the implementation by before/after
  object-graph snapshots in `harness/c12.py`.  What *is* stated is determinism (the result is a
  function of the oracle's answers).
-/
import Koreo.Lemmas.Overlay
import Koreo.Gen.Overlay

namespace Koreo.C12
open Koreo Koreo.JVal Koreo.Overlay
variable {ε : Type}

/-! ## the compiled index: positions are exactly `[b, b + leaves)`, in order, distinct -/

/-- the positional value list is the list of written leaves, left to right, whatever the offset -/
theorem indexer_values (spec : List (String × OSpec ε)) (b : Nat) :
    (indexO spec b).2 = leavesO spec := indexO_values spec b

/-- read left to right, the positions stored in the index tree are `b, b+1, …, b+leaves-1` -/
theorem indexer_positions (spec : List (String × OSpec ε)) (b : Nat) :
    positionsO (indexO spec b).1 = List.range' b (leavesO spec).length := positionsO_index spec b

theorem indexer_positions_count (spec : List (String × OSpec ε)) (b : Nat) :
    (positionsO (indexO spec b).1).length = (indexO spec b).2.length := by
  rw [indexer_positions, indexer_values]; simp

/-- every stored position addresses a value: `b ≤ i < b + leaves`, and every such `i` is stored -/
theorem indexer_positions_range (spec : List (String × OSpec ε)) (b i : Nat) :
    i ∈ positionsO (indexO spec b).1 ↔ b ≤ i ∧ i < b + (leavesO spec).length := by
  rw [indexer_positions]; simp [List.mem_range']
  constructor
  · rintro ⟨j, hj, rfl⟩; omega
  · intro h; exact ⟨i - b, by omega, by omega⟩

/-- no two leaves share a position -/
theorem indexer_positions_distinct (spec : List (String × OSpec ε)) (b : Nat) :
    (positionsO (indexO spec b).1).Nodup := by
  rw [indexer_positions]; exact List.nodup_range'

/-- the split made on the written JSON (`dict() if value` → node, everything else → leaf)
    yields a tree with distinct keys whenever the JSON maps have distinct keys -/
theorem written_overlay_wf (kvs : Fields) (h : HDO kvs) : WFO (OSpec.ofFields kvs) :=
  ofFields_wf kvs h

/-! ## index-compiled applier = deep merge, for every base and every overlay shape -/

/-- offset-general form: wherever the overlay's values sit inside a longer value list, the applier
    over the index compiled at that offset is the deep merge (this is the induction that goes
    through every nesting depth and sibling pattern) -/
theorem applier_is_deep_merge_at (f : ε → JVal) (spec : List (String × OSpec ε)) (h : WFO spec)
    (base : Fields) (pre post : List JVal) :
    applier base (indexO spec pre.length).1 (pre ++ (leavesO spec).map f ++ post)
      = deepMerge base (mapO f spec) :=
  applyLoop_eq_mergeO f spec h base pre post base (fun _ _ => rfl)

/-- `_overlay_applier(base, index, values)` with `index, leaves = _overlay_indexer(spec, 0)` and
    `values = [f(leaf) for leaf in leaves]` is the deep merge of the evaluated overlay into `base` -/
theorem applier_is_deep_merge (f : ε → JVal) (spec : List (String × OSpec ε)) (h : WFO spec)
    (base : Fields) :
    applier base (indexO spec 0).1 ((indexO spec 0).2.map f) = deepMerge base (mapO f spec) :=
  applier_eq_mergeO f spec h base

/-- `evaluate_overlay` (success path) for every oracle, activation, base and overlay -/
theorem evaluate_overlay_is_deep_merge (ev : Env → ε → JVal) (env : Env) (base : Fields)
    (spec : List (String × OSpec ε)) (h : WFO spec) :
    evalOverlay ev env base spec = deepMerge base (evalTree ev env base spec) :=
  evalOverlay_eq ev env base spec h

/-! ## what "deep merge" means, key by key -/

/-- a leaf replaces whatever is there — also when its (computed) value is a map -/
theorem deep_merge_leaf_replaces (b : Option JVal) (v : JVal) : mergeV b (.leaf v) = v := rfl

/-- a written map merges into the map that is there … -/
theorem deep_merge_node_into_map (bkvs : Fields) (kvs : List (String × OSpec JVal)) :
    mergeV (some (.obj bkvs)) (.node kvs) = .obj (deepMerge bkvs kvs) := rfl

/-- … and into a fresh map when there is none, or something that is not a map -/
theorem deep_merge_node_into_other (b : Option JVal) (kvs : List (String × OSpec JVal))
    (h : ∀ bkvs, b ≠ some (.obj bkvs)) : mergeV b (.node kvs) = .obj (deepMerge [] kvs) := by
  simp only [mergeV]
  match b, h with
  | none, _ => rfl
  | some (.obj bkvs), h => exact absurd rfl (h bkvs)
  | some .null, _ | some (.bool _), _ | some (.int _), _ | some (.flt _), _ | some (.str _), _
  | some (.arr _), _ => rfl

/-- a key the overlay does not write keeps its value; a key it writes holds the merge of what was
    there with what is written -/
theorem deep_merge_lookup (k : String) (ov : List (String × OSpec JVal)) (h : WFO ov) (base : Fields) :
    JVal.lookup k (deepMerge base ov) =
      match specLookup k ov with
      | none => JVal.lookup k base
      | some s => some (mergeV (JVal.lookup k base) s) :=
  mergeO_lookup k ov h base

/-- existing keys keep their place; new keys follow in the overlay's order; nothing else appears -/
theorem deep_merge_keys (ov : List (String × OSpec JVal)) (h : WFO ov) (base : Fields) :
    JVal.keys (deepMerge base ov)
      = JVal.keys base ++ (keysO ov).filter (fun k => !(JVal.keys base).contains k) :=
  mergeO_keys ov h base

/-! ## the forced overlay / `overlay()` deep merge -/

theorem deep_overlay_lookup (k : String) (ov : Fields) (h : HDO ov) (res : Fields) :
    JVal.lookup k (deepOverlay res ov) =
      match JVal.lookup k ov with
      | none => JVal.lookup k res
      | some o => some (dovV (JVal.lookup k res) o) :=
  dovO_lookup k ov h res

/-- re-applying the same overlay changes nothing -/
theorem deep_overlay_idempotent (ov : Fields) (h : HDO ov) (res : Fields) :
    deepOverlay (deepOverlay res ov) ov = deepOverlay res ov := dovO_idem h res

/-- `_forced_overlay` never has duplicate keys -/
theorem forced_overlay_wf (apiVersion kind name : String) (ns : Option String) :
    HDO (forcedOverlay apiVersion kind name ns) := forcedOverlay_hdo apiVersion kind name ns

/-- the translator recognised the shape of `_forced_overlay` in the current source -/
theorem extraction_ok : Koreo.Gen.Overlay.extractionOk = true := by decide

/-- the model's forced overlay has exactly the keys the source builds: the top-level keys, the
    `metadata` keys always present, and the ones added only when a namespace is given -/
theorem forced_overlay_matches_source (a k n : String) :
    (∀ ns, JVal.keys (forcedOverlay a k n ns) = Koreo.Gen.Overlay.forcedKeys) ∧
    JVal.lookup "metadata" (forcedOverlay a k n none) = some (.obj [("name", .str n)]) ∧
    [("name", JVal.str n)].map (·.1) = Koreo.Gen.Overlay.forcedMetadataKeys ∧
    (∀ ns, ∃ md, JVal.lookup "metadata" (forcedOverlay a k n (some ns)) = some (.obj md) ∧
      JVal.keys md = Koreo.Gen.Overlay.forcedMetadataKeys ++ Koreo.Gen.Overlay.forcedMetadataOptionalKeys) := by
  refine ⟨?_, rfl, rfl, ?_⟩
  · intro ns; cases ns <;> rfl
  · intro ns; exact ⟨_, rfl, rfl⟩

/-! ## the ResourceFunction pipeline is an ordered fold of deep merges -/

/-- the loop of `_materialize_from_overlays`: skipped steps vanish, every other step — inline
    overlay or ValueFunction overlay — deep-merges its evaluated overlay into the resource built
    so far, in listed order -/
theorem overlays_loop_is_fold (ev : Env → ε → JVal) (env : Env) (steps : List (Step ε))
    (h : ∀ s ∈ steps, WFO s.spec) (cur : Fields) :
    overlaysLoop ev env steps cur = (active ev env steps).foldl (mergeStep ev env) cur :=
  overlaysLoop_eq ev env steps h cur

/-- exactly as coded: without overlays the forced overlay is applied once, with overlays it is
    applied before and re-applied after the fold -/
theorem materialise_is_fold_cases (ev : Env → ε → JVal) (env : Env) (template forced : Fields)
    (steps : List (Step ε)) (h : ∀ s ∈ steps, WFO s.spec) :
    materialise ev env template forced steps =
      if steps.isEmpty then deepOverlay template forced
      else deepOverlay ((active ev env steps).foldl (mergeStep ev env) (deepOverlay template forced)) forced := by
  simp only [materialise]
  split
  · rfl
  · rw [overlays_loop_is_fold ev env steps h]

/-- the Target Resource Specification: base with the forced overlay, every non-skipped overlay
    deep-merged in listed order, forced overlay re-applied — one formula for every overlay list
    (the empty one included, by idempotence of the forced overlay) -/
theorem materialise_is_fold (ev : Env → ε → JVal) (env : Env) (template forced : Fields)
    (steps : List (Step ε)) (h : ∀ s ∈ steps, WFO s.spec) (hf : HDO forced) :
    materialise ev env template forced steps =
      deepOverlay ((active ev env steps).foldl (mergeStep ev env) (deepOverlay template forced)) forced := by
  rw [materialise_is_fold_cases ev env template forced steps h]
  cases steps with
  | nil => simp [active, deep_overlay_idempotent forced hf]
  | cons s rest => simp

/-- a skipped overlay leaves no trace: dropping it from the definition gives the same target -/
theorem skipped_overlay_leaves_no_trace (ev : Env → ε → JVal) (env : Env) (template forced : Fields)
    (pre post : List (Step ε)) (s : Step ε) (hs : skipped ev env s = true)
    (h : ∀ s' ∈ pre ++ s :: post, WFO s'.spec) (hf : HDO forced) :
    materialise ev env template forced (pre ++ s :: post) = materialise ev env template forced (pre ++ post) := by
  have h' : ∀ s' ∈ pre ++ post, WFO s'.spec := by
    intro s' hm
    apply h s'
    simp only [List.mem_append, List.mem_cons] at hm ⊢
    rcases hm with hm | hm
    · exact Or.inl hm
    · exact Or.inr (Or.inr hm)
  rw [materialise_is_fold ev env template forced _ h hf, materialise_is_fold ev env template forced _ h' hf]
  simp [active, List.filter_append, hs]

/-! ### an overlay may vanish only when its `skipIf` is `true` -/

/-- the model with the PermFail exit agrees with the success-path model exactly when every
    `skipIf` is a boolean … -/
theorem materialiseE_of_decided (ev : Env → ε → JVal) (env : Env) (template forced : Fields)
    (steps : List (Step ε)) (h : ∀ s ∈ steps, skipDecision ev env s ≠ none) :
    materialiseE ev env template forced steps = some (materialise ev env template forced steps) := by
  simp only [materialiseE, materialise]
  split
  · rfl
  · rw [overlaysLoopE_decided ev env steps h]; rfl

/-- … and a single `skipIf` that fails to evaluate or is not a boolean means **no target at all**
    (the step is neither skipped nor applied; nothing is created from the remaining overlays) -/
theorem unevaluable_skipIf_gives_no_target (ev : Env → ε → JVal) (env : Env) (template forced : Fields)
    (steps : List (Step ε)) (h : ∃ s ∈ steps, skipDecision ev env s = none) :
    materialiseE ev env template forced steps = none := by
  simp only [materialiseE]
  have hne : steps.isEmpty = false := by
    obtain ⟨s, hm, _⟩ := h
    cases steps with
    | nil => simp at hm
    | cons _ _ => rfl
  simp only [hne, Bool.false_eq_true, if_false]
  rw [overlaysLoopE_undecided ev env steps h]; rfl

/-- whenever a target exists, every listed overlay is either skipped because its `skipIf` is
    `true`, or is among the overlays merged into the target; and the target is the ordered fold -/
theorem no_overlay_vanishes (ev : Env → ε → JVal) (env : Env) (template forced : Fields)
    (steps : List (Step ε)) (t : Fields) (hw : ∀ s ∈ steps, WFO s.spec) (hf : HDO forced)
    (h : materialiseE ev env template forced steps = some t) :
    (∀ s ∈ steps, skipDecision ev env s = some true ∨ s ∈ active ev env steps) ∧
    t = deepOverlay ((active ev env steps).foldl (mergeStep ev env) (deepOverlay template forced)) forced := by
  have hd : ∀ s ∈ steps, skipDecision ev env s ≠ none := by
    intro s hm hn
    rw [unevaluable_skipIf_gives_no_target ev env template forced steps ⟨s, hm, hn⟩] at h
    cases h
  constructor
  · intro s hm
    cases hdec : skipDecision ev env s with
    | none => exact absurd hdec (hd s hm)
    | some b =>
      cases b
      · right
        have := skipped_eq_of_decision ev env s false hdec
        simp [active, hm, this]
      · left; rfl
  · rw [materialiseE_of_decided ev env template forced steps hd] at h
    injection h with h
    rw [← h, materialise_is_fold ev env template forced steps hw hf]

/-! ### inside one step the `skipIf` decides first; a listed overlay that is unavailable means no target -/

/-- when the `inputs` of every *applied* function overlay evaluate, the order-aware model is the
    model above -/
theorem materialiseF_of_inputs_ok (ev : Env → ε → JVal) (ok : Env → ε → Bool) (env : Env)
    (template forced : Fields) (steps : List (Step ε))
    (h : ∀ s ∈ steps, skipDecision ev env s = some false → inputsOk ok env s = true) :
    materialiseF ev ok env template forced steps = materialiseE ev env template forced steps := by
  simp only [materialiseF, materialiseE]
  split
  · rfl
  · rw [overlaysLoopF_of_inputsOk ev ok env steps h]

/-- **`skipIf` decides before anything else of the step is evaluated**: whether the `inputs` of a
    skipped (or undecidable) step evaluate is irrelevant — the outcome depends on `ok` only through
    the steps whose `skipIf` is `false`/absent -/
theorem skipIf_decides_before_inputs (ev : Env → ε → JVal) (ok ok' : Env → ε → Bool) (env : Env)
    (template forced : Fields) (steps : List (Step ε))
    (h : ∀ s ∈ steps, skipDecision ev env s = some false → inputsOk ok env s = inputsOk ok' env s) :
    materialiseF ev ok env template forced steps = materialiseF ev ok' env template forced steps := by
  simp only [materialiseF]
  split
  · rfl
  · rw [overlaysLoopF_congr ev ok ok' env steps h]

/-- a skipped step leaves no trace even when its `inputs` could not be evaluated: the target (or the
    failure) is the one of the definition without that step -/
theorem skipped_step_with_failing_inputs_leaves_no_trace (ev : Env → ε → JVal) (ok : Env → ε → Bool)
    (env : Env) (template forced : Fields) (pre post : List (Step ε)) (s : Step ε)
    (hs : skipDecision ev env s = some true) (hf : HDO forced) :
    materialiseF ev ok env template forced (pre ++ s :: post)
      = materialiseF ev ok env template forced (pre ++ post) := by
  simp only [materialiseF]
  rw [overlaysLoopF_drop_skipped ev ok env s hs post pre]
  have h1 : (pre ++ s :: post).isEmpty = false := by cases pre <;> rfl
  simp only [h1, Bool.false_eq_true, if_false]
  split
  · rename_i he
    have hnil : pre ++ post = [] := by simpa using he
    rw [hnil]
    simp [overlaysLoopF, deep_overlay_idempotent forced hf]
  · rfl

/-- an *applied* function overlay whose `inputs` fail to evaluate: that outcome, no target -/
theorem failing_inputs_of_applied_step_gives_no_target (ev : Env → ε → JVal) (ok : Env → ε → Bool)
    (env : Env) (template forced : Fields) (steps : List (Step ε))
    (h : ∃ s ∈ steps, skipDecision ev env s = some false ∧ inputsOk ok env s = false) :
    materialiseF ev ok env template forced steps = none := by
  simp only [materialiseF]
  have hne : steps.isEmpty = false := by
    obtain ⟨s, hm, _⟩ := h
    cases steps with
    | nil => simp at hm
    | cons _ _ => rfl
  simp only [hne, Bool.false_eq_true, if_false]
  rw [overlaysLoopF_failing_inputs ev ok env steps h]; rfl

/-- a listed overlay that could not be prepared (its ValueFunction is not there yet): no target at
    all — never a target built from the remaining overlays -/
theorem unavailable_overlay_gives_no_target (ev : Env → ε → JVal) (ok : Env → ε → Bool) (env : Env)
    (template forced : Fields) (listed : List (Option (Step ε))) (h : none ∈ listed) :
    materialiseP ev ok env template forced listed = none := by
  simp [materialiseP, allAvailable_none listed h]

/-- whenever a target exists, *every* listed overlay was available, and the target is the one of
    exactly the listed steps (so, by `no_overlay_vanishes`, each of them is skipped-by-`true` or merged) -/
theorem target_uses_every_listed_overlay (ev : Env → ε → JVal) (ok : Env → ε → Bool) (env : Env)
    (template forced : Fields) (listed : List (Option (Step ε))) (t : Fields)
    (h : materialiseP ev ok env template forced listed = some t) :
    ∃ steps, listed = steps.map some ∧ materialiseF ev ok env template forced steps = some t := by
  unfold materialiseP at h
  cases ha : allAvailable listed with
  | none => simp [ha] at h
  | some steps =>
    simp only [ha] at h
    exact ⟨steps, allAvailable_some listed steps ha, h⟩

/-- the created object's view: optional `create.overlay` deep-merged over the target, forced
    overlay on top -/
theorem create_view_is_merge (ev : Env → ε → JVal) (env : Env) (target forced : Fields)
    (spec : List (String × OSpec ε)) (h : WFO spec) :
    createView ev env target forced (some spec)
      = deepOverlay (deepMerge target (evalTree ev env target spec)) forced := by
  simp only [createView]
  rw [evaluate_overlay_is_deep_merge ev env target spec h]

theorem create_view_without_overlay (ev : Env → ε → JVal) (env : Env) (target forced : Fields) :
    createView ev env target forced none = deepOverlay target forced := rfl

/-! ## ValueFunction return over `value_base` -/

/-- the return value is the deep merge of the evaluated `return` into the base (an absent base is
    the empty map) -/
theorem vf_return_is_merge (ev : Env → ε → JVal) (vf : VFn ε) (inputs : JVal) (valueBase : Option Fields)
    (h : WFO vf.ret) :
    vfReturn ev vf inputs valueBase
      = deepMerge (valueBase.getD []) (evalTree ev (vfEnv ev vf inputs valueBase) (valueBase.getD []) vf.ret) :=
  evalOverlay_eq ev _ _ vf.ret h

/-! ## determinism -/

/-- the result depends on the evaluator only through its answers: two evaluators that answer
    alike (e.g. the same evaluator asked again with equal inputs) give the same target -/
theorem deterministic (ev ev' : Env → ε → JVal) (hev : ∀ env e, ev env e = ev' env e)
    (env : Env) (template forced : Fields) (steps : List (Step ε)) :
    materialise ev env template forced steps = materialise ev' env template forced steps := by
  have : ev = ev' := funext fun env => funext fun e => hev env e
  rw [this]

theorem vf_deterministic (ev ev' : Env → ε → JVal) (hev : ∀ env e, ev env e = ev' env e)
    (vf : VFn ε) (inputs : JVal) (valueBase : Option Fields) :
    vfReturn ev vf inputs valueBase = vfReturn ev' vf inputs valueBase := by
  have : ev = ev' := funext fun env => funext fun e => hev env e
  rw [this]

/-! ## non-vacuity: concrete instances -/

section examples

/-- written overlay `{metadata: {labels: {a: "=inputs.x", b: 2}, name: "n"}, spec: {replicas: 3, sel: {}}, data: [1]}` -/
def exOverlay : Fields :=
  [("metadata", .obj [("labels", .obj [("a", .str "=inputs.x"), ("b", .int 2)]), ("name", .str "n")]),
   ("spec", .obj [("replicas", .int 3), ("sel", .obj [])]),
   ("data", .arr [.int 1])]

def exSpec : List (String × OSpec JVal) := OSpec.ofFields exOverlay

def exBase : Fields :=
  [("metadata", .obj [("labels", .obj [("z", .int 0), ("a", .str "old")]), ("uid", .str "u")]),
   ("spec", .str "not-a-map"), ("keep", .bool true)]

def exEnv : Env := [("inputs", .obj [("x", .obj [("computed", .str "map")])])]

/-- a small oracle for the examples: the handful of expressions they use, as paths into the activation -/
def exEv (env : Env) : JVal → JVal
  | .str "=inputs.x" => lookupPath (.obj env) ["inputs", "x"]
  | .str "=inputs.skip" => lookupPath (.obj env) ["inputs", "skip"]
  | .str "=inputs.v" => lookupPath (.obj env) ["inputs", "v"]
  | .str "=locals.l" => lookupPath (.obj env) ["locals", "l"]
  | .str "=resource.metadata.name" => lookupPath (.obj env) ["resource", "metadata", "name"]
  | .obj [("v", .str "=inputs.v")] => .obj [("v", lookupPath (.obj env) ["inputs", "v"])]
  | .obj [("l", .str "=inputs.v")] => .obj [("l", lookupPath (.obj env) ["inputs", "v"])]
  | v => v

-- the hypotheses are met by a three-level overlay with siblings, an empty map and a list as leaves
example : WFO exSpec := by
  simp [exSpec, exOverlay, OSpec.ofFields, OSpec.ofJVal, WFO, OSpec.WF, keysO]

example : HDO exOverlay := by simp [exOverlay, HDO, HD, HDL, JVal.keys]

-- six leaves, positions 0..5 in order; nested node starts where the previous sibling's values end
example : positionsO (indexO exSpec 0).1 = [0, 1, 2, 3, 4, 5] := by decide
example : (indexO exSpec 0).1 =
    [("metadata", .sub [("labels", .sub [("a", .pos 0), ("b", .pos 1)]), ("name", .pos 2)]),
     ("spec", .sub [("replicas", .pos 3), ("sel", .pos 4)]),
     ("data", .pos 5)] := by rfl

-- the compiled applier and the specification agree on it, and give the expected document:
-- computed map replaces, existing keys are kept, a non-map base value is replaced by a fresh map
example : evalOverlay exEv exEnv exBase exSpec =
    [("metadata", .obj [("labels", .obj [("z", .int 0), ("a", .obj [("computed", .str "map")]), ("b", .int 2)]),
                        ("uid", .str "u"), ("name", .str "n")]),
     ("spec", .obj [("replicas", .int 3), ("sel", .obj [])]),
     ("keep", .bool true),
     ("data", .arr [.int 1])] := by rfl
example : evalOverlay exEv exEnv exBase exSpec = deepMerge exBase (evalTree exEv exEnv exBase exSpec) := by rfl

-- the distinct-keys hypothesis cannot be dropped: with a repeated key (impossible in a Python dict)
-- the applier, which reads the *original* base, and the sequential merge differ
def dupSpec : List (String × OSpec JVal) :=
  [("k", .node [("a", .leaf (.int 1))]), ("k", .node [("b", .leaf (.int 2))])]
example : ¬ WFO dupSpec := by simp [dupSpec, WFO, keysO]
example : applier [] (indexO dupSpec 0).1 ((indexO dupSpec 0).2.map id) = [("k", .obj [("b", .int 2)])] := by rfl
example : deepMerge [] (mapO id dupSpec) = [("k", .obj [("a", .int 1), ("b", .int 2)])] := by rfl

-- pipeline: template, one active overlay that attacks the identity, one skipped overlay, one
-- ValueFunction overlay reading `resource`; the forced overlay wins and the skipped one leaves no trace
def exForced : Fields := forcedOverlay "v1" "ConfigMap" "cm" (some "ns")
def exSteps : List (Step JVal) :=
  [.inline none (OSpec.ofFields [("metadata", .obj [("name", .str "evil"), ("labels", .obj [("a", .int 1)])])]),
   .inline (some (.str "=inputs.skip")) (OSpec.ofFields [("data", .obj [("never", .int 0)])]),
   .vfRef none (some (.obj [("v", .str "=inputs.v")]))
     { locals := some (.obj [("l", .str "=inputs.v")]),
       ret := OSpec.ofFields [("data", .obj [("fromVf", .str "=locals.l"), ("seen", .str "=resource.metadata.name")])] }]
def exRfEnv : Env := [("inputs", .obj [("skip", .bool true), ("v", .int 7)])]

example : ∀ s ∈ exSteps, WFO s.spec := by
  simp [exSteps, Step.spec, OSpec.ofFields, OSpec.ofJVal, WFO, OSpec.WF, keysO]

example : materialise exEv exRfEnv [("data", .obj [("k", .str "v")])] exForced exSteps =
    [("data", .obj [("k", .str "v"), ("fromVf", .int 7), ("seen", .str "evil")]),
     ("apiVersion", .str "v1"), ("kind", .str "ConfigMap"),
     ("metadata", .obj [("name", .str "cm"), ("namespace", .str "ns"), ("labels", .obj [("a", .int 1)])])] := by
  rfl
-- a `skipIf` that reads an absent input (the oracle answers a non-boolean): no target
example : materialiseE exEv exRfEnv [] exForced
    (exSteps ++ [.inline (some (.str "=inputs.absent")) (OSpec.ofFields [("a", .int 1)])]) = none := by rfl
example : (materialiseE exEv exRfEnv [("data", .obj [("k", .str "v")])] exForced exSteps).isSome = true := by rfl
-- a skipped function overlay whose `inputs` cannot be evaluated does not matter; the same step applied does
def exBadInputs : Step JVal := .vfRef (some (.str "=inputs.skip")) (some (.str "=inputs.tls.secretName"))
  { locals := none, ret := OSpec.ofFields [("a", .int 1)] }
def exOk (_ : Env) : JVal → Bool
  | .str "=inputs.tls.secretName" => false
  | _ => true
example : skipDecision exEv exRfEnv exBadInputs = some true ∧ inputsOk exOk exRfEnv exBadInputs = false := by
  constructor <;> rfl
example : materialiseF exEv exOk exRfEnv [] exForced (exSteps ++ [exBadInputs])
    = materialiseF exEv exOk exRfEnv [] exForced exSteps := by rfl
example : (materialiseF exEv exOk exRfEnv [] exForced exSteps).isSome = true := by rfl
example : materialiseF exEv exOk exRfEnv [] exForced
    [.vfRef none (some (.str "=inputs.tls.secretName")) { locals := none, ret := OSpec.ofFields [("a", .int 1)] }]
    = none := by rfl
-- a listed overlay that is not available: no target, although the other overlays are fine
example : materialiseP exEv exOk exRfEnv [] exForced (exSteps.map some ++ [none]) = none := by rfl
example : (materialiseP exEv exOk exRfEnv [] exForced (exSteps.map some)).isSome = true := by rfl
-- … and the hypotheses of `skipped_overlay_leaves_no_trace` are met by the second step
example : skipped exEv exRfEnv (exSteps[1]) = true := by rfl
example : active exEv exRfEnv exSteps = [exSteps[0], exSteps[2]] := by rfl

end examples

end Koreo.C12
