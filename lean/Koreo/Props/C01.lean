/-
  C01 — Steps run only on Ok dependencies and see exactly their values.
  Property theorems only; helper lemmas are in `Koreo/Lemmas/Workflow.lean`.
  Model: `Koreo/Workflow.lean` (hand transcription of src/koreo/workflow/reconcile.py).

  Every theorem holds for every CEL oracle `eval`, every Function oracle `run` (so also for the
  one that reconciles sub-workflows, `runAt`), every trigger and every well-formed workflow
  (`Workflow.WF`: dependencies name earlier steps, labels distinct — what `prepare_workflow`
  guarantees before a `Step` is built).
-/
import Koreo.Lemmas.Workflow

namespace Koreo.C01
open Koreo Koreo.Workflow

variable (eval : EvalFn) (run : RunFn) (trig : JVal) (wf : Workflow)

/-! ## the Logic runs only after every referenced step finished Ok -/

/-- a Logic evaluation on behalf of `s` exists only if every step `s` references ended Ok -/
theorem logic_only_on_ok_deps (hwf : wf.WF = true) {s : Step} (hs : s ∈ wf.steps) {c : Call}
    (hc : c ∈ (trace eval run trig wf).calls) (hcs : c.step = s.label) :
    ∀ d ∈ s.deps, ∃ v, (trace eval run trig wf).resultOf d = some (.ok v) := by
  intro d hd
  have hmem : c ∈ (trace eval run trig wf).calls.filter (fun c => decide (c.step = s.label)) :=
    List.mem_filter.2 ⟨hc, by simpa using hcs⟩
  rw [trace_calls eval run trig wf hwf hs] at hmem
  -- the gate let the Logic run, so the dependency values were all there
  cases hok : okVals (depRes (trace eval run trig wf).results s.deps) with
  | none =>
    rw [stepResult_done (gate_of_nonok hok)] at hmem
    simp at hmem
  | some oks =>
    obtain ⟨v, hv⟩ := okVals_some_all _ hok _ (depRes_mem (env := (trace eval run trig wf).results) hd)
    refine ⟨v, ?_⟩
    unfold Trace.resultOf
    cases hl : lookupL d (trace eval run trig wf).results with
    | none => simp [hl] at hv
    | some o => simp only [hl] at hv; simp [hv]

/-- if some referenced step did not end Ok (skipped, waiting, failed, dependency-skipped), the step is
    a dependency-skip and no Logic evaluation — hence no API call — is made on its behalf -/
theorem non_ok_dep_gives_depskip (hwf : wf.WF = true) {s : Step} (hs : s ∈ wf.steps) {d : Label}
    (hd : d ∈ s.deps) (hn : ∀ v, (trace eval run trig wf).resultOf d ≠ some (.ok v)) :
    (trace eval run trig wf).resultOf s.label = some .depSkip ∧
      ∀ c ∈ (trace eval run trig wf).calls, c.step ≠ s.label := by
  have hok : okVals (depRes (trace eval run trig wf).results s.deps) = none := by
    rw [okVals_none_iff]
    refine ⟨_, depRes_mem (env := (trace eval run trig wf).results) hd, ?_⟩
    cases hl : lookupL d (trace eval run trig wf).results with
    | none => rfl
    | some o =>
      cases hr : o.res with
      | ok v => exact absurd (by simp [Trace.resultOf, hl, hr]) (hn v)
      | _ => simp [hr, StepRes.isOk]
  have hres := stepResult_done (run := run) (gate_of_nonok (eval := eval) (trig := trig) (s := s) hok)
  constructor
  · simp [Trace.resultOf, trace_result eval run trig wf hwf hs, hres]
  · intro c hc hcs
    have hmem : c ∈ (trace eval run trig wf).calls.filter (fun c => decide (c.step = s.label)) :=
      List.mem_filter.2 ⟨hc, by simpa using hcs⟩
    rw [trace_calls eval run trig wf hwf hs, hres] at hmem
    simp at hmem

/-! ## it receives exactly the dependencies' values mapped through `inputs` -/

/-- the inputs of every Logic evaluation on behalf of `s` are `s.inputs` evaluated over
    `{steps: Ok values of exactly the referenced steps, parent: trigger}` — plus, for a forEach step,
    the evaluation's own item under `inputKey` -/
theorem inputs_exact (hwf : wf.WF = true) {s : Step} (hs : s ∈ wf.steps) {c : Call}
    (hc : c ∈ (trace eval run trig wf).calls) (hcs : c.step = s.label) :
    ∃ oks inputs,
      depRes (trace eval run trig wf).results s.deps = oks.map (fun kv => (kv.1, StepRes.ok kv.2)) ∧
      evalInputs eval s (activation trig s.deps oks) = some inputs ∧
      match s.forEach with
      | none => c.idx = none ∧ c.inputs = inputs
      | some fe => ∃ items i it,
          eval fe.itemIn (.obj (activation trig s.deps oks)) = some (.arr items) ∧
          c.idx = some i ∧ items[i]? = some it ∧ c.inputs = setKey fe.inputKey it inputs := by
  have hmem : c ∈ (trace eval run trig wf).calls.filter (fun c => decide (c.step = s.label)) :=
    List.mem_filter.2 ⟨hc, by simpa using hcs⟩
  rw [trace_calls eval run trig wf hwf hs] at hmem
  have hat := (stepResult_calls eval run trig _ s c hmem).2.1
  cases hg : gate eval trig (depRes (trace eval run trig wf).results s.deps) s with
  | done o => rw [stepResult_done hg] at hmem; simp at hmem
  | single act inputs =>
    obtain ⟨oks, hoks, rfl, hin, -, hfe⟩ := gate_single hg
    refine ⟨oks, inputs, okVals_some_eq _ hoks, hin, ?_⟩
    rw [hfe]
    rw [hg] at hat
    cases hi : c.idx with
    | none => simp [hi, Gate.inputsAt] at hat; exact ⟨rfl, hat.symm⟩
    | some i => simp [hi, Gate.inputsAt] at hat
  | each act inputs key items =>
    obtain ⟨oks, fe, hoks, rfl, hin, -, hfe, rfl, hitems, -⟩ := gate_each hg
    refine ⟨oks, inputs, okVals_some_eq _ hoks, hin, ?_⟩
    rw [hfe]
    rw [hg] at hat
    cases hi : c.idx with
    | none => simp [hi, Gate.inputsAt] at hat
    | some i =>
      simp only [hi, Gate.inputsAt, Option.map_eq_some_iff] at hat
      obtain ⟨it, hit, hci⟩ := hat
      exact ⟨items, i, it, hitems, rfl, hit, hci.symm⟩

/-- … and every recorded evaluation really handed those inputs to the Function it names -/
theorem call_api_is_functions (hwf : wf.WF = true) {s : Step} (hs : s ∈ wf.steps) {c : Call}
    (hc : c ∈ (trace eval run trig wf).calls) (hcs : c.step = s.label) :
    c.api = (run c.target c.inputs).api := by
  have hmem : c ∈ (trace eval run trig wf).calls.filter (fun c => decide (c.step = s.label)) :=
    List.mem_filter.2 ⟨hc, by simpa using hcs⟩
  rw [trace_calls eval run trig wf hwf hs] at hmem
  exact (stepResult_calls eval run trig _ s c hmem).2.2

/-! ## skipIf -/

/-- `skipIf` true (dependencies Ok, inputs evaluable): the step is a Skip and its Logic is never evaluated -/
theorem skipif_true_skips (hwf : wf.WF = true) {s : Step} (hs : s ∈ wf.steps) {oks inputs e}
    (hok : (trace eval run trig wf).okValsOf s.deps = some oks)
    (hin : evalInputs eval s (activation trig s.deps oks) = some inputs)
    (hsk : s.skipIf = some e) (htrue : eval e (.obj (activation trig s.deps oks)) = some (.bool true)) :
    (trace eval run trig wf).resultOf s.label = some .skip ∧ (trace eval run trig wf).callsOf s.label = [] := by
  have hdec : skipDecision eval s (activation trig s.deps oks) = .skip := by
    simp [skipDecision, hsk, htrue]
  have hres := stepResult_done (run := run) (gate_of_skip (eval := eval) (trig := trig) hok hin hdec)
  constructor
  · simp [Trace.resultOf, trace_result eval run trig wf hwf hs, hres]
  · unfold Trace.callsOf
    rw [trace_calls eval run trig wf hwf hs, hres]

/-- `skipIf` true never lets the Logic run — also when `inputs` cannot be evaluated (then PermFail) -/
theorem skipif_true_never_runs (hwf : wf.WF = true) {s : Step} (hs : s ∈ wf.steps) {oks e}
    (hok : (trace eval run trig wf).okValsOf s.deps = some oks)
    (hsk : s.skipIf = some e) (htrue : eval e (.obj (activation trig s.deps oks)) = some (.bool true)) :
    (trace eval run trig wf).callsOf s.label = [] ∧
      ((trace eval run trig wf).resultOf s.label = some .skip ∨
       (trace eval run trig wf).resultOf s.label = some .permFail) := by
  cases hin : evalInputs eval s (activation trig s.deps oks) with
  | some inputs =>
    have := skipif_true_skips eval run trig wf hwf hs hok hin hsk htrue
    exact ⟨this.2, Or.inl this.1⟩
  | none =>
    have hg : gate eval trig (depRes (trace eval run trig wf).results s.deps) s = .done ⟨.permFail, .null⟩ := by
      unfold gate; unfold Trace.okValsOf at hok; simp [hok, hin]
    have hres := stepResult_done (run := run) hg
    constructor
    · unfold Trace.callsOf
      rw [trace_calls eval run trig wf hwf hs, hres]
    · right; simp [Trace.resultOf, trace_result eval run trig wf hwf hs, hres]

/-- `skipIf` that is not a bool (or cannot be evaluated): PermFail, Logic never evaluated -/
theorem skipif_nonbool_permfail (hwf : wf.WF = true) {s : Step} (hs : s ∈ wf.steps) {oks inputs e}
    (hok : (trace eval run trig wf).okValsOf s.deps = some oks)
    (hin : evalInputs eval s (activation trig s.deps oks) = some inputs)
    (hsk : s.skipIf = some e) (hnb : ∀ b, eval e (.obj (activation trig s.deps oks)) ≠ some (.bool b)) :
    (trace eval run trig wf).resultOf s.label = some .permFail ∧
      (trace eval run trig wf).callsOf s.label = [] := by
  have hdec : skipDecision eval s (activation trig s.deps oks) = .fail := by
    simp only [skipDecision, hsk]
    split
    · next h => exact absurd h (hnb true)
    · next h => exact absurd h (hnb false)
    · rfl
  have hres := stepResult_done (run := run) (gate_of_skip_fail (eval := eval) (trig := trig) hok hin hdec)
  constructor
  · simp [Trace.resultOf, trace_result eval run trig wf hwf hs, hres]
  · unfold Trace.callsOf
    rw [trace_calls eval run trig wf hwf hs, hres]

/-! ## refSwitch evaluates exactly the selected case -/

/-- every Function a `refSwitch` step evaluates is the case `switchOn` selected for that evaluation's
    inputs (the default when no case matches) -/
theorem switch_runs_exactly_selected (hwf : wf.WF = true) {s : Step} (hs : s ∈ wf.steps) {on cases dflt}
    (hl : s.logic = .switch on cases dflt) {c : Call}
    (hc : c ∈ (trace eval run trig wf).calls) (hcs : c.step = s.label) :
    ∃ oks, (trace eval run trig wf).okValsOf s.deps = some oks ∧
      select eval on cases dflt (activation trig s.deps oks) c.inputs = .hit c.target := by
  have hmem : c ∈ (trace eval run trig wf).calls.filter (fun c => decide (c.step = s.label)) :=
    List.mem_filter.2 ⟨hc, by simpa using hcs⟩
  rw [trace_calls eval run trig wf hwf hs] at hmem
  have key : ∀ idx act inputs, c ∈ (runLogic eval run s.label idx act inputs s.logic).2 →
      select eval on cases dflt act c.inputs = .hit c.target := by
    intro idx act inputs h
    rw [hl, runLogic_switch_calls] at h
    split at h
    · next t ht => simp at h; subst h; exact ht
    · simp at h
  unfold stepResult at hmem
  split at hmem
  · simp at hmem
  · next act inputs hg =>
    obtain ⟨oks, hoks, rfl, -⟩ := gate_single hg
    exact ⟨oks, hoks, key _ _ _ hmem⟩
  · next act inputs k items hg =>
    obtain ⟨oks, fe, hoks, rfl, -⟩ := gate_each hg
    obtain ⟨-, j, it, -, -, -, h5⟩ := runItems_calls eval run s.label _ inputs k s.logic 0 items c hmem
    exact ⟨oks, hoks, key _ _ _ h5⟩

/-- one evaluation of a step's Logic evaluates at most one Function: a plain step makes at most one call,
    a forEach step at most one per item -/
theorem at_most_one_call_per_evaluation (hwf : wf.WF = true) {s : Step} (hs : s ∈ wf.steps)
    (hfe : s.forEach = none) : ((trace eval run trig wf).callsOf s.label).length ≤ 1 := by
  unfold Trace.callsOf
  rw [trace_calls eval run trig wf hwf hs]
  unfold stepResult
  split
  · simp
  · exact runLogic_calls_length ..
  · next hg => obtain ⟨_, fe, -, -, -, -, h, -⟩ := gate_each hg; simp [hfe] at h

/-- nothing matches and there is no default (or `switchOn` is unevaluable / not a string or int):
    PermFail and no Function is evaluated at all -/
theorem switch_unmatched_runs_nothing (hwf : wf.WF = true) {s : Step} (hs : s ∈ wf.steps) {on cases dflt}
    (hl : s.logic = .switch on cases dflt) (hfe : s.forEach = none) {oks inputs}
    (hok : (trace eval run trig wf).okValsOf s.deps = some oks)
    (hin : evalInputs eval s (activation trig s.deps oks) = some inputs)
    (hgo : skipDecision eval s (activation trig s.deps oks) = .go)
    (hno : ∀ t, select eval on cases dflt (activation trig s.deps oks) inputs ≠ .hit t) :
    (trace eval run trig wf).resultOf s.label = some .permFail ∧
      (trace eval run trig wf).callsOf s.label = [] := by
  have hg : gate eval trig (depRes (trace eval run trig wf).results s.deps) s =
      .single (activation trig s.deps oks) inputs := by
    unfold gate; unfold Trace.okValsOf at hok; simp [hok, hin, hgo, hfe]
  have hres : stepResult eval run trig (depRes (trace eval run trig wf).results s.deps) s =
      (⟨.permFail, .null⟩, []) := by
    unfold stepResult
    rw [hg]
    simp only [hl]
    apply Prod.ext
    · rw [runLogic_switch_res]; split
      · next t ht => exact absurd ht (hno t)
      · rfl
    · rw [runLogic_switch_calls]; split
      · next t ht => exact absurd ht (hno t)
      · rfl
  constructor
  · simp [Trace.resultOf, trace_result eval run trig wf hwf hs, hres]
  · unfold Trace.callsOf
    rw [trace_calls eval run trig wf hwf hs, hres]

/-- what "selected" means: the case whose key is the string `switchOn` evaluated to, else the default;
    an int never equals a (string) case key -/
theorem select_spec (on : Expr) (cases : List (String × Target)) (dflt : Option Target) (act inputs) (t : Target) :
    select eval on cases dflt act inputs = .hit t ↔
      (∃ k, eval on (.obj (("inputs", inputs) :: act)) = some (.str k) ∧
        (lookupL k cases = some t ∨ (lookupL k cases = none ∧ dflt = some t))) ∨
      (∃ n, eval on (.obj (("inputs", inputs) :: act)) = some (.int n) ∧ dflt = some t) := by
  unfold select
  cases hv : eval on (.obj (("inputs", inputs) :: act)) with
  | none => simp
  | some v =>
    cases v with
    | str k =>
      cases hk : lookupL k cases with
      | some t' => simp [orDefault, hk]
      | none => cases dflt <;> simp [orDefault, hk]
    | int n => cases dflt <;> simp [orDefault]
    | _ => simp

/-! ## well-formedness (`Workflow.WF : Bool`, a decidable check) and what it buys -/

/-- in a well-formed workflow every dependency names a step listed earlier, and labels are distinct -/
theorem wf_deps_earlier (hwf : wf.WF = true) :
    (labels wf.steps).Nodup ∧ ∀ s ∈ wf.steps, ∀ d ∈ s.deps, d ∈ labels wf.steps := by
  have hw : wfSteps [] wf.steps = true := by simpa [Workflow.WF] using hwf
  refine ⟨(wfSteps_labels_nodup hw).1, ?_⟩
  intro s hs d hd
  rcases wfSteps_deps hw s hs d hd with h | h
  · simp at h
  · exact h

/-- every step of a well-formed workflow gets a result -/
theorem every_step_has_result (hwf : wf.WF = true) {s : Step} (hs : s ∈ wf.steps) :
    ∃ r, (trace eval run trig wf).resultOf s.label = some r := by
  simp [Trace.resultOf, trace_result eval run trig wf hwf hs]

/-! ## non-vacuity: a concrete workflow in which each clause fires -/

section example_
/-- echo (`f`), a failing Function (`boom`), a skipping one (`sk`) -/
def exRun : RunFn := fun t inputs =>
  match t with
  | .fn "f" => ⟨.ok (.obj [("got", inputs)]), .null, ["GET f"]⟩
  | .fn "g" => ⟨.ok (.obj [("got", inputs)]), .null, ["GET g"]⟩
  | .fn "sk" => ⟨.skip, .null, []⟩
  | _ => ⟨.permFail, .null, []⟩

def exWf : Workflow :=
  { name := "ex"
    steps := [
      { label := "a", logic := .ref (.fn "f"),
        inputs := some (.mapE [("x", .path "parent" ["v"]), ("sel", .lit (.str "two"))]) },
      { label := "b", deps := ["a"], logic := .ref (.fn "sk"), inputs := some (.mapE [("y", .path "steps" ["a", "got", "x"])]) },
      { label := "c", deps := ["b"], logic := .ref (.fn "f") },
      { label := "d", deps := ["a"], logic := .ref (.fn "f"), skipIf := some (.lit (.bool true)) },
      { label := "e", deps := ["a"], logic := .ref (.fn "f"), skipIf := some (.lit (.int 1)) },
      { label := "s", deps := ["a"],
        logic := .switch (.path "steps" ["a", "got", "sel"]) [("one", .fn "f"), ("two", .fn "g")] none },
      { label := "each", deps := ["a"], logic := .ref (.fn "g"), inputs := some (.mapE [("k", .lit (.int 7))]),
        forEach := some ⟨.lit (.arr [.str "p", .str "q"]), "item"⟩ } ] }

def exTrig : JVal := .obj [("v", .int 5)]

example : exWf.WF = true := by decide

/-- `a` ran on `{x: 5, sel: "two"}`; `b` (Skip) blocks `c`; `d` skipped; `e` PermFail; the switch ran only `g` -/
example : ((trace evalStd exRun exTrig exWf).results.map fun kv => (kv.1, reason kv.2.res)) =
    [("a", "Ready"), ("b", "Skip"), ("c", "DepSkip"), ("d", "Skip"), ("e", "Failure"), ("s", "Ready"),
     ("each", "Ready")] := by decide

example : ((trace evalStd exRun exTrig exWf).calls.map fun c => (c.step, c.api)) =
    [("a", ["GET f"]), ("b", []), ("s", ["GET g"]), ("each", ["GET g"]), ("each", ["GET g"])] := by decide

/-- the hypotheses of `non_ok_dep_gives_depskip` are met by `c` (its dependency `b` is a Skip) -/
example : ∀ v, (trace evalStd exRun exTrig exWf).resultOf "b" ≠ some (.ok v) := by
  intro v h
  have : ((trace evalStd exRun exTrig exWf).resultOf "b").map reason = some "Skip" := by decide
  rw [h] at this; simp [reason] at this
end example_

end Koreo.C01
