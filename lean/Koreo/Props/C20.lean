/-
  C20 — Preparing any definition never crashes; schema violations are rejected.
  Property theorems only; helper lemmas are in `Koreo/Lemmas/CelAstTotal.lean`.
  Models: `Koreo/CelAst.lean` (`extract_argument_structure` over lark trees, the name patterns),
  `Koreo/WorkflowPrep.lean` (`prepareK`: the schema gate) — REPAIRED sources (fix F5).
  `Koreo/Gen/CelTables.lean` (celpy's grammar as lark compiled it, the extractor's dispatch
  sets and the fate of each `raise`, the name patterns, the position of the schema gate in the
  five `prepare_*`) is regenerated on every run.

  Not exhibited by the model: Python-level exceptions inside the prepare bodies on
  schema-valid-but-odd specs (searched by harness/c20.py, not proved); C11's encoder totality.
-/
import Koreo.Lemmas.CelAstTotal
import Koreo.Lemmas.CelAst
import Koreo.WorkflowPrep
import Koreo.Gen.CelTables

namespace Koreo.C20
open Koreo.CelAst Koreo.WorkflowPrep
open Koreo.Gen.CelTables (rules)

/-! ## the model agrees with the real code on a probed, complete fact table -/

theorem extraction_ok : Koreo.Gen.CelTables.extractionOk = true := by decide

/-- the model returns what the real `extract_argument_structure` returned on every probe tree (every node type at
    every position, every literal token type, every child count, the parsed odd receivers); see `Props/C14` -/
theorem extractor_probes_match_source :
    Koreo.Gen.CelTables.probes.all (fun p => probeAgrees p.1 p.2) = true := by decide +kernel

theorem probes_cover_every_position :
    probePositions.all (fun pos => allKinds.all fun k => Koreo.Gen.CelTables.probeCoverage.contains (pos, k)) = true := by
  decide +kernel

/-- For every position the extractor inspects, every node kind celpy's grammar (regenerated) admits there is
    handled or skipped by the model's dispatch; the children it indexes exist. -/
theorem dispatch_complete : DispatchComplete rules modelDispatch = true := by decide

/-! ## the reference analysis is total on everything the grammar admits -/

/-- For **every** parse tree a grammar admits (any depth, any receiver of `.`, `[]`, calls), an
    extractor whose dispatch tables are complete for that grammar returns a key set: no
    `raise` statement is reached uncaught, no `children[i]` is out of range, no attribute of a
    `Token` is taken. -/
theorem extract_total {g : Grammar} {d : Dispatch} {t : Cel}
    (ht : GrammarTree g t) (hd : DispatchComplete g d = true) : ∃ ks, extractWith d t = .ok ks :=
  extractWith_total ht hd

/-- …in particular `extract_argument_structure` of the current source on every tree of the
    current celpy grammar -/
theorem extract_total_current {t : Cel} (ht : GrammarTree rules t) : ∃ ks, extract t = .ok ks :=
  extract_total ht dispatch_complete

/-- every subtree of a grammatical tree is grammatical, so the claim holds for each expression
    nested in a definition's expression as well -/
theorem subtree_grammatical {g : Grammar} {t s : Cel} (ht : GrammarTree g t) (hs : s ∈ t.subtrees) :
    GrammarTree g s :=
  subtrees_conf t ht s hs

/-- …is not complete for celpy's grammar, -/
theorem unrepaired_incomplete : DispatchComplete rules unrepairedDispatch = false := by decide

open Cel in
/-- `(a).b` -/
def parenReceiver : Cel :=
  liftMember (member (memberDot (member (primary (paren (liftMember (var "a"))))) "b"))

/-- …and indeed raises on the grammatical tree of `(a).b`, which the repaired one handles. -/
theorem unrepaired_raises_on_witness :
    GrammarTree rules parenReceiver ∧
    extractWith unrepairedDispatch parenReceiver = .error "UNKNOWN PRIMARY DATA TYPE" ∧
    extract parenReceiver = .ok [] :=
  ⟨confB_sound _ (by decide), by decide, by decide⟩

/-! ## names -/

/-- `STEPS_NAME_PATTERN` never puts `None` into a dependency set -/
theorem steps_name_never_none (keys : List String) : none ∉ stepsNamesRaw keys := by
  intro h
  unfold stepsNamesRaw at h
  obtain ⟨m, hm, hn⟩ := List.mem_map.1 h
  obtain ⟨k, _, hk⟩ := List.mem_filterMap.1 hm
  exact stepsMatch_name_some hk hn

/-- hence the set the out-of-order message joins consists of strings -/
theorem step_deps_are_names (keys : List String) :
    (stepsNamesRaw keys) = (stepDeps keys).map some := by
  unfold stepsNamesRaw stepDeps stepsName
  induction keys with
  | nil => rfl
  | cons k ks ih =>
    simp only [List.filterMap_cons]
    cases hm : stepsMatch k with
    | none => simpa using ih
    | some m =>
      have := stepsMatch_name_some hm
      cases hn : m.name with
      | none => exact absurd hn this
      | some nm => simp [hn, ih]

/-! ## the optional group of `INPUTS_NAME_PATTERN`: a `None` name is reported, never raised -/

/-- for every probed pair (keys of a cached ValueFunction, inputs an `overlayRef` provides) the real
    `_prepare_overlays` reported exactly the missing names the model computes — `None` names included — and did
    not raise: ties `inputsMatch`, `missingInputs` and the way the message is built to the source by behaviour -/
theorem overlay_inputs_probes_match_source :
    Koreo.Gen.CelTables.overlayProbes.all (fun p => overlayProbeAgrees p.1 p.2.1 p.2.2) = true := by decide +kernel

/-- identifiers that merely start with `inputs` (and `inputs[".x"]`) match the pattern without a name -/
theorem inputs_name_can_be_none :
    inputsMatch "inputs2.zone" = some ⟨none⟩ ∧ inputsMatch "inputs..zone" = some ⟨none⟩ ∧
    inputsMatch "inputs.zone.id" = some ⟨some "zone"⟩ ∧ inputsMatch "steps.zone" = none := by decide

/-- a `None` name can never be provided: it is always among the missing inputs -/
theorem none_name_always_missing (keys provided : List String) (h : none ∈ neededInputs keys) :
    none ∈ missingInputs keys provided := by
  unfold missingInputs
  exact List.mem_filter.2 ⟨h, rfl⟩

/-- with the source's way of building the message the input check of an `overlayRef` never raises,
    whatever the ValueFunction's keys and the provided inputs are; a `None` name is printed as `"None"` -/
theorem overlay_inputs_check_total (keys provided : List String) :
    ∃ r, overlayInputsCheck modelJoinStyle keys provided = .ok r := by
  unfold overlayInputsCheck modelJoinStyle
  simp only
  split
  · exact ⟨none, rfl⟩
  · exact ⟨some ((missingInputs keys provided).map fun m => "\"" ++ pyFormat m ++ "\""),
      by simp [missingNames, Except.map]⟩

theorem none_name_message : (overlayInputsCheck modelJoinStyle ["inputs.x", "inputs2.zone"] ["y"]).toOption
    = some (some ["\"x\"", "\"None\""]) := by decide

/-- the mechanism of seeded change C20-t2: sorting the names (or joining them raw) raises as soon
    as a `None` name sits next to an ordinary missing one -/
theorem sorted_or_raw_join_would_raise :
    (overlayInputsCheck (.formatEach true) ["inputs.x", "inputs2.zone"] []).toOption = none ∧
    (overlayInputsCheck (.raw false) ["inputs2.zone"] []).toOption = none ∧
    (overlayInputsCheck (.formatEach true) ["inputs.x", "inputs.y"] []).toOption.isSome = true := by decide

/-! ## the schema gate comes first -/

/-- probed: three schema-violating specs of each of the five kinds were answered with `PermFail` while neither
    `celpy.Environment.compile` nor a cache lookup had been called -/
theorem schema_gate_first_probed :
    Koreo.Gen.CelTables.gateProbes.map (·.1) =
      ["ValueFunction", "ValueFunction", "ValueFunction", "ResourceFunction", "ResourceFunction", "ResourceFunction",
       "ResourceTemplate", "ResourceTemplate", "ResourceTemplate", "Workflow", "Workflow", "Workflow",
       "FunctionTest", "FunctionTest", "FunctionTest"] ∧
    Koreo.Gen.CelTables.gateProbes.all (·.2) = true := by decide

/-- a spec that violates the schema is answered with `PermFail` and nothing was compiled or
    looked up: validation is the only thing that happened -/
theorem invalid_spec_permfail_first {Spec : Type} (schemaValid : Spec → Bool)
    (body : Spec → List Ev × PrepR) (spec : Spec) (h : schemaValid spec = false) :
    prepareK schemaValid body spec = ([.validate], .permFail) := by
  simp [prepareK, h]

/-- whatever the spec, validation is the first event and the result is one of the three outcomes -/
theorem validate_always_first {Spec : Type} (schemaValid : Spec → Bool)
    (body : Spec → List Ev × PrepR) (spec : Spec) :
    (prepareK schemaValid body spec).1.head? = some .validate := by
  unfold prepareK
  split <;> rfl

/-! ## a prepare never leaves the process unable to prepare (kr8s' class registry, fix F12) -/

/-- whatever `apiVersion` a ResourceFunction names, the registry stays one every later lookup can walk -/
theorem registry_stays_usable (reg : Registry) (av : String) (h : lookupOk reg = true) :
    lookupOk (prepareApi reg av).1 = true := by
  unfold prepareApi
  split
  · exact h
  · split
    · exact h
    · rename_i hs
      simp only [h, Bool.not_true, Bool.false_eq_true, if_false]
      simp only [lookupOk, List.all_cons, Bool.and_eq_true]
      exact ⟨by simp only [unpackOk, decide_eq_true_eq]; omega, h⟩

/-- for every sequence of prepares in one process: none raises, and the registry is usable afterwards -/
theorem prepare_sequence_never_raises : ∀ (avs : List String) (reg : Registry), lookupOk reg = true →
    lookupOk (prepareApiSeq prepareApi reg avs).1 = true ∧ ApiR.raised ∉ (prepareApiSeq prepareApi reg avs).2
  | [], reg, h => ⟨h, by simp [prepareApiSeq]⟩
  | av :: rest, reg, h => by
    have h1 := registry_stays_usable reg av h
    obtain ⟨ih1, ih2⟩ := prepare_sequence_never_raises rest (prepareApi reg av).1 h1
    simp only [prepareApiSeq]
    refine ⟨ih1, ?_⟩
    simp only [List.mem_cons, not_or]
    refine ⟨?_, ih2⟩
    unfold prepareApi
    split
    · simp
    · split
      · simp
      · split <;> simp

/-- …so an ordinary function prepared after any such sequence is prepared, not failed -/
theorem ordinary_prepare_after_any_sequence (avs : List String) (av : String)
    (hav : av ≠ "") (hs : slashes av ≤ 1) :
    (prepareApi (prepareApiSeq prepareApi [] avs).1 av).2 = .prepared := by
  have h := (prepare_sequence_never_raises avs [] rfl).1
  generalize (prepareApiSeq prepareApi [] avs).1 = reg at h
  have : ¬ slashes av > 1 := by omega
  simp [prepareApi, hav, h, this]

/-- before F12 one function with `apiVersion: a/b/c` made the next prepare raise -/
theorem unrepaired_registry_poisoned :
    (prepareApiSeq prepareApiOld [] ["a/b/c", "v1"]).2 = [.prepared, .raised] := by decide

/-- the retry delay of an expected outcome is a whole number or rejected — never an exception (fix F13) -/
theorem retry_delay_total (n : Option Int) : (∃ d, retryDelay n = some d) ∨ retryDelay n = none := by
  cases h : retryDelay n with
  | none => exact Or.inr rfl
  | some d => exact Or.inl ⟨d, rfl⟩

theorem retry_delay_integral_float : retryDelay (some 8) = some 1 ∧ retryDelay (some 20) = none := by decide

/-! ## `refSwitch`: any list of cases, any state of each case's function (round 6)

`_load_logic_switch` keeps the loaded logics in a dict keyed by the `case` value (`dictSet`): a later entry with the
same `case` shadows an earlier one, whose outcome is then never part of the readiness check.  The `dynamic_input_keys`
are therefore read inside the loop, off the logics that loaded (`.fn`), never off an error outcome. -/

/-- a loaded function is what the cache holds as ready under that reference -/
theorem loadLogic_fn {env : Env} {r : Ref} {w : Bool} {ks : List String}
    (h : (loadLogic env r).2 = .fn w ks) : env r = .ready w ks := by
  unfold loadLogic at h
  split at h
  · cases h
  · split at h
    · cases h
    · split at h
      · cases h
      · cases he : env r with
        | missing => rw [he] at h; cases h
        | unhealthy => rw [he] at h; cases h
        | ready w' ks' => rw [he] at h; cases h; rfl

/-- whatever the cases (duplicate `case` values, several defaults, any reference) and whatever the cache holds,
    every key the switch collects was read off a case whose function is cached as READY: a case whose function is
    missing or unhealthy — shadowed by a later entry or not — contributes nothing and nothing is read off its outcome -/
theorem switch_keys_only_from_ready_cases {env : Env} : ∀ (cases : List CaseSpec) (acc acc' : SwitchAcc),
    switchLoop env cases acc = some acc' →
    ∀ k ∈ acc'.keys, k ∈ acc.keys ∨
      ∃ c ∈ cases, ∃ w ks, env c.ref = .ready w ks ∧ (k ∈ ks ∨ ∃ k' ∈ ks, k = "inputs." ++ k')
  | [], acc, acc', h => by
    simp only [switchLoop, Option.some.injEq] at h; subst h
    exact fun k hk => Or.inl hk
  | c :: rest, acc, acc', h => by
    unfold switchLoop at h
    split at h
    · cases h
    · simp only at h
      intro k hk
      rcases switch_keys_only_from_ready_cases rest _ acc' h k hk with hin | ⟨c', hc', w, ks, he, hk'⟩
      · cases hl : (loadLogic env c.ref).2 with
        | err e => rw [hl] at hin; exact Or.inl hin
        | switch ks => rw [hl] at hin; exact Or.inl hin
        | fn w ks =>
          rw [hl] at hin
          have he := loadLogic_fn hl
          cases w with
          | true =>
            rcases List.mem_append.1 hin with h1 | h2
            · exact Or.inl h1
            · obtain ⟨k', hk', rfl⟩ := List.mem_map.1 h2
              exact Or.inr ⟨c, List.mem_cons_self, true, ks, he, Or.inr ⟨k', hk', rfl⟩⟩
          | false =>
            rcases List.mem_append.1 hin with h1 | h2
            · exact Or.inl h1
            · exact Or.inr ⟨c, List.mem_cons_self, false, ks, he, Or.inl h2⟩
      · exact Or.inr ⟨c', List.mem_cons_of_mem _ hc', w, ks, he, hk'⟩

/-- `_load_logic_switch` never raises: for every list of cases and every cache state it answers a LogicSwitch or an
    error outcome, provided the reference analysis of `switchOn` does not raise (which `extract_total_current` gives
    for every parse tree of the grammar) -/
theorem switch_load_never_raises (env : Env) (sw : SwitchSpec)
    (hx : ∀ t, sw.switchOn = .ast t → ∃ ks, extract t = .ok ks) :
    ∃ r, loadLogicSwitch env sw = .ok r := by
  unfold loadLogicSwitch
  cases hs : sw.switchOn with
  | absent => exact ⟨_, rfl⟩
  | parseFail => exact ⟨_, rfl⟩
  | ast t =>
    obtain ⟨ks, hk⟩ := hx t hs
    simp only [hk]
    split
    · exact ⟨_, rfl⟩
    · split
      · exact ⟨_, rfl⟩
      · split
        · exact ⟨_, rfl⟩
        · split <;> exact ⟨_, rfl⟩

/-- the seeded C20-x2 situation: two entries with the same `case`, the earlier one's function not cached, the later
    one's ready and default — the switch is prepared (the shadowed Retry is not in `logic_map`), with the keys of the
    ready function only -/
def shadowEnv : Env := fun r => if r.name = "fn-b" then .ready false ["inputs.x"] else .missing

theorem shadowed_unready_case_prepares :
    (switchLoop shadowEnv [⟨"std", false, ⟨"ValueFunction", "fn-a"⟩⟩, ⟨"std", true, ⟨"ValueFunction", "fn-b"⟩⟩]
        ⟨[], [], none, ["parent.spec.flavour"]⟩).map
      (fun acc => (acc.keys, worstErr (acc.logicMap.map (·.2)), acc.logicMap.length, acc.resources))
      = some (["parent.spec.flavour", "inputs.x"], none, 1,
              [("ValueFunction", "fn-a"), ("ValueFunction", "fn-b")]) := by decide

/-! ## non-vacuity -/

open Cel in
/-- `inputs.x[!a]`, `"abc".size().x`-like and `Foo{}.b` shapes are grammatical and handled -/
def oddIndex : Cel :=
  liftMember (member (memberIndex (member (memberDot (var "inputs") "x"))
    (expr1 (or1 (and1 (rel1 (add1 (mul1 (unaryNot (unaryMember (var "a")))))))))))

example : GrammarTree rules oddIndex := confB_sound _ (by decide)
example : extract oddIndex = .ok ["inputs.x"] := by decide
example : extractWith unrepairedDispatch oddIndex = .error "CAN NOT PROCESS MEMBER_INDEX terminal expr" := by decide

open Cel in
def emptyCallReceiver : Cel :=
  liftMember (member (memberDot (member (memberDotArg (var "s") "size" [])) "x"))

example : GrammarTree rules emptyCallReceiver := confB_sound _ (by decide)
example : extract emptyCallReceiver = .ok [] := by decide

open Cel in
def objectReceiver : Cel :=
  liftMember (member (memberDot (member (memberObject (var "Foo") [])) "b"))

example : GrammarTree rules objectReceiver := confB_sound _ (by decide)
example : extract objectReceiver = .ok [] := by decide
example : (extractWith unrepairedDispatch objectReceiver).toOption = none := by decide

example : stepsNamesRaw ["steps.a.b", "steps2.x", "inputs.y", "steps_q.z"] = [some "a", some "q"] := by decide

example : prepareK (fun (n : Nat) => n % 2 == 0) (fun _ => ([.compile, .lookup], .prepared)) 3
    = ([.validate], .permFail) := by decide
example : prepareK (fun (n : Nat) => n % 2 == 0) (fun _ => ([.compile, .lookup], .retry)) 4
    = ([.validate, .compile, .lookup], .retry) := by decide

end Koreo.C20
