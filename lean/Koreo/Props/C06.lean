/-
  C06 — Managed object identity is pinned to apiConfig.
  Property theorems only; helper lemmas are in `Koreo/Lemmas/{RfAssoc,Identity,Pipeline}.lean`.
  Models: `Koreo/Identity.lean` (`deepOverlay`, `forced`, `identity`, kr8s addressing),
  `Koreo/ResourceFn.lean` (`materialise`, `createPayload`, `patchPayload`, `reconcile`).

  The layers that could redirect an object — inline resource / ResourceTemplate (`tmpl`), every
  overlay and overlayRef function (`steps`), create.overlay (`createOv`), with whatever the inputs
  make them compute — are arbitrary values / arbitrary partial functions on the running resource:
  every theorem below quantifies over all of them.
-/
import Koreo.Lemmas.Pipeline

namespace Koreo.C06
open Koreo JVal Koreo.Identity Koreo.Payload Koreo.ResourceFn

/-! ## the forced overlay wins -/

/-- Laid over **any** value `x` — any template result, `metadata` a map, a scalar, a list, null or
    missing, `apiVersion`/`kind` anything — the forced overlay leaves exactly apiConfig's identity. -/
theorem forced_wins (x : JVal) (ver kind name ns : String) :
    identity (deepOverlay x (forced ⟨ver, kind, name, some ns⟩)) =
      ⟨some (.str ver), some (.str kind), some (.str name), some (.str ns)⟩ := by
  obtain ⟨h1, h2, h3, h4⟩ := Rf.pinned_deepOverlay_forced x ⟨ver, kind, name, some ns⟩
  simp only [identity, h1, h2, h3, h4 ns rfl]

/-- no namespace in apiConfig (cluster-scoped kinds): version, kind and name are still forced -/
theorem forced_wins_cluster_scoped (x : JVal) (ver kind name : String) :
    (identity (deepOverlay x (forced ⟨ver, kind, name, none⟩))).apiVersion = some (.str ver) ∧
    (identity (deepOverlay x (forced ⟨ver, kind, name, none⟩))).kind = some (.str kind) ∧
    (identity (deepOverlay x (forced ⟨ver, kind, name, none⟩))).name = some (.str name) := by
  obtain ⟨h1, h2, h3, _⟩ := Rf.pinned_deepOverlay_forced x ⟨ver, kind, name, none⟩
  exact ⟨h1, h2, h3⟩

/-- the same, as the predicate the pipeline theorems use -/
theorem forced_wins_pinned (x : JVal) (t : Target) : Pinned t (deepOverlay x (forced t)) :=
  Rf.pinned_deepOverlay_forced x t

/-- `Pinned` is exactly "the identity is apiConfig's" when apiConfig names a namespace -/
theorem pinned_iff_identity (v : JVal) (ver kind name ns : String) :
    Pinned ⟨ver, kind, name, some ns⟩ v ↔
      identity v = ⟨some (.str ver), some (.str kind), some (.str name), some (.str ns)⟩ := by
  constructor
  · rintro ⟨h1, h2, h3, h4⟩
    simp only [identity, h1, h2, h3, h4 ns rfl]
  · intro h
    simp only [identity, Ident.mk.injEq] at h
    exact ⟨h.1, h.2.1, h.2.2.1, fun n hn => by cases hn; exact h.2.2.2⟩

/-! ## nothing after the forced overlay touches the identity -/

theorem strip_preserves_identity (t : Target) (v : JVal) (h : Pinned t v) : Pinned t (strip v) :=
  Rf.pinned_strip t v h

/-- `resource_view["metadata"]["ownerReferences"] = refs` -/
theorem ownerRefs_preserve_identity (t : Target) (refs v v' : JVal)
    (h : setMetaKey "ownerReferences" refs v = some v') (hp : Pinned t v) : Pinned t v' :=
  Rf.pinned_setMetaKey t h (by decide) (by decide) hp

/-- `_prepare_for_api` (strip + the last-applied annotation and its containers) -/
theorem prepareForApi_preserves_identity (t : Target) (enc : JVal → String) (o p : JVal)
    (h : prepareForApi enc o = some p) (hp : Pinned t o) : Pinned t p :=
  Rf.pinned_prepareForApi t h hp

/-- the target a reconcile compares and patches with: for every template and every list of overlay steps -/
theorem materialise_identity (t : Target) (tmpl : JVal) (steps : List Step) (e : JVal)
    (h : materialise (forced t) tmpl steps = some e) : Pinned t e :=
  Rf.materialise_pinned t tmpl steps h

/-! ## the class a function talks through is its own apiConfig's -/

/-- `_prepare_api_config`: every function gets the class of **its own** apiVersion and kind —
    nothing is shared between functions of the same kind or group (the class is a function of
    the spec alone), so a second function for another version of the same kind keeps its version -/
theorem prepared_class_follows_apiConfig (a : ApiConfigSpec) :
    a.cls.ver = a.apiVersion ∧ a.cls.kind = a.kind ∧ a.cls.plural = a.plural ∧ a.cls.namespaced = a.namespaced :=
  ⟨rfl, rfl, rfl, rfl⟩

/-! ## what is sent -/

theorem request_of_reconcile {enc : JVal → String} {defNs : String} {cmp : JVal → JVal → Bool} {pp : Bool}
    {rf : Rf} {owner : Owner} {stored : Option JVal} {req : Request}
    (h : (reconcile enc defNs cmp pp rf owner stored).request = some req) :
    (reconcileKrm enc defNs cmp rf owner stored).request = some req := Rf.request_of_reconcile h

/-- a namespaced kind whose `apiConfig.namespace` evaluates to nothing (`""`, null, missing) is
    never sent anywhere: no request, no API access at all, PermFail — whatever namespace the
    inline resource, a template or an overlay names -/
theorem namespaced_without_namespace_touches_nothing (enc : JVal → String) (defNs : String)
    (cmp : JVal → JVal → Bool) (pp : Bool) (rf : Rf) (owner : Owner) (stored : Option JVal)
    (hn : rf.api.namespaced = true) (hns : rf.ns = none) :
    (reconcile enc defNs cmp pp rf owner stored).request = none ∧
    (reconcile enc defNs cmp pp rf owner stored).action = .noApiAtAll ∧
    (pp = true → (reconcile enc defNs cmp pp rf owner stored).outcome = some .permFail) := by
  unfold reconcile
  cases pp <;> simp [hn, hns]

/-- so every request of a namespaced function is made for a namespace apiConfig evaluated to -/
theorem request_implies_namespace {enc : JVal → String} {defNs : String} {cmp : JVal → JVal → Bool} {pp : Bool}
    {rf : Rf} {owner : Owner} {stored : Option JVal} {req : Request}
    (h : (reconcile enc defNs cmp pp rf owner stored).request = some req) (hn : rf.api.namespaced = true) :
    ∃ n, rf.ns = some n := by
  cases hns : rf.ns with
  | some n => exact ⟨n, rfl⟩
  | none =>
    have := (namespaced_without_namespace_touches_nothing enc defNs cmp pp rf owner stored hn hns).1
    rw [this] at h; cases h

/-- every POST body carries exactly the apiVersion, kind, metadata.name (and namespace, when
    apiConfig names one) that apiConfig evaluates to — for every template, overlay list, overlay
    function, create overlay, owner, stored state and comparator -/
theorem create_payload_identity (enc : JVal → String) (defNs : String) (cmp : JVal → JVal → Bool) (pp : Bool)
    (rf : Rf) (owner : Owner) (stored : Option JVal) (req : Request)
    (h : (reconcile enc defNs cmp pp rf owner stored).request = some req) (hm : req.method = .post) :
    ∃ b, req.body = some b ∧ Pinned rf.target b := by
  rcases Rf.request_cases enc defNs cmp rf owner stored req (request_of_reconcile h) with
    ⟨_, _, _, _, view, p, _, hp, hq⟩ | ⟨live, e, p, _, _, _, _, _, _, hq⟩ | ⟨live, _, hq⟩
  · obtain ⟨_, _, _, _, b, hb, hpb, _⟩ :=
      Rf.createRequest_spec rf.target rf.api defNs rfl rfl (Rf.createPayload_pinned rf.target enc view _ _ _ hp) hq
    exact ⟨b, hb, hpb⟩
  · simp only [patchRequest, Option.map_eq_some_iff] at hq
    obtain ⟨n, _, rfl⟩ := hq
    cases hm
  · simp only [deleteRequest, Option.map_eq_some_iff] at hq
    obtain ⟨n, _, rfl⟩ := hq
    cases hm

/-- every PATCH body likewise -/
theorem patch_payload_identity (enc : JVal → String) (defNs : String) (cmp : JVal → JVal → Bool) (pp : Bool)
    (rf : Rf) (owner : Owner) (stored : Option JVal) (req : Request)
    (h : (reconcile enc defNs cmp pp rf owner stored).request = some req) (hm : req.method = .patch) :
    ∃ b, req.body = some b ∧ Pinned rf.target b := by
  rcases Rf.request_cases enc defNs cmp rf owner stored req (request_of_reconcile h) with
    ⟨_, _, _, _, view, p, _, hp, hq⟩ | ⟨live, e, p, _, _, _, _, he, hp, hq⟩ | ⟨live, _, hq⟩
  · obtain ⟨hpost, _⟩ :=
      Rf.createRequest_spec rf.target rf.api defNs rfl rfl (Rf.createPayload_pinned rf.target enc view _ _ _ hp) hq
    rw [hpost] at hm; cases hm
  · simp only [patchRequest, Option.map_eq_some_iff] at hq
    obtain ⟨n, _, rfl⟩ := hq
    exact ⟨p, rfl, Rf.patchPayload_pinned rf.target enc e live _ _ _ (Rf.materialise_pinned rf.target _ _ he) hp⟩
  · simp only [deleteRequest, Option.map_eq_some_iff] at hq
    obtain ⟨n, _, rfl⟩ := hq
    cases hm

/-! ## where it is sent -/

/-- the POST goes to the class's endpoint, in the namespace apiConfig evaluates to (namespaced
    kinds; `prepare` and `reconcile_krm_resource` insist on one) or without a namespace
    (cluster-scoped kinds); the name travels in the body, which is pinned -/
theorem create_addressed_to_identity (enc : JVal → String) (defNs : String) (cmp : JVal → JVal → Bool) (pp : Bool)
    (rf : Rf) (owner : Owner) (stored : Option JVal) (req : Request)
    (h : (reconcile enc defNs cmp pp rf owner stored).request = some req) (hm : req.method = .post) :
    req.plural = rf.api.plural ∧ req.version = rf.api.ver ∧
    (∀ n, rf.api.namespaced = true → rf.ns = some n → req.nsArg = some (.str n)) ∧
    (rf.api.namespaced = false → req.nsArg = none) ∧
    (∃ b, req.body = some b ∧ metaKey "name" b = some (.str rf.name)) := by
  rcases Rf.request_cases enc defNs cmp rf owner stored req (request_of_reconcile h) with
    ⟨_, _, _, _, view, p, _, hp, hq⟩ | ⟨live, e, p, _, _, _, _, _, _, hq⟩ | ⟨live, _, hq⟩
  · obtain ⟨_, hpl, hver, _, b, hb, hpb, hns⟩ :=
      Rf.createRequest_spec rf.target rf.api defNs rfl rfl (Rf.createPayload_pinned rf.target enc view _ _ _ hp) hq
    refine ⟨hpl, hver, ?_, ?_, b, hb, hpb.2.2.1⟩
    · intro n hnsd hn
      have := hpb.2.2.2 n hn
      simp [hns, hnsd, this]
    · intro hnsd
      simp [hns, hnsd]
  · simp only [patchRequest, Option.map_eq_some_iff] at hq
    obtain ⟨n, _, rfl⟩ := hq
    cases hm
  · simp only [deleteRequest, Option.map_eq_some_iff] at hq
    obtain ⟨n, _, rfl⟩ := hq
    cases hm

/-- the loaded object as kr8s sees it keeps the stored name and, for namespaced kinds, lives in
    the namespace it was asked for -/
theorem loaded_address (c : ApiClass) (stored loaded : JVal) (ns : Option String)
    (h : krLoaded c stored ns = some loaded) :
    metaKey "name" loaded = metaKey "name" stored ∧
    (∀ n, c.namespaced = true → ns = some n → metaKey "namespace" loaded = some (.str n)) := by
  unfold krLoaded at h
  simp only [Option.map_eq_some_iff] at h
  obtain ⟨o, ho, rfl⟩ := h
  constructor
  · rw [Rf.metaKey_krRaw]
    cases hc : c.namespaced with
    | false => simp [hc, krNew] at ho; rw [ho]
    | true =>
      cases ns with
      | none => simp [hc, krNew] at ho; rw [ho]
      | some n =>
        simp only [hc, if_true, krNew] at ho
        exact Rf.metaKey_setMetaKey_ne ho (by decide)
  · intro n hc hn
    subst hn
    rw [Rf.metaKey_krRaw]
    simp only [hc, if_true, krNew] at ho
    exact Rf.metaKey_setMetaKey_self ho

/-- a PATCH (and a DELETE) is addressed to the object that was loaded: same endpoint, the loaded
    object's name — which is apiConfig's name when the server answered the GET for that name —
    and the namespace the GET was made in -/
theorem patch_addressed_to_loaded (enc : JVal → String) (defNs : String) (cmp : JVal → JVal → Bool) (pp : Bool)
    (rf : Rf) (owner : Owner) (stored : JVal) (req : Request)
    (h : (reconcile enc defNs cmp pp rf owner (some stored)).request = some req)
    (hm : req.method = .patch ∨ req.method = .delete) :
    req.plural = rf.api.plural ∧ req.version = rf.api.ver ∧ req.name = metaKey "name" stored ∧
    (metaKey "name" stored = some (.str rf.name) → req.name = some (.str rf.name)) ∧
    (∀ n, rf.api.namespaced = true → rf.ns = some n → req.nsArg = some (.str n)) ∧
    (rf.api.namespaced = false → req.nsArg = none) := by
  have key : ∀ live, Rf.loadedOf rf (some stored) = some live → ∀ n' body,
      req = ⟨req.method, rf.api.plural, some n', krNamespace rf.api defNs live, body, rf.api.ver⟩ →
      metaKey "name" live = some n' →
      req.plural = rf.api.plural ∧ req.version = rf.api.ver ∧ req.name = metaKey "name" stored ∧
      (metaKey "name" stored = some (.str rf.name) → req.name = some (.str rf.name)) ∧
      (∀ n, rf.api.namespaced = true → rf.ns = some n → req.nsArg = some (.str n)) ∧
      (rf.api.namespaced = false → req.nsArg = none) := by
    intro live hl n' body hreq hn'
    have hla := loaded_address rf.api stored live rf.ns (by simpa [Rf.loadedOf] using hl)
    have hname : req.name = metaKey "name" stored := by rw [hreq]; simp [← hla.1, hn']
    refine ⟨by rw [hreq], by rw [hreq], hname, fun hs => by rw [hname, hs], ?_, ?_⟩
    · intro n hc hn
      rw [hreq]
      simp [krNamespace, hc, hla.2 n hc hn]
    · intro hc
      rw [hreq]
      simp [krNamespace, hc]
  rcases Rf.request_cases enc defNs cmp rf owner (some stored) req (request_of_reconcile h) with
    ⟨_, _, _, _, view, p, _, hp, hq⟩ | ⟨live, e, p, hl, _, _, _, _, _, hq⟩ | ⟨live, hl, hq⟩
  · obtain ⟨hpost, _⟩ :=
      Rf.createRequest_spec rf.target rf.api defNs rfl rfl (Rf.createPayload_pinned rf.target enc view _ _ _ hp) hq
    rw [hpost] at hm; rcases hm with hm | hm <;> cases hm
  · simp only [patchRequest, Option.map_eq_some_iff] at hq
    obtain ⟨n', hn', hreq⟩ := hq
    exact key live hl n' (some p) (by rw [← hreq]) hn'
  · simp only [deleteRequest, Option.map_eq_some_iff] at hq
    obtain ⟨n', hn', hreq⟩ := hq
    exact key live hl n' none (by rw [← hreq]) hn'

/-! ## non-vacuity: an adversarial stack that does send something -/

section example_
def evilTemplate : JVal :=
  .obj [("apiVersion", .str "v1"), ("kind", .str "Secret"), ("metadata", .int 5), ("spec", .obj [("a", .int 1)])]
/-- an overlay step that replaces `metadata` by a map naming another object and changes the kind -/
def evilStep : Step := fun r =>
  match r with
  | .obj kvs => some (.obj (JVal.insert "kind" (.str "ClusterRole")
      (JVal.insert "metadata" (.obj [("name", .str "admin"), ("namespace", .str "kube-system")]) kvs)))
  | _ => none
/-- a create overlay that replaces `metadata` by a list -/
def evilCreate : Step := fun r =>
  match r with
  | .obj kvs => some (.obj (JVal.insert "metadata" (.arr [.str "x"]) kvs))
  | _ => none
def exampleRf : Rf :=
  { api := ⟨"verif.test/v1", "Widget", "widgets", true⟩, name := "obj", ns := some "ns1", readonly := false,
    owned := true, createEnabled := true, deleteIfExists := false, policy := .patch,
    tmpl := evilTemplate, steps := [evilStep], createOv := some evilCreate }
def exampleOwner : Owner := ⟨some "ns1", .obj [("uid", .str "u")]⟩

/-- the adversarial function does POST, so `create_payload_identity` is not vacuous … -/
example : ((reconcile (fun _ => "") "default" (fun _ _ => true) true exampleRf exampleOwner none).request.map
    fun r => r.method) = some .post := by decide
def strOf : Option JVal → Option String
  | some (.str s) => some s
  | _ => none
def idStrings (v : JVal) : List (Option String) :=
  [strOf (getKey "apiVersion" v), strOf (getKey "kind" v), strOf (metaKey "name" v), strOf (metaKey "namespace" v)]
/-- … and what it posts is pinned (checked by evaluation, independently of the theorem) -/
example : ((reconcile (fun _ => "") "default" (fun _ _ => true) true exampleRf exampleOwner none).request.bind
    fun r => r.body.map idStrings) = some [some "verif.test/v1", some "Widget", some "obj", some "ns1"] := by decide
/-- without the forced overlays the same stack would have sent another object's identity -/
example : ((applyCreateOv exampleRf.createOv =<< runSteps exampleRf.tmpl exampleRf.steps).map idStrings) =
    some [some "v1", some "ClusterRole", none, none] := by decide
end example_

/-! ## key conversion (F18): the pin is applied after CEL keys have become text -/

/-- whatever CEL value the template / overlays produced — typed keys and all — the object that
    `_pin_identity` leaves after `convert_bools` carries apiConfig's identity -/
theorem identity_survives_key_conversion (t : Target) (c : CVal) (kvs : Fields)
    (h : convert c = .obj kvs) : Pinned t (pinIdentity t (convert c)) := by
  rw [h]
  exact forced_wins_pinned (.obj kvs) t

/-- the pin is idempotent on what it produced: pinning the converted object is not undone by a
    second conversion-free pass (the patch path pins, compares, and sends the same object) -/
theorem pin_of_pinned_is_pinned (t : Target) (v : JVal) (kvs : Fields) (h : v = .obj kvs) :
    Pinned t (pinIdentity t (pinIdentity t v)) := by
  subst h
  simp only [pinIdentity]
  cases hd : deepOverlay (JVal.obj kvs) (forced t) with
  | obj m => exact forced_wins_pinned (.obj m) t
  | null | bool _ | int _ | flt _ | str _ | arr _ =>
    have := forced_wins_pinned (.obj kvs) t
    rw [hd] at this
    simp [Pinned, getKey] at this

/-- why the pin has to come AFTER the conversion: a metadata map that is pinned as a CEL value (its text
    key `name` holds apiConfig's name) converts to one that names another object, because the bytes key
    whose base64 text is "name" folds onto it.  (The failing input of F18, in the model.) -/
def foldingMetadata : CVal :=
  .map [(.text "name", .plain (.str "obj")), (.text "namespace", .plain (.str "ns1")),
        (.bytes "name", .plain (.str "evil-name"))]

theorem conversion_can_fold_onto_identity :
    metaKey "name" (convert (.map [(.text "metadata", foldingMetadata)])) = some (.str "evil-name") := by
  rfl

/-- ... and with the pin after the conversion the same value is sent under apiConfig's identity -/
example : metaKey "name" (pinIdentity ⟨"v1", "Thing", "obj", some "ns1"⟩
    (convert (.map [(.text "metadata", foldingMetadata)]))) = some (.str "obj") := by
  rfl


end Koreo.C06
