/-
  C18 — FunctionTest cases chain sequentially; variant and skipped cases leave no trace.
  Property theorems only.  Model: `runCase` / `runCases` of `Koreo/FunctionTest.lean` (transcribed
  from `_run_test_case` / `_run_test_cases`); helper lemmas in `Koreo/Lemmas/FunctionTest.lean`.

  All theorems hold for case lists of ANY length, for every oracle `env` (the Function under test
  with its per-case mock API, and the CEL evaluation of `overlayResource`).

  The per-case mock API (`MockApi`, `_merge_overlay`) is modelled in `Koreo/MockApi.lean` as a state
  machine over GET / write / DELETE calls; the section "the per-case mock API" below proves, for every
  conversation a Function can have with it, what the runner reads back and hands to the next case.

  Not expressible in this functional model (checked by deep snapshots in harness/c18.py only):
  "no case can modify the Function under test or the base fixtures" — object identity / aliasing.
-/
import Koreo.Lemmas.FunctionTest
import Koreo.Lemmas.MockApi
import Koreo.ResourceFn

namespace Koreo.C18
open Koreo JVal Koreo.FT
variable {Ov : Type}

/-! ## what one case hands on -/

/-- a skipped case does nothing at all -/
theorem skip_is_noop (env : Env Ov) (st : State) (c : Case Ov) (h : c.skip = true) :
    runCase env st c = (st, .skipped, false) := by
  simp [runCase, h]

/-- variant and skipped cases hand on exactly the state they received -/
theorem variant_skip_preserve_state (env : Env Ov) (st : State) (c : Case Ov)
    (h : c.skip = true ∨ c.variant = true) : (runCase env st c).1 = st := by
  apply aux_state
  unfold isCore
  rcases h with h | h <;> simp [h]

/-- a non-variant case that ran hands on the inputs it gave the Function (the overlaid ones) and the
    resource the mock materialised (or, without a request, the resource it started from), and is
    fatal exactly when it failed -/
theorem nonvariant_threads (env : Env Ov) (st : State) (c : Case Ov)
    (hs : c.skip = false) (hv : c.variant = false)
    (pass : Bool) (inputs : JVal) (resource : Option JVal) (res : FnResult)
    (hr : (runCase env st c).2.1 = .ran pass inputs resource res) :
    (runCase env st c).1 =
      { inputs := some inputs,
        resource := if res.eff.apiCalled then res.eff.materialized else resource } ∧
    (runCase env st c).2.2 = !pass ∧
    inputs = caseInputs st c ∧ res = env.fn inputs resource ∧ pass = verdict c.assertion res := by
  unfold runCase at hr ⊢
  simp only [hs, Bool.false_eq_true, if_false] at hr ⊢
  cases ho : c.overlay with
  | none =>
    rw [ho] at hr
    simp only [finishCase, hv, Bool.false_eq_true, if_false, CaseResult.ran.injEq] at hr ⊢
    obtain ⟨h1, h2, h3, h4⟩ := hr
    subst h2 h3 h4 h1
    exact ⟨rfl, rfl, rfl, rfl, rfl⟩
  | some ov =>
    rw [ho] at hr
    simp only at hr ⊢
    by_cases ht : truthyO st.resource = true
    · simp only [ht, if_true] at hr ⊢
      cases he : env.evalOverlay ov (caseInputs st c) (st.resource.getD (.obj [])) with
      | none => rw [he] at hr; cases hr
      | some r =>
        rw [he] at hr
        simp only [finishCase, hv, Bool.false_eq_true, if_false, CaseResult.ran.injEq] at hr ⊢
        obtain ⟨h1, h2, h3, h4⟩ := hr
        subst h2 h3 h4 h1
        exact ⟨rfl, rfl, rfl, rfl, rfl⟩
    · simp only [ht, Bool.false_eq_true, if_false] at hr
      cases hr

/-- a variant or skipped case aborts the run only through the setup error the property excludes
    (`overlayResource` before a resource exists) -/
theorem aux_fatal_iff_setup_error (env : Env Ov) (st : State) (c : Case Ov) (h : isCore c = false) :
    (runCase env st c).2.2 = true ↔ (runCase env st c).2.1 = .setupError := by
  unfold isCore at h
  unfold runCase
  cases hs : c.skip with
  | true => simp
  | false =>
    have hv : c.variant = true := by simpa [hs] using h
    simp only [Bool.false_eq_true, if_false]
    cases c.overlay with
    | none => simp [finishCase, hv]
    | some ov =>
      simp only
      split
      · split <;> simp [finishCase, hv]
      · simp

/-! ## a case depends only on the base state and the non-variant cases before it -/

/-- The result of the case at any position is the result of running that case on the state produced
    by the NON-VARIANT, NON-SKIPPED cases before it (variant and skipped predecessors are invisible),
    provided the run got that far. -/
theorem case_depends_only_on_prefix (env : Env Ov) (st : State) (pre post : List (Case Ov)) (c : Case Ov)
    (h : (runCases env st pre).2 = false) :
    (runCases env st (pre ++ c :: post)).1[pre.length]? =
      some (runCase env (stateAfter env st (core pre)) c).2.1 := by
  obtain ⟨hl, happ⟩ := runCases_append env st pre (c :: post) h
  rw [happ, ← stateAfter_core]
  simp only
  rw [List.getElem?_append_right (by omega), hl, Nat.sub_self]
  simp only [runCases]
  rcases runCase env (stateAfter env st pre) c with ⟨st', r, fatal⟩
  cases fatal <;> simp

/-- the run stops at the first fatal case: nothing after it is executed -/
theorem stops_at_first_fatal (env : Env Ov) (st : State) (pre post : List (Case Ov)) (c : Case Ov)
    (h : (runCases env st pre).2 = false)
    (hf : (runCase env (stateAfter env st (core pre)) c).2.2 = true) :
    (runCases env st (pre ++ c :: post)).1.length = pre.length + 1 ∧
    (runCases env st (pre ++ c :: post)).2 = true := by
  obtain ⟨hl, happ⟩ := runCases_append env st pre (c :: post) h
  rw [happ, ← stateAfter_core] at *
  simp only [runCases]
  rcases hr : runCase env (stateAfter env st pre) c with ⟨st', r, fatal⟩
  rw [hr] at hf
  simp only at hf
  subst hf
  simp [hl]

/-! ## removing, adding, reordering variant cases; removing skipped cases -/

/-- Two case lists with the same non-variant, non-skipped cases in the same order — i.e. lists that
    differ by removal, insertion or reordering of variant cases and removal (or insertion) of
    skipped cases — give every one of those cases the same result, up to and including the first
    failing one where both runs stop, and the same `fatal_error` flag.
    (`NoAuxFatal`: no variant case hits the setup error; see `aux_fatal_iff_setup_error`.) -/
theorem results_invariant_under_variant_edits (env : Env Ov) (st : State) (cs cs' : List (Case Ov))
    (hcore : core cs = core cs') (h : NoAuxFatal env st cs) (h' : NoAuxFatal env st cs') :
    coreResults cs (runCases env st cs).1 = coreResults cs' (runCases env st cs').1 ∧
    (runCases env st cs).2 = (runCases env st cs').2 := by
  have a := core_run env st cs h
  have b := core_run env st cs' h'
  rw [a.1, a.2, b.1, b.2, hcore]
  exact ⟨rfl, rfl⟩

/-- … they are the results of the list with every variant and skipped case deleted -/
theorem results_are_those_of_the_core (env : Env Ov) (st : State) (cs : List (Case Ov))
    (h : NoAuxFatal env st cs) :
    coreResults cs (runCases env st cs).1 = (runCases env st (core cs)).1 :=
  (core_run env st cs h).1

/-- removal: dropping any set of variant / skipped cases keeps the core -/
theorem core_after_removal (cs : List (Case Ov)) (keep : Case Ov → Bool)
    (hk : ∀ c, isCore c = true → keep c = true) : core (cs.filter keep) = core cs := by
  unfold core
  rw [List.filter_filter]
  congr 1
  funext c
  cases hc : isCore c with
  | true => simp [hk c hc]
  | false => simp

/-- insertion of a variant / skipped case anywhere keeps the core -/
theorem core_after_insertion (pre post : List (Case Ov)) (x : Case Ov) (hx : isCore x = false) :
    core (pre ++ x :: post) = core (pre ++ post) := by
  simp [core, List.filter_append, hx]

/-- moving a variant / skipped case across any neighbour keeps the core -/
theorem core_after_swap (pre post : List (Case Ov)) (x y : Case Ov) (hx : isCore x = false) :
    core (pre ++ x :: y :: post) = core (pre ++ y :: x :: post) := by
  simp only [core, List.filter_append, List.filter_cons, hx]
  cases isCore y <;> simp

/-- a variant case too gets the same result wherever it is placed between the same two non-variant
    cases, and whatever other variant / skipped cases surround it -/
theorem variant_result_depends_on_core_prefix (env : Env Ov) (st : State)
    (pre post pre' post' : List (Case Ov)) (c : Case Ov)
    (hcore : core pre = core pre')
    (h : (runCases env st pre).2 = false) (h' : (runCases env st pre').2 = false) :
    (runCases env st (pre ++ c :: post)).1[pre.length]? =
      (runCases env st (pre' ++ c :: post')).1[pre'.length]? := by
  rw [case_depends_only_on_prefix env st pre post c h,
    case_depends_only_on_prefix env st pre' post' c h', hcore]

/-! ## the hypotheses are satisfiable by a non-trivial run -/


/-! ## the per-case mock API (`Koreo/MockApi.lean`): what a case's conversation leaves for the next case -/

section MockApi
open Koreo.FT.Mock

/-- the mock belongs to one case: whatever the Function has done so far, a GET answers the case's own
    resource (never something an earlier request of the same case materialised) -/
theorem mock_get_answers_the_case_resource (cur : Option JVal) (cs : List Call) :
    answer (run (fresh cur) cs) .get = answer (fresh cur) .get := by
  simp [answer, run_current]

/-- `_api_called` is set exactly by mutating requests: reads alone leave no trace -/
theorem mock_apiCalled_iff_mutation (cur : Option JVal) (cs : List Call) :
    (run (fresh cur) cs).apiCalled = cs.any Call.isMutation := by
  simp [run_apiCalled, fresh]

/-- `_delete_called` is set exactly by a DELETE -/
theorem mock_deleteCalled_iff_delete (cur : Option JVal) (cs : List Call) :
    (run (fresh cur) cs).deleteCalled = cs.any Call.isDelete := by
  simp [run_deleteCalled, fresh]

/-- `materialized` is what the LAST mutating request materialised over the case's own resource
    (`{}` for a DELETE), and nothing when there was none -/
theorem mock_materialized_is_last_mutation (cur : Option JVal) (cs : List Call) :
    (run (fresh cur) cs).materialized = (effectOf cur cs).materialized := by
  rw [run_materialized]
  unfold effectOf
  cases hl : lastMutation cs with
  | none => simp [matOf, fresh, Effect.materialized]
  | some d =>
    have hd := lastMutation_isMutation cs d hl
    cases d with
    | get => simp [Call.isMutation] at hd
    | delete => simp [matOf, Effect.materialized]
    | write b => simp [matOf, fresh, Effect.materialized]

/-- the `Effect` of the C18/C19 model agrees with the mock on `_api_called` for every conversation -/
theorem effect_apiCalled_agrees (cur : Option JVal) (cs : List Call) :
    (effectOf cur cs).apiCalled = (run (fresh cur) cs).apiCalled := by
  rw [mock_apiCalled_iff_mutation]
  unfold effectOf
  cases hl : lastMutation cs with
  | none =>
    have := (lastMutation_none_iff cs).mp hl
    simp [Effect.apiCalled, this]
  | some d =>
    have hd := lastMutation_isMutation cs d hl
    have hne : cs.any Call.isMutation = true := by
      cases h : cs.any Call.isMutation with
      | true => rfl
      | false => have := (lastMutation_none_iff cs).mpr h; rw [hl] at this; cases this
    cases d with
    | get => simp [Call.isMutation] at hd
    | delete => simp [Effect.apiCalled, hne]
    | write b => simp [Effect.apiCalled, hne]

/-- ... and on `_delete_called` whenever the Function made at most one mutating request in the
    reconcile (what C07 bounds: `rejected_mutation_is_the_only_attempt`, `delete_only_by_mode_or_recreate`);
    so the three-valued `Effect` loses nothing the runner reads -/
theorem effect_exact_of_single_mutation (cur : Option JVal) (cs : List Call)
    (h : (cs.filter Call.isMutation).length ≤ 1) :
    (effectOf cur cs).deleteCalled = (run (fresh cur) cs).deleteCalled := by
  rw [mock_deleteCalled_iff_delete, any_isDelete_of_single cs h]
  unfold effectOf
  cases hl : lastMutation cs with
  | none => simp [Effect.deleteCalled]
  | some d => cases d <;> simp [Effect.deleteCalled]

/-- what the runner hands to the next case is `finishCase`'s expression over that `Effect` -/
theorem handedOn_is_finishCase_rule (cur : Option JVal) (cs : List Call) (resource : Option JVal) :
    handedOn (run (fresh cur) cs) resource =
      (if (effectOf cur cs).apiCalled then (effectOf cur cs).materialized else resource) := by
  unfold handedOn
  rw [effect_apiCalled_agrees, mock_materialized_is_last_mutation]

/-- a case whose Function only read (or made no request) hands on the resource it started from -/
theorem readonly_case_hands_on_its_resource (cur : Option JVal) (cs : List Call) (resource : Option JVal)
    (h : cs.any Call.isMutation = false) : handedOn (run (fresh cur) cs) resource = resource := by
  unfold handedOn
  rw [mock_apiCalled_iff_mutation, h]
  simp

/-- a write when the case has no resource materialises exactly the body (a create) -/
theorem write_without_resource_is_the_body (cur : Option JVal) (body : JVal) (h : truthyO cur = false) :
    merged cur body = body := by
  simp [merged, h]

/-- a write over an existing resource replaces the top-level keys the body names (Python dict: unique
    keys) and keeps every other top-level key of the case's resource -/
theorem write_replaces_named_top_level_keys (b o : List (String × JVal)) (hb : b ≠ []) (hnd : (keys o).Nodup)
    (k : String) :
    ∃ m, merged (some (.obj b)) (.obj o) = .obj m ∧
      lookup k m = (match lookup k o with | some v => some v | none => lookup k b) := by
  have ht : truthyO (some (JVal.obj b)) = true := by
    cases b with
    | nil => exact absurd rfl hb
    | cons x xs => simp [truthyO, truthy]
  refine ⟨mergeTop b o, by simp [merged, ht], ?_⟩
  cases hl : lookup k o with
  | none => simpa using lookup_mergeTop_notin k o b hl
  | some v => simpa using lookup_mergeTop_in k v o b hnd hl

/-- after a non-variant case that deleted, the threaded resource is `{}`: a following case that uses
    `overlayResource` without giving a `currentResource` is the setup error (the runner has nothing to
    overlay), not an overlay of the deleted object -/
theorem overlay_after_delete_is_setup_error (env : Env Ov) (st : State) (c : Case Ov) (ov : Ov)
    (cur : Option JVal) (cs : List Call) (hdel : lastMutation cs = some .delete)
    (hst : st.resource = handedOn (run (fresh cur) cs) cur)
    (hs : c.skip = false) (ho : c.overlay = some ov) :
    runCase env st c = (st, .setupError, true) := by
  have hm : cs.any Call.isMutation = true := by
    cases h : cs.any Call.isMutation with
    | true => rfl
    | false => have := (lastMutation_none_iff cs).mpr h; rw [hdel] at this; cases this
  have hres : st.resource = some (.obj []) := by
    rw [hst, handedOn_is_finishCase_rule]
    simp [effectOf, hdel, Effect.apiCalled, Effect.materialized]
  simp [runCase, hs, ho, hres, truthyO, truthy]

end MockApi


/-! ## a ResourceFunction under test: its conversation with the mock has at most one mutation -/

section RfOverMock
open Koreo.FT.Mock

/-- the conversation one reconcile of the ResourceFunction model (`Koreo/ResourceFn.lean`, the model C06/C07/C08
    tie to the real `reconcile_resource_function`) has with the case's mock: any number of reads, then the
    one mutating request of the run, if any -/
def callOfRequest (m : Koreo.Identity.Method) (body : Option JVal) : Call :=
  match m with
  | .delete => Call.delete
  | .post => Call.write (body.getD (.obj []))
  | .patch => Call.write (body.getD (.obj []))

theorem callOfRequest_isMutation (m : Koreo.Identity.Method) (body : Option JVal) :
    (callOfRequest m body).isMutation = true := by
  cases m <;> rfl

def callsOfRun (reads : Nat) (r : Koreo.ResourceFn.Run) : List Call :=
  List.replicate reads Call.get ++
    (match r.request with
     | none => []
     | some q => [callOfRequest q.method q.body])

theorem filter_replicate_get (n : Nat) : (List.replicate n Call.get).filter Call.isMutation = [] := by
  induction n with
  | zero => rfl
  | succ k ih => simp [List.replicate_succ, List.filter, Call.isMutation, ih]

/-- every run of the ResourceFunction model makes at most one mutating request … -/
theorem rf_conversation_has_single_mutation (reads : Nat) (r : Koreo.ResourceFn.Run) :
    ((callsOfRun reads r).filter Call.isMutation).length ≤ 1 := by
  unfold callsOfRun
  rw [List.filter_append, filter_replicate_get]
  cases r.request with
  | none => simp
  | some q => simp [List.filter, callOfRequest_isMutation]

/-- … so for a ResourceFunction under test the three-valued `Effect` the runner model threads is exactly
    what the mock recorded (`_api_called`, `_delete_called`, `materialized`), whatever the case's resource -/
theorem rf_effect_is_exact (reads : Nat) (r : Koreo.ResourceFn.Run) (cur : Option JVal) :
    (effectOf cur (callsOfRun reads r)).apiCalled = (run (fresh cur) (callsOfRun reads r)).apiCalled ∧
    (effectOf cur (callsOfRun reads r)).deleteCalled = (run (fresh cur) (callsOfRun reads r)).deleteCalled ∧
    (effectOf cur (callsOfRun reads r)).materialized = (run (fresh cur) (callsOfRun reads r)).materialized :=
  ⟨effect_apiCalled_agrees cur _,
   effect_exact_of_single_mutation cur _ (rf_conversation_has_single_mutation reads r),
   (mock_materialized_is_last_mutation cur _).symm⟩

end RfOverMock

/-- an echoing Function: returns what it received, never calls the API -/
def echoEnv : Env JVal where
  evalOverlay := fun ov _ base => some (deepOverlay base ov)
  fn := fun inputs res => ⟨.ok (.obj [("inputs", inputs), ("resource", res.getD .null)]), .none⟩

def exCases : List (Case JVal) :=
  [ { assertion := .outcome .ok, overrides := some (.obj [("a", .int 1)]) },
    { assertion := .outcome (.permFail "x"), variant := true, overrides := some (.obj [("a", .int 9)]) },
    { assertion := .outcome .ok, skip := true },
    { assertion := .ret (.obj [("inputs", .obj [("a", .int 1), ("b", .int 2)]), ("resource", .null)]),
      overrides := some (.obj [("b", .int 2)]) } ]

def exState : State := { inputs := some (.obj [("a", .int 0)]), resource := none }

example : NoAuxFatal echoEnv exState exCases := by
  simp [NoAuxFatal, exCases, isCore]
  decide

/-- the failing variant case (expects PermFail, gets Ok) does not stop the run, and the last case
    sees `a = 1` from the first case, not the variant's `a = 9` -/
example : (runCases echoEnv exState exCases).1.map (fun r => match r with
      | .ran p _ _ _ => some p | _ => none) = [some true, some false, none, some true] ∧
    (runCases echoEnv exState exCases).2 = false := by decide

example : coreResults exCases (runCases echoEnv exState exCases).1 =
    (runCases echoEnv exState (core exCases)).1 :=
  results_are_those_of_the_core echoEnv exState exCases (by simp [NoAuxFatal, exCases, isCore]; decide)


/-- a conversation GET, PATCH, GET over `{a: 1, b: {c: 2}}` with body `{b: {d: 3}}`: the second GET still
    answers the case's resource, the materialised object has `b` REPLACED (top-level), one mutation,
    so the `Effect` is exact -/
example :
    let cur : Option JVal := some (.obj [("a", .int 1), ("b", .obj [("c", .int 2)])])
    let cs : List Koreo.FT.Mock.Call := [.get, .write (.obj [("b", .obj [("d", .int 3)])]), .get]
    (Koreo.FT.Mock.answers (Koreo.FT.Mock.fresh cur) cs).map (·.isSome) = [true, true, true] ∧
    (Koreo.FT.Mock.run (Koreo.FT.Mock.fresh cur) cs).apiCalled = true ∧
    (Koreo.FT.Mock.run (Koreo.FT.Mock.fresh cur) cs).deleteCalled = false ∧
    ((cs.filter Koreo.FT.Mock.Call.isMutation).length ≤ 1) ∧
    (match (Koreo.FT.Mock.run (Koreo.FT.Mock.fresh cur) cs).materialized with
      | some (.obj m) => (match lookup "b" m with | some (.obj [("d", .int 3)]) => true | _ => false) &&
                         (match lookup "a" m with | some (.int 1) => true | _ => false)
      | _ => false) = true := by
  decide

end Koreo.C18
