/-
  C05 — Drift in any target-specified field triggers the configured correction.
  Property theorems only; helper lemmas are in `Koreo/Lemmas/Compare*.lean`, `Koreo/Lemmas/Reconcile45.lean`.
  Models as for C04 (`Koreo/Compare.lean` is validate.py *with* fixes/F9-compare-as-map.diff and
  fixes/F6-typed-set.diff applied).

  `MeetsExcl t live` is "the live object agrees with the target in every field the target specifies",
  minus exactly what the property excludes: keys compared against last-applied by directive, and
  `ownerReferences`.  Drift = `¬ MeetsExcl t live`; no enumeration of deviation kinds is needed,
  the statement is the contrapositive of the comparator's completeness.
-/
import Koreo.Lemmas.CompareComplete
import Koreo.Lemmas.CompareTotal
import Koreo.Lemmas.CompareLaShape
import Koreo.Props.C04
import Koreo.Gen.Compare45

namespace Koreo.C05
open Koreo Koreo.JVal Koreo.Compare Koreo.R45

/-! ## the model's constants are the ones the source has now -/

/-- directive keys (as a set), the last-applied annotation and the default patch delay, regenerated
    from src/koreo/constants.py on every run -/
theorem constants_match_source :
    Koreo.Gen.Compare45.extractionOk = true ∧
    (∀ k, Koreo.Gen.Compare45.directiveKeys.contains k = Koreo.directiveKeys.contains k) ∧
    Koreo.Gen.Compare45.lastAppliedAnnotation = lastAppliedAnnotation ∧
    Koreo.Gen.Compare45.defaultPatchDelay = defaultPatchDelay ∧
    Koreo.Gen.Compare45.loadRetryDelay = loadRetryDelay := by
  refine ⟨by decide, ?_, by decide, by decide, by decide⟩
  intro k
  simp only [Koreo.Gen.Compare45.directiveKeys, Koreo.directiveKeys, compareAsSet, compareAsMap,
    compareLastApplied, List.contains_cons, List.contains_nil, Bool.or_false]
  cases k == "x-koreo-compare-as-map" <;> cases k == "x-koreo-compare-as-set" <;>
    cases k == "x-koreo-compare-last-applied" <;> rfl

/-! ## completeness of the comparison -/

/-- whatever is reported as matching agrees with the target at every target-specified path: changed or
    retyped leaves (bool vs number included), removed keys, lists of other length or content, missing
    or extra set members, missing keyed members — each of them prevents a match -/
theorem match_implies_meets (t live la : JVal) (hw : DirectivesWF t)
    (h : validateMatch t live la false = .ok) : MeetsExcl t live :=
  meets_of_vm t live la .null hw h

/-- drift at any target-specified path, of any kind, is never reported as a match -/
theorem drift_detected (t live la : JVal) (hw : DirectivesWF t) (hd : ¬ MeetsExcl t live) :
    validateMatch t live la false ≠ .ok :=
  fun h => hd (match_implies_meets t live la hw h)

/-- … and it is reported as *differences*, not as an exception, whatever the live object holds
    (a last-applied tree of the target's shape is what koreo itself wrote) -/
theorem drift_reported (t live la : JVal) (hw : DirectivesWF t) (hl : LaShaped t la)
    (hd : ¬ MeetsExcl t live) : validateMatch t live la false = .differ := by
  have h1 := drift_detected t live la hw hd
  have h2 := vm_noRaise t live la false hw hl
  cases hv : validateMatch t live la false with
  | ok => exact absurd hv h1
  | bad d r =>
    rw [hv] at h2
    simp only [Res.mayRaise] at h2
    subst h2
    cases d
    · -- `bad false false` is not an answer the comparator has
      exact absurd hv (vm_not_empty t live la false)
    · rfl
where
  vm_not_empty (t live la : JVal) (s : Bool) : validateMatch t live la s ≠ .bad false false := by
    intro h
    have := vm_nonempty t live la s
    rw [h] at this; cases this

/-! ### the two defects of the unrepaired comparator, on their witnesses

  Before fixes/F6 and fixes/F9 `match_implies_meets` was false.  The pre-repair behaviour of the two
  places is kept in `Koreo/Compare.lean` (`setMatchLegacy`, `keyedLegacyHead`); on the witnesses the
  harness replays (corpus/C05/set_bool.json, keyed_junk.json, keyed_empty_vs_null.json) it reported a
  match / raised, while the repaired model reports differences. -/

/-- F6: inside a set-directed list `true` passed for `1` -/
theorem legacy_set_conflates_bool :
    setMatchLegacy [.int 1, .int 2] [.bool true, .int 2] = .ok ∧
      setEqSpec [.int 1, .int 2] [.bool true, .int 2] = false ∧
      setMatch [.int 1, .int 2] [.bool true, .int 2] = .differ := by decide

/-- F9: a live value that is not a list of maps made the keyed comparison raise … -/
theorem legacy_keyed_raises :
    keyedLegacyHead [.str "name"] (.arr [.obj [("name", .str "a")]]) (.str "x") = some .raised ∧
      keyedLegacyHead [.str "name"] (.arr [.obj [("name", .str "a")]]) (.arr [.null]) = some .raised := by decide

/-- … and an empty target list matched a falsy live value -/
theorem legacy_keyed_empty_matches_falsy :
    keyedLegacyHead [.str "name"] (.arr []) .null = some .ok ∧
      keyedLegacyHead [.str "name"] (.arr []) (.str "") = some .ok ∧
      keyedLegacyHead [.str "name"] (.arr []) (.bool false) = some .ok := by decide

/-! ## the correction -/

/-- patch, owner reference in place: exactly one PATCH whose body is the payload of the target, Retry
    with the patch delay -/
theorem drift_action_patch (c : Cfg) (t live la body d : JVal)
    (hla : extractLastApplied c.codec live = some la) (hv : validateMatch t live la false = .differ)
    (hp : c.policy = .patch d) (ho : ownerFixOf c live = some .none) (hf : ownerRefsFree t = true)
    (hb : prepareForApi c.codec t = some body) :
    pass c t (some live) = [⟨some (mergePatch live body), .retry d, [.patch body]⟩] := by
  simp [pass, passPresent, ho, hla, hv, correct, hp, hb, dropOwnerRefs, hf]

/-- patch, parent's reference missing: the one PATCH carries the payload of the target *with* the live
    references plus the parent's (`C04.owner_fix_keeps_co_owners`) -/
theorem drift_action_patch_owner (c : Cfg) (t live la r x body d : JVal)
    (hla : extractLastApplied c.codec live = some la) (hv : validateMatch t live la false = .differ)
    (hp : c.policy = .patch d) (ho : ownerFixOf c live = some (.refs r))
    (hx : setOwnerRefs r t = some x) (hb : prepareForApi c.codec x = some body) :
    pass c t (some live) = [⟨some (mergePatch live body), .retry d, [.patch body]⟩] := by
  simp [pass, passPresent, ho, hla, hv, correct, hp, hx, hb]

/-- recreate: exactly one DELETE, Retry with the recreate delay (whatever the owner check decided) -/
theorem drift_action_recreate (c : Cfg) (t live la d : JVal) (fix : OwnerFix)
    (hla : extractLastApplied c.codec live = some la) (hv : validateMatch t live la false = .differ)
    (hp : c.policy = .recreate d) (ho : ownerFixOf c live = some fix) :
    pass c t (some live) = [⟨none, .retry d, [.delete]⟩] := by
  simp [pass, passPresent, ho, hla, hv, correct, hp]

/-- never: no request at all; the live object is handed on -/
theorem drift_action_never (c : Cfg) (t live la : JVal) (fix : OwnerFix)
    (hla : extractLastApplied c.codec live = some la) (hv : validateMatch t live la false = .differ)
    (hp : c.policy = .never) (ho : ownerFixOf c live = some fix) :
    pass c t (some live) = [⟨some live, .okLive live, []⟩] := by
  simp [pass, passPresent, ho, hla, hv, correct, hp, unchanged]

/-- the three together, from drift itself: every drifted live object gets exactly the policy's action -/
theorem drift_action (c : Cfg) (t live la : JVal) (h : C04.TargetOk t) (hl : LaShaped t la)
    (hla : extractLastApplied c.codec live = some la) (ho : ownerFixOf c live = some .none)
    (hd : ¬ MeetsExcl t live) :
    match c.policy with
    | .patch d => ∃ body, prepareForApi c.codec t = some body ∧
        pass c t (some live) = [⟨some (mergePatch live body), .retry d, [.patch body]⟩]
    | .recreate d => pass c t (some live) = [⟨none, .retry d, [.delete]⟩]
    | .never => pass c t (some live) = [⟨some live, .okLive live, []⟩] := by
  have hv := drift_reported t live la h.wf hl hd
  cases hp : c.policy with
  | patch d =>
    obtain ⟨body, hb, _⟩ := payload_facts c.codec t h.wf h.nodup h.annFree
    exact ⟨body, hb, drift_action_patch c t live la body d hla hv hp ho h.ownerFree hb⟩
  | recreate d => exact drift_action_recreate c t live la d _ hla hv hp ho
  | never => exact drift_action_never c t live la _ hla hv hp ho

/-- the same for an object that still carries the annotation koreo wrote for this target — the usual
    case; no hypothesis about the annotation's shape is left: `strip t` is always well shaped -/
theorem drift_action_own_annotation (c : Cfg) (t live : JVal) (h : C04.TargetOk t)
    (hla : extractLastApplied c.codec live = some (strip t)) (ho : ownerFixOf c live = some .none)
    (hd : ¬ MeetsExcl t live) :
    match c.policy with
    | .patch d => ∃ body, prepareForApi c.codec t = some body ∧
        pass c t (some live) = [⟨some (mergePatch live body), .retry d, [.patch body]⟩]
    | .recreate d => pass c t (some live) = [⟨none, .retry d, [.delete]⟩]
    | .never => pass c t (some live) = [⟨some live, .okLive live, []⟩] :=
  drift_action c t live (strip t) h (laOk_strip_self t h.wf h.nodup) hla ho hd

/-- drifted *and* the parent's reference missing, update policy patch: one PATCH that restores the target
    and writes the live references plus the parent's; Retry -/
theorem drift_action_owner_missing (c : Cfg) (t live la r d : JVal) (rs : List JVal) (h : C04.TargetOk t)
    (hl : LaShaped t la) (hla : extractLastApplied c.codec live = some la)
    (ho : ownerFixOf c live = some (.refs r)) (hr : r = .arr rs) (hrn : noDupB r = true)
    (hp : c.policy = .patch d) (hd : ¬ MeetsExcl t live) :
    ∃ x body, setOwnerRefs r t = some x ∧ prepareForApi c.codec x = some body ∧
      pass c t (some live) = [⟨some (mergePatch live body), .retry d, [.patch body]⟩] ∧
      (c.codec.reads (strip x) → Meets t (mergePatch live body) (strip x) ∧
        liveRefs (mergePatch live body) = some (.arr (stripL rs))) := by
  subst hr
  have hv := drift_reported t live la h.wf hl hd
  obtain ⟨x, body, hx, hb, hall⟩ := C04.owner_fix_reaches_target c.codec t rs h hrn
  exact ⟨x, body, hx, hb, drift_action_patch_owner c t live la _ x body d hla hv hp ho hx hb,
    fun hc => ⟨(hall hc live).1, (hall hc live).2.2⟩⟩

/-- after the patch the object meets the target again, its annotation reads back as the payload, and
    that payload is a well-shaped last-applied tree (the next pass is quiet: C04.no_update_loop) -/
theorem after_patch_meets (c : Codec) (t : JVal) (h : C04.TargetOk t) (hc : c.reads (strip t)) :
    ∃ body, prepareForApi c t = some body ∧ LaShaped t (strip t) ∧
      ∀ live, Meets t (mergePatch live body) (strip t) ∧
        extractLastApplied c (mergePatch live body) = some (strip t) := by
  obtain ⟨body, hb, hl, hall⟩ := C04.patch_reaches_target c t h hc
  exact ⟨body, hb, hl, hall⟩

/-- what meets in C04's sense has no drift in C05's sense (the two relations are nested) -/
theorem meets_implies_meetsExcl (t live la : JVal) (hw : DirectivesWF t) (hm : Meets t live la) :
    MeetsExcl t live :=
  match_implies_meets t live la hw (C04.meets_implies_match t live la hw hm)

/-! ## update-policy parsing (`_prepare_update`) -/

theorem update_default : prepareUpdate none = some (.patch (.int 30)) := rfl

theorem update_patch (d : JVal) (rest : List (String × JVal)) :
    prepareUpdate (some (.obj (("patch", .obj [("delay", d)]) :: rest))) = some (.patch d) := by
  simp [prepareUpdate, lookup]

theorem update_recreate (d : JVal) :
    prepareUpdate (some (.obj [("recreate", .obj [("delay", d)])])) = some (.recreate d) := by
  simp [prepareUpdate, lookup]

theorem update_never : prepareUpdate (some (.obj [("never", .obj [])])) = some .never := by
  simp [prepareUpdate, lookup]

theorem update_malformed : prepareUpdate (some (.obj [("patch", .obj [])])) = none ∧
    prepareUpdate (some (.obj [])) = none := by
  simp [prepareUpdate, lookup]

/-! ## non-vacuity -/

/-- one drifted leaf deep inside a keyed member of the C04 example -/
def exDrift : JVal := .obj [
  ("spec", .obj [
    ("replicas", .int 2), ("on", .bool false), ("args", .arr [.str "x", .flt 12]), ("seed", .str "s1"),
    ("zones", .arr [.str "a", .int 1]),
    ("ports", .arr [.obj [("name", .str "dns"), ("port", .int 54)], .obj [("name", .str "http"), ("port", .int 80)]])]),
  ("metadata", .obj [("labels", .obj [("app", .str "web")])])]

example : ¬ MeetsExcl C04.exTarget exDrift := by decide
/-- what koreo wrote is well shaped: now a theorem (`laOk_strip_self`), shown here on the example -/
example : LaShaped C04.exTarget (strip C04.exTarget) := laOk_strip_self _ (by decide) (by decide)
example : validateMatch C04.exTarget exDrift (strip C04.exTarget) false = .differ := by decide
/-- a retyped leaf (`false` ↦ `0`) is drift too -/
example : validateMatch (.obj [("on", .bool false)]) (.obj [("on", .int 0)]) .null false = .differ := by decide
/-- numbers are compared exactly, however large: off by one at 2^31 is drift -/
example : validateMatch (.obj [("bytes", .int 2147483648)]) (.obj [("bytes", .int 2147483649)]) .null false = .differ ∧
    validateMatch (.obj [("q", .flt (8 * 8589934592 + 4))]) (.obj [("q", .flt (8 * 8589934592 + 5))]) .null false = .differ := by
  decide
/-- only `ownerReferences` is skipped by name: a target field called `uid` / `generation` /
    `resourceVersion` below `spec` is an ordinary field -/
example : validateMatch (.obj [("spec", .obj [("claimRef", .obj [("uid", .str "u1"), ("resourceVersion", .str "7")]),
      ("generation", .int 2)])])
    (.obj [("spec", .obj [("claimRef", .obj [("uid", .str "u2"), ("resourceVersion", .str "7")]),
      ("generation", .int 2)])]) .null false = .differ := by decide
/-- an object that is being deleted but still held by a finalizer is compared like any other -/
example : validateMatch (.obj [("spec", .obj [("n", .int 1)])])
    (.obj [("metadata", .obj [("deletionTimestamp", .str "2026-01-02T00:00:00Z"), ("finalizers", .arr [.str "f"])]),
      ("spec", .obj [("n", .int 2)])]) .null false = .differ := by decide
/-- the F6 witness through the whole (repaired) comparator -/
example : validateMatch (.obj [(compareAsSet, .arr [.str "s"]), ("s", .arr [.int 1, .int 2])])
    (.obj [("s", .arr [.bool true, .int 2])]) .null false = .differ := by decide
/-- the F9 witnesses through the whole (repaired) comparator -/
example : validateMatch (.obj [(compareAsMap, .obj [("m", .arr [.str "name"])]), ("m", .arr [.obj [("name", .str "a")]])])
    (.obj [("m", .str "x")]) .null false = .differ := by decide
example : validateMatch (.obj [(compareAsMap, .obj [("m", .arr [.str "name"])]), ("m", .arr [])])
    (.obj [("m", .null)]) .null false = .differ := by decide
/-- and extras in a keyed list are not drift -/
example : validateMatch (.obj [(compareAsMap, .obj [("m", .arr [.str "name"])]), ("m", .arr [])])
    (.obj [("m", .arr [.obj [("name", .str "x")]])]) .null false = .ok := by decide

/-! ## the two comparator corners left outside the stated domain, stated precisely

  (1) A keyed-list member whose key (`"$"`-joined field values) equals `ownerReferences` or a directive
      name.  `_validate_dict_match` runs on the dictionary `{key: member}`; it removes the directive names
      from its key set and skips `ownerReferences`, so such a member is **never compared** — that is
      what the model does too (`vmK`: `skippedKey key`).  `DirectivesWF` excludes these keys
      (`keysDistinct`), and without that exclusion completeness fails, as the first example shows.
      (For a directive-named key the code in addition *reads the member as that directive* for its
      sibling members — `{"name": "x-koreo-compare-as-map", "v": 1}` makes it raise `TypeError` while
      iterating `1`; the model does not follow it there: harness probe `quirk:member-named-as-directive`.)
  (2) An explicit `null` in the target **below** a key listed in `x-koreo-compare-last-applied`.  There the
      code calls `validate_match(target[k], last_applied[k], last_applied[k])` — actual value and
      last-applied value are the *same object* — and `_validate_dict_match`'s
      `last_applied_value[target_key] = None` for a missing key therefore also adds the key to the
      "actual" side: a key the last-applied tree does not have compares as `null` and so *matches* a
      target `null`.  The model compares without that aliasing and answers "differences" (second
      example); both C04 (no explicit nulls) and C05 (last-applied-directed keys are excluded) leave the
      corner out, and the generators avoid it (`gen_rf45.denull_under_la`); harness probe
      `quirk:null-below-last-applied` records the code's answer (`ok`) next to the model's (`differ`). -/

/-- (1): the member keyed `ownerReferences` differs in the live object, yet the comparison matches -/
example :
    let t : JVal := .obj [(compareAsMap, .obj [("m", .arr [.str "name"])]),
      ("m", .arr [.obj [("name", .str "ownerReferences"), ("v", .int 1)], .obj [("name", .str "b")]])]
    let live : JVal := .obj [("m", .arr [.obj [("name", .str "ownerReferences"), ("v", .int 2)], .obj [("name", .str "b")]])]
    validateMatch t live .null false = .ok ∧ meetsB .excl t live .null = false ∧ wfB t = false := by decide

/-- (2): what the model answers where the code's aliasing makes a missing key read as `null` -/
example :
    let t : JVal := .obj [(compareLastApplied, .arr [.str "d"]), ("d", .obj [("e", .null), ("f", .int 1)])]
    let la : JVal := .obj [("d", .obj [("f", .int 1)])]
    validateMatch t (.obj []) la false = .differ ∧ noNullsB t = false := by decide

end Koreo.C05
