/-
  C17 — Subscription registry stays consistent, acyclic and delivers exactly.
  Property theorems only; helper lemmas are in `Koreo/Lemmas/Registry.lean`.
  Model: `Koreo/Registry.lean` (hand transcription of src/koreo/registry.py with the F4 repair:
  `notify_subscribers` tolerates `QueueShutDown`); `Koreo/Gen/RegistryCatch.lean` is regenerated
  from the source on every run.

  "For every sequence of operations" is `∀ ops : List Op, … (run init ops)`; every theorem below
  that mentions `run init ops` is proved through the inductive invariant `Good` (`good_step`).
-/
import Koreo.Lemmas.Registry
import Koreo.Gen.RegistryCatch

namespace Koreo.C17
open Koreo.Registry

/-! ## the model's handler set is the one the source has now -/

theorem extraction_ok : Koreo.Gen.RegistryCatch.extractionOk = true := by decide

/-- `notify_subscribers` in the current source tolerates exactly what the model's repaired handler
    set tolerates (both `QueueFull` and `QueueShutDown`).  On the unrepaired tree this does not build. -/
theorem source_catch_set_is_repaired :
    ∀ e, caughtOf Koreo.Gen.RegistryCatch.notifyCaught e = caughtRepaired e := by
  intro e; cases e <;> decide

/-! ## invariants after every operation sequence -/

/-- every state reachable from the empty registry satisfies the invariant -/
theorem reachable_good (ops : List Op) : Good (run init ops) := good_run good_init ops

/-- 'who watches whom' and 'who is watched by whom' are exact inverses -/
theorem views_inverse (ops : List Op) (a b : Res) :
    b ∈ (run init ops).subs a ↔ a ∈ (run init ops).subscribers b :=
  (reachable_good ops).1.inv a b

/-- both views stay sets (the list representation never holds a duplicate) -/
theorem views_duplicate_free (ops : List Op) (a : Res) :
    ((run init ops).subs a).Nodup ∧ ((run init ops).subscribers a).Nodup :=
  ⟨(reachable_good ops).1.nodupSubs a, (reachable_good ops).1.nodupSubscribers a⟩

/-- the subscription graph has no cycle (no non-empty path from a resource to itself) -/
theorem acyclic_preserved (ops : List Op) : Acyclic (Edge (run init ops)) :=
  (reachable_good ops).1.acyclic

/-- in particular nobody watches itself -/
theorem no_self_subscription (ops : List Op) (a : Res) : a ∉ (run init ops).subs a :=
  fun h => acyclic_preserved ops a (.single h)

/-! ## refused operations leave the registry unchanged -/

/-- a subscription refused as a cycle changes nothing — on any state, not only reachable ones -/
theorem cycle_refused_unchanged (s : State) (op : Op) (h : (step s op).2 = .cycle) :
    (step s op).1 = s := by
  cases op with
  | subscribe sub r =>
    simp only [step, stepWith] at h ⊢
    cases hc : checkForCycles s sub [r] <;> simp_all
  | subscribeOnlyTo sub rs =>
    simp only [step, stepWith] at h ⊢
    cases hc : checkForCycles s sub rs <;> simp_all
  | register r cap =>
    exfalso
    simp only [step, stepWith] at h
    cases hf : s.queues.find? r with
    | some q => simp [hf] at h
    | none =>
      simp only [hf, notifyWith] at h
      split at h <;> cases h
  | unsubscribe sub r =>
    exfalso
    simp only [step, stepWith] at h
    split at h
    · split at h <;> cases h
    · cases h
  | notify r t =>
    exfalso
    simp only [step, stepWith, notifyWith] at h
    split at h <;> cases h
  | kill r =>
    exfalso
    simp only [step, stepWith] at h
    split at h <;> cases h
  | deregister r t =>
    exfalso
    simp only [step, stepWith] at h
    split at h <;> (simp only [notifyWith] at h; split at h <;> cases h)

/-- `unsubscribe` of something that is not subscribed raises `KeyError` and changes nothing;
    on reachable states the second `remove` can never be the one that fails -/
theorem keyError_unchanged (ops : List Op) (op : Op)
    (h : (step (run init ops) op).2 = .keyError) : (step (run init ops) op).1 = run init ops := by
  have hg := reachable_good ops
  generalize run init ops = s at *
  cases op with
  | unsubscribe sub r =>
    simp only [step, stepWith] at h ⊢
    by_cases h1 : sub ∈ s.subscribersOf.get r
    · have h2 : r ∈ s.subsOf.get sub := (hg.1.inv sub r).mpr h1
      simp [h1, h2] at h
    · simp [h1]
  | subscribe sub r =>
    simp only [step, stepWith] at h
    cases hc : checkForCycles s sub [r] <;> simp_all
  | subscribeOnlyTo sub rs =>
    simp only [step, stepWith] at h
    cases hc : checkForCycles s sub rs <;> simp_all
  | register r cap =>
    exfalso
    simp only [step, stepWith] at h
    cases hf : s.queues.find? r with
    | some q => simp [hf] at h
    | none =>
      simp only [hf, notifyWith] at h
      split at h <;> cases h
  | notify r t =>
    exfalso
    simp only [step, stepWith, notifyWith] at h
    split at h <;> cases h
  | kill r =>
    exfalso
    simp only [step, stepWith] at h
    split at h <;> cases h
  | deregister r t =>
    exfalso
    simp only [step, stepWith] at h
    split at h <;> (simp only [notifyWith] at h; split at h <;> cases h)

/-- `subscribe_only_to` removes the subscriber from `_RESOURCE_SUBSCRIBERS[r]` with `set.remove`,
    which would raise if it were missing; with inverse views it never is -/
theorem only_to_remove_never_misses (ops : List Op) (sub : Res) (rs : List Res) (r : Res)
    (h : r ∈ ((run init ops).subs sub).filter (fun r => decide (r ∉ dedup rs))) :
    sub ∈ (run init ops).subscribers r :=
  (views_inverse ops sub r).mp (List.mem_filter.mp h).1

/-! ## the cycle check -/

/-- The level-wise walk of `_check_for_cycles`, run with at least `nodes + 2` iterations on an
    acyclic graph, terminates, and raises exactly when the subscriber is reachable from one of the
    requested resources (following 'watches' edges, zero or more steps) — i.e. exactly when the new
    edges would close a cycle. -/
theorem cycle_check_complete (s : State) (sub : Res) (rs : List Res) (fuel : Nat)
    (hac : Acyclic (Edge s)) (hf : (nodes s.subsOf).length + 2 ≤ fuel) :
    checkLoop s.subs sub fuel (dedup rs) ≠ .outOfFuel ∧
    (checkLoop s.subs sub fuel (dedup rs) = .cycle ↔ ∃ r ∈ rs, Reach (Edge s) r sub) := by
  obtain ⟨h1, h2⟩ := check_complete s sub rs hac fuel hf
  exact ⟨h1, fun h => checkLoop_cycle_sound (succ_edge s) sub _ 0 _ (isLevel_zero rs) h, h2⟩

/-- a refusal is always justified (no acyclicity or fuel hypothesis needed) -/
theorem cycle_check_sound (s : State) (sub : Res) (rs : List Res)
    (h : checkForCycles s sub rs = .cycle) : ∃ r ∈ rs, Reach (Edge s) r sub :=
  check_sound s sub rs h

/-- on every reachable state `subscribe_only_to` terminates and is refused iff it would close a cycle -/
theorem subscribe_only_to_refused_iff (ops : List Op) (sub : Res) (rs : List Res) :
    let s := run init ops
    (step s (.subscribeOnlyTo sub rs)).2 ≠ .diverged ∧
    ((step s (.subscribeOnlyTo sub rs)).2 = .cycle ↔ ∃ r ∈ rs, Reach (Edge s) r sub) ∧
    ((step s (.subscribeOnlyTo sub rs)).2 = .ok ↔ ¬ ∃ r ∈ rs, Reach (Edge s) r sub) := by
  intro s
  obtain ⟨h1, h2⟩ := cycle_check_complete s sub rs (fuelFor s) (acyclic_preserved ops) (Nat.le_refl _)
  simp only [step, stepWith]
  have e : checkForCycles s sub rs = checkLoop s.subs sub (fuelFor s) (dedup rs) := rfl
  cases hc : checkForCycles s sub rs
  · have hnc : ¬ ∃ r ∈ rs, Reach (Edge s) r sub := by
      intro hx; have := h2.mpr hx; rw [← e, hc] at this; cases this
    simp [hnc]
  · have hx : ∃ r ∈ rs, Reach (Edge s) r sub := h2.mp (by rw [← e, hc])
    simp [hx]
  · rw [e] at hc; exact absurd hc h1

/-- the same for `subscribe` -/
theorem subscribe_refused_iff (ops : List Op) (sub r : Res) :
    let s := run init ops
    (step s (.subscribe sub r)).2 ≠ .diverged ∧
    ((step s (.subscribe sub r)).2 = .cycle ↔ Reach (Edge s) r sub) ∧
    ((step s (.subscribe sub r)).2 = .ok ↔ ¬ Reach (Edge s) r sub) := by
  intro s
  obtain ⟨h1, h2⟩ := cycle_check_complete s sub [r] (fuelFor s) (acyclic_preserved ops) (Nat.le_refl _)
  have h2' : checkLoop s.subs sub (fuelFor s) (dedup [r]) = .cycle ↔ Reach (Edge s) r sub := by
    rw [h2]; simp
  simp only [step, stepWith]
  have e : checkForCycles s sub [r] = checkLoop s.subs sub (fuelFor s) (dedup [r]) := rfl
  cases hc : checkForCycles s sub [r]
  · have hnc : ¬ Reach (Edge s) r sub := by
      intro hx; have := h2'.mpr hx; rw [← e, hc] at this; cases this
    simp [hnc]
  · have hx : Reach (Edge s) r sub := h2'.mp (by rw [← e, hc])
    simp [hx]
  · rw [e] at hc; exact absurd hc h1

/-- acyclicity is what makes the loop end: on a state with a cycle that avoids the subscriber the
    walk never ends, whatever the fuel (so a broken invariant shows up as non-termination) -/
theorem cycle_check_diverges_on_cyclic_state (fuel : Nat) :
    checkLoop (fun _ => [0]) 1 fuel [0] = .outOfFuel := by
  induction fuel with
  | zero => rfl
  | succ f ih => simpa [checkLoop, dedup] using ih

/-! ## notifications -/

/-- A notification reaches exactly the current subscribers that have a live queue (registered, not
    shut down, not full), each once, in nobody else's queue, and changes nothing else. -/
theorem notify_exactly_once (ops : List Op) (r : Res) (t : Nat) :
    let s := run init ops
    ∃ ds, (step s (.notify r t)).2 = .delivered ds ∧ ds.Nodup ∧
      (∀ x, x ∈ ds ↔ x ∈ s.subscribers r ∧ liveIn s.queues x = true) ∧
      (∀ x, (step s (.notify r t)).1.queues.find? x =
        if x ∈ ds then (s.queues.find? x).map (push (.event r (some t))) else s.queues.find? x) ∧
      (step s (.notify r t)).1.subsOf = s.subsOf ∧
      (step s (.notify r t)).1.subscribersOf = s.subscribersOf := by
  intro s
  have hn := (reachable_good ops).1.nodupSubscribers r
  obtain ⟨qs', ds, h1, h2, h3⟩ :=
    notifyWith_spec caughtRepaired caughtRepaired_all s r (some t) .delivered hn
  refine ⟨ds, ?_, ?_, ?_, ?_, ?_, ?_⟩
  · simp only [step, stepWith]; rw [h1]
  · rw [h2]; exact hn.filter _
  · intro x; rw [h2, List.mem_filter]
  · intro x; simp only [step, stepWith]; rw [h1]; exact h3 x
  · simp only [step, stepWith]; rw [h1]
  · simp only [step, stepWith]; rw [h1]

/-- Neither `notify_subscribers` nor the notifications inside `register` and `deregister` ever
    raise a queue exception — on any state, whoever was killed or deregistered before. -/
theorem notify_never_raises (s : State) (op : Op) (e : QErr) : (step s op).2 ≠ .raised e := by
  have key : ∀ (s : State) (r : Res) (t : Option Nat) (wrap : List Res → Out),
      (∀ ds, wrap ds ≠ .raised e) → (notifyWith caughtRepaired s r t wrap).2 ≠ .raised e := by
    intro s r t wrap hw
    obtain ⟨⟨qs', ds⟩, h⟩ :=
      deliver_ok_of_caught_all caughtRepaired caughtRepaired_all (.event r t) (s.subscribers r) s.queues
    simp only [notifyWith, h]; exact hw ds
  cases op with
  | register r cap =>
    simp only [step, stepWith]
    cases s.queues.find? r with
    | some q => simp
    | none => exact key _ _ _ _ (by simp)
  | subscribe sub r =>
    simp only [step, stepWith]; cases checkForCycles s sub [r] <;> simp
  | subscribeOnlyTo sub rs =>
    simp only [step, stepWith]; cases checkForCycles s sub rs <;> simp
  | unsubscribe sub r =>
    simp only [step, stepWith]
    split
    · split <;> simp
    · simp
  | notify r t => exact key _ _ _ _ (by simp)
  | kill r =>
    simp only [step, stepWith]; cases s.queues.find? r <;> simp
  | deregister r t =>
    simp only [step, stepWith]
    cases (applyOnly s r []).queues.find? r with
    | none => exact key _ _ _ _ (by simp)
    | some q => exact key _ _ _ _ (by simp)

/-- F4 on the model of the unrepaired handler set (`except QueueFull` only): after
    `subscribe(0,1); kill_resource(0)` a `notify_subscribers(1)` raises `QueueShutDown`.
    This is corpus/C17/kill_then_notify.json. -/
theorem notify_raises_without_shutdown_catch :
    outsWith caughtOriginal init
      [.register 0 0, .register 1 0, .subscribe 0 1, .kill 0, .notify 1 7] =
      [.delivered [], .delivered [], .ok, .ok, .raised .shutDown] := by decide

/-- the same history on the repaired model: nothing raised, nothing delivered to the killed queue -/
theorem kill_then_notify_repaired :
    outs init [.register 0 0, .register 1 0, .subscribe 0 1, .kill 0, .notify 1 7] =
      [.delivered [], .delivered [], .ok, .ok, .delivered []] := by decide

/-! ## deregistration -/

/-- Deregistering removes the resource's queue from the registry, leaves that queue drained, shut
    down and with no unfinished task (so every `get()` and `join()` waiting on it is released), drops
    all of the resource's own subscriptions (in both views), and tells its subscribers. -/
theorem deregister_releases (ops : List Op) (r : Res) (t : Nat) :
    let s := run init ops
    let s' := (step s (.deregister r t)).1
    s'.queues.find? r = none ∧ s'.subs r = [] ∧ (∀ b, r ∉ s'.subscribers b) ∧
    ∃ ds, (step s (.deregister r t)).2 = .released ((s.queues.find? r).map fun q => drainQ (killQ q)) ds ∧
      (∀ q, s.queues.find? r = some q →
        (drainQ (killQ q)).items = [] ∧ (drainQ (killQ q)).shut = true ∧ (drainQ (killQ q)).unfinished = 0) ∧
      (∀ x, x ∈ ds ↔ x ∈ s.subscribers r ∧ x ≠ r ∧ liveIn s.queues x = true) := by
  intro s s'
  have hg : Good s := reachable_good ops
  have hg' : Good s' := good_step hg _
  have hsubs : s'.subs r = [] := by
    show (step s (.deregister r t)).1.subs r = []
    simp only [step, stepWith]
    have h0 : (applyOnly s r []).subsOf.get r = [] := by simp [applyOnly, dedup]
    cases (applyOnly s r []).queues.find? r with
    | none =>
      simp only [notifyWith]; split <;> exact h0
    | some q =>
      simp only [notifyWith]; split <;> exact h0
  have hrel : ∀ q, s.queues.find? r = some q →
      (drainQ (killQ q)).items = [] ∧ (drainQ (killQ q)).shut = true ∧ (drainQ (killQ q)).unfinished = 0 := by
    intro q hq
    have := qinv_killQ (hg.2 r q hq)
    refine ⟨rfl, ?_, ?_⟩
    · simp [drainQ, killQ_shut]
    · simp [drainQ, this]
  -- nobody is watched by r any more: inverse views in the new state
  have hnone : ∀ b, r ∉ s'.subscribers b := by
    intro b hb
    have := (hg'.1.inv r b).mpr hb
    rw [show s'.subsOf.get r = s'.subs r from rfl, hsubs] at this
    cases this
  -- r does not watch itself, so the subscriber list of r is untouched by the clean-up
  have hself : r ∉ s.subs r := fun h => hg.1.acyclic r (.single h)
  have hsubscr : (applyOnly s r []).subscribersOf.get r = s.subscribersOf.get r := by
    have hmem : ∀ a, a ∈ (applyOnly s r []).subscribersOf.get r ↔ a ∈ s.subscribersOf.get r := by
      intro a
      simp only [applyOnly, mem_get_removeFrom, mem_get_addTo, dedup, List.filter_nil, List.not_mem_nil,
        false_and, or_false, List.mem_filter, not_false_eq_true, decide_true, and_true]
      constructor
      · exact fun h => h.1
      · intro h; exact ⟨h, fun ⟨h1, _⟩ => hself h1⟩
    -- both lists are the same filter of the same list; show equality through the definition
    simp only [applyOnly, dedup, List.filter_nil, addTo]
    have : ∀ (xs : List Res) (m : Map), r ∉ xs → (removeFrom m r xs).get r = m.get r := by
      intro xs
      induction xs with
      | nil => intro m _; rfl
      | cons x xs ih =>
        intro m hx
        simp only [removeFrom]
        rw [ih _ (fun h => hx (List.mem_cons_of_mem _ h)), Map.get_set]
        have : x ≠ r := fun e => hx (e ▸ List.mem_cons_self)
        simp [this]
    apply this
    intro h; exact hself (List.mem_filter.mp h).1
  have hnotself : r ∉ s.subscribers r := fun h => hself ((hg.1.inv r r).mpr h)
  cases hf : s.queues.find? r with
  | none =>
    have hf1 : (applyOnly s r []).queues.find? r = none := hf
    obtain ⟨qs', ds, h1, h2, h3⟩ := notifyWith_spec caughtRepaired caughtRepaired_all
      (applyOnly s r []) r (some t) (.released none) (by
        show ((applyOnly s r []).subscribersOf.get r).Nodup
        rw [hsubscr]; exact hg.1.nodupSubscribers r)
    have hstep : step s (.deregister r t) = ({ applyOnly s r [] with queues := qs' }, .released none ds) := by
      simp only [step, stepWith, hf1]; exact h1
    refine ⟨?_, hsubs, hnone, ds, ?_, ?_, ?_⟩
    · show (step s (.deregister r t)).1.queues.find? r = none
      rw [hstep]; simp only []; rw [h3 r]
      have : r ∉ ds := by
        rw [h2]; intro hm
        have := (List.mem_filter.mp hm).2
        simp [liveIn, hf1] at this
      simp [this, hf1]
    · rw [hstep]; simp
    · intro q hq; cases hq
    · intro x
      rw [h2, List.mem_filter]
      show x ∈ (applyOnly s r []).subscribersOf.get r ∧ liveIn s.queues x = true ↔ _
      rw [hsubscr]
      constructor
      · rintro ⟨hx, hl⟩; exact ⟨hx, fun e => hnotself (e ▸ hx), hl⟩
      · rintro ⟨hx, _, hl⟩; exact ⟨hx, hl⟩
  | some q =>
    have hf1 : (applyOnly s r []).queues.find? r = some q := hf
    obtain ⟨qs', ds, h1, h2, h3⟩ := notifyWith_spec caughtRepaired caughtRepaired_all
      { applyOnly s r [] with queues := (applyOnly s r []).queues.del r } r (some t)
      (.released (some (drainQ (killQ q)))) (by
        show ((applyOnly s r []).subscribersOf.get r).Nodup
        rw [hsubscr]; exact hg.1.nodupSubscribers r)
    have hstep : step s (.deregister r t) =
        ({ applyOnly s r [] with queues := qs' }, .released (some (drainQ (killQ q))) ds) := by
      simp only [step, stepWith, hf1]; exact h1
    refine ⟨?_, hsubs, hnone, ds, ?_, fun q' hq' => hrel q' (hf ▸ hq'), ?_⟩
    · show (step s (.deregister r t)).1.queues.find? r = none
      rw [hstep]; simp only []; rw [h3 r]
      have : r ∉ ds := by
        rw [h2]; intro hm
        have := (List.mem_filter.mp hm).2
        simp [liveIn] at this
      simp [this]
    · rw [hstep]; simp
    · intro x
      rw [h2, List.mem_filter]
      show x ∈ (applyOnly s r []).subscribersOf.get r ∧ liveIn (s.queues.del r) x = true ↔ _
      rw [hsubscr]
      constructor
      · rintro ⟨hx, hl⟩
        have hxr : x ≠ r := fun e => hnotself (e ▸ hx)
        refine ⟨hx, hxr, ?_⟩
        have : r ≠ x := fun e => hxr e.symm
        simpa [liveIn, Assoc.find_del, this] using hl
      · rintro ⟨hx, hxr, hl⟩
        have : r ≠ x := fun e => hxr e.symm
        exact ⟨hx, by simpa [liveIn, Assoc.find_del, this] using hl⟩

/-- `kill_resource` shuts the queue down but leaves it registered (this is why `notify` must
    tolerate `QueueShutDown`): afterwards the resource is not live, and nothing else changed -/
theorem kill_shuts_but_keeps_registered (s : State) (r : Res) (q : Queue)
    (h : s.queues.find? r = some q) :
    (step s (.kill r)).1.queues.find? r = some (killQ q) ∧ (killQ q).shut = true ∧
    liveIn (step s (.kill r)).1.queues r = false ∧
    (step s (.kill r)).1.subsOf = s.subsOf ∧ (step s (.kill r)).1.subscribersOf = s.subscribersOf := by
  simp [step, stepWith, h, killQ_shut, liveIn, Queue.live]

/-! ## the hypotheses are satisfiable: a concrete non-trivial history -/

/-- 2 watches 1 watches 0; closing the triangle is refused, re-pointing 2 is accepted; a killed
    subscriber is skipped, a deregistered one releases its queue -/
example :
    outs init [.register 0 0, .register 1 0, .register 2 1, .subscribe 1 0, .subscribe 2 1,
      .subscribe 0 2, .notify 0 5, .notify 1 6, .notify 1 7, .subscribeOnlyTo 2 [0, 0],
      .unsubscribe 2 1, .kill 1, .notify 0 8, .deregister 1 9, .deregister 0 10] =
    [.delivered [], .delivered [], .delivered [], .ok, .ok,
      .cycle, .delivered [1], .delivered [2], .delivered [], .ok,
      .keyError, .ok, .delivered [], .released (some ⟨[], true, 0, 0⟩) [], .released (some ⟨[], true, 0, 0⟩) []] := by
  decide

example : Acyclic (Edge (run init [.subscribe 1 0, .subscribe 2 1])) ∧
    Reach (Edge (run init [.subscribe 1 0, .subscribe 2 1])) 2 0 :=
  ⟨acyclic_preserved _, .tail (.tail (.refl 2) (show 1 ∈ State.subs _ 2 by decide)) (show 0 ∈ State.subs _ 1 by decide)⟩

end Koreo.C17
