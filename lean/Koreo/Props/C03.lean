/-
  C03 — Outcome aggregation is severity-maximal, order-insensitive, lossless.
  Property theorems only; helper lemmas are in `Koreo/Lemmas/Outcome.lean`.
  Model: `Koreo/Outcome.lean` (hand transcription of src/koreo/result.py);
  `Koreo/Gen/ResultTable.lean` is regenerated from the source on every run.
-/
import Koreo.Lemmas.Result
import Koreo.Gen.ResultTable

namespace Koreo.C03
open Koreo.Result
variable {α : Type}

/-! ## the model's dispatch is the one the source has now -/

/-- the class-by-class dispatch table extracted from `result.py` is the model's -/
theorem table_matches_source : ∀ a b, Koreo.Gen.ResultTable.table a b = Result.table a b := by
  intro a b; cases a <;> cases b <;> rfl

/-- the translator understood every branch of the five `combine` methods, the fold seed
    (`DepSkip()`) and the empty-sequence answer (`Skip()`) -/
theorem extraction_ok : Koreo.Gen.ResultTable.extractionOk = true := by decide

theorem sep_matches_source : Koreo.Gen.ResultTable.sep = Result.sep := by decide

theorem delay_op_matches_source : Koreo.Gen.ResultTable.delayOpName = "max" := by decide

/-- the executable `combine` follows the table: `self`/`other` return that operand unchanged,
    `wrapSelf` keeps class, values and location, `merge` stays in the class -/
theorem combine_follows_table (a b : Outcome α) :
    match Result.table a.cls b.cls with
    | .self => a.combine b = a
    | .other => a.combine b = b
    | .wrapSelf => (a.combine b).cls = a.cls ∧ (a.combine b).vals = a.vals ∧ (a.combine b).loc = a.loc
    | .merge => (a.combine b).cls = a.cls ∧ a.cls = b.cls := by
  cases a <;> cases b <;>
    simp [Result.table, Outcome.combine, Outcome.cls, Outcome.vals, Outcome.loc, unwrapData]
  all_goals (rename_i d _ _ _; cases d <;> simp [Outcome.combine, unwrapData])

/-! ## class: most severe present, whatever the order -/

theorem combine_empty : combine ([] : List (Outcome α)) = .nonOk (.skip none none) := rfl

theorem maxSeverity_rank (xs : List (Outcome α)) :
    (maxSeverity xs).rank = xs.foldl (fun n o => max n o.cls.rank) 0 := by
  unfold maxSeverity
  have : ∀ (c : Cls), (xs.foldl (fun c o => maxCls c o.cls) c).rank =
      xs.foldl (fun n o => max n o.cls.rank) c.rank := by
    induction xs with
    | nil => intro c; rfl
    | cons x xs ih => intro c; simp only [List.foldl_cons]; rw [ih, maxCls_rank]
  exact this .depSkip

theorem fold_class (xs : List (Outcome α)) : (fold xs).cls = maxSeverity xs := by
  apply rank_inj
  rw [maxSeverity_rank]
  unfold fold
  rw [fold_cls_rank]; rfl

theorem combined_cls (xs : List (Outcome α)) (h : xs ≠ []) : (combine xs).cls = (fold xs).cls := by
  unfold combine
  have : xs.isEmpty = false := by cases xs <;> simp_all
  simp only [this]
  cases hf : fold xs <;> simp [Combined.cls, Outcome.cls]

/-- PermFail > Retry > Ok > Skip > DepSkip: the result has the most severe class present -/
theorem combine_class (xs : List (Outcome α)) (h : xs ≠ []) :
    (combine xs).cls = maxSeverity xs := by
  rw [combined_cls xs h, fold_class]

/-- every element is at most as severe as the result, and the result's class occurs
    (the list being non-empty, "DepSkip" can only be the result if it occurs or… it is the fold's seed) -/
theorem combine_class_is_max (xs : List (Outcome α)) (h : xs ≠ []) :
    (∀ x ∈ xs, x.cls.rank ≤ (combine xs).cls.rank) ∧ (∃ x ∈ xs, x.cls = (combine xs).cls) := by
  rw [combine_class xs h, maxSeverity_rank]
  refine ⟨(foldl_max_ge 0 xs).2, ?_⟩
  rcases foldl_max_mem 0 xs with h0 | ⟨x, hx, hxr⟩
  · -- everything has rank 0, i.e. all DepSkip
    cases xs with
    | nil => exact absurd rfl h
    | cons y ys =>
      refine ⟨y, by simp, rank_inj ?_⟩
      have := (foldl_max_ge 0 (y :: ys)).2 y (by simp)
      rw [maxSeverity_rank]; omega
  · exact ⟨x, hx, rank_inj (by rw [maxSeverity_rank]; exact hxr)⟩

theorem maxSeverity_perm {xs ys : List (Outcome α)} (h : xs.Perm ys) :
    maxSeverity xs = maxSeverity ys := by
  apply rank_inj
  rw [maxSeverity_rank, maxSeverity_rank]
  generalize (0 : Nat) = n
  induction h generalizing n with
  | nil => rfl
  | cons x _ ih => simp only [List.foldl_cons]; exact ih _
  | swap x y l => simp only [List.foldl_cons]; congr 1; omega
  | trans _ _ ih1 ih2 => exact (ih1 n).trans (ih2 n)

/-- order-insensitivity of the class -/
theorem combine_class_perm {xs ys : List (Outcome α)} (h : xs.Perm ys) :
    (combine xs).cls = (combine ys).cls := by
  by_cases hx : xs = []
  · subst hx; have := h.symm.eq_nil; subst this; rfl
  · have hy : ys ≠ [] := fun e => hx (by subst e; exact h.eq_nil)
    rw [combine_class xs hx, combine_class ys hy, maxSeverity_perm h]

/-! ## decomposition at the first winner -/

theorem fold_decompose (xs : List (Outcome α)) (hpos : 0 < (fold xs).cls.rank) :
    ∃ pre w post, xs = pre ++ w :: post ∧ w.cls = (fold xs).cls ∧
      (∀ x ∈ pre, x.cls.rank < w.cls.rank) ∧ Dominated w post ∧
      fold xs = post.foldl Outcome.combine w ∧
      winners (fold xs).cls xs = w :: winners (fold xs).cls post := by
  have hr : (fold xs).cls.rank = xs.foldl (fun n o => max n o.cls.rank) 0 := by
    rw [fold_class, maxSeverity_rank]
  have hmax := (foldl_max_ge 0 xs).2
  have hex : ∃ x ∈ xs, x.cls.rank = (fold xs).cls.rank := by
    rcases foldl_max_mem 0 xs with h0 | ⟨x, hx, hxr⟩
    · rw [hr, h0] at hpos; omega
    · exact ⟨x, hx, by rw [hr]; exact hxr⟩
  rw [← hr] at hmax
  obtain ⟨pre, w, post, e, hw, hpre, hpost⟩ := split_first _ xs hmax hex
  have hwc : w.cls = (fold xs).cls := rank_inj hw
  refine ⟨pre, w, post, e, hwc, ?_, ?_, ?_, ?_⟩
  · rw [hw]; exact hpre
  · intro x hx; rw [hw]; exact hpost x hx
  · conv => lhs; rw [e]
    exact fold_split pre post w (by omega) (by rw [hw]; exact hpre)
  · have := winners_split (fold xs).cls pre post w hwc hpre
    rw [← e] at this; exact this

/-! ## Ok: every value kept, in sequence order -/

/-- when the combination is Ok it carries exactly the Ok values of the sequence, in order -/
theorem combine_ok_values (xs : List (Outcome α)) (hc : (combine xs).cls = .ok) :
    ∃ loc, combine xs = .okList (xs.flatMap Outcome.vals) loc := by
  have hne : xs ≠ [] := by intro e; subst e; simp [combine, Combined.cls, Outcome.cls] at hc
  have hfc : (fold xs).cls = .ok := by rw [← combined_cls xs hne]; exact hc
  obtain ⟨pre, w, post, e, hw, hpre, hdom, hfold, -⟩ := fold_decompose xs (by rw [hfc]; decide)
  have hvals := fold_ok_vals w post (hw.trans hfc) hdom
  have hprev : pre.flatMap Outcome.vals = [] := by
    rw [List.flatMap_eq_nil_iff]
    intro x hx
    have := hpre x hx
    rw [hw, hfc] at this
    cases x <;> simp_all [Outcome.vals, Outcome.cls, Cls.rank]
  have hv : (fold xs).vals = xs.flatMap Outcome.vals := by
    rw [hfold, hvals]; conv => rhs; rw [e]
    simp [List.flatMap_append, hprev]
  unfold combine
  have : xs.isEmpty = false := by cases xs <;> simp_all
  simp only [this]
  cases hf : fold xs with
  | ok d l =>
    refine ⟨l, ?_⟩
    simp only [Bool.false_eq_true, ↓reduceIte]
    rw [hf] at hv; simp only [Outcome.vals] at hv; rw [hv]
  | _ => rw [hf] at hfc; simp [Outcome.cls] at hfc

/-- for genuine inputs (no internal wrapper) the values are just the Ok payloads -/
theorem vals_of_inputs (xs : List (Outcome α)) (hin : ∀ x ∈ xs, x.isInput = true) :
    xs.flatMap Outcome.vals =
      xs.filterMap (fun o => match o with | .ok (.raw a) _ => some a | _ => none) := by
  induction xs with
  | nil => rfl
  | cons x xs ih =>
    have hx := hin x (by simp)
    rw [List.flatMap_cons, List.filterMap_cons, ih (fun y hy => hin y (by simp [hy]))]
    cases x with
    | ok d l => cases d <;> simp_all [Outcome.vals, unwrapData, Outcome.isInput]
    | _ => simp [Outcome.vals]

/-- a Workflow (or any aggregate) reports Ok only if no element is waiting or failed -/
theorem ok_only_if_no_error (xs : List (Outcome α)) (hc : (combine xs).cls = .ok) :
    ∀ x ∈ xs, x.cls ≠ .retry ∧ x.cls ≠ .permFail := by
  have hne : xs ≠ [] := by intro e; subst e; simp [combine, Combined.cls, Outcome.cls] at hc
  intro x hx
  have := (combine_class_is_max xs hne).1 x hx
  rw [hc] at this
  cases hcx : x.cls <;> simp_all [Cls.rank]

/-! ## Retry: longest delay, every message of the winning class -/

/-- the combined Retry: delay folded with `max` over all Retry elements, message and location
    merged over exactly the Retry elements, in order (`mergeMsgs`: a single one unchanged,
    several joined with ", " skipping empty ones) -/
theorem combine_retry (xs : List (Outcome α)) (hc : (combine xs).cls = .retry) :
    ∃ w rest, winners .retry xs = w :: rest ∧
      combine xs = .nonOk (.retry
        (rest.foldl (fun a o => delayOp a (o.delay?.getD 0)) (w.delay?.getD 0))
        (mergeMsgs ((winners .retry xs).map Outcome.msg))
        (mergeMsgs ((winners .retry xs).map Outcome.loc))) := by
  have hne : xs ≠ [] := by intro e; subst e; simp [combine, Combined.cls, Outcome.cls] at hc
  have hfc : (fold xs).cls = .retry := by rw [← combined_cls xs hne]; exact hc
  obtain ⟨pre, w, post, e, hw, -, hdom, hfold, hwin⟩ := fold_decompose xs (by rw [hfc]; decide)
  rw [hfc] at hwin hw
  refine ⟨w, winners .retry post, hwin, ?_⟩
  cases w with
  | retry d m l =>
    have h1 := fold_retry d [m] [l] (by simp) (by simp) post (by simpa [mergeMsgs] using hdom)
    rw [show mergeMsgs [m] = m from rfl, show mergeMsgs [l] = l from rfl] at h1
    unfold combine
    have : xs.isEmpty = false := by cases xs <;> simp_all
    simp only [this, hfold, h1, hwin]
    simp [Outcome.delay?, Outcome.msg, Outcome.loc]
  | _ => simp [Outcome.cls] at hw

theorem foldl_max_spec (d : Int) (ds : List Int) :
    (∀ x ∈ d :: ds, x ≤ ds.foldl max d) ∧ ds.foldl max d ∈ d :: ds := by
  induction ds generalizing d with
  | nil => simp
  | cons y ys ih =>
    simp only [List.foldl_cons]
    have := ih (max d y)
    constructor
    · intro x hx
      have h1 := this.1 (max d y) (by simp)
      simp only [List.mem_cons] at hx
      rcases hx with rfl | rfl | hx
      · omega
      · omega
      · exact this.1 x (by simp [hx])
    · have h2 := this.2
      simp only [List.mem_cons] at h2 ⊢
      rcases h2 with h2 | h2
      · rw [h2]; by_cases hle : d ≤ y
        · right; left; omega
        · left; omega
      · right; right; exact h2

/-- the combined delay is the longest Retry delay present -/
theorem combine_retry_delay_longest (xs : List (Outcome α)) (hc : (combine xs).cls = .retry) :
    ∃ d m l, combine xs = .nonOk (.retry d m l) ∧
      (∀ x ∈ xs, ∀ dx, x.delay? = some dx → dx ≤ d) ∧ (∃ x ∈ xs, x.delay? = some d) := by
  obtain ⟨w, rest, hwin, heq⟩ := combine_retry xs hc
  refine ⟨_, _, _, heq, ?_, ?_⟩
  all_goals
    have hfold : ∀ (a : Int) (l : List (Outcome α)),
        l.foldl (fun a o => delayOp a (o.delay?.getD 0)) a =
          (l.map (fun o => o.delay?.getD 0)).foldl max a := by
      intro a l; induction l generalizing a with
      | nil => rfl
      | cons y ys ih => simp only [List.foldl_cons, List.map_cons]; rw [ih]; rfl
    rw [hfold]
    have hspec := foldl_max_spec (w.delay?.getD 0) (rest.map (fun o => o.delay?.getD 0))
    have hmemw : ∀ x, x ∈ w :: rest ↔ (x ∈ xs ∧ x.cls = .retry) := by
      intro x; rw [← hwin]; unfold winners; rw [List.mem_filter]
      constructor
      · rintro ⟨h1, h2⟩
        exact ⟨h1, by cases hx : x.cls <;> first | rfl | (rw [hx] at h2; exact absurd h2 (by decide))⟩
      · rintro ⟨h1, h2⟩; exact ⟨h1, by rw [h2]; rfl⟩
  · intro x hx dx hdx
    have hxc : x.cls = .retry := by cases x <;> simp_all [Outcome.delay?, Outcome.cls]
    have hxm := (hmemw x).2 ⟨hx, hxc⟩
    apply hspec.1
    have : dx = x.delay?.getD 0 := by rw [hdx]; rfl
    rw [this]
    simp only [List.mem_cons] at hxm ⊢
    rcases hxm with rfl | hxm
    · left; rfl
    · right; exact List.mem_map.2 ⟨x, hxm, rfl⟩
  · have h2 := hspec.2
    have : ∃ y ∈ w :: rest, y.delay?.getD 0 =
        (rest.map (fun o => o.delay?.getD 0)).foldl max (w.delay?.getD 0) := by
      simp only [List.mem_cons] at h2
      rcases h2 with h2 | h2
      · exact ⟨w, by simp, h2.symm⟩
      · obtain ⟨y, hy, hye⟩ := List.mem_map.1 h2
        exact ⟨y, by simp [hy], hye⟩
    obtain ⟨y, hy, hye⟩ := this
    have hyr := (hmemw y).1 hy
    refine ⟨y, hyr.1, ?_⟩
    rw [← hye]
    cases y <;> simp_all [Outcome.cls, Outcome.delay?]

/-! ## PermFail: every message of the winning class -/

theorem combine_permFail (xs : List (Outcome α)) (hc : (combine xs).cls = .permFail) :
    winners .permFail xs ≠ [] ∧
    combine xs = .nonOk (.permFail
      (mergeMsgs ((winners .permFail xs).map Outcome.msg))
      (mergeMsgs ((winners .permFail xs).map Outcome.loc))) := by
  have hne : xs ≠ [] := by intro e; subst e; simp [combine, Combined.cls, Outcome.cls] at hc
  have hfc : (fold xs).cls = .permFail := by rw [← combined_cls xs hne]; exact hc
  obtain ⟨pre, w, post, e, hw, -, hdom, hfold, hwin⟩ := fold_decompose xs (by rw [hfc]; decide)
  rw [hfc] at hwin hw
  refine ⟨by rw [hwin]; simp, ?_⟩
  cases w with
  | permFail m l =>
    have h1 := fold_permFail [m] [l] (by simp) (by simp) post
    rw [show mergeMsgs [m] = m from rfl, show mergeMsgs [l] = l from rfl] at h1
    unfold combine
    have : xs.isEmpty = false := by cases xs <;> simp_all
    simp only [this, hfold, h1, hwin]
    simp [Outcome.msg, Outcome.loc]
  | _ => simp [Outcome.cls] at hw

/-- the multiset of winning messages does not depend on the order -/
theorem winner_messages_perm {xs ys : List (Outcome α)} (c : Cls) (h : xs.Perm ys) :
    ((winners c xs).map Outcome.msg).Perm ((winners c ys).map Outcome.msg) :=
  (h.filter _).map _

/-! ## lossless at any length: no message of the winning class is cut or dropped,
    however many and however long they are -/

/-- a non-empty message of a winning-class element is found, whole, in the merged message -/
theorem winner_message_kept (c : Cls) (xs : List (Outcome α)) (x : Outcome α) (hx : x ∈ xs)
    (hcls : x.cls = c) (s : String) (hm : x.msg = some s) (hs : s ≠ "") :
    ∃ t pre post, mergeMsgs ((winners c xs).map Outcome.msg) = some t ∧ t = pre ++ s ++ post := by
  apply mergeMsgs_contains _ s _ hs
  refine List.mem_map.2 ⟨x, ?_, hm⟩
  simp [winners, hx, cls_beq_true hcls]

/-- PermFail: every non-empty PermFail message of the sequence is part of the combined message,
    for sequences and messages of any length -/
theorem combine_permFail_keeps_every_message (xs : List (Outcome α))
    (hc : (combine xs).cls = .permFail) (x : Outcome α) (hx : x ∈ xs) (hcls : x.cls = .permFail)
    (s : String) (hm : x.msg = some s) (hs : s ≠ "") :
    ∃ t l pre post, combine xs = .nonOk (.permFail (some t) l) ∧ t = pre ++ s ++ post := by
  obtain ⟨t, pre, post, e, ht⟩ := winner_message_kept .permFail xs x hx hcls s hm hs
  refine ⟨t, mergeMsgs ((winners .permFail xs).map Outcome.loc), pre, post, ?_, ht⟩
  rw [(combine_permFail xs hc).2, e]

/-- Retry: every non-empty Retry message of the sequence is part of the combined message -/
theorem combine_retry_keeps_every_message (xs : List (Outcome α))
    (hc : (combine xs).cls = .retry) (x : Outcome α) (hx : x ∈ xs) (hcls : x.cls = .retry)
    (s : String) (hm : x.msg = some s) (hs : s ≠ "") :
    ∃ d t l pre post, combine xs = .nonOk (.retry d (some t) l) ∧ t = pre ++ s ++ post := by
  obtain ⟨t, pre, post, e, ht⟩ := winner_message_kept .retry xs x hx hcls s hm hs
  obtain ⟨w, rest, -, hcomb⟩ := combine_retry xs hc
  exact ⟨_, t, _, pre, post, by rw [hcomb, e], ht⟩

/-- with several winners the combined message is exactly as long as all their non-empty messages and
    the separators between them: there is no bound on it (the model has no cap to reach) -/
theorem merged_message_length (ms : List (Option String)) (h : 2 ≤ ms.length) :
    ∃ t, mergeMsgs ms = some t ∧
      t.length = ((truthyList ms).map String.length).sum + 2 * ((truthyList ms).length - 1) := by
  match ms, h with
  | a :: b :: rest, _ => exact ⟨_, rfl, joinStrs_length _⟩

/-! ## `unwrapped_combine` is `combine` after wrapping bare values -/

theorem unwrapped_class (xs : List (Unwrapped α)) :
    (unwrappedCombine xs).cls = (combine (xs.map Unwrapped.lift)).cls := by
  unfold unwrappedCombine combine
  cases xs with
  | nil => rfl
  | cons x xs =>
    simp only [List.isEmpty_cons, List.map_cons, Bool.false_eq_true, ↓reduceIte]
    cases hf : fold (x.lift :: xs.map Unwrapped.lift) <;> simp [Combined.cls]

theorem unwrapped_ok_values (xs : List (Unwrapped α)) (hc : (unwrappedCombine xs).cls = .ok) :
    unwrappedCombine xs = .okList ((xs.map Unwrapped.lift).flatMap Outcome.vals) none := by
  rw [unwrapped_class] at hc
  obtain ⟨loc, h⟩ := combine_ok_values _ hc
  unfold unwrappedCombine
  unfold combine at h
  cases xs with
  | nil => simp [combine, Combined.cls, Outcome.cls] at hc
  | cons x xs =>
    simp only [List.isEmpty_cons, List.map_cons, Bool.false_eq_true, ↓reduceIte] at h ⊢
    cases hf : fold (x.lift :: xs.map Unwrapped.lift) with
    | ok d l =>
      rw [hf] at h; simp only at h ⊢
      have hv : unwrapData d = (x.lift :: xs.map Unwrapped.lift).flatMap Outcome.vals := by
        injection h
      rw [hv]
    | _ => rw [hf] at h; simp at h

/-! ## non-vacuity: concrete instances of the hypotheses -/

example : (combine [Outcome.ok (.raw 1) none, .skip none none, .ok (.raw 2) (some "x")]).cls = .ok := by
  decide
example : combine [Outcome.ok (.raw 1) none, .skip none none, .ok (.raw 2) (some "x")]
    = .okList [1, 2] (some "x") := by decide
example : (combine [Outcome.retry 5 (some "a") none, .ok (.raw 1) none, .retry 9 none none,
    .retry 2 (some "b") (some "l")]) = .nonOk (.retry 9 (some "a, b") (some "l")) := by decide
example : (combine [Outcome.retry 5 (some "a") none, .permFail none none, .ok (.raw (1 : Nat)) none]).cls
    = .permFail := by decide
example : ∃ t, mergeMsgs [some "region is not allowed", none, some "", some "quota exceeded"] = some t ∧
    t.length = 21 + 14 + 2 := ⟨_, rfl, by decide⟩

end Koreo.C03
