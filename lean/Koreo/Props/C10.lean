/-
  C10 — Expression failures surface as PermFail, never as crashes or leaked errors.
  Property theorems only; helper lemmas are in `Koreo/Lemmas/EvalScan.lean`.
  Model: `Koreo/EvalScan.lean` (hand transcription of cel/evaluation.py, the three reconcile
  modules' data flow, `_deep_overlay`, `convert_bools`, `_strip_koreo_directives`, `_prepare_for_api`).
  `Koreo/Gen/EvalSites.lean` is regenerated from the source on every run.

  celpy is an oracle `eval : Site → EvalResult` (raised | a value tree that may contain error
  objects as values, list items or map keys at any depth).  Every theorem below holds for every
  oracle, every Function structure, every index tree and every (error-free) environment.
-/
import Koreo.Lemmas.EvalScan
import Koreo.Gen.EvalSites

namespace Koreo.C10
open Koreo.EvalScan Koreo.EvalScan.ETree Koreo.EvalScan.Run

/-! ## the model's sites and scan shape are the ones the source has now -/

theorem extraction_ok : Koreo.Gen.EvalSites.extractionOk = true := by decide

/-- the source calls `evaluate` / `evaluate_predicates` / `evaluate_overlay` at exactly the places
    the model's `Site` type lists (a new evaluation site breaks this) -/
theorem sites_match_source : Koreo.Gen.EvalSites.sites = sourceTable := by decide

/-- each row of the table is a constructor of `Site` … -/
theorem table_is_modelled : representativeSites.map Site.source = sourceTable.map some := by decide

/-- … and every site the models can evaluate is a row of the table -/
theorem every_site_in_table (s : Site) (t : String × String × String) (h : s.source = some t) :
    t ∈ sourceTable := by
  induction s with
  | vf v => cases v <;> (simp only [Site.source, VfSite.source] at h; cases h; decide)
  | overlayRef i v => cases v <;> (simp only [Site.source, VfSite.source] at h; cases h; decide)
  | securityOverlay => simp [Site.source] at h
  | iter j s ih => exact ih h
  | step k s ih => exact ih h
  | _ => (simp only [Site.source] at h; cases h; decide)

/-- probed on the tree under test: `check_for_celevalerror` finds an error object exactly where the
    model's `scan` does (as map value, map key, list / ListType / tuple item, nested, clean values),
    and each of the three evaluators answers a raising program (CELEvalError with or without a
    dumpable tree — F10 —, ValueError, KeyError, RuntimeError), an error value and a nested error
    object with a PermFail that names the location, exactly as `site` / `evalPredicates` /
    `evalOverlay` do.  The syntactic scan, where it recognises the source's shape, does not
    contradict: a catch-all exists and celpy's `tree_dump` is not reachable unguarded from an except-arm -/
theorem scan_shape_matches_source :
    Koreo.Gen.EvalSites.scanProbe = scanProbeTable ∧
    Koreo.Gen.EvalSites.evaluatorProbe = evaluatorProbeTable ∧
    Koreo.Gen.EvalSites.catchAll ≠ "no" ∧
    Koreo.Gen.EvalSites.handlersCannotRaise ≠ "no" := by decide

/-! ## the scan is complete -/

/-- the scan reports nothing exactly when there is no error object anywhere in the tree —
    as a value, as a list item or as a map key, at any depth -/
theorem scan_complete (t : ETree) : scan t = false ↔ ErrFree t := scan_false_iff t

/-- … equivalently, it reports an error exactly when one is reachable by some path -/
theorem scan_finds (t : ETree) : scan t = true ↔ HasErr t := scan_iff t

/-! ## the tree functions do not create error objects -/

theorem applier_preserves_errfree (base : ETree) (index : List (String × Index)) (values : List ETree)
    (hb : ErrFree base) (hv : ∀ v ∈ values, ErrFree v) : ErrFree (applier base index values) :=
  (errFree_obj _).mpr (applyKids_clean values hv _ (cleanKvs_kvsOf hb) index _ (cleanKvs_kvsOf hb))

theorem deepOverlay_preserves_errfree (resource overlay : ETree) (hr : ErrFree resource)
    (ho : ErrFree overlay) : ErrFree (deepOverlay resource overlay) :=
  deepOverlay_errFree resource hr overlay ho

theorem convert_preserves_errfree (t : ETree) (h : ErrFree t) : ErrFree (convert t) :=
  convert_errFree t h

theorem strip_preserves_errfree (t : ETree) (h : ErrFree t) : ErrFree (stripE t) :=
  stripE_errFree t h

/-- on JSON values the strip of this model is the one shared with C08 -/
theorem strip_is_shared_model (j : JVal) : stripE (embed j) = embed (strip j) := stripE_embed j

theorem prepareForApi_preserves_errfree (render : ETree → String) (t p : ETree) (h : ErrFree t)
    (hp : prepareForApi render t = some p) : ErrFree p :=
  prepareForApi_errFree' render t h p hp

/-- `json.dumps` inside `_prepare_for_api` cannot raise because of an error object: on an
    error-free tree the only way to `none` is a `metadata`/`annotations` that is not a map -/
theorem prepareForApi_dump_never_fails (t : ETree) (h : ErrFree t) :
    scan (stripE t) = false :=
  (scan_false_iff _).mpr (stripE_errFree t h)

/-- everything the API server or a cache hands to Koreo is JSON, hence error-free -/
theorem json_is_errfree (j : JVal) : ErrFree (embed j) := embed_errFree j

/-- the re-scans after `_overlay(…, forced_overlay)` can never fire: what they look at is
    already error-free (so removing them changes no behaviour) -/
theorem rescan_after_forced_overlay_redundant (s : Site) (t forced : ETree) (ht : ErrFree t)
    (hf : ErrFree forced) : overlayForced s t forced = pure (deepOverlay t forced) := by
  unfold overlayForced
  simp [(scan_false_iff _).mpr (deepOverlay_errFree t ht forced hf)]

/-! ## … but the scan at the `resource` site is not: the forced overlay hides what it overwrites -/

/-- the forced name/kind overlay writes `apiVersion` and `kind` whatever stood there: the merged object
    does not depend on the template's value at these keys -/
theorem forced_overlay_overwrites_identity_keys (env : Env) (name : String) (ns : Option String)
    (k : String) (hk : k = "apiVersion" ∨ k = "kind") (x : ETree) (kvs : List (EKey × ETree)) :
    deepOverlay (.obj (blankAt (.str k) x kvs)) (forcedOverlay env name ns)
      = deepOverlay (.obj kvs) (forcedOverlay env name ns) := by
  simp only [forcedOverlay, deepOverlay, kvsOf]
  congr 1
  rcases hk with rfl | rfl
  · exact deepOverlayO_blankAt _ x (.str env.apiVersion) trivial _ _ (by simp [lookup])
  · exact deepOverlayO_blankAt _ x (.str env.kind) trivial _ _ (by simp [lookup])

/-- … so the scan after the forced overlay is no substitute for the scan at the `resource` site: a template
    whose only error objects sit at (or below) `apiVersion` / `kind` has an error object, and yet
    `_overlay(…, forced_overlay)` + `check_for_celevalerror` lets it through as if nothing had failed -/
theorem rescan_after_forced_overlay_is_no_substitute (env : Env) (name : String) (ns : Option String) (s : Site)
    (k : String) (hk : k = "apiVersion" ∨ k = "kind") (e v : ETree) (he : HasErr e)
    (kvs : List (EKey × ETree)) (hclean : ErrFree (.obj kvs)) (hl : lookup (.str k) kvs = some v) :
    HasErr (.obj (blankAt (.str k) e kvs)) ∧
    overlayForced s (.obj (blankAt (.str k) e kvs)) (forcedOverlay env name ns)
      = pure (deepOverlay (.obj kvs) (forcedOverlay env name ns)) := by
  refine ⟨blankAt_hasErr hl he, ?_⟩
  unfold overlayForced
  rw [forced_overlay_overwrites_identity_keys env name ns k hk e kvs]
  simp [(scan_false_iff _).mpr (deepOverlay_errFree _ hclean _ (forcedOverlay_errFree env name ns))]

/-- the code (and the model) do scan at the site: such a template is a PermFail at `spec.resource`,
    before anything is merged or sent -/
theorem masked_template_error_is_permfail (eval : Oracle) (loc : Site → Site) (f : RF) (env : Env)
    (forced : ETree) (hf : f.template = .inline true)
    (k : EKey) (e v : ETree) (he : HasErr e) (kvs : List (EKey × ETree)) (hl : lookup k kvs = some v)
    (heval : eval (loc .resource) = .val (.obj (blankAt k e kvs))) :
    (constructTemplate eval loc f env forced).res = .error (.permFail (loc .resource) .evalError) ∧
    (constructTemplate eval loc f env forced).outs = [] := by
  have hs : scan (.obj (blankAt k e kvs)) = true := (scan_iff _).mpr (blankAt_hasErr hl he)
  simp [constructTemplate, hf, siteOpt, site, heval, hs, bind, bind']

/-- same for `metadata.name`, `metadata.namespace` (concrete shape, any `e`) and a `metadata` that is an error object -/
theorem forced_overlay_masks_metadata (env : Env) (name n : String) (e spec labels : ETree)
    (hs : ErrFree spec) (hlab : ErrFree labels) :
    scan (deepOverlay (.obj [(.str "metadata", .obj [(.str "name", e), (.str "labels", labels)]), (.str "spec", spec)])
        (forcedOverlay env name (some n))) = false ∧
    scan (deepOverlay (.obj [(.str "metadata", .obj [(.str "labels", labels), (.str "namespace", e)]), (.str "spec", spec)])
        (forcedOverlay env name (some n))) = false ∧
    scan (deepOverlay (.obj [(.str "metadata", .err), (.str "spec", spec)]) (forcedOverlay env name (some n))) = false := by
  have h1 := (scan_false_iff _).mpr hs
  have h2 := (scan_false_iff _).mpr hlab
  simp [forcedOverlay, deepOverlay, deepOverlayO, kvsOf, ETree.insert, lookup, scan, scanO, h1, h2]

/-! ## every value that is returned, published or sent is error-free -/

/-- ValueFunction (as a step, or as an overlayRef on an error-free resource) -/
theorem vf_result_errfree (eval : Oracle) (interp : Interp) (loc : VfSite → Site) (f : VF)
    (base : Option ETree) (hb : ∀ b, base = some b → ErrFree b) (v : ETree)
    (h : (vfRun eval interp loc f base).res = .ok v) : ErrFree v :=
  (vfRun_sat eval interp loc f base hb).post v h

/-- every request body a ResourceFunction sends (POST, PATCH) is error-free -/
theorem rf_payload_errfree (eval : Oracle) (interp : Interp) (loc : Site → Site) (f : RF) (env : Env)
    (henv : env.Clean) : ∀ o ∈ (rfRun eval interp loc f env).outs, ErrFree o.2 :=
  (rfRun_sat eval interp loc f env henv).outs

theorem rf_return_errfree (eval : Oracle) (interp : Interp) (loc : Site → Site) (f : RF) (env : Env)
    (henv : env.Clean) (v : ETree) (h : (rfRun eval interp loc f env).res = .ok v) : ErrFree v :=
  (rfRun_sat eval interp loc f env henv).post v h

/-- the inputs handed to a step's Function (per forEach iteration), the requests of its
    ResourceFunction and its state contribution are error-free; so is the step's value -/
theorem step_inputs_errfree (eval : Oracle) (interp : Interp) (loc : Site → Site) (st : Step)
    (hl : st.logic.Clean) :
    (∀ o ∈ (stepRun eval interp loc st).outs, ErrFree o.2) ∧
    (∀ v, (stepRun eval interp loc st).res = .ok v → ErrFree v) :=
  (stepRun_wsat eval interp loc st hl).2

/-- whole workflow: everything that leaves is error-free, every step value is error-free, and
    the published state (`state.update` over the steps) is error-free -/
theorem workflow_state_errfree (eval : Oracle) (interp : Interp) (steps : List Step)
    (hl : ∀ st ∈ steps, st.logic.Clean) :
    ErrFree (publishedState (wfRun eval interp steps).outs) ∧
    (∀ o ∈ (wfRun eval interp steps).outs, ErrFree o.2) ∧
    (∃ rs, (wfRun eval interp steps).res = .ok rs ∧ ∀ v, Except.ok v ∈ rs → ErrFree v) := by
  have h := wfRun_spec eval interp steps hl
  exact ⟨publishedState_errFree _ h.1, h.1, h.2⟩

/-! ## a failing expression gives PermFail with its location — at every site -/

/-- the log of a run is made of the oracle's answers: an entry `(s, r)` means the expression at
    `s` was evaluated and celpy answered `r` -/
theorem log_is_faithful (eval : Oracle) (interp : Interp) (loc : Site → Site) (f : RF) (env : Env)
    (henv : env.Clean) : ∀ e ∈ (rfRun eval interp loc f env).evals, e.2 = eval e.1 :=
  (rfRun_sat eval interp loc f env henv).faithful

/-- ValueFunction: whichever of its sites is evaluated and fails (raised, or an error object
    anywhere in its value), the outcome is a PermFail located at that site -/
theorem failing_expr_gives_permfail_with_location_vf (eval : Oracle) (interp : Interp)
    (loc : VfSite → Site) (f : VF) (base : Option ETree) (hb : ∀ b, base = some b → ErrFree b) :
    ∀ e ∈ (vfRun eval interp loc f base).evals, e.2 = eval e.1 ∧
      (e.2.bad = true → (vfRun eval interp loc f base).res = .error (.permFail e.1 .evalError)) :=
  fun e he => ⟨(vfRun_sat eval interp loc f base hb).faithful e he,
               (vfRun_sat eval interp loc f base hb).located e he⟩

/-- ResourceFunction: preconditions, locals, apiConfig, template name, resource, each overlay,
    skipIf and overlayRef inputs, the sites of an overlayRef's ValueFunction, create overlay,
    postconditions, return -/
theorem failing_expr_gives_permfail_with_location (eval : Oracle) (interp : Interp)
    (loc : Site → Site) (f : RF) (env : Env) (henv : env.Clean) :
    ∀ e ∈ (rfRun eval interp loc f env).evals, e.2 = eval e.1 ∧
      (e.2.bad = true → (rfRun eval interp loc f env).res = .error (.permFail e.1 .evalError)) :=
  fun e he => ⟨(rfRun_sat eval interp loc f env henv).faithful e he,
               (rfRun_sat eval interp loc f env henv).located e he⟩

/-- a step without forEach (inputs, skipIf, switchOn and the Function's sites): same statement -/
theorem failing_expr_gives_permfail_with_location_logic (eval : Oracle) (interp : Interp)
    (loc : Site → Site) (inputs : ETree) (hin : ErrFree inputs) (l : Logic) (hl : l.Clean) :
    ∀ e ∈ (runLogic eval interp loc inputs l).evals,
      e.2.bad = true → (runLogic eval interp loc inputs l).res = .error (.permFail e.1 .evalError) :=
  (runLogic_sat eval interp loc inputs hin l hl).located

/-- a whole step, forEach included: a failing expression anywhere in the step's body (step inputs,
    skipIf, forEach.itemIn, switchOn, any site of any iteration) makes the step a PermFail that
    carries a location (with several failing iterations, the location of one of them) -/
theorem failing_expr_gives_permfail_step (eval : Oracle) (interp : Interp) (loc : Site → Site)
    (st : Step) (hl : st.logic.Clean) :
    ∀ e ∈ (stepBody eval interp loc st).evals, e.2.bad = true →
      ∃ l w, (stepRun eval interp loc st).res = .error (.permFail l w) :=
  (stepRun_wsat eval interp loc st hl).1

/-- `state`: a failing state expression publishes nothing and leaves the step's outcome alone
    (the code reports it in `state_errors`) -/
theorem failing_state_publishes_nothing (eval : Oracle) (interp : Interp) (loc : Site → Site)
    (st : Step) (hbad : (eval (loc .state)).bad = true) :
    (stepRun eval interp loc st).outs = (stepBody eval interp loc st).outs ∧
    (stepRun eval interp loc st).res = (stepBody eval interp loc st).res :=
  state_failure_contained eval interp loc st hbad

/-- no crash: a failing expression never ends in an uncaught exception -/
theorem failing_expr_never_crashes (eval : Oracle) (interp : Interp) (loc : Site → Site) (f : RF)
    (env : Env) (henv : env.Clean) (e : Site × EvalResult)
    (he : e ∈ (rfRun eval interp loc f env).evals) (hbad : e.2.bad = true) (what : String) :
    (rfRun eval interp loc f env).res ≠ .error (.crash what) := by
  rw [(rfRun_sat eval interp loc f env henv).located e he hbad]
  intro h; cases h

/-! ## non-vacuity: concrete runs -/

private def noInterp : Interp := fun _ => none
private def failure {α : Type} (r : Except Stop α) : Option Stop :=
  match r with | .error e => some e | .ok _ => none
private def leaf0 : List (String × Index) := [("v", .leaf 0), ("w", .node [("x", .leaf 1)])]
private def vf1 : VF := ⟨true, true, some leaf0⟩

/-- an error object deep inside the second overlay value (a list of maps) of `return` -/
private def evalDeep : Oracle
  | .vf .preconditions => .val (.arr [])
  | .vf .locals => .val (.obj [(.str "a", .int 1)])
  | .vf .returnValue => .val (.arr [.int 1, .arr [.obj [(.str "k", .arr [.int 2, .err])]]])
  | _ => .raised

example : failure (vfRun evalDeep noInterp .vf vf1 none).res = some (.permFail (.vf .returnValue) .evalError) := by
  decide

/-- an error object as a map key -/
private def evalKey : Oracle
  | .vf .preconditions => .val (.arr [])
  | .vf .locals => .val (.obj [(.str "a", .obj [(.err, .int 1)])])
  | _ => .raised

example : failure (vfRun evalKey noInterp .vf vf1 none).res = some (.permFail (.vf .locals) .evalError) := by
  decide

/-- everything evaluates: the value is produced (hypotheses of the error-freeness theorems are met) -/
private def evalFine : Oracle
  | .vf .preconditions => .val (.arr [])
  | .vf .locals => .val (.obj [(.str "a", .int 1)])
  | .vf .returnValue => .val (.arr [.int 1, .str "x"])
  | _ => .raised

example : ((vfRun evalFine noInterp .vf vf1 none).res.toOption.map scan) = some false := by decide

private def env1 : Env :=
  { live := none, templates := fun _ => none, ownerRef := .obj [(.str "uid", .str "u")],
    ownerSameNamespace := true, isMatch := fun _ _ => false, ownerReffed := false,
    apiVersion := "v1", kind := "ConfigMap", text := fun _ => "name", render := fun _ => "{}" }

private def rf1 : RF :=
  { hasPre := false, hasLocals := false, namespaced := true, readonly := false, deleteIfExists := false,
    owned := true, template := .inline true,
    overlays := [.inline false [("data", .node [("k", .leaf 0)])]],
    createEnabled := true, createOverlay := none, update := .patch, hasPost := false, hasReturn := true }

private def evalRf (overlayVal : ETree) : Oracle
  | .apiConfig => .val (.obj [(.str "name", .str "n"), (.str "namespace", .str "ns")])
  | .resource => .val (.obj [(.str "data", .obj [])])
  | .overlay 0 => .val (.arr [overlayVal])
  | _ => .raised

/-- a create: one POST goes out, its body passes the scan -/
example : ((rfRun (evalRf (.str "x")) noInterp id rf1 env1).outs.map fun o => (o.1, scan o.2)) = [(.post, false)] := by
  decide

/-- the same Function with an error object inside the overlay leaf: PermFail at that overlay, nothing sent -/
example : failure (rfRun (evalRf (.obj [(.str "deep", .err)])) noInterp id rf1 env1).res
      = some (.permFail (.overlay 0) .evalError) ∧
    (rfRun (evalRf (.obj [(.str "deep", .err)])) noInterp id rf1 env1).outs.length = 0 := by
  decide

/-! ### every site is reached by some run -/

private def vfFull : VF := ⟨true, true, some [("spec", .node [("fromVf", .leaf 0)])]⟩

private def rfFull : RF :=
  { hasPre := true, hasLocals := true, namespaced := true, readonly := false, deleteIfExists := false,
    owned := true, template := .ref,
    overlays := [.inline true [("spec", .node [("y", .leaf 0)])], .ref true true vfFull],
    createEnabled := true, createOverlay := some [("spec", .node [("c", .leaf 0)])], update := .patch,
    hasPost := true, hasReturn := true }

private def envAbsent : Env :=
  { live := none, templates := fun _ => some (.obj [(.str "spec", .obj [])]), ownerRef := .obj [(.str "uid", .str "u")],
    ownerSameNamespace := true, isMatch := fun _ _ => false, ownerReffed := false,
    apiVersion := "v1", kind := "K", text := fun _ => "name", render := fun _ => "{}" }

private def envMatch : Env := { envAbsent with live := some (.obj [(.str "spec", .obj [])]), isMatch := fun _ _ => true, ownerReffed := true }

private def evalAll : Oracle
  | .rfPre | .rfPost | .overlayRef _ .preconditions => .val (.arr [])
  | .rfLocals | .overlayRef _ .locals | .overlayInputs _ => .val (.obj [])
  | .apiConfig => .val (.obj [(.str "name", .str "n"), (.str "namespace", .str "ns")])
  | .templateName => .val (.str "tmpl")
  | .overlaySkipIf _ => .val (.bool false)
  | .overlay _ | .overlayRef _ .returnValue | .createOverlay => .val (.arr [.int 1])
  | .rfReturn => .val (.obj [(.str "v", .int 1)])
  | _ => .raised

/-- a create run reaches every site up to the create overlay … -/
example : (rfRun evalAll noInterp id rfFull envAbsent).evals.map (·.1) =
    [.rfPre, .rfLocals, .apiConfig, .templateName, .overlaySkipIf 0, .overlay 0, .overlaySkipIf 1,
     .overlayInputs 1, .overlayRef 1 .preconditions, .overlayRef 1 .locals, .overlayRef 1 .returnValue,
     .createOverlay] := by decide

/-- … and a run on a matching object reaches postconditions and return -/
example : (rfRun evalAll noInterp id rfFull envMatch).evals.map (·.1) =
    [.rfPre, .rfLocals, .apiConfig, .templateName, .overlaySkipIf 0, .overlay 0, .overlaySkipIf 1,
     .overlayInputs 1, .overlayRef 1 .preconditions, .overlayRef 1 .locals, .overlayRef 1 .returnValue,
     .rfPost, .rfReturn] := by decide

private def stepFE : Step :=
  { deps := [], hasInputs := true, hasSkipIf := true, forEach := some "item",
    logic := .switch (fun _ => some (.vf ⟨false, false, some [("v", .leaf 0)]⟩)), hasState := true }

/-- the second iteration's return holds an error object: the step is a PermFail, all iterations ran,
    no state is evaluated -/
private def evalFE : Oracle
  | .stepInputs => .val (.obj [])
  | .stepSkipIf => .val (.bool false)
  | .forEach => .val (.arr [.int 1, .int 2, .int 3])
  | .iter _ .switchOn => .val (.str "a")
  | .iter 1 (.vf .returnValue) => .val (.arr [.obj [(.str "k", .err)]])
  | .iter _ (.vf .returnValue) => .val (.arr [.int 1])
  | .state => .val (.obj [(.str "s", .int 1)])
  | _ => .raised

example : failure (stepRun evalFE noInterp id stepFE).res = some (.permFail (.iter 1 (.vf .returnValue)) .evalError) ∧
    (stepRun evalFE noInterp id stepFE).evals.map (·.1) =
      [.stepInputs, .stepSkipIf, .forEach, .iter 0 .switchOn, .iter 0 (.vf .returnValue), .iter 1 .switchOn,
       .iter 1 (.vf .returnValue), .iter 2 .switchOn, .iter 2 (.vf .returnValue)] := by decide

/-- `{apiVersion: <error object>, spec: {}}` has an error object, and the forced overlay + re-scan alone would hand
    on `{apiVersion: "v1", spec: {}, kind: "K", metadata: {…}}`; the scan at the site makes it a PermFail -/
example :
    HasErr (.obj (blankAt (.str "apiVersion") .err [(.str "apiVersion", .str "x"), (.str "spec", .obj [])])) ∧
    overlayForced .resource (.obj (blankAt (.str "apiVersion") .err [(.str "apiVersion", .str "x"), (.str "spec", .obj [])]))
        (forcedOverlay envAbsent "n" (some "ns"))
      = pure (deepOverlay (.obj [(.str "apiVersion", .str "x"), (.str "spec", .obj [])]) (forcedOverlay envAbsent "n" (some "ns"))) :=
  rescan_after_forced_overlay_is_no_substitute envAbsent "n" (some "ns") .resource "apiVersion" (.inl rfl) .err (.str "x")
    HasErr.here _ ((scan_false_iff _).mp (by simp [scan, scanO])) (by simp [lookup])

end Koreo.C10
