import Koreo.Encoder
namespace Koreo.C11
theorem stub : True := trivial
end Koreo.C11
