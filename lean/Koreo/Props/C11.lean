/-
  C11 — Static values in definitions reach results and resources unchanged.
  Property theorems only; helper lemmas are in `Koreo/Lemmas/Encoder.lean`.

  Model: `Koreo/Encoder.lean` — the REPAIRED `src/koreo/cel/encoder.py` (fixes/F2-encoder.diff):
  `encodeCel`/`enc`, `encodeStr`, `quoteStr`, `escBody`, `isNumeral`; and the inverse as implemented by
  celpy 0.3.0: `lexString` (STRING_LIT / MLSTRING_LIT + `celstr`), `lexNumber` (INT_LIT / FLOAT_LIT),
  and a token-level parser `parse` for the JSON-like subset that `encode_cel` emits.
  `Koreo/Gen/EncoderTables.lean` is regenerated from the running encoder and from celpy on every run.

  The gap named in DESIGN.md 5/C11 (token-level abstraction) is closed: `tokenize` is a character-level
  tokenizer for exactly the sub-language `encode_cel` emits, modelled on celpy's lark terminals, and
  `chars_roundtrip` proves tokenise-then-parse of the emitted character list for every value.  The
  token-level theorems (`value_roundtrip`, `encoding_is_token_text`) are kept.  What the character
  level ASSUMES about celpy (trusted, validated by harness/c11.py against real celpy's token stream on
  the emitted texts): the contextual lexer ignores WHITESPACE; tries FLOAT_LIT before INT_LIT and both
  before the MINUS operator, so `-5` is one INT_LIT; a number token is the greedy match of
  `-? DIGIT+ ("." DIGIT*)? EXP?` / `-? DIGIT* "." DIGIT+ EXP?` / `-? DIGIT+ EXP` with EXP taken only when
  complete; MLSTRING_LIT is tried before STRING_LIT and both stop at the first closing delimiter not
  consumed by an escape (`scanLong` / `scanShort`); a run `[_a-zA-Z][_a-zA-Z0-9]*` is BOOL_LIT / NULL_LIT
  exactly when it is `true` / `false` / `null`; `[ ] { } , :` are single-character tokens; the LALR
  parser builds lists and maps from that token stream as `pVal` does.

  On the unrepaired tree the clauses below were false (`a\nb`, `x"""y⏎`, keys with `"` or newline,
  `inf`, `nan`, ` 12`, `1_0`, `+5`, `١٢`; corpus/C11/*.json): there `escapes_match_source` does not
  build and the check's oracle reports the failing inputs.
-/
import Koreo.Lemmas.Encoder
import Koreo.Lemmas.StaticOverlay
import Koreo.Gen.EncoderTables

namespace Koreo.C11
open Koreo.Encoder

/-! ## the model's tables are the ones the source has now -/

/-- the translator could read the running encoder and celpy's table -/
theorem extraction_ok : Koreo.Gen.EncoderTables.extractionOk = true := by decide

/-- what the running `encode_cel` writes between the quotes for each ASCII character is the model's `escChar` -/
theorem escapes_match_source :
    Koreo.Gen.EncoderTables.keyBodies
      = (List.range 128).map (fun i => (escChar (Char.ofNat i)).map Char.toNat) := by decide

/-- the running encoder uses `"""` exactly for the key that contains a quote, `"` otherwise -/
theorem delimiters_match_source :
    Koreo.Gen.EncoderTables.keyDelims
      = (List.range 128).map (fun i => if hasQuote [Char.ofNat i] then 3 else 1) := by decide

/-- celpy's `CEL_ESCAPES` is the model's `escTable` -/
theorem cel_escapes_match_source :
    Koreo.Gen.EncoderTables.celEscapes = escTable.map (fun p => (p.1.toNat, p.2.toNat)) := by decide

/-! ## strings: decode ∘ encode = id, for every character list -/

/-- every non-numeral, non-expression string — whatever it contains: quotes, backslashes, newlines,
    CR, tabs, quote runs, a trailing quote or backslash, any Unicode — is read back by celpy's string
    lexer, from the text `encode_cel` writes, character for character -/
theorem string_roundtrip (s : Str) (hn : isNumeral s = false) (he : startsWithEq s = false) :
    lexString (encodeStr s) = some s := by
  rw [encodeStr_of_nonnumeral s hn he]
  exact lexString_quoteStr s

/-- … and the scanner stops exactly at the literal's own closing delimiter whatever text follows it
    (no character of the value can close the literal early or swallow what comes next) -/
theorem string_token_boundary (s rest : Str) :
    (hasQuote s = true → scanLong (escBody s ++ '"' :: '"' :: '"' :: rest) = some (s, rest)) ∧
    (hasQuote s = false → scanShort (escBody s ++ '"' :: rest) = some (s, rest)) :=
  ⟨fun _ => scanLong_escBody s rest, fun h => scanShort_escBody s rest h⟩

/-- map keys go through the same string encoder and are never numeralised or spliced:
    every key is read back exactly (also `12`, `=x`, `k"`, `k⏎`, the empty key) -/
theorem key_roundtrip (k : Str) : lexString (quoteStr k) = some k :=
  lexString_quoteStr k

/-- a quoted string is never mistaken for a number -/
theorem quoted_is_not_a_number (s : Str) : lexNumber (quoteStr s) = none :=
  lexNumber_quoteStr s

/-! ## the documented exception: decimal numerals, and nothing else -/

/-- a string that is a decimal numeral `-?digits(.digits)?([eE][+-]?digits)?` is written as it stands,
    the regex's decomposition is faithful to the text, and celpy reads the whole text as ONE number
    token whose value is the number the numeral denotes -/
theorem numeral_delivered_as_number (s : Str) (p : NumParts) (h : splitNumeral s = some p) :
    encodeStr s = s ∧ p.text = s ∧ lexNumber (encodeStr s) = some p.value := by
  have hn : isNumeral s = true := by simp [isNumeral, h]
  have hs : encodeStr s = s := by simp [encodeStr, hn]
  exact ⟨hs, splitNumeral_text s p h, by rw [hs]; exact isNumeral_lexNumber s p h⟩

/-- … an integer when neither a fraction nor an exponent is written, a double otherwise -/
theorem numeral_type (p : NumParts) :
    (p.fp = none → p.ex = none → p.value = .int (signed p.neg (digitsVal p.ip))) ∧
    ((p.fp ≠ none ∨ p.ex ≠ none) → ∃ m x, p.value = normDec p.neg m x) := by
  constructor
  · intro h1 h2; simp [NumParts.value, h1, h2]
  · intro h
    cases hf : p.fp <;> cases hx : p.ex <;> simp [NumParts.value, hf, hx] at h ⊢ <;> exact ⟨_, _, rfl⟩

/-- stripping the mantissa's trailing zeros does not change the number: m'·10^x' = m·10^x -/
theorem normDec_value (neg : Bool) (m : Nat) (x : Int) :
    ∃ m' x', normDec neg m x = .dec neg m' x' ∧
      ((m = 0 ∧ m' = 0) ∨ (x ≤ x' ∧ m' * 10 ^ (x' - x).toNat = m)) := by
  induction m using Nat.strongRecOn generalizing x with
  | _ m ih =>
    rw [normDec]
    by_cases h0 : m = 0
    · exact ⟨0, 0, by simp [h0], Or.inl ⟨h0, rfl⟩⟩
    · by_cases h10 : m % 10 = 0
      · obtain ⟨m', x', he, hv⟩ := ih (m / 10) (by omega) (x + 1)
        refine ⟨m', x', by simp [h0, h10, he], Or.inr ?_⟩
        rcases hv with ⟨hz, _⟩ | ⟨hle, hv⟩
        · omega
        · refine ⟨by omega, ?_⟩
          have e : (x' - x).toNat = (x' - (x + 1)).toNat + 1 := by omega
          rw [e, Nat.pow_succ, ← Nat.mul_assoc, hv]
          omega
      · exact ⟨m, x, by simp [h0, h10], Or.inr ⟨Int.le_refl _, by simp⟩⟩

/-- everything else is a string: a non-numeral (`inf`, `nan`, ` 12`, `12 `, `1_0`, `+5`, `١٢`, `1.`, `.5` …)
    is written as a string literal — celpy reads no number from it, and reads the text back exactly -/
theorem nonnumeral_not_number (s : Str) (hn : isNumeral s = false) (he : startsWithEq s = false) :
    lexNumber (encodeStr s) = none ∧ lexString (encodeStr s) = some s := by
  rw [encodeStr_of_nonnumeral s hn he]
  exact ⟨lexNumber_quoteStr s, lexString_quoteStr s⟩

/-- the look-alikes named in the property are outside the exception -/
theorem lookalikes_are_not_numerals :
    isNumeral "inf".toList = false ∧ isNumeral "nan".toList = false ∧ isNumeral "Infinity".toList = false ∧
    isNumeral " 12".toList = false ∧ isNumeral "12 ".toList = false ∧ isNumeral "12\n".toList = false ∧
    isNumeral "1_0".toList = false ∧ isNumeral "+5".toList = false ∧ isNumeral "١٢".toList = false ∧
    isNumeral "1.".toList = false ∧ isNumeral ".5".toList = false ∧ isNumeral "1e".toList = false ∧
    isNumeral "0x10".toList = false ∧ isNumeral "".toList = false ∧ isNumeral "-".toList = false := by
  decide

/-! ## whole values -/

/-- the text `encode_cel` writes is exactly the concatenation of the texts of the tokens `toks v` -/
theorem encoding_is_token_text (v : JVal) : encodeCel v = String.ofList (toksText (toks v)) := by
  rw [toksText_toks]; rfl

/-- parsing the emitted tokens gives back the value as written — same structure, same keys, strings
    character for character, integers, the dyadic floats (exactly e/8), booleans, null, empty
    containers — with numeral strings replaced by their number.  Mutual induction over `JVal`. -/
theorem value_roundtrip (v : JVal) (h : noExpr v = true) : parse (toks v) = some (numeralise v) := by
  unfold parse
  have := pVal_toks v h (toks v).length [] (Nat.le_refl _)
  rw [List.append_nil] at this
  rw [this]

/-- what arrives for a float written as e/8 denotes exactly e/8 (= e·125·10⁻³) -/
theorem float_value_exact (e : Int) :
    ∃ m x, numeralise (.flt e) = .num (.dec (decide (e < 0)) m x) ∧
      ((e = 0 ∧ m = 0) ∨ (-3 ≤ x ∧ m * 10 ^ (x + 3).toNat = e.natAbs * 125)) := by
  obtain ⟨m, x, he, hv⟩ := normDec_value (decide (e < 0)) (e.natAbs * 125) (-3)
  refine ⟨m, x, by simp [numeralise, he], ?_⟩
  rcases hv with ⟨h0, hm⟩ | ⟨hle, hv⟩
  · exact Or.inl ⟨by omega, hm⟩
  · exact Or.inr ⟨hle, by simpa using hv⟩

/-- strings and keys are not touched by `numeralise` unless the string is a numeral -/
theorem numeralise_keeps_text (s : String) (hn : isNumeral s.toList = false) :
    numeralise (.str s) = .str s.toList := by
  unfold isNumeral at hn
  cases hp : splitNumeral s.toList with
  | none => simp [numeralise, numeraliseStr, hp]
  | some p => simp [hp] at hn

/-! ## character level: tokenise-then-parse of the emitted text (closes the token-level gap) -/

/-- ints and the dyadic floats are printed as decimal numerals, so the one numeral lemma covers
    every number token `encode_cel` writes -/
theorem numbers_print_as_numerals (n e : Int) :
    isNumeral (renderInt n) = true ∧ isNumeral (renderFlt e) = true :=
  ⟨isNumeral_renderInt n, isNumeral_renderFlt e⟩

/-- token boundaries, one clause per terminal class: followed by the end of the text or by one of
    `, ] } :`, a numeral (INT_LIT / FLOAT_LIT incl. sign, fraction, exponent), a quoted string
    (STRING_LIT / MLSTRING_LIT) and `null` / `true` / `false` are each cut off as ONE token whose text is
    exactly the text written — nothing less (`12` of `12.5e3`), nothing more (`""` + `"`, `true` + `x`) -/
theorem token_boundaries (rest : Str) (hs : sepStart rest) :
    (∀ x, isNumeral x = true → nextTok (x ++ rest) = some (.lit x, x.length)) ∧
    (∀ s, nextTok (quoteStr s ++ rest) = some (.lit (quoteStr s), (quoteStr s).length)) ∧
    (∀ w, w = nullText ∨ w = trueText ∨ w = falseText → nextTok (w ++ rest) = some (.lit w, w.length)) :=
  ⟨fun x h => nextTok_numeral x rest h hs, fun s => nextTok_quoteStr s rest hs,
   fun w h => nextTok_word w rest h hs⟩

/-- the character-level tokenizer cuts the emitted text of EVERY value into exactly the tokens `toks v`
    (mutual induction over `JVal`: unbounded nesting and width) -/
theorem tokenize_emitted (v : JVal) (h : noExpr v = true) : tokenize (enc v) = some (toks v) := by
  have := tokenize_enc v h [] sepStart_nil
  simpa [tokenize, appToks] using this

/-- tokenise-then-parse of the emitted character list gives back the value as written, numeral
    strings numeralised — for every JSON value -/
theorem chars_roundtrip (v : JVal) (h : noExpr v = true) : parseChars (enc v) = some (numeralise v) := by
  unfold parseChars
  rw [tokenize_emitted v h]
  exact value_roundtrip v h

/-- the same, stated on the `String` that `encodeCel` returns -/
theorem chars_roundtrip_string (v : JVal) (h : noExpr v = true) :
    parseChars (encodeCel v).toList = some (numeralise v) := by
  have : (encodeCel v).toList = enc v := by simp [encodeCel]
  rw [this]; exact chars_roundtrip v h

/-! ## non-vacuity: the hypotheses are met by the hard cases themselves -/

/-- `a\nb` (a literal backslash) is written `"a\\nb"` -/
example : isNumeral ['a', '\\', 'n', 'b'] = false ∧ startsWithEq ['a', '\\', 'n', 'b'] = false ∧
    encodeStr ['a', '\\', 'n', 'b'] = ['"', 'a', '\\', '\\', 'n', 'b', '"'] := by decide

/-- `x"""y⏎` is written `"""x\"\"\"y\n"""` -/
example : encodeStr ['x', '"', '"', '"', 'y', '\n']
    = ['"', '"', '"', 'x', '\\', '"', '\\', '"', '\\', '"', 'y', '\\', 'n', '"', '"', '"'] := by decide

/-- a trailing backslash and a trailing quote -/
example : encodeStr ['a', '\\'] = ['"', 'a', '\\', '\\', '"'] ∧
    encodeStr ['a', '"'] = ['"', '"', '"', 'a', '\\', '"', '"', '"', '"'] := by decide

/-- the encodings pinned by tests/koreo/cel/test_encoder.py -/
example : encodeStr "3213".toList = "3213".toList ∧ encodeStr "72.3".toList = "72.3".toList ∧
    encodeStr "".toList = "\"\"".toList ∧ encodeStr "=1 + 1".toList = "1 + 1".toList ∧
    encodeStr "a \"b\"".toList = "\"\"\"a \\\"b\\\"\"\"\"".toList := by decide

/-- a numeral: `-1.50e-3` splits into its parts and denotes −15·10⁻⁴ -/
example : (splitNumeral "-1.50e-3".toList).map NumParts.text = some "-1.50e-3".toList := by decide

/-- separators exist; and a concrete emitted text is cut into its tokens and read back -/
example : sepStart [',', 'x'] ∧ sepStart [] := ⟨sepStart_comma _, sepStart_nil⟩
example : parseChars (enc (.obj [("k\"", .arr [.int (-5), .flt 12, .str "1e5", .str "a\\nb", .null, .bool true, .arr [], .obj []])]))
    = some (numeralise (.obj [("k\"", .arr [.int (-5), .flt 12, .str "1e5", .str "a\\nb", .null, .bool true, .arr [], .obj []])])) :=
  chars_roundtrip _ (by decide)

/-- a nested value meeting `noExpr`, with a numeral string, a numeral-looking key, quotes in a key -/
example : noExpr (.obj [("k\"", .arr [.str "12", .str " 12", .int (-5), .flt (-13), .null, .bool true, .arr [], .obj []]),
                        ("12", .str "a\\nb")]) = true := by decide

/-! ## round 6: a static block in an overlay-type position (`return`, `overlays[].overlay`, `create.overlay`)

`_overlay_indexer` takes a written map apart into a key tree and ONE positional value list, and
`_overlay_applier` puts it together again (model: `Koreo/Overlay.lean`, C12's).  For a block whose leaves are
literals (each leaf evaluates to itself — the leaf's own journey through `encode_cel` and celpy is
`chars_roundtrip` above) laid onto a map that holds none of its top-level keys, the result is the base followed
by the block **as written**: for every key text — a key `a.b` beside the chain `a → b` are two places —, every
nesting, every leaf kind (`{}`, `[]`, `""`, `null` …).  Keys need only be distinct within each written map
(`HDO`; a Python dict cannot be otherwise). -/
section static_overlay
open Koreo.Overlay

theorem static_overlay_block_arrives (kvs base : Overlay.Fields) (h : HDO kvs)
    (fresh : ∀ k ∈ JVal.keys kvs, k ∉ JVal.keys base) :
    applier base (indexO (OSpec.ofFields kvs) 0).1 ((indexO (OSpec.ofFields kvs) 0).2.map id) = base ++ kvs := by
  rw [applier_eq_mergeO id _ (ofFields_wf kvs h) base, mapO_id]
  exact mergeO_static kvs h base fresh

/-- the ValueFunction `return` / a first overlay onto nothing: the block itself -/
theorem static_return_arrives (kvs : Overlay.Fields) (h : HDO kvs) :
    applier [] (indexO (OSpec.ofFields kvs) 0).1 ((indexO (OSpec.ofFields kvs) 0).2.map id) = kvs := by
  simpa using static_overlay_block_arrives kvs [] h (by simp [JVal.keys])

/-- non-vacuity: a key that spells the path of the chain beside it, and one level down -/
example : HDO [("a", .obj [("b", .int 1), ("c", .obj [])]), ("a.b", .int 2),
               ("d", .obj [("a", .obj [("b", .str "x")]), ("a.b", .bool true)])] := by
  simp [HDO, HD, JVal.keys]

end static_overlay

end Koreo.C11
