/-
  C19 — FunctionTest verdicts are sound: a case passes iff its assertion really holds.
  Property theorems only.  Model: `Koreo/ExactCompare.lean` (the runner's own comparator) and the
  verdict functions of `Koreo/FunctionTest.lean`; specification `EqMod` and helper lemmas in
  `Koreo/Lemmas/ExactCompare.lean`, `Koreo/Lemmas/FunctionTest.lean`.
  `Koreo/Gen/FtConsts.lean` is regenerated from the source on every run.

  The model is of the code REPAIRED by fixes/F6-runner-typed-set.diff, fixes/F8-strip-annotation.diff
  and fixes/F9-runner-map-directed-type.diff; the unrepaired behaviours are kept as `setMatchLegacy`
  and `stripLegacy`, and the witness theorems below show on the corpus inputs why each clause is
  false without the repair.
-/
import Koreo.Lemmas.FunctionTest
import Koreo.Lemmas.MockApi
import Koreo.Gen.FtConsts

namespace Koreo.C19
open Koreo JVal Koreo.Exact Koreo.FT

/-! ## the model's constants are the ones the source has now -/

theorem extraction_ok : Koreo.Gen.FtConsts.extractionOk = true := by decide

theorem last_applied_matches_source : Koreo.Gen.FtConsts.lastApplied = Exact.lastApplied := by decide

/-- `KOREO_DIRECTIVE_KEYS` is the set the model ignores as keys -/
theorem directive_keys_match_source :
    Koreo.Gen.FtConsts.directiveKeys = [compareAsMap, compareAsSet, compareLastApplied] ∧
    ∀ k, isDirective k = true ↔ k ∈ [compareAsMap, compareAsSet, compareLastApplied] := by
  refine ⟨by decide, fun k => ?_⟩
  simp only [isDirective, directiveKeys, List.contains_eq_mem, List.mem_cons, List.mem_nil_iff, or_false,
    decide_eq_true_eq]
  constructor <;> (rintro (h | h | h) <;> simp [h])

/-- the directives `_validate_dict_match` reads are the two the model dispatches on -/
theorem dict_match_directives_match_source :
    ∀ k ∈ Koreo.Gen.FtConsts.dictMatchDirectives, k = compareAsSet ∨ k = compareAsMap := by decide

theorem key_separator_matches_source : ∀ s ∈ Koreo.Gen.FtConsts.keySeps, s = Exact.keySep := by decide

/-! ## the exact comparator -/

/-- The comparator accepts exactly the actual values that equal the expectation modulo the compare
    directives written in the expectation — nothing missing, nothing unexpected, bool ≠ number,
    set-directed lists as sets of typed scalars, map-directed lists as keyed collections. -/
theorem exact_match_iff (t a : JVal) (h : DirectivesWF t) : exactMatch t a = true ↔ EqMod t a :=
  exactMatch_iff_eqMod t a h

/-- without directives `EqMod` is plain typed equality of maps: same keys, equal values -/
theorem eqmod_plain_maps (t a : List (String × JVal)) (hn : noDirO t = true) :
    EqMod (.obj t) (.obj a) ↔
      (∀ k, isDirective k = false → ((lookup k t).isSome ↔ (lookup k a).isSome)) ∧
      (∀ k v w, lookup k t = some v → lookup k a = some w → EqMod v w) :=
  eqmod_obj_noDir hn

/-- a missing key fails -/
theorem missing_key_fails (t a : List (String × JVal)) (k : String) (v : JVal)
    (h : DirectivesWF (.obj t)) (hd : isDirective k = false)
    (ht : lookup k t = some v) (ha : lookup k a = none) : exactMatch (.obj t) (.obj a) = false := by
  cases hm : exactMatch (.obj t) (.obj a) with
  | false => rfl
  | true =>
    have e := (exact_match_iff _ _ h).mp hm
    cases e with
    | scalar h' _ => simp [isScalar] at h'
    | obj h1 _ _ _ _ => have := (h1 k hd).mp (by rw [ht]; rfl); rw [ha] at this; cases this

/-- an unexpected key fails -/
theorem unexpected_key_fails (t a : List (String × JVal)) (k : String) (w : JVal)
    (h : DirectivesWF (.obj t)) (hd : isDirective k = false)
    (ht : lookup k t = none) (ha : lookup k a = some w) : exactMatch (.obj t) (.obj a) = false := by
  cases hm : exactMatch (.obj t) (.obj a) with
  | false => rfl
  | true =>
    have e := (exact_match_iff _ _ h).mp hm
    cases e with
    | scalar h' _ => simp [isScalar] at h'
    | obj h1 _ _ _ _ => have := (h1 k hd).mpr (by rw [ha]; rfl); rw [ht] at this; cases this

/-- bool/number strictness at a leaf, numbers by value -/
theorem leaf_strictness :
    exactMatch (.int 1) (.bool true) = false ∧ exactMatch (.bool false) (.int 0) = false ∧
    exactMatch (.bool true) (.flt 8) = false ∧ exactMatch (.int 1) (.flt 8) = true ∧
    exactMatch (.int 1) (.str "1") = false ∧ exactMatch .null (.bool false) = false := by decide

/-- numeric leaves are compared EXACTLY — no tolerance: two numbers match iff they are the same rational
    (floats are eighths in the model; an int `n` is `8n` eighths) -/
theorem number_leaves_exact (a b : Int) :
    (exactMatch (.flt a) (.flt b) = true ↔ a = b) ∧ (exactMatch (.int a) (.int b) = true ↔ a = b) ∧
    (exactMatch (.int a) (.flt b) = true ↔ a * 8 = b) ∧ (exactMatch (.flt a) (.int b) = true ↔ a = b * 8) := by
  refine ⟨?_, ?_, ?_, ?_⟩ <;> rw [exactMatch_scalar _ _ rfl] <;> simp [scalarEq]

/-- … in particular neighbours that are relatively close (1 part in 10¹⁰) differ:
    10737418240.0 vs 10737418241.0, and the int 2⁴⁰ vs the float 2⁴⁰ + 1/8 -/
theorem close_numbers_differ :
    exactMatch (.flt 85899345920) (.flt 85899345928) = false ∧
    exactMatch (.int 1099511627776) (.flt 8796093022209) = false ∧
    exactMatch (.int 1099511627776) (.flt 8796093022208) = true := by decide

/-- the directives are part of the expectation on EVERY run: the same expectation without them gives
    another verdict, so a judge that consumes them while judging is wrong from the second run on
    (the runs themselves are values in this model; that a run leaves the prepared assertions
    untouched is checked on the implementation by re-running prepared FunctionTests) -/
theorem directives_needed_on_every_run :
    let t := JVal.obj [(compareAsSet, .arr [.str "tags"]), ("tags", .arr [.str "b", .str "a"])]
    let a := JVal.obj [("tags", .arr [.str "a", .str "b"])]
    exactMatch t a = true ∧ exactMatch (strip t) a = false := by decide

/-- F6 (corpus/C19/set-bool-number.json).  Full statement for the UNREPAIRED set comparison:
      `∀ ts as, setMatchLegacy ts as = true ↔ SetEq ts as`
    It is false: Python set equality conflates `True`/`1`.  The repaired comparison decides `SetEq`. -/
theorem set_match_iff (ts as : List JVal) : setMatch ts as = true ↔ SetEq ts as := setMatch_iff ts as

theorem legacy_set_conflates_bool_number :
    setMatchLegacy [.int 1, .int 2] [.bool true, .int 2] = true ∧
    ¬ SetEq [.int 1, .int 2] [.bool true, .int 2] ∧
    setMatch [.int 1, .int 2] [.bool true, .int 2] = false := by
  refine ⟨by decide, ?_, by decide⟩
  rw [← setMatch_iff]; decide

/-! ## the four verdicts -/

/-- expectReturn passes iff the Function returned Ok with a value equal to the expected one -/
theorem return_pass_iff (e : JVal) (r : FnResult) (h : DirectivesWF e) :
    verdict (.ret e) r = true ↔ ∃ v, r.out = .ok v ∧ EqMod e v := by
  simp only [verdict, returnVerdict]
  cases hr : r.out with
  | ok v => simp [exact_match_iff e v h]
  | _ => simp

/-- expectResource passes iff a request reached the mock, the outcome is a Retry, and the object the
    mock holds afterwards equals the expected one exactly (both without the last-applied annotation
    and without an annotations map that is empty). -/
theorem resource_pass_iff (e : JVal) (r : FnResult) (h : DirectivesWF e) :
    verdict (.resource e) r = true ↔
      (∃ d m, r.out = .retry d m) ∧
      ∃ m, r.eff.materialized = some m ∧ EqMod (stripLastApplied e) (stripLastApplied m) := by
  have h := wf_stripLastApplied e h
  simp only [verdict, resourceVerdict]
  cases hm : r.eff.materialized with
  | none => simp
  | some m =>
    cases hr : r.out with
    | retry d msg => simp [exact_match_iff _ _ h]
    | _ => simp

/-- … and with an expectation that names at least one ordinary key, a create or patch was attempted -/
theorem resource_pass_requires_write (e : List (String × JVal)) (r : FnResult) (k : String) (v : JVal)
    (h : DirectivesWF (.obj e))
    (hk : isDirective k = false) (hv : ∃ e', stripLastApplied (.obj e) = .obj e' ∧ lookup k e' = some v)
    (hp : verdict (.resource (.obj e)) r = true) : ∃ m, r.eff = .wrote m := by
  obtain ⟨_, m, hm, em⟩ := (resource_pass_iff _ r h).mp hp
  cases he : r.eff with
  | wrote m' => exact ⟨m', rfl⟩
  | none => rw [he] at hm; cases hm
  | deleted =>
    rw [he] at hm
    simp only [Effect.materialized, Option.some.injEq] at hm
    subst hm
    obtain ⟨e', he', hl⟩ := hv
    rw [he'] at em
    have : stripLastApplied (.obj []) = .obj [] := rfl
    rw [this] at em
    cases em with
    | scalar h' _ => simp [isScalar] at h'
    | obj h1 _ _ _ _ => have := (h1 k hk).mp (by rw [hl]; rfl); simp [lookup] at this

/-- expectDelete passes iff a delete was (or was not) issued as stated -/
theorem delete_pass_iff (b : Bool) (r : FnResult) :
    verdict (.delete b) r = true ↔ (r.eff = .deleted ↔ b = true) := by
  simp only [verdict, deleteVerdict]
  cases r.eff <;> cases b <;> simp [Effect.deleteCalled]

/-- class of an outcome / of an expected outcome -/
def outCls : Out → Nat
  | .ok _ => 0 | .depSkip _ => 1 | .skip _ => 2 | .retry _ _ => 3 | .permFail _ => 4
def expCls : Expect → Nat
  | .ok => 0 | .depSkip _ => 1 | .skip _ => 2 | .retry _ _ => 3 | .permFail _ => 4
def outMsg : Out → String
  | .ok _ => "" | .depSkip m => m.getD "" | .skip m => m.getD "" | .retry _ m => m.getD "" | .permFail m => m.getD ""
def expMsg : Expect → String
  | .ok => "" | .depSkip m => m | .skip m => m | .retry m _ => m | .permFail m => m

/-- the expected message occurs in the actual one, case-insensitively -/
def MsgContained (e : Expect) (o : Out) : Prop := lowerChars (expMsg e) <:+: lowerChars (outMsg o)

/-- a Retry expectation with a non-zero delay needs exactly that delay -/
def DelayOk : Expect → Out → Prop
  | .retry _ ed, .retry ad _ => ed = 0 ∨ ed = ad
  | _, _ => True

theorem msgOk_iff (e : String) (a : Option String) :
    msgOk e a = true ↔ lowerChars e <:+: lowerChars (a.getD "") := by
  have hnil : ∀ s : String, lowerChars s = [] ↔ s = "" := by
    intro s
    simp only [lowerChars, List.map_eq_nil_iff]
    constructor
    · intro h; exact String.ext (by simpa using h)
    · intro h; subst h; rfl
  simp only [msgOk, Bool.or_eq_true, String.isEmpty_iff]
  constructor
  · rintro (h | h)
    · subst h; exact List.nil_infix
    · cases a with
      | none => cases h
      | some m =>
        simp only [Bool.and_eq_true, containsSub_iff] at h
        exact h.2
  · intro h
    by_cases he : e = ""
    · exact Or.inl he
    · right
      cases a with
      | none =>
        simp only [Option.getD_none] at h
        have : lowerChars "" = [] := rfl
        rw [this, List.infix_nil] at h
        exact absurd ((hnil e).mp h) he
      | some m =>
        simp only [Option.getD_some] at h
        simp only [Bool.and_eq_true, containsSub_iff, Bool.not_eq_true', String.isEmpty_eq_false_iff]
        refine ⟨?_, h⟩
        intro hm; subst hm
        have : lowerChars "" = [] := rfl
        rw [this, List.infix_nil] at h
        exact he ((hnil e).mp h)

/-- expectOutcome passes iff the outcome has the same class, contains the message
    (case-insensitively) and, for a Retry with a non-zero expected delay, has that delay -/
theorem outcome_pass_iff (e : Expect) (r : FnResult) :
    verdict (.outcome e) r = true ↔
      expCls e = outCls r.out ∧ MsgContained e r.out ∧ DelayOk e r.out := by
  simp only [verdict]
  cases e <;> cases r.out <;>
    simp [outcomeVerdict, expCls, outCls, MsgContained, DelayOk, expMsg, outMsg, msgOk_iff]

/-! ## truth passes -/

/-- the expectation copied from the actual value is accepted -/
theorem truth_passes (a : JVal) (hw : DirectivesWF a) (hn : noDir a = true) : exactMatch a a = true :=
  (exact_match_iff a a hw).mpr (eqmod_refl a hn)

theorem return_truth_passes (v : JVal) (hw : DirectivesWF v) (hn : noDir v = true) (eff : Effect) :
    verdict (.ret v) ⟨.ok v, eff⟩ = true := by
  simpa [verdict, returnVerdict] using truth_passes v hw hn

/-- any expectation with the normal form of the materialised object passes — the object itself,
    or that object with an empty `annotations` map written out -/
theorem resource_truth_passes (e m : JVal) (d : Int) (msg : Option String)
    (he : stripLastApplied e = stripLastApplied m)
    (hw : DirectivesWF (stripLastApplied m)) (hn : noDir (stripLastApplied m) = true) :
    verdict (.resource e) ⟨.retry d msg, .wrote m⟩ = true := by
  simp only [verdict, resourceVerdict, Effect.materialized, he]
  exact truth_passes _ hw hn

theorem delete_truth_passes (r : FnResult) : verdict (.delete r.eff.deleteCalled) r = true := by
  simp [verdict, deleteVerdict]

/-- the expectation that restates the outcome (class, whole message, delay) passes -/
def expectOf : Out → Expect
  | .ok _ => .ok
  | .depSkip m => .depSkip (m.getD "")
  | .skip m => .skip (m.getD "")
  | .retry d m => .retry (m.getD "") d
  | .permFail m => .permFail (m.getD "")

theorem outcome_truth_passes (r : FnResult) : verdict (.outcome (expectOf r.out)) r = true := by
  rw [outcome_pass_iff]
  cases r.out <;> simp [expectOf, expCls, outCls, MsgContained, DelayOk, expMsg, outMsg]

/-! ## any single deviation fails -/

/-- comparator level: a changed or retyped leaf, a dropped key, an added key, two swapped list
    elements — at any depth — is never accepted (`a` the actual value, `a'` the deviating expectation) -/
theorem single_deviation_fails (a a' : JVal) (d : Dev a a')
    (hw : DirectivesWF a) (hw' : DirectivesWF a') (hn : noDir a = true) (hn' : noDir a' = true) :
    exactMatch a' a = false := by
  cases hm : exactMatch a' a with
  | false => rfl
  | true => exact absurd ((exact_match_iff a' a hw').mp hm) (dev_not_eqmod d hw hn hn')

theorem other_class_fails (e : Expect) (r : FnResult) (h : expCls e ≠ outCls r.out) :
    verdict (.outcome e) r = false := by
  cases hv : verdict (.outcome e) r with
  | false => rfl
  | true => exact absurd ((outcome_pass_iff e r).mp hv).1 h

theorem other_delay_fails (m : String) (ed ad : Int) (am : Option String) (eff : Effect)
    (h0 : ed ≠ 0) (h : ed ≠ ad) : verdict (.outcome (.retry m ed)) ⟨.retry ad am, eff⟩ = false := by
  cases hv : verdict (.outcome (.retry m ed)) ⟨.retry ad am, eff⟩ with
  | false => rfl
  | true =>
    have := ((outcome_pass_iff _ _).mp hv).2.2
    simp only [DelayOk] at this
    rcases this with h' | h'
    · exact absurd h' h0
    · exact absurd h' h

theorem non_contained_message_fails (e : Expect) (r : FnResult) (h : ¬ MsgContained e r.out) :
    verdict (.outcome e) r = false := by
  cases hv : verdict (.outcome e) r with
  | false => rfl
  | true => exact absurd ((outcome_pass_iff e r).mp hv).2.1 h

theorem flipped_delete_fails (r : FnResult) : verdict (.delete (!r.eff.deleteCalled)) r = false := by
  cases h : r.eff.deleteCalled <;> simp [verdict, deleteVerdict, h]

theorem resource_without_request_fails (e : JVal) (o : Out) : verdict (.resource e) ⟨o, .none⟩ = false := by
  simp [verdict, resourceVerdict, Effect.materialized]

theorem resource_without_retry_fails (e : JVal) (eff : Effect) (o : Out) (h : outCls o ≠ 3) :
    verdict (.resource e) ⟨o, eff⟩ = false := by
  simp only [verdict, resourceVerdict]
  cases eff.materialized <;> cases o <;> simp_all [outCls]

theorem return_on_non_ok_fails (e : JVal) (r : FnResult) (h : outCls r.out ≠ 0) :
    verdict (.ret e) r = false := by
  simp only [verdict, returnVerdict]
  cases hr : r.out <;> simp_all [outCls]

/-! ## the verdict over the conversation the Function had with the per-case mock (`Koreo/MockApi.lean`)

`Effect` above is what the case's `MockApi` holds after the reconcile.  `Mock.effectOf cur cs` says what
that is for a conversation `cs` (GET / write / DELETE) with a mock created over the case's resource
`cur`: the theorems below tie the verdict to the REQUESTS, so that "the object sent" has one meaning —
the body, for a patch laid over the case's own resource with every top-level key the body names
replaced.  Nothing below the top level of the live object (its `metadata.uid`, foreign labels,
finalizers, …) is part of it unless the body says so. -/

/-- expectResource over a conversation: the outcome is a Retry and the last mutating request was
    a DELETE and the (normalised) expectation equals `{}`, or a write and the expectation equals the
    body over the case's resource (`Mock.merged`), both normalised -/
theorem conversation_resource_pass_iff (e : JVal) (h : DirectivesWF e) (cur : Option JVal)
    (cs : List Mock.Call) (out : Out) :
    verdict (.resource e) ⟨out, Mock.effectOf cur cs⟩ = true ↔
      (∃ d m, out = .retry d m) ∧
      ((Mock.lastMutation cs = some .delete ∧ EqMod (stripLastApplied e) (.obj [])) ∨
       ∃ body, Mock.lastMutation cs = some (.write body) ∧
         EqMod (stripLastApplied e) (stripLastApplied (Mock.merged cur body))) := by
  rw [resource_pass_iff e _ h]
  have h0 : stripLastApplied (.obj []) = .obj [] := rfl
  cases hl : Mock.lastMutation cs with
  | none => simp [Mock.effectOf, hl, Effect.materialized]
  | some c =>
    cases c with
    | get => simp [Mock.effectOf, hl, Effect.materialized]
    | delete => simp [Mock.effectOf, hl, Effect.materialized, h0]
    | write b => simp [Mock.effectOf, hl, Effect.materialized]

/-- a conversation without a mutating request never satisfies an expectResource, whatever the case's
    resource holds (an existing object is not "a create or patch was attempted") -/
theorem conversation_of_reads_fails (e : JVal) (cur : Option JVal) (cs : List Mock.Call) (out : Out)
    (hr : cs.any Mock.Call.isMutation = false) :
    verdict (.resource e) ⟨out, Mock.effectOf cur cs⟩ = false := by
  have hl := (Mock.lastMutation_none_iff cs).mpr hr
  simp [verdict, resourceVerdict, Mock.effectOf, hl, Effect.materialized]

/-- PATCH (the case has a non-empty resource `b`; the body is a JSON object with unique keys — a Python
    dict): in the object the assertion is judged against, a key the body names has the BODY's value,
    whole; a key the body does not name has the live object's value -/
theorem patch_effect_lookup (b o : List (String × JVal)) (cs : List Mock.Call)
    (hb : b.isEmpty = false) (hnd : (keys o).Nodup)
    (hl : Mock.lastMutation cs = some (.write (.obj o))) :
    ∃ l, Mock.effectOf (some (.obj b)) cs = .wrote (.obj l) ∧
      (∀ k v, lookup k o = some v → lookup k l = some v) ∧
      (∀ k, lookup k o = none → lookup k l = lookup k b) := by
  refine ⟨Mock.mergeTop b o, ?_, ?_, ?_⟩
  · simp [Mock.effectOf, hl, Mock.merged, truthyO, JVal.truthy, hb]
  · intro k v hk
    exact Mock.lookup_mergeTop_in k v o b hnd hk
  · intro k hk
    exact Mock.lookup_mergeTop_notin k o b hk

/-- … in particular `metadata` is the map the Function sent: no member of the live object's metadata
    (uid, resourceVersion, labels or finalizers put there by someone else) is carried into the object
    that expectResource is compared with -/
theorem patch_metadata_is_the_bodys (b o : List (String × JVal)) (md : JVal) (cs : List Mock.Call)
    (hb : b.isEmpty = false) (hnd : (keys o).Nodup)
    (hl : Mock.lastMutation cs = some (.write (.obj o))) (hm : lookup "metadata" o = some md) :
    ∃ l, Mock.effectOf (some (.obj b)) cs = .wrote (.obj l) ∧ lookup "metadata" l = some md := by
  obtain ⟨l, h1, h2, _⟩ := patch_effect_lookup b o cs hb hnd hl
  exact ⟨l, h1, h2 _ _ hm⟩

/-- CREATE (no resource, or `{}`): the object judged is the body itself -/
theorem create_effect_is_body (cur : Option JVal) (body : JVal) (cs : List Mock.Call)
    (hc : truthyO cur = false) (hl : Mock.lastMutation cs = some (.write body)) :
    Mock.effectOf cur cs = .wrote body := by
  simp [Mock.effectOf, hl, Mock.merged, hc]

/-- a live object with foreign metadata (uid, an injected label), a status, and a drifted spec … -/
def liveObject : JVal :=
  .obj [("apiVersion", .str "v1"), ("kind", .str "K"),
        ("metadata", .obj [("name", .str "n"), ("namespace", .str "ns"), ("uid", .str "5c1f"),
          ("labels", .obj [("app", .str "a"), ("injected-by", .str "mesh")]),
          ("annotations", .obj [(Exact.lastApplied, .str "{…}")])]),
        ("spec", .obj [("replicas", .int 1)]), ("status", .obj [("ready", .bool true)])]
/-- … the patch the Function sends for it … -/
def patchBody : JVal :=
  .obj [("apiVersion", .str "v1"), ("kind", .str "K"),
        ("metadata", .obj [("name", .str "n"), ("namespace", .str "ns"),
          ("labels", .obj [("app", .str "a")]),
          ("annotations", .obj [(Exact.lastApplied, .str "{…}")])]),
        ("spec", .obj [("replicas", .int 3)])]
/-- … and the truthful expectation with a hole for the metadata and the status -/
def patchExpectation (md : List (String × JVal)) (rest : List (String × JVal)) : JVal :=
  .obj ([("apiVersion", .str "v1"), ("kind", .str "K"), ("metadata", .obj md),
         ("spec", .obj [("replicas", .int 3)])] ++ rest)

/-- the assertion equal to (body over the live object, top-level replace) passes — with the untouched
    `status` of the live object, which the body does not name; listing a metadata member that was never
    sent (the uid, the injected label, both), or leaving the status out, fails -/
theorem patch_verdicts_on_foreign_metadata :
    let conv := [Mock.Call.get, Mock.Call.write patchBody]
    let r : FnResult := ⟨.retry 30 none, Mock.effectOf (some liveObject) conv⟩
    let sentMd := [("name", JVal.str "n"), ("namespace", .str "ns"), ("labels", .obj [("app", .str "a")])]
    let status := [("status", JVal.obj [("ready", .bool true)])]
    verdict (.resource (patchExpectation sentMd status)) r = true ∧
    verdict (.resource (patchExpectation (sentMd ++ [("uid", .str "5c1f")]) status)) r = false ∧
    verdict (.resource (patchExpectation [("name", .str "n"), ("namespace", .str "ns"),
      ("labels", .obj [("app", .str "a"), ("injected-by", .str "mesh")])] status)) r = false ∧
    verdict (.resource (patchExpectation [("name", .str "n"), ("namespace", .str "ns"), ("uid", .str "5c1f"),
      ("labels", .obj [("app", .str "a"), ("injected-by", .str "mesh")])] status)) r = false ∧
    verdict (.resource (patchExpectation sentMd [])) r = false := by decide

/-! ## F8 and F9 witnesses (corpus/C19) -/

/-- the target's `metadata.annotations: {}` and the object the Function sent for it -/
def f8Expected : JVal :=
  .obj [("apiVersion", .str "v1"), ("kind", .str "K"),
        ("metadata", .obj [("name", .str "n"), ("annotations", .obj [])])]
def f8Sent : JVal :=
  .obj [("apiVersion", .str "v1"), ("kind", .str "K"),
        ("metadata", .obj [("name", .str "n"),
          ("annotations", .obj [(Exact.lastApplied, .str "{…}")])])]

/-- F8.  Full statement for the UNREPAIRED verdict:
      `resource_truth_passes` with `stripLegacy` on the materialised side only.
    It is false on `f8Expected`/`f8Sent`: the unrepaired strip deletes the whole one-entry
    `annotations` map, so the truthful expectation (which has `annotations: {}`) is rejected.
    The repaired verdict accepts it, and also the expectation without the empty map. -/
theorem f8_legacy_rejects_truth :
    (stripLegacy f8Sent).map (exactMatch f8Expected) = some false := by decide

theorem f8_repaired_accepts_truth :
    verdict (.resource f8Expected) ⟨.retry 30 none, .wrote f8Sent⟩ = true ∧
    verdict (.resource (.obj [("apiVersion", .str "v1"), ("kind", .str "K"),
        ("metadata", .obj [("name", .str "n")])])) ⟨.retry 30 none, .wrote f8Sent⟩ = true := by decide

/-- F9 (runner): under a map-directed key the repaired comparator compares values that are not lists
    of objects plainly, so `[]` no longer equals `""`/`{}` and a scalar or a list of scalars on the
    actual side is a mismatch, not a crash. -/
theorem f9_map_directed_non_lists :
    let t := JVal.obj [(compareAsMap, .obj [("l", .arr [.str "name"])]), ("l", .arr [])]
    exactMatch t (.obj [("l", .str "")]) = false ∧ exactMatch t (.obj [("l", .obj [])]) = false ∧
    exactMatch t (.obj [("l", .arr [])]) = true ∧ exactMatch t (.obj [("l", .int 7)]) = false ∧
    exactMatch t (.obj [("l", .arr [.null])]) = false := by decide

/-! ## the hypotheses are satisfiable by non-trivial values -/

def exExpected : JVal :=
  .obj [(compareAsSet, .arr [.str "tags"]),
        (compareAsMap, .obj [("ports", .arr [.str "name"])]),
        ("tags", .arr [.str "a", .int 1, .bool true]),
        ("ports", .arr [.obj [("name", .str "http"), ("port", .int 80)],
                        .obj [("name", .str "dns"), ("port", .int 53)]]),
        ("spec", .obj [("replicas", .int 3), ("paused", .bool false)])]

def exActual : JVal :=
  .obj [("spec", .obj [("paused", .bool false), ("replicas", .flt 24)]),
        ("ports", .arr [.obj [("name", .str "dns"), ("port", .int 53)],
                        .obj [("name", .str "http"), ("port", .int 80)]]),
        ("tags", .arr [.bool true, .int 1, .str "a", .str "a"])]

example : DirectivesWF exExpected := by decide
example : exactMatch exExpected exActual = true := by decide
example : EqMod exExpected exActual := (exact_match_iff _ _ (by decide)).mp (by decide)
/-- retyping one set member (`1 → true` twice) is seen -/
example : exactMatch exExpected (.obj [("spec", .obj [("paused", .bool false), ("replicas", .int 3)]),
    ("ports", .arr [.obj [("name", .str "dns"), ("port", .int 53)], .obj [("name", .str "http"), ("port", .int 80)]]),
    ("tags", .arr [.bool true, .str "a"])]) = false := by decide
example : DirectivesWF f8Expected ∧ DirectivesWF (stripLastApplied f8Sent) ∧
    noDir (stripLastApplied f8Sent) = true := by decide
example : Dev (.obj [("a", .arr [.int 1, .int 2])]) (.obj [("a", .arr [.int 2, .int 1])]) :=
  Dev.inKey (o := [("a", .arr [.int 1, .int 2])]) (k := "a") rfl
    (Dev.swap (xs := []) (zs := []) (by rw [← exact_match_iff _ _ (by decide)]; decide))
example : verdict (.outcome (.retry "creating" 0)) ⟨.retry 30 (some "Creating K:ns:n."), .none⟩ = true := by decide
example : verdict (.outcome (.retry "Creating" 31)) ⟨.retry 30 (some "Creating K:ns:n."), .none⟩ = false := by decide

end Koreo.C19
