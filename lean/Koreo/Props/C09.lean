/-
  C09 — Workflow reconcile contains faults, stays truthful, and recovers.   (partial: see the end)
  Property theorems only; helper lemmas are in `Koreo/Lemmas/WorkflowFaults.lean`.
  Model: `Koreo/WorkflowFaults.lean` (REPAIRED code, fixes/F1-condition-for-failed-step.diff) on top of
  `Koreo/Workflow.lean` (C01/C02).  `Koreo/Gen/WorkflowFaultConsts.lean` is regenerated from the source on every run.

  Clause by clause ("for EVERY outcome `tags` of the task group with `Possible …`": every fault point and kind,
  every schedule, any number of steps and forEach items, every CEL oracle `eval` and every environment `frun`):

    the affected step is reported as Retry or PermFail      affected_step_is_error, unfinished_step_is_retry,
                                                            faulty_answer_never_completes
    steps that need it are not run                          dependents_not_run
    the overall outcome is not Ok                           overall_not_ok, affected_overall_not_ok
    no condition claims readiness for a failed step         no_ready_condition_for_unsuccessful, conditions_truthful
    a pass returns normally                                 result_total
    (the relation is inhabited / extends C01-C02)           timeout_outcome_possible, fault_free_is_reconcile
    (one Function) an API fault is answered Retry/PermFail/exception/hang, never Ok, and the cluster is where it
      was or where the fault-free evaluation takes it       rf_fault_contained, rf_fault_never_ok, rf_state_between
    once the faults stop, further passes converge           rf_recovers (per resource, ≤ 2 passes),
                                                            workflow_recovers (DAG of reconcilers, ≤ 2·n passes),
                                                            workflow_recovers_rf (… of ResourceFunctions),
                                                            workflow_recovers_nested / workflow_recovers_built (forEach,
                                                            refSwitch, sub-workflows to any depth, every update
                                                            policy: Σᵢ (kᵢ + 1) passes), step_resource_function,
                                                            step_foreach_or_switch, step_subworkflow;
                                                            koreo_workflow_recovers / koreo_nested_workflow_recovers:
                                                            the same for `Workflow.lean`'s own workflows (gate, select,
                                                            forEach, sub-workflows to depth n), koreo_rf_leaf
-/
import Koreo.Lemmas.WorkflowFaults
import Koreo.Lemmas.WorkflowRecovery
import Koreo.Gen.WorkflowFaultConsts

namespace Koreo.C09
open Koreo Koreo.Workflow Koreo.WorkflowFaults

/-! ## the model's constants and branch table are the ones the source has now -/

/-- the translator found both task groups, their post-loops and the error handling of the ResourceFunction -/
theorem extraction_ok : Koreo.Gen.WorkflowFaultConsts.extractionOk = true := by decide

/-- both task groups sit in a `try` whose bare `except:` only passes and run under `asyncio.timeout(STEP_TIMEOUT)`;
    the `cancelled` branch builds Retry(TIMEOUT_RETRY_DELAY), the `exception` branch
    Retry(UNKNOWN_ERROR_RETRY_DELAY) — in `_reconcile_steps` and in `_for_each_reconciler` — and those are the
    model's `classify` -/
theorem fault_branches_match_source :
    Koreo.Gen.WorkflowFaultConsts.stepsContained = true ∧
    Koreo.Gen.WorkflowFaultConsts.itemsContained = true ∧
    Koreo.Gen.WorkflowFaultConsts.stepsTimeoutIsStepTimeout = true ∧
    Koreo.Gen.WorkflowFaultConsts.itemsTimeoutIsStepTimeout = true ∧
    Koreo.Gen.WorkflowFaultConsts.stepsCancelledClass = "Retry" ∧
    Koreo.Gen.WorkflowFaultConsts.stepsExceptionClass = "Retry" ∧
    Koreo.Gen.WorkflowFaultConsts.itemsCancelledClass = "Retry" ∧
    Koreo.Gen.WorkflowFaultConsts.itemsExceptionClass = "Retry" ∧
    (∀ o, classify .cancelled o = ⟨.retry Koreo.Gen.WorkflowFaultConsts.stepsCancelledDelay, .null⟩) ∧
    (∀ o, classify .raised o = ⟨.retry Koreo.Gen.WorkflowFaultConsts.stepsExceptionDelay, .null⟩) ∧
    (∀ o, classify .cancelled o = ⟨.retry Koreo.Gen.WorkflowFaultConsts.itemsCancelledDelay, .null⟩) ∧
    (∀ o, classify .raised o = ⟨.retry Koreo.Gen.WorkflowFaultConsts.itemsExceptionDelay, .null⟩) ∧
    Koreo.Gen.WorkflowFaultConsts.stepsCancelledDelay = Koreo.Gen.WorkflowFaultConsts.timeoutRetryDelay ∧
    Koreo.Gen.WorkflowFaultConsts.stepsExceptionDelay = Koreo.Gen.WorkflowFaultConsts.unknownErrorRetryDelay := by
  refine ⟨by decide, by decide, by decide, by decide, by decide, by decide, by decide, by decide,
    fun _ => ?_, fun _ => ?_, fun _ => ?_, fun _ => ?_, by decide, by decide⟩ <;> rfl

/-- **the repair**: the condition of a timed-out / crashed step is built from the Retry outcome itself (type
    "Ready"), which is what `condsOfStep` models.  False on the unrepaired tree (defect F1: the `StepResult`
    tuple is handed over and `_condition_helper` falls into its "unwrapped Ok" arm). -/
theorem fault_conditions_from_outcome :
    Koreo.Gen.WorkflowFaultConsts.stepsCancelledCondFromOutcome = true ∧
    Koreo.Gen.WorkflowFaultConsts.stepsExceptionCondFromOutcome = true ∧
    Koreo.Gen.WorkflowFaultConsts.stepsCancelledCondType = "Ready" ∧
    Koreo.Gen.WorkflowFaultConsts.stepsExceptionCondType = "Ready" := by decide

/-- one row of the probed table agrees with the model: answer, cluster situation afterwards, API requests issued -/
def rfRowOk (r : RfCfg × ObjState × Option (Nat × FaultKind) × RAns ObjState × ObjState × List Method) : Bool :=
  decide ((rfPass objMach r.1 r.2.2.1 r.2.1).ans = r.2.2.2.1 ∧ (rfPass objMach r.1 r.2.2.1 r.2.1).st = r.2.2.2.2.1 ∧
    (rfPass objMach r.1 r.2.2.1 r.2.1).calls = r.2.2.2.2.2)

set_option maxRecDepth 100000 in
/-- **`rfPass` is what `reconcile_resource_function` does**: the table the translator obtains by running the REAL
    function against the in-memory API — every combination of flags (patch / never / recreate / readonly / create
    disabled / deleteIfExists) × situation (absent / matching / differing) × fault (none; GET or mutation failing with
    raise-before, raise-after, 404, 409, 500, 403, 429, no response, hang) — agrees with the model row by row: answer
    (Ok / Retry with its delay / PermFail / escaping exception / hang), situation afterwards, API requests.  Probed, not
    read off the syntax: restructuring the code leaves the table as it is; changing how any error is answered breaks
    this theorem. -/
theorem rf_table_matches_source : Koreo.Gen.WorkflowFaultConsts.rfTable.all rfRowOk = true := by decide

/-! ## containment and truthfulness, for every possible outcome of the task group -/

section group
variable {eval : EvalFn} {frun : FRun} {trig : JVal} {interrupted : Bool} {wf : Workflow}
  {tags : List (Label × StepTags)}

/-- **the affected step is reported as Retry or PermFail**: whenever the Logic of `s` (or one iteration of it) was
    evaluated and answered with an exception, a hang or an error outcome, the stored outcome of `s` is an error —
    whether its task completed, raised or was cancelled -/
theorem affected_step_is_error (hwf : wf.WF = true) (hp : Possible eval frun trig interrupted wf tags)
    {s : Step} (hs : s ∈ wf.steps)
    (haff : Affected eval frun trig (depsDone (entriesF eval frun trig interrupted wf tags) s.deps) s) :
    ∃ t o, lookupL s.label (entriesF eval frun trig interrupted wf tags) = some (t, o) ∧
      ((∃ d, o.res = .retry d) ∨ o.res = .permFail) := by
  obtain ⟨tg, -, hok, hl⟩ := possible_step hwf hp hs
  exact ⟨_, _, hl, isErr_cases (evalStep_affected_err haff hok)⟩

/-- a task that timed out or crashed is stored as Retry(TIMEOUT_RETRY_DELAY) / Retry(UNKNOWN_ERROR_RETRY_DELAY) -/
theorem unfinished_step_is_retry (hwf : wf.WF = true) (hp : Possible eval frun trig interrupted wf tags)
    {s : Step} (hs : s ∈ wf.steps) {t : Tag} {o : StepOut}
    (hl : lookupL s.label (entriesF eval frun trig interrupted wf tags) = some (t, o)) (ht : t ≠ .done) :
    o = ⟨.retry timeoutDelay, .null⟩ ∨ o = ⟨.retry errorDelay, .null⟩ := by
  obtain ⟨tg, -, hok, hl'⟩ := possible_step hwf hp hs
  rw [hl'] at hl
  cases hl
  exact evalStep_not_done hok ht

/-- a step whose Logic hangs is never reported as completed (nor as crashed); one whose Logic raises is never
    reported as completed -/
theorem faulty_answer_never_completes (hwf : wf.WF = true) (hp : Possible eval frun trig interrupted wf tags)
    {s : Step} (hs : s ∈ wf.steps) {dr act inputs}
    (hdd : depsDone (entriesF eval frun trig interrupted wf tags) s.deps = some dr)
    (hg : gate eval trig dr s = .single act inputs) {t : Tag} {o : StepOut}
    (hl : lookupL s.label (entriesF eval frun trig interrupted wf tags) = some (t, o)) :
    ((evalLogicF eval frun s.label none act inputs s.logic).1 = .hung → t = .cancelled) ∧
    ((evalLogicF eval frun s.label none act inputs s.logic).1 = .raised → t ≠ .done) := by
  obtain ⟨tg, -, hok, hl'⟩ := possible_step hwf hp hs
  rw [hl'] at hl
  cases hl
  rw [hdd] at hok
  simp only [evalStep, hg, Bool.and_eq_true] at hok
  constructor
  · intro h
    rw [h] at hok
    cases htag : tg.tag <;> simp_all [tagOK]
  · intro h
    rw [h] at hok
    cases htag : tg.tag <;> simp_all [tagOK]

/-- **steps that need it are not run**: if a dependency of `m` did not end as a completed task with an Ok outcome,
    no Function / sub-workflow is invoked on behalf of `m`, and `m` is stored as DepSkip (or, if its own task did
    not survive, as the time-out Retry) -/
theorem dependents_not_run (hwf : wf.WF = true) (hp : Possible eval frun trig interrupted wf tags)
    {m : Step} (hm : m ∈ wf.steps) {d : Label} (hd : d ∈ m.deps)
    (hbad : ∀ v rid, lookupL d (entriesF eval frun trig interrupted wf tags) ≠ some (.done, ⟨.ok v, rid⟩)) :
    m.label ∉ mayRunF eval frun trig interrupted wf tags ∧
    ∃ t o, lookupL m.label (entriesF eval frun trig interrupted wf tags) = some (t, o) ∧
      ((t = .cancelled ∧ o = ⟨.retry timeoutDelay, .null⟩) ∨ (t = .done ∧ o = ⟨.depSkip, .null⟩)) := by
  have hgate : depsDone (entriesF eval frun trig interrupted wf tags) m.deps = none ∨
      ∃ dr, depsDone (entriesF eval frun trig interrupted wf tags) m.deps = some dr ∧ okVals dr = none := by
    cases hdd : depsDone (entriesF eval frun trig interrupted wf tags) m.deps with
    | none => exact Or.inl rfl
    | some dr =>
      refine Or.inr ⟨dr, rfl, ?_⟩
      obtain ⟨o, ho, hmem⟩ := depsDone_some_mem hdd hd
      apply (okVals_none_iff dr).2
      refine ⟨(d, o.res), hmem, ?_⟩
      cases hr : o.res with
      | ok v =>
        exfalso
        apply hbad v o.rid
        rw [ho]
        cases o
        simp_all
      | _ => rfl
  constructor
  · intro hmay
    obtain ⟨s, hs, hsl, tg, -, hrun⟩ := possible_mayRun hwf hp hmay
    have hnd := (wfSteps_labels_nodup (seen := []) (by simpa [Workflow.WF] using hwf)).1
    have : s = m := step_unique hnd hs hm hsl
    subst this
    rw [(evalStep_gated hgate).1] at hrun
    cases hrun
  · obtain ⟨tg, -, hok, hl⟩ := possible_step hwf hp hm
    rcases (evalStep_gated hgate).2 hok with ⟨h1, h2⟩ | ⟨h1, h2⟩
    · exact ⟨_, _, hl, Or.inl ⟨h1, h2⟩⟩
    · exact ⟨_, _, hl, Or.inr ⟨h1, h2⟩⟩

/-- **the overall outcome is not Ok** as soon as one listed step is stored as an error: it is Retry or PermFail,
    and the final `Ready` condition does not say "Ready" -/
theorem overall_not_ok {s : Step} (hs : s ∈ wf.steps) {pre : List (Label × Entry)} {t : Tag} {o : StepOut}
    (hl : lookupL s.label pre = some (t, o)) (he : o.res.isErr = true) :
    ((∃ d, (collectF eval wf pre).overall = .retry d) ∨ (collectF eval wf pre).overall = .permFail) ∧
    (collectF eval wf pre).conditions.getLast? =
      some { type := "Ready", reason := reason (collectF eval wf pre).overall } ∧
    reason (collectF eval wf pre).overall ≠ "Ready" := by
  have hres : lookupL s.label (pre.map fun p => (p.1, p.2.2)) = some o := by
    rw [lookupL_map_snd (fun e : Entry => e.2) s.label pre, hl]; rfl
  have herr : (collectF eval wf pre).overall.isErr = true :=
    overallOf_err ⟨o, mem_listed_of_lookup hs hres, he⟩
  refine ⟨isErr_cases herr, by simp [collectF], ?_⟩
  apply reason_ne_ready
  cases h : (collectF eval wf pre).overall <;> simp_all [StepRes.isErr, StepRes.isOk]

/-- the first three clauses together: a fault in step `s` makes the whole pass an error -/
theorem affected_overall_not_ok (hwf : wf.WF = true) (hp : Possible eval frun trig interrupted wf tags)
    {s : Step} (hs : s ∈ wf.steps)
    (haff : Affected eval frun trig (depsDone (entriesF eval frun trig interrupted wf tags) s.deps) s) :
    (∃ d, (collectF eval wf (entriesF eval frun trig interrupted wf tags)).overall = .retry d) ∨
    (collectF eval wf (entriesF eval frun trig interrupted wf tags)).overall = .permFail := by
  obtain ⟨t, o, hl, he⟩ := affected_step_is_error hwf hp hs haff
  refine (overall_not_ok hs hl ?_).1
  rcases he with ⟨d, h⟩ | h <;> rw [h] <;> rfl

/-- **no condition claims readiness for a step that did not succeed**: unless the step's task completed with an Ok
    outcome, none of the conditions emitted for it has reason "Ready" -/
theorem no_ready_condition_for_unsuccessful (hwf : wf.WF = true)
    (hp : Possible eval frun trig interrupted wf tags) {s : Step} (hs : s ∈ wf.steps) {e : Entry}
    (hl : lookupL s.label (entriesF eval frun trig interrupted wf tags) = some e)
    (hbad : ¬ (e.1 = .done ∧ e.2.res.isOk = true)) :
    ∀ c ∈ condsOfStep s e, c.reason ≠ "Ready" := by
  obtain ⟨t, o⟩ := e
  intro c hc
  have hnot : o.res.isOk = false := by
    by_cases ht : t = .done
    · cases h : o.res.isOk with
      | false => rfl
      | true => exact absurd ⟨ht, h⟩ hbad
    · rcases unfinished_step_is_retry hwf hp hs hl ht with h | h <;> rw [h] <;> rfl
  unfold condsOfStep at hc
  cases t with
  | done =>
    cases hcond : s.cond with
    | none => simp [hcond] at hc
    | some cc => simp [hcond] at hc; rw [hc]; exact reason_ne_ready hnot
  | raised => simp at hc; rw [hc]; exact reason_ne_ready hnot
  | cancelled => simp at hc; rw [hc]; exact reason_ne_ready hnot

/-- every condition of the returned `Result` is one emitted for a listed step from its stored entry, or the final
    `Ready` condition; and the final one says "Ready" only if no listed step is stored as an error -/
theorem conditions_truthful (pre : List (Label × Entry)) :
    (∀ c ∈ (collectF eval wf pre).conditions,
      (∃ s ∈ wf.steps, ∃ e, lookupL s.label pre = some e ∧ c ∈ condsOfStep s e) ∨
      c = { type := "Ready", reason := reason (collectF eval wf pre).overall }) ∧
    (reason (collectF eval wf pre).overall = "Ready" →
      ∀ s ∈ wf.steps, ∀ e, lookupL s.label pre = some e → e.2.res.isErr = false) := by
  constructor
  · intro c hc
    simp only [collectF, List.mem_append, List.mem_singleton] at hc
    rcases hc with hc | hc
    · left
      unfold stepCondsF at hc
      obtain ⟨s, hs, hcs⟩ := List.mem_flatMap.1 hc
      cases hl : lookupL s.label pre with
      | none => simp [hl] at hcs
      | some e => exact ⟨s, hs, e, hl, by simpa [hl] using hcs⟩
    · exact Or.inr hc
  · intro hready s hs e hl
    have hok : (collectF eval wf pre).overall.isOk = true := reason_ready_isOk hready
    have hres : lookupL s.label (pre.map fun p => (p.1, p.2.2)) = some e.2 := by
      rw [lookupL_map_snd (fun e : Entry => e.2) s.label pre, hl]; rfl
    exact overallOf_ok hok _ (mem_listed_of_lookup hs hres)

/-- **a pass returns normally**: every listed step gets an entry (one of the three branches of the post-loop
    applies to every task), the entries are in listed order, an unfinished task is stored as one of the two
    Retries, and what a sub-workflow hands to its parent is an answer — never an exception -/
theorem result_total (hwf : wf.WF = true) (hp : Possible eval frun trig interrupted wf tags) :
    (entriesF eval frun trig interrupted wf tags).map (·.1) = labels wf.steps ∧
    (∀ s ∈ wf.steps, ∃ t o, lookupL s.label (entriesF eval frun trig interrupted wf tags) = some (t, o) ∧
      (t ≠ .done → o = ⟨.retry timeoutDelay, .null⟩ ∨ o = ⟨.retry errorDelay, .null⟩)) ∧
    (∀ api, ∃ o, subAnswer eval wf (entriesF eval frun trig interrupted wf tags) api = .ans o) := by
  refine ⟨possible_labels hp, ?_, fun api => ⟨_, rfl⟩⟩
  intro s hs
  obtain ⟨tg, -, hok, hl⟩ := possible_step hwf hp hs
  exact ⟨_, _, hl, fun ht => evalStep_not_done hok ht⟩

/-- nothing is cancelled without a cause: if the group was not interrupted and no step task raised, every listed
    step's task completed -/
theorem no_cause_all_done (hwf : wf.WF = true) (hp : Possible eval frun trig interrupted wf tags)
    (hc : causeOf interrupted tags = false) {s : Step} (hs : s ∈ wf.steps) :
    ∃ o, lookupL s.label (entriesF eval frun trig interrupted wf tags) = some (.done, o) := by
  obtain ⟨tg, htg, hok, hl⟩ := possible_step hwf hp hs
  have hnr : tg.tag ≠ .raised := by
    intro h
    have hmem : (s.label, tg) ∈ tags := lookupL_mem htg
    have : causeOf interrupted tags = true := by
      unfold causeOf
      simp only [Bool.or_eq_true, List.any_eq_true, decide_eq_true_eq]
      exact Or.inr ⟨_, hmem, h⟩
    rw [hc] at this; cases this
  rw [hc] at hok hl
  cases htag : tg.tag with
  | done => rw [htag] at hl; exact ⟨_, hl⟩
  | raised => exact absurd htag hnr
  | cancelled =>
    exfalso
    revert hok
    cases hdd : depsDone (entriesF eval frun trig interrupted wf tags) s.deps with
    | none => simp [evalStep]
    | some dr =>
      simp only [evalStep]
      cases hg : gate eval trig dr s with
      | done o => simp [plainStep, htag]
      | single act inputs => simp [htag, tagOK]
      | each act inputs key items =>
        cases hits : tg.items with
        | nil => simp
        | cons t0 ts => simp [htag]

/-- the relation is never empty: whatever the workflow and the environment, "the group timed out before anything
    completed" is a possible outcome (so the theorems above are not vacuous for any workflow) -/
theorem timeout_outcome_possible (eval : EvalFn) (frun : FRun) (trig : JVal) (wf : Workflow) :
    Possible eval frun trig true wf (wf.steps.map fun s => (s.label, ⟨.cancelled, []⟩)) := by
  unfold Possible runF causeOf
  simp only [Bool.true_or]
  exact runStepsF_all_cancelled eval frun trig wf.steps {} rfl

/-- **the fault model extends C01/C02**: in an environment without faults (`liftRun run`) and without interruption,
    "every task completed" is a possible outcome, what the post-loop stores is the sequential trace of C01, and the
    Result is C01's `reconcile` (which C02 proves to be the answer under every completion order) -/
theorem fault_free_is_reconcile (eval : EvalFn) (run : RunFn) (trig : JVal) (wf : Workflow) (hwf : wf.WF = true) :
    Possible eval (liftRun run) trig false wf (doneTags eval run trig wf.steps {}) ∧
    resultsF eval (liftRun run) trig false wf (doneTags eval run trig wf.steps {}) =
      (trace eval run trig wf).results ∧
    collectF eval wf (entriesF eval (liftRun run) trig false wf (doneTags eval run trig wf.steps {})) =
      reconcile eval run trig wf := by
  obtain ⟨h1, h2⟩ := runStepsF_fault_free eval run trig
    (causeOf false (doneTags eval run trig wf.steps {})) wf.steps {} {}
    (by simpa [Workflow.WF] using hwf) rfl rfl
  have hres : resultsF eval (liftRun run) trig false wf (doneTags eval run trig wf.steps {}) =
      (trace eval run trig wf).results := by
    unfold resultsF entriesF runF
    rw [h2]
    simp [trace, List.map_map, Function.comp_def]
  refine ⟨h1, hres, ?_⟩
  have hpre : entriesF eval (liftRun run) trig false wf (doneTags eval run trig wf.steps {}) =
      (trace eval run trig wf).results.map fun p => (p.1, (Tag.done, p.2)) := by
    unfold entriesF runF; rw [h2]; rfl
  unfold collectF reconcile
  have hmap : ((entriesF eval (liftRun run) trig false wf (doneTags eval run trig wf.steps {})).map
      fun p => (p.1, p.2.2)) = (trace eval run trig wf).results := hres
  rw [hmap]
  have hc : stepCondsF wf (entriesF eval (liftRun run) trig false wf (doneTags eval run trig wf.steps {})) =
      stepConds (listed wf (trace eval run trig wf).results) := by
    rw [hpre]; exact stepCondsF_all_done _ wf.steps
  rw [hc]
  rfl

end group

/-! ## one ResourceFunction evaluation under an API fault, and its recovery -/

section rf
variable {S : Type} (m : RMach S) (cfg : RfCfg)

/-- whatever the `j`-th API call of an evaluation does — exception before or after it took effect, HTTP 404 / 409 /
    500 / another 4xx, no response, hang — if that call is issued at all the evaluation answers Retry or PermFail, or
    lets the exception escape, or hangs.  (`…_partial`: the hypothesis `¬ Believable` excludes exactly the point at
    which the full statement is false, `believable_404_is_reported_ok`.) -/
theorem rf_fault_contained (j : Nat) (k : FaultKind) (s : S)
    (hhit : j < (rfPass m cfg (some (j, k)) s).calls.length) (hnb : ¬ Believable cfg j k) :
    (∃ d, (rfPass m cfg (some (j, k)) s).ans = .retry d) ∨ (rfPass m cfg (some (j, k)) s).ans = .permFail ∨
    (rfPass m cfg (some (j, k)) s).ans = .raised ∨ (rfPass m cfg (some (j, k)) s).ans = .hung :=
  rfPass_fault_answer m cfg j k s hhit hnb

/-- … and never Ok: a fault cannot make a Function claim success (nor hand a fabricated value downstream) -/
theorem rf_fault_never_ok (j : Nat) (k : FaultKind) (s : S)
    (hhit : j < (rfPass m cfg (some (j, k)) s).calls.length) (hnb : ¬ Believable cfg j k) :
    ∀ x, (rfPass m cfg (some (j, k)) s).ans ≠ .ok x :=
  rfPass_fault_never_ok m cfg j k s hhit hnb

/-- **the full containment statement is FALSE at exactly one point** (recorded as the known finding
    `believable-404-on-delete-if-exists`; `rf_fault_contained` / `rf_fault_never_ok` above are the `…_partial`
    statements that exclude it through `Believable`): a `deleteIfExists` Function whose GET is answered 404 reports Ok
    — whatever the cluster really holds, in particular when the object is still there — and changes nothing.  No
    repair is possible on the client side: a 404 on a GET IS the API's way of saying "absent", and "absent" is this
    Function's success. -/
theorem believable_404_is_reported_ok (hde : cfg.deleteIfExists = true) (s : S) :
    (rfPass m cfg (some (0, .e404)) s).ans = .ok s ∧ (rfPass m cfg (some (0, .e404)) s).st = s ∧
    0 < (rfPass m cfg (some (0, .e404)) s).calls.length ∧ Believable cfg 0 .e404 := by
  refine ⟨?_, ?_, ?_, hde, rfl, rfl⟩ <;> simp [rfPass, faultAt, hde]

/-- … hence the unrestricted statement "a fault that is hit is never answered Ok" does not hold -/
theorem fault_never_ok_fails_when_believable (hde : cfg.deleteIfExists = true) (s : S) :
    ¬ ∀ x, (rfPass m cfg (some (0, .e404)) s).ans ≠ .ok x :=
  fun h => h s (believable_404_is_reported_ok m cfg hde s).1

/-- … while the recovery clause survives: the next fault-free evaluation issues the DELETE the faulty one skipped -/
theorem believable_404_recovers (hde : cfg.deleteIfExists = true) (s : S) (hp : m.present s = true) :
    (rfPass m cfg none (rfPass m cfg (some (0, .e404)) s).st).st = m.delete s := by
  rw [(believable_404_is_reported_ok m cfg hde s).2.1]
  simp [rfPass, faultAt, mutateUnguarded, hde, hp]

/-- each faulty mutation either took effect or did not; an evaluation that answers Ok changed nothing -/
theorem rf_state_between (fault : Option (Nat × FaultKind)) (s : S) :
    ((rfPass m cfg fault s).st = s ∨ (rfPass m cfg fault s).st = (rfPass m cfg none s).st) ∧
    (∀ x, (rfPass m cfg fault s).ans = .ok x → (rfPass m cfg fault s).st = s ∧ x = s) :=
  ⟨rfPass_state_between m cfg fault s, fun x h => rfPass_ok_unchanged m cfg fault s x h⟩

/-- **per-resource recovery** (update policy `patch` or `never`; create and patch reach a matching object, which is
    C04's result about the real comparator): after ANY sequence of evaluations hit by faults, ONE further
    fault-free evaluation puts the resource where the never-faulted run puts it — for good — and from the SECOND on
    the answer is the never-faulted run's answer; the never-faulted run has that same fixpoint -/
theorem rf_recovers (hconv : Converges m) (hpol : cfg.policy ≠ .recreate) (hnd : cfg.deleteIfExists = false)
    (fs : List (Option (Nat × FaultKind))) (s0 : S) :
    (∀ n, 1 ≤ n → iter m cfg n (afterFaults m cfg fs s0) = iter m cfg 1 s0) ∧
    (∀ n, 1 ≤ n → (rfPass m cfg none (iter m cfg n (afterFaults m cfg fs s0))).ans =
        (rfPass m cfg none (iter m cfg 1 s0)).ans ∧
      (rfPass m cfg none (iter m cfg n (afterFaults m cfg fs s0))).st = iter m cfg 1 s0) ∧
    (∀ n, 1 ≤ n → iter m cfg n s0 = iter m cfg 1 s0) := by
  have hs0 := iter_stable m cfg hconv hpol hnd s0
  have h1 : ∀ n, 1 ≤ n → iter m cfg n (afterFaults m cfg fs s0) = iter m cfg 1 s0 := by
    intro n hn
    rcases afterFaults_on_trajectory m cfg hconv hpol hnd fs s0 with h | h
    · rw [h]; exact hs0 n hn
    · rw [h]
      have : iter m cfg n (iter m cfg 1 s0) = iter m cfg (n + 1) s0 := rfl
      rw [this]; exact hs0 (n + 1) (by omega)
  refine ⟨h1, fun n hn => ?_, hs0⟩
  rw [h1 n hn]
  exact ⟨rfl, rfPass_stable m cfg hconv hpol hnd s0⟩

/-- the same over the in-memory cluster: objects are JSON values, PATCH is RFC 7386 merge-patch
    (`Koreo/MergePatch.lean`); the two facts about the comparator are hypotheses here and theorems of C04 -/
theorem rf_recovers_mergepatch (cmp : JVal → Bool) (created body : JVal)
    (hcreate : cmp created = true) (hpatch : ∀ live, cmp (mergePatch live body) = true)
    (hpol : cfg.policy ≠ .recreate) (hnd : cfg.deleteIfExists = false)
    (fs : List (Option (Nat × FaultKind))) (c0 : Option JVal) :
    ∀ n, 1 ≤ n →
      iter (jvalMach cmp created body) cfg n (afterFaults (jvalMach cmp created body) cfg fs c0) =
        iter (jvalMach cmp created body) cfg 1 c0 := by
  have hconv : Converges (jvalMach cmp created body) := by
    constructor
    · intro s _; exact ⟨rfl, hcreate⟩
    · intro s hs
      cases s with
      | none => simp [jvalMach] at hs
      | some v => exact ⟨rfl, hpatch v⟩
  exact (rf_recovers (jvalMach cmp created body) cfg hconv hpol hnd fs c0).1

/-- the three-situation machine the sweep's driver uses meets the hypotheses -/
theorem objMach_converges : Converges objMach := by
  constructor
  · intro s _; exact ⟨rfl, rfl⟩
  · intro s _; exact ⟨rfl, rfl⟩

end rf

/-! ## workflow-level convergence -/

section dag
variable {S V R : Type} {sys : DagSys S V R} {F : Nat → List V → S → S → Prop}

/-- fault-free passes exist from every cluster state, any number of them (the relations are not vacuous) -/
theorem clean_runs_exist (h : Hyps sys F) (N : Nat) (c : Nat → S) : ∃ cN, CleanRun sys N c cN := by
  induction N generalizing c with
  | zero => exact ⟨c, .zero c⟩
  | succ N ih =>
    obtain ⟨cN, hc⟩ := ih (passS sys c)
    exact ⟨cN, .succ (passF_isPass h.wf c) hc⟩

/-- **workflow-level recovery** for a DAG of `n` reconcilers in listed order, each owning its piece of the
    cluster, evaluated only when all its dependencies are Ok, on their values.  Hypotheses (`Hyps`): dependencies
    point backwards; every reconciler is stable after one fault-free evaluation, changes nothing when it answers Ok,
    and an evaluation hit by a fault leaves its resource in a state from which the next fault-free evaluation
    lands where it would have (this is `rf_state_between` + `rfPass_stable`).
    Then: take ANY number of passes in which ANY evaluations are hit by faults (never Ok, `rf_fault_never_ok`) or
    cancelled, from cluster `c0` to `c`.  After `N ≥ 2·n` fault-free passes the cluster equals the one the
    never-faulted run reaches after `N` passes, both equal the limit `finS`, and every further pass leaves it
    unchanged and returns the same results `finR` in both runs. -/
theorem workflow_recovers (h : Hyps sys F) {c0 c cN dN : Nat → S} {N : Nat}
    (hreach : Reach sys F c0 c) (hN : 2 * sys.n ≤ N)
    (hc : CleanRun sys N c cN) (hd : CleanRun sys N c0 dN) :
    (∀ i, i < sys.n → cN i = dN i ∧ cN i = finS sys c0 i) ∧
    (∀ c' r, IsPass sys cN c' r → ∀ i, i < sys.n → c' i = cN i ∧ r i = finR sys c0 i) ∧
    (∀ d' r, IsPass sys dN d' r → ∀ i, i < sys.n → d' i = dN i ∧ r i = finR sys c0 i) := by
  have hs0 : ∀ x, Settled sys c0 0 x := fun x i _ hi => by omega
  obtain ⟨hsc, hic⟩ := cleanRun_settles h (reach_inv h hreach) (hs0 c) hc
  obtain ⟨hsd, hid⟩ := cleanRun_settles h (inv_init h c0) (hs0 c0) hd
  rw [Nat.zero_add] at hsc hsd
  have hfix : ∀ x, Settled sys c0 N x → Inv sys c0 x → ∀ x' r, IsPass sys x x' r →
      ∀ i, i < sys.n → x' i = x i ∧ r i = finR sys c0 i := by
    intro x hsx hix x' r hp i hi
    have := pass_progress h hix hsx hp i hi
    have hxi := hsx i hi (by omega)
    exact ⟨by rw [this.1 (by omega), hxi], this.2 (by omega)⟩
  refine ⟨fun i hi => ?_, hfix cN hsc hic, hfix dN hsd hid⟩
  have h1 := hsc i hi (by omega)
  have h2 := hsd i hi (by omega)
  exact ⟨by rw [h1, h2], h1⟩

/-- the hypotheses hold for a DAG of ResourceFunctions (patch / never policy, comparator as in C04) under the
    faults of `rfPass` -/
theorem rf_dag_hyps (n : Nat) (deps : Nat → List Nat) (mach : Nat → List S → RMach S)
    (cfg : Nat → List S → RfCfg) (hwf : ∀ i, ∀ d ∈ deps i, d < i)
    (hconv : ∀ i vs, Converges (mach i vs)) (hpol : ∀ i vs, (cfg i vs).policy ≠ .recreate)
    (hnd : ∀ i vs, (cfg i vs).deleteIfExists = false) :
    Hyps (rfSys n deps mach cfg) (rfFaulty mach cfg) := by
  constructor
  · exact hwf
  · rfl
  · intro i vs s
    exact rfPass_stable (mach i vs) (cfg i vs) (hconv i vs) (hpol i vs) (hnd i vs) s
  · intro i vs s v hv
    cases ha : (rfPass (mach i vs) (cfg i vs) none s).ans with
    | ok x => exact (rfPass_ok_unchanged (mach i vs) (cfg i vs) none s x ha).1
    | _ => simp [rfSys, ha] at hv
  · intro i vs s s' hF
    obtain ⟨f, rfl⟩ := hF
    show (rfPass (mach i vs) (cfg i vs) none (rfPass (mach i vs) (cfg i vs) f s).st).st =
      (rfPass (mach i vs) (cfg i vs) none s).st
    rcases rfPass_state_between (mach i vs) (cfg i vs) f s with e | e
    · rw [e]
    · rw [e]; exact rfPass_stable (mach i vs) (cfg i vs) (hconv i vs) (hpol i vs) (hnd i vs) s

/-- **workflow-level recovery, ResourceFunction steps** — the first, flat form (every step ONE ResourceFunction
    evaluation, update policy patch / never).  It is subsumed by the full-strength theorems further down:
    `workflow_recovers_nested` / `workflow_recovers_built` (forEach and refSwitch vectors, sub-workflows to any depth,
    update policy recreate as well, bound `Σᵢ (kᵢ + 1)`) and `koreo_workflow_recovers` /
    `koreo_nested_workflow_recovers` (the workflows of `Koreo/Workflow.lean` themselves).  What is still ASSUMED there,
    and nowhere proved, is named in their hypotheses: the comparator reaches a matching object by create and by patch
    (C04), DELETE removes the object, every (step, forEach position, selected target) evaluation owns its piece of the
    cluster, and an evaluation hit by a fault or cancelled never answers Ok (proved for one ResourceFunction:
    `rf_fault_never_ok`). -/
theorem workflow_recovers_rf (n : Nat) (deps : Nat → List Nat) (mach : Nat → List S → RMach S)
    (cfg : Nat → List S → RfCfg) (hwf : ∀ i, ∀ d ∈ deps i, d < i)
    (hconv : ∀ i vs, Converges (mach i vs)) (hpol : ∀ i vs, (cfg i vs).policy ≠ .recreate)
    (hnd : ∀ i vs, (cfg i vs).deleteIfExists = false)
    {c0 c cN dN : Nat → S} {N : Nat}
    (hreach : Reach (rfSys n deps mach cfg) (rfFaulty mach cfg) c0 c) (hN : 2 * n ≤ N)
    (hc : CleanRun (rfSys n deps mach cfg) N c cN) (hd : CleanRun (rfSys n deps mach cfg) N c0 dN) :
    (∀ i, i < n → cN i = dN i) ∧
    (∀ c' r d' r', IsPass (rfSys n deps mach cfg) cN c' r → IsPass (rfSys n deps mach cfg) dN d' r' →
      ∀ i, i < n → c' i = cN i ∧ d' i = dN i ∧ r i = r' i) := by
  have h := rf_dag_hyps n deps mach cfg hwf hconv hpol hnd
  obtain ⟨h1, h2, h3⟩ := workflow_recovers h hreach hN hc hd
  refine ⟨fun i hi => (h1 i hi).1, ?_⟩
  intro c' r d' r' hp hp' i hi
  have a := h2 c' r hp i hi
  have b := h3 d' r' hp' i hi
  exact ⟨a.1, b.1, by rw [a.2, b.2]⟩

end dag

/-! ## workflow-level convergence at full strength: forEach, refSwitch, sub-workflows to any depth, every update policy -/

section nested
variable {X V R : Type}

/-- **recovery of nested workflows**.  `sys`: steps in listed order, each with its OWN kind of cluster state and its
    own reconciler, evaluated only when all its dependencies are Ok, on their values; step `i` needs `kᵢ` fault-free
    evaluations to stabilise.  Take ANY number of passes in which ANY evaluations are hit by faults or cancelled
    (`GReach`, never answering Ok), from cluster `c0` to `c`.  After `N ≥ bound n = Σᵢ (kᵢ + 1)` fault-free passes the
    cluster equals the one the never-faulted run reaches after `N` passes, both equal the limit `gfinS`, and every
    further pass leaves it unchanged and returns the limit results `gfinR` in both runs. -/
theorem workflow_recovers_nested {sys : GSys X V R} (h : GHyps sys) {x : X} {c0 c cN dN : sys.State} {N : Nat}
    (hreach : GReach sys x c0 c) (hN : sys.bound sys.n ≤ N)
    (hc : GCleanRun sys x N c cN) (hd : GCleanRun sys x N c0 dN) :
    (∀ i, i < sys.n → cN i = dN i ∧ cN i = gfinS sys x c0 i) ∧
    (∀ c' r, GIsPass sys x cN c' r → ∀ i, i < sys.n → c' i = cN i ∧ r i = gfinR sys x c0 i) ∧
    (∀ d' r, GIsPass sys x dN d' r → ∀ i, i < sys.n → d' i = dN i ∧ r i = gfinR sys x c0 i) := by
  obtain ⟨h1, h2⟩ := grecovers h hreach hN hc
  obtain ⟨h3, h4⟩ := grecovers h (GReach.refl c0) hN hd
  exact ⟨fun i hi => ⟨by rw [h1 i hi, h3 i hi], h1 i hi⟩, h2, h4⟩

/-- the pass bound, explicitly: one more than its number of evaluations for every step -/
theorem pass_bound_explicit (sys : GSys X V R) :
    sys.bound sys.n = ((List.range sys.n).map fun i => (sys.step i).k + 1).sum :=
  bound_eq_sum sys sys.n

/-- fault-free runs of any length exist from every cluster state (the relations are not vacuous) -/
theorem nested_clean_runs_exist {sys : GSys X V R} (h : GHyps sys) (x : X) (N : Nat) (c : sys.State) :
    ∃ cN, GCleanRun sys x N c cN :=
  ⟨_, gcleanRun_iter h x N c⟩

/-- a ResourceFunction step meets the step hypotheses for EVERY update policy — patch / never with one evaluation,
    delete-to-recreate with two — under every fault of `rfPass` (comparator as in C04, DELETE removes the object) -/
theorem step_resource_function {S : Type} (rv : ResView V R) (mach : X → List V → RMach S)
    (cfg : X → List V → RfCfg) (k : Nat) (ofAns : X → List V → RAns S → R)
    (hconv : ∀ x vs, Converges (mach x vs))
    (hdel : ∀ x vs s, (mach x vs).present ((mach x vs).delete s) = false)
    (hk : ∀ x vs, rfK (cfg x vs) ≤ k)
    (hans : ∀ x vs a, rv.isErr (ofAns x vs a) = false → ∃ seen, a = .ok seen) :
    StepOK rv (rfStepper mach cfg k ofAns) :=
  rf_stepOK rv mach cfg k ofAns hconv hdel hk hans

/-- **forEach / refSwitch**: a vector of reconcilers indexed by a key — which keys are evaluated (the item list,
    the selected case) being a function of the step's inputs — meets the step hypotheses with the items' number of
    evaluations, for ANY number of items -/
theorem step_foreach_or_switch {K S : Type} [DecidableEq K] (rv : ResView V R) (keys : X → List V → List K)
    (item : K → Stepper X V R S) (k : Nat) (comb : X → List V → List R → R)
    (hitem : ∀ key, StepOK rv (item key)) (hk : ∀ key, (item key).k ≤ k)
    (hcomb : ∀ x vs rs, rv.isErr (comb x vs rs) = false → ∀ r ∈ rs, rv.isErr r = false) :
    StepOK rv (vecStepper keys item k comb) :=
  vec_stepOK rv keys item k comb hitem hk hcomb

/-- **sub-workflows**: a whole workflow meeting `GHyps`, run as ONE step of an outer workflow, meets the step
    hypotheses with `k = bound n = Σⱼ (kⱼ + 1)` of the inner workflow — so the outer bound is the sum over the nested
    structure: `Σᵢ (kᵢ + 1)` with `kᵢ = Σⱼ (kᵢⱼ + 1)` for a sub-workflow step, and so on to any depth -/
theorem step_subworkflow {X' : Type} (rv : ResView V R) (inner : GSys X' V R) (trig : X → List V → X')
    (agg : X → List V → (Nat → R) → R) (h : GHyps inner)
    (hagg : ∀ x vs r, rv.isErr (agg x vs r) = false → ∀ j, j < inner.n → inner.rv.isErr (r j) = false) :
    StepOK rv (dagStepper inner trig agg) ∧
    (dagStepper inner trig agg).k = ((List.range inner.n).map fun j => (inner.step j).k + 1).sum :=
  ⟨dag_stepOK rv inner trig agg h hagg, bound_eq_sum inner inner.n⟩

/-- **`workflow_recovers_rf` at full strength**: for every workflow all of whose steps are in the class `Built` —
    ResourceFunctions with update policy patch, never or recreate; steps that own no resource; forEach and refSwitch
    over such reconcilers; sub-workflows of such steps, to any depth; inputs re-wired by any function of the
    dependencies' values — after any number of faulty passes with any cancellations, `Σᵢ (kᵢ + 1)` fault-free passes
    reach the cluster contents and results of the never-faulted run, for good -/
theorem workflow_recovers_built {sys : GSys X V R}
    (hwf : ∀ i, ∀ d ∈ sys.deps i, d < i) (hgated : sys.rv.okv sys.rv.gated = none)
    (hok : ∀ r v, sys.rv.okv r = some v → sys.rv.isErr r = false)
    (hsteps : ∀ i, Built sys.rv (sys.step i))
    {x : X} {c0 c cN dN : sys.State} {N : Nat}
    (hreach : GReach sys x c0 c) (hN : ((List.range sys.n).map fun i => (sys.step i).k + 1).sum ≤ N)
    (hc : GCleanRun sys x N c cN) (hd : GCleanRun sys x N c0 dN) :
    (∀ i, i < sys.n → cN i = dN i) ∧
    (∀ c' r d' r', GIsPass sys x cN c' r → GIsPass sys x dN d' r' →
      ∀ i, i < sys.n → c' i = cN i ∧ d' i = dN i ∧ r i = r' i) := by
  have h : GHyps sys := ⟨hwf, hgated, hok, fun i => built_stepOK (hsteps i)⟩
  rw [← pass_bound_explicit] at hN
  obtain ⟨h1, h2, h3⟩ := workflow_recovers_nested h hreach hN hc hd
  refine ⟨fun i hi => (h1 i hi).1, ?_⟩
  intro c' r d' r' hp hp' i hi
  have a := h2 c' r hp i hi
  have b := h3 d' r' hp' i hi
  exact ⟨a.1, b.1, by rw [a.2, b.2]⟩

end nested

/-! ### … and for the workflows of `Koreo/Workflow.lean` themselves -/

section koreo
open Koreo.Workflow

/-- a ResourceFunction target (any update policy; comparator as in C04; DELETE removes the object) meets the step
    hypotheses with two evaluations -/
theorem koreo_rf_leaf {S : Type} (mach : JVal → RMach S) (cfg : JVal → RfCfg) (ret : JVal → S → JVal)
    (hconv : ∀ x, Converges (mach x)) (hdel : ∀ x s, (mach x).present ((mach x).delete s) = false) :
    StepOK stepRv (rfLeaf mach cfg ret) ∧ (rfLeaf mach cfg ret).k = 2 := by
  refine ⟨rf_stepOK stepRv _ _ 2 _ (fun x _ => hconv x) (fun x _ s => hdel x s) ?_ ?_, rfl⟩
  · intro x vs
    unfold rfK; split <;> omega
  · intro x vs a h
    cases a with
    | ok seen => exact ⟨seen, rfl⟩
    | _ => exact absurd h (by simp [stepRv, rfLeafAns, StepRes.isErr])

/-- **recovery of a `Workflow`** whose steps use `ref` / `refSwitch` over Functions, `inputs`, `skipIf`, `forEach`
    (any number of items): `ofWorkflow` runs C01's own `gate`, `select`, `setKey` and `combineItems` over one piece of
    cluster state per (step, forEach position, selected target).  If every target's reconciler meets the step
    hypotheses with at most `k` evaluations, then after ANY number of faulty passes with ANY cancellations,
    `|steps| · (k + 1)` fault-free passes reach the never-faulted cluster and results, for good. -/
theorem koreo_workflow_recovers {S₀ : Type} (eval : EvalFn) (tgt : Target → Stepper JVal JVal StepOut S₀) (k : Nat)
    (wf : Workflow) (hwf : wf.WF = true) (htgt : ∀ t, StepOK stepRv (tgt t)) (hk : ∀ t, (tgt t).k ≤ k)
    {x : JVal} {c0 c cN dN : (ofWorkflow eval tgt k wf).State} {N : Nat}
    (hreach : GReach (ofWorkflow eval tgt k wf) x c0 c) (hN : wf.steps.length * (k + 1) ≤ N)
    (hc : GCleanRun (ofWorkflow eval tgt k wf) x N c cN) (hd : GCleanRun (ofWorkflow eval tgt k wf) x N c0 dN) :
    (∀ i, i < wf.steps.length → cN i = dN i) ∧
    (∀ c' r d' r', GIsPass (ofWorkflow eval tgt k wf) x cN c' r → GIsPass (ofWorkflow eval tgt k wf) x dN d' r' →
      ∀ i, i < wf.steps.length → c' i = cN i ∧ d' i = dN i ∧ r i = r' i) := by
  have h := ofWorkflow_hyps eval tgt k wf hwf htgt hk
  have hN' : (ofWorkflow eval tgt k wf).bound (ofWorkflow eval tgt k wf).n ≤ N := by
    show (ofWorkflow eval tgt k wf).bound wf.steps.length ≤ N
    rw [ofWorkflow_bound eval tgt k wf _ (Nat.le_refl _)]; exact hN
  obtain ⟨h1, h2, h3⟩ := workflow_recovers_nested h hreach hN' hc hd
  refine ⟨fun i hi => (h1 i hi).1, ?_⟩
  intro c' r d' r' hp hp' i hi
  have a := h2 c' r hp i hi
  have b := h3 d' r' hp' i hi
  exact ⟨a.1, b.1, by rw [a.2, b.2]⟩

/-- **… with sub-workflows to depth `n`** (induction on the nesting depth, `tgtAt_ok`): targets are Functions (`leaf`,
    at most `kleaf` evaluations) or named sub-workflows from `defs` (each well-formed, at most `len` steps), run as one
    step with the step's inputs as trigger and `subOut ∘ collect` as result.  Explicit bound: a target at depth `m`
    needs at most `kAt m` evaluations, `kAt 0 = kleaf`, `kAt (m+1) = max kleaf (len · (kAt m + 1))`; the workflow needs
    `|steps| · (kAt n + 1)` fault-free passes (the exact figure is `GSys.bound`, the sum over the nested structure). -/
theorem koreo_nested_workflow_recovers {S : Type} (eval : EvalFn) (leaf : String → Stepper JVal JVal StepOut S)
    (kleaf len : Nat) (defs : Env) (n : Nat) (wf : Workflow) (hwf : wf.WF = true)
    (hleaf : ∀ id, StepOK stepRv (leaf id)) (hkleaf : ∀ id, (leaf id).k ≤ kleaf)
    (hdefs : ∀ name w, lookupL name defs = some w → w.WF = true ∧ w.steps.length ≤ len)
    {x : JVal}
    {c0 c cN dN : (ofWorkflow eval (tgtAt eval leaf kleaf len defs n) (kAt kleaf len n) wf).State} {N : Nat}
    (hreach : GReach (ofWorkflow eval (tgtAt eval leaf kleaf len defs n) (kAt kleaf len n) wf) x c0 c)
    (hN : wf.steps.length * (kAt kleaf len n + 1) ≤ N)
    (hc : GCleanRun (ofWorkflow eval (tgtAt eval leaf kleaf len defs n) (kAt kleaf len n) wf) x N c cN)
    (hd : GCleanRun (ofWorkflow eval (tgtAt eval leaf kleaf len defs n) (kAt kleaf len n) wf) x N c0 dN) :
    (∀ i, i < wf.steps.length → cN i = dN i) ∧
    (∀ c' r d' r',
      GIsPass (ofWorkflow eval (tgtAt eval leaf kleaf len defs n) (kAt kleaf len n) wf) x cN c' r →
      GIsPass (ofWorkflow eval (tgtAt eval leaf kleaf len defs n) (kAt kleaf len n) wf) x dN d' r' →
      ∀ i, i < wf.steps.length → c' i = cN i ∧ d' i = dN i ∧ r i = r' i) :=
  koreo_workflow_recovers eval _ _ wf hwf
    (fun t => (tgtAt_ok eval leaf kleaf len defs hleaf hkleaf hdefs n t).1)
    (fun t => (tgtAt_ok eval leaf kleaf len defs hleaf hkleaf hdefs n t).2) hreach hN hc hd

/-- a sub-workflow that does not hand an error to its parent had no failing step (what makes it a reconciler) -/
theorem subworkflow_answer_quiet (eval : EvalFn) (w : Workflow) (hwf : w.WF = true) (r : Nat → StepOut)
    (h : (aggOf eval w r).res.isErr = false) : ∀ j, j < w.steps.length → (r j).res.isErr = false :=
  aggOf_quiet eval w hwf r h

/-- **the recovery system runs the workflow of C01/C09**: what a fault-free evaluation of step `s` answers in
    `ofWorkflow` — for trigger `x`, dependency values `vs`, cluster state `cs` — is what the fault model's `evalStep`
    stores for `s` when every task completes, in the fault-free environment `frunOf tgt cs` that answers each
    evaluation from the state of its own (forEach position, target) slot -/
theorem recovery_step_is_fault_model_step {S₀ : Type} (eval : EvalFn) (tgt : Target → Stepper JVal JVal StepOut S₀)
    (k : Nat) (s : Step) (x : JVal) (vs : List JVal) (cs : EKey → S₀) (cause : Bool) :
    ((vecStepper (evalKeys eval s) (itemOf tgt eval s) k (combStep eval s)).pass x vs cs).2 =
      (evalStep eval (frunOf tgt cs) x cause (some (drOf s.deps vs)) s
        ⟨.done, match gate eval x (drOf s.deps vs) s with
          | .each _ _ _ items => items.map fun _ => Tag.done
          | _ => []⟩).out :=
  ofWorkflow_step_faithful eval tgt k s x vs cs cause

/-- … and, when the slots of one target hold the same state (`cs (idx, t) = c t`: what C01's position-blind Function
    oracle `run` can express), it is C01's `stepResult` for the oracle that reads the cluster -/
theorem recovery_step_is_stepResult {S₀ : Type} (eval : EvalFn) (tgt : Target → Stepper JVal JVal StepOut S₀)
    (k : Nat) (s : Step) (x : JVal) (vs : List JVal) (cs : EKey → S₀) (c : Target → S₀)
    (hcs : ∀ idx t, cs (idx, some t) = c t) :
    ((vecStepper (evalKeys eval s) (itemOf tgt eval s) k (combStep eval s)).pass x vs cs).2 =
      (stepResult eval
        (fun t inputs => ⟨((tgt t).pass inputs [] (c t)).2.res, ((tgt t).pass inputs [] (c t)).2.rid, []⟩)
        x (drOf s.deps vs) s).1 := by
  have hf : frunOf tgt cs = liftRun fun t inputs =>
      ⟨((tgt t).pass inputs [] (c t)).2.res, ((tgt t).pass inputs [] (c t)).2.rid, []⟩ := by
    funext l idx t inputs
    simp only [frunOf, liftRun, hcs]
  rw [ofWorkflow_step_faithful eval tgt k s x vs cs false, hf]
  exact (evalStep_fault_free eval _ x false (drOf s.deps vs) s).2

end koreo

/-! ## non-vacuity: concrete instances of the hypotheses -/

section example_
/-- `a` creates, `b` needs `a`, `c` is independent, `each` iterates over two items -/
def exWf : Workflow :=
  { name := "ex"
    steps := [
      { label := "a", logic := .ref (.fn "f"), cond := some ("Ca", "a") },
      { label := "b", deps := ["a"], logic := .ref (.fn "g"),
        inputs := some (.mapE [("u", .path "steps" ["a"])]), cond := some ("Cb", "b") },
      { label := "c", logic := .ref (.fn "g"), cond := some ("Cc", "c") },
      { label := "each", logic := .ref (.fn "g"), cond := some ("Ce", "each"),
        forEach := some ⟨.lit (.arr [.str "p", .str "q"]), "item"⟩ } ] }

def okOut : FnOut := ⟨.ok (.str "v"), .null, ["GET x"]⟩

/-- the POST of `a` hangs -/
def hangA : FRun := fun l _ _ _ => if l = "a" then .hung else .ans okOut
/-- the PATCH of `c` raises; iteration 1 of `each` hangs -/
def raiseC : FRun := fun l i _ _ =>
  if l = "c" then .raised else if l = "each" ∧ i = some 1 then .hung else .ans okOut

example : exWf.WF = true := by decide

/-- time-out: `a` hung, its dependent `b` is cancelled with it, `c` and `each` had completed -/
def tagsHang : List (Label × StepTags) :=
  [("a", ⟨.cancelled, []⟩), ("b", ⟨.cancelled, []⟩), ("c", ⟨.done, []⟩), ("each", ⟨.done, [.done, .done]⟩)]

example : Possible evalStd hangA .null true exWf tagsHang := by decide

/-- … and it is not possible without the time-out, nor with `a` reported as completed -/
example : ¬ Possible evalStd hangA .null false exWf tagsHang := by decide
example : ¬ Possible evalStd hangA .null true exWf
    [("a", ⟨.done, []⟩), ("b", ⟨.done, []⟩), ("c", ⟨.done, []⟩), ("each", ⟨.done, [.done, .done]⟩)] := by decide

/-- what the pass returns: two time-out Retries with a truthful `Ready/Wait` condition each, overall Retry(30) -/
example : (let r := collectF evalStd exWf (entriesF evalStd hangA .null true exWf tagsHang)
    (r.steps.map fun p => (p.1, reason p.2.res), reason r.overall,
     r.conditions.map fun c => (c.type, c.reason))) =
    ([("a", "Wait"), ("b", "Wait"), ("c", "Ready"), ("each", "Ready")], "Wait",
     [("Ready", "Wait"), ("Ready", "Wait"), ("Cc", "Ready"), ("Ce", "Ready"), ("Ready", "Wait")]) := by decide

/-- the hypothesis of `affected_step_is_error` holds for `a`, that of `dependents_not_run` for `b` -/
example : Affected evalStd hangA .null
    (depsDone (entriesF evalStd hangA .null true exWf tagsHang) []) exWf.steps[0] :=
  ⟨[], rfl, Or.inl ⟨[("parent", .null)], .obj [], rfl, by decide⟩⟩
example : "b" ∉ mayRunF evalStd hangA .null true exWf tagsHang := by decide

/-- a crash: `c` raised, the task group aborted `b` (schedule: `a` had completed, `b` had not); the forEach step
    swallowed its cancellation and reports its hung iteration as Retry — or is cancelled itself: both possible -/
example : Possible evalStd raiseC .null false exWf
    [("a", ⟨.done, []⟩), ("b", ⟨.cancelled, []⟩), ("c", ⟨.raised, []⟩), ("each", ⟨.done, [.done, .cancelled]⟩)] := by
  decide
example : Possible evalStd raiseC .null false exWf
    [("a", ⟨.done, []⟩), ("b", ⟨.done, []⟩), ("c", ⟨.raised, []⟩), ("each", ⟨.cancelled, [.done, .cancelled]⟩)] := by
  decide
example : (reason (collectF evalStd exWf (entriesF evalStd raiseC .null false exWf
    [("a", ⟨.done, []⟩), ("b", ⟨.cancelled, []⟩), ("c", ⟨.raised, []⟩),
     ("each", ⟨.done, [.done, .cancelled]⟩)])).overall) = "Wait" := by decide

/-- one ResourceFunction: a PATCH that raises after it took effect leaves the object patched, the answer is an
    escaping exception; the next fault-free evaluation answers Ok on the same object the never-faulted run ends on -/
example : (rfPass objMach {} (some (1, .raiseAfter)) .differing).st = .matching := by decide
example : (match (rfPass objMach {} (some (1, .raiseAfter)) .differing).ans with | .raised => true | _ => false) = true := by
  decide
example : iter objMach {} 1 (afterFaults objMach {} [some (1, .raiseAfter), some (0, .e500)] .differing) =
    iter objMach {} 1 .differing := by decide
/-- a 404 on the GET of an existing object makes the Function try to create it; the server answers 409 -/
example : (rfPass objMach {} (some (0, .e404)) .matching).calls = [.get, .post] := by decide
example : (rfPass objMach {} (some (0, .e404)) .matching).st = .matching := by decide

/-- any other 4xx, or a `ServerError` without a response, on the GET: Retry, nothing else is attempted -/
example : (rfPass objMach {} (some (0, .e4xx)) .matching).calls = [.get] := by decide
example : (rfPass objMach {} (some (0, .noResp)) .matching).calls = [.get] := by decide
example : (match (rfPass objMach { deleteIfExists := true } (some (0, .noResp)) .matching).ans with
    | .retry _ => true | _ => false) = true := by decide
/-- the believable 404 (`Believable`): a `deleteIfExists` Function told "404" on its GET answers Ok although the
    object is still there — no client could know better; the next fault-free evaluation deletes it, so recovery holds -/
example : (match (rfPass objMach { deleteIfExists := true } (some (0, .e404)) .matching).ans with
    | .ok _ => true | _ => false) = true := by decide
example : (rfPass objMach { deleteIfExists := true } (some (0, .e404)) .matching).st = .matching := by decide
example : iter objMach { deleteIfExists := true } 1
    (afterFaults objMach { deleteIfExists := true } [some (0, .e404)] .matching) = .absent := by decide

/-- the convergence theorem's hypotheses are met by a two-step chain of ResourceFunctions over `objMach` -/
example : Hyps (rfSys 2 (fun i => if i = 1 then [0] else []) (fun _ _ => objMach) (fun _ _ => {}))
    (rfFaulty (fun _ _ => objMach) (fun _ _ => {})) :=
  rf_dag_hyps 2 _ _ _ (by intro i d hd; by_cases h : i = 1 <;> simp_all) (fun _ _ => objMach_converges)
    (fun _ _ => by decide) (fun _ _ => rfl)
/-! a nested workflow built from the combinators: `a` creates an object; `each` (needs `a`) runs, for each of three
    items, a sub-workflow whose first step deletes-and-recreates an object and whose second step (needs the first)
    patches one -/

abbrev ExR := Option (RAns ObjState)

def exRv : ResView ObjState ExR where
  okv := fun r => match r with | some (.ok x) => some x | _ => none
  isErr := fun r => match r with | some (.ok _) | none => false | _ => true
  gated := none

private theorem exRv_ans (a : RAns ObjState) (h : exRv.isErr (some a) = false) : ∃ seen, a = .ok seen := by
  cases a <;> simp_all [exRv]

def exLeaf (X : Type) (policy : Policy) : Stepper X ObjState ExR ObjState :=
  rfStepper (fun _ _ => objMach) (fun _ _ => { policy := policy }) (rfK { policy := policy }) (fun _ _ a => some a)

private theorem exLeaf_built (X : Type) (policy : Policy) : Built exRv (exLeaf X policy) :=
  .rf _ _ _ _ (fun _ _ => objMach_converges) (fun _ _ _ => rfl) (fun _ _ => Nat.le_refl _) (fun _ _ a h => exRv_ans a h)

def exInner : GSys (List ObjState) ObjState ExR where
  n := 2
  S := fun _ => ObjState
  deps := fun i => if i = 1 then [0] else []
  step := fun i => if i = 0 then exLeaf _ .recreate else exLeaf _ .patch
  rv := exRv

def exAgg : Unit → List ObjState → (Nat → ExR) → ExR := fun _ _ r =>
  if exRv.isErr (r 0) || exRv.isErr (r 1) then some .permFail else r 1

def exComb : Unit → List ObjState → List ExR → ExR := fun _ _ rs =>
  if rs.any exRv.isErr then some .permFail else some (.ok .matching)

def exS : Nat → Type
  | 0 => ObjState
  | _ + 1 => Nat → exInner.State

def exStep : (i : Nat) → Stepper Unit ObjState ExR (exS i)
  | 0 => exLeaf Unit .patch
  | _ + 1 => vecStepper (fun _ _ => [0, 1, 2]) (fun _ => dagStepper exInner (fun _ vs => vs) exAgg)
      (exInner.bound exInner.n) exComb

def exOuter : GSys Unit ObjState ExR where
  n := 2
  S := exS
  deps := fun i => if i = 1 then [0] else []
  step := exStep
  rv := exRv

private theorem exRv_ok_not_err (r : ExR) (v : ObjState) (h : exRv.okv r = some v) : exRv.isErr r = false := by
  rcases r with _ | a
  · rfl
  · cases a with
    | ok s => rfl
    | _ => simp [exRv] at h

private theorem exAgg_quiet (x : Unit) (vs : List ObjState) (r : Nat → ExR) (h : exRv.isErr (exAgg x vs r) = false)
    (j : Nat) (hj : j < 2) : exRv.isErr (r j) = false := by
  unfold exAgg at h
  cases h0 : exRv.isErr (r 0) with
  | true =>
    rw [h0] at h
    simp only [Bool.true_or, if_true] at h
    exact absurd h (by decide)
  | false =>
    cases h1 : exRv.isErr (r 1) with
    | true =>
      rw [h0, h1] at h
      simp only [Bool.false_or, if_true] at h
      exact absurd h (by decide)
    | false =>
      have : j = 0 ∨ j = 1 := by omega
      rcases this with rfl | rfl
      · exact h0
      · exact h1

private theorem exComb_quiet (x : Unit) (vs : List ObjState) (rs : List ExR) (h : exRv.isErr (exComb x vs rs) = false) :
    ∀ r ∈ rs, exRv.isErr r = false := by
  intro r hr
  unfold exComb at h
  cases ha : rs.any exRv.isErr with
  | false => exact (List.any_eq_false.1 ha) r hr |> fun h' => by simpa using h'
  | true => rw [ha] at h; exact absurd h (by decide)

private theorem exInner_wf : ∀ i, ∀ d ∈ exInner.deps i, d < i := by
  intro i d hd
  by_cases h : i = 1
  · subst h; simp [exInner] at hd; omega
  · simp [exInner, h] at hd

private theorem exOuter_built : ∀ i, Built exRv (exStep i)
  | 0 => exLeaf_built Unit .patch
  | _ + 1 => by
    refine .vec _ _ _ _ (fun _ => ?_) (fun _ => Nat.le_refl _) exComb_quiet
    refine .dag exInner _ _ rfl exInner_wf rfl exRv_ok_not_err ?_ exAgg_quiet
    intro i
    show Built exRv (if i = 0 then exLeaf _ .recreate else exLeaf _ .patch)
    split
    · exact exLeaf_built _ .recreate
    · exact exLeaf_built _ .patch

/-- the pass bound of the nested example: the sub-workflow needs (2+1)+(1+1) = 5 passes, so `each` has k = 5 whatever
    the number of items, and the whole workflow (1+1)+(5+1) = 8 -/
example : exInner.bound exInner.n = 5 := rfl
example : exOuter.bound exOuter.n = 8 := rfl

/-- hence `workflow_recovers_built` applies to it: 8 fault-free passes after any faulty history -/
example {c0 c cN dN : exOuter.State} (hreach : GReach exOuter () c0 c)
    (hc : GCleanRun exOuter () 8 c cN) (hd : GCleanRun exOuter () 8 c0 dN) : ∀ i, i < 2 → cN i = dN i :=
  (workflow_recovers_built (sys := exOuter)
    (by intro i d hd
        by_cases h : i = 1
        · subst h; simp [exOuter] at hd; omega
        · simp [exOuter, h] at hd)
    rfl exRv_ok_not_err exOuter_built hreach (by decide) hc hd).1
/-- `koreo_nested_workflow_recovers` applies to the workflow of the first example (forEach included) with every
    Function a ResourceFunction over `objMach`, sub-workflows allowed to depth 1: its hypotheses hold -/
example : GHyps (ofWorkflow evalStd
      (tgtAt evalStd (fun _ => rfLeaf (fun _ => objMach) (fun _ => {}) (fun x _ => x)) 2 4 [] 1) (kAt 2 4 1) exWf) :=
  ofWorkflow_hyps evalStd _ _ exWf (by decide)
    (fun t => (tgtAt_ok evalStd _ 2 4 []
      (fun _ => (koreo_rf_leaf _ _ _ (fun _ => objMach_converges) (fun _ _ => rfl)).1)
      (fun _ => Nat.le_refl _) (fun _ _ h => by simp [lookupL] at h) 1 t).1)
    (fun t => (tgtAt_ok evalStd _ 2 4 []
      (fun _ => (koreo_rf_leaf _ _ _ (fun _ => objMach_converges) (fun _ _ => rfl)).1)
      (fun _ => Nat.le_refl _) (fun _ _ h => by simp [lookupL] at h) 1 t).2)
end example_

end Koreo.C09
