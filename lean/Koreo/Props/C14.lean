/-
  C14 — Static reference analysis finds every named dependency.
  Property theorems only; helper lemmas are in `Koreo/Lemmas/CelAst.lean` and
  `Koreo/Lemmas/WorkflowPrep.lean`.
  Models: `Koreo/CelAst.lean` (celpy parse trees, `extract_argument_structure`, the name patterns),
  `Koreo/WorkflowPrep.lean` (`_load_step`, `_load_steps`, `_load_logic_switch`, `_prepare_overlays`,
  `prepare_function_test`) — hand transcriptions of the REPAIRED sources (fix F5).
  `Koreo/Gen/CelTables.lean` is regenerated from the sources on every run.
-/
import Koreo.Lemmas.WorkflowPrep
import Koreo.Lemmas.PrepToWorkflow
import Koreo.Lemmas.CelAstConservative
import Koreo.Gen.CelTables

namespace Koreo.C14
open Koreo.CelAst Koreo.WorkflowPrep

/-! ## the model's tables are the ones the sources have now -/

/-- the translator understood `structure_extractor.py`, the grammar options and the patterns -/
theorem extraction_ok : Koreo.Gen.CelTables.extractionOk = true := by decide

/-- the `x.data == "…"` sets of the extractor and the fate of each `raise` are the model's -/
theorem dispatch_matches_source : Koreo.Gen.CelTables.dispatch = modelDispatch := by decide

theorem steps_pattern_matches_source : Koreo.Gen.CelTables.stepsPattern = stepsPatternSource := by decide

theorem parent_pattern_matches_source : Koreo.Gen.CelTables.parentPattern = parentPatternSource := by decide

/-! ## every statically named step is found -/

/-- Wherever `steps.n` or `steps["n"]` occurs in an expression — operand, branch, receiver,
    macro body, call argument, list / map / message literal, index expression, at any depth —
    the label `n` is among the names the analysis returns. -/
theorem static_ref_found {e : Cel} {n : String} {ks : List String}
    (h : StaticRef e n) (hx : extract e = .ok ks) : n ∈ ks.filterMap stepsName := by
  have := add_has_ref (acc := ⟨[], []⟩) hx h
  simpa [Acc.add, stepDeps] using this

/-- the same through the code path the workflow preparation uses (`stepDeps`) -/
theorem static_ref_is_dependency {e : Cel} {n : String} {ks : List String}
    (h : StaticRef e n) (hx : extract e = .ok ks) : n ∈ stepDeps ks :=
  static_ref_found h hx

/-- the extractor names a reference node `steps.<label>` and visits it whatever surrounds it
    (this is why skipping un-nameable shapes — fix F5 — loses no dependency) -/
theorem nested_ref_visited_on_its_own {e s : Cel} {n : String} {ks : List String}
    (hs : s ∈ e.subtrees) (hr : RefNode s n) (hx : extract e = .ok ks) : ("steps." ++ n) ∈ ks :=
  collect_mem (rs := e.subtrees.map (visit modelDispatch)) hx (List.mem_map.2 ⟨s, hs, visit_refNode hr⟩)

/-- the analysis only ever returns keys of nodes it visited (no invented dependency) -/
theorem keys_come_from_nodes {e : Cel} {ks : List String} {k : String}
    (hx : extract e = .ok ks) (hk : k ∈ ks) : ∃ s ∈ e.subtrees, visit modelDispatch s = .key k := by
  have := collect_sub (rs := e.subtrees.map (visit modelDispatch)) hx hk
  obtain ⟨s, hs, hv⟩ := List.mem_map.1 this
  exact ⟨s, hs, hv⟩

/-- Fix F5 is conservative: on **every** tree on which the extractor with the pre-repair tables
    (`unrepairedDispatch`: each of the ten `raise` statements propagates) returned a key set, the
    repaired extractor returns the same key set.  The repair only turns exceptions into results. -/
theorem fix_conservative {t : Cel} {ks : List String}
    (h : extractWith unrepairedDispatch t = .ok ks) : extract t = .ok ks :=
  extractWith_conservative t ks h

/-- …so every dependency the old analysis recorded is still recorded, and nothing is added -/
theorem fix_keeps_dependencies {t : Cel} {ks : List String}
    (h : extractWith unrepairedDispatch t = .ok ks) :
    (extract t).toOption.map stepDeps = some (stepDeps ks) := by
  rw [fix_conservative h]; rfl

/-! ## dependencies of a step: complete, and only on earlier steps -/

/-- a field `_load_step` analyses for this step -/
def Scanned (s : StepSpec) (e : Cel) : Prop :=
  (s.ref = none ∧ ∃ sw, s.refSwitch = some sw ∧ sw.switchOn = .ast e) ∨
  s.skipIf = .ast e ∨ (∃ fe, s.forEach = some fe ∧ fe.itemIn = .ast e) ∨
  s.inputs = .ast e ∨ s.state = .ast e

/-- every label statically named in `switchOn`, `skipIf`, `forEach.itemIn`, `inputs` or `state`
    is in the prepared step's dependency set -/
theorem deps_complete {env : Env} {s : StepSpec} {known : List String} {out : StepOut} {deps : List String}
    {e : Cel} {n : String}
    (h : loadStep env s known = .ok out) (hr : out.result = .step deps)
    (hs : Scanned s e) (href : StaticRef e n) : n ∈ deps := by
  obtain ⟨res, logic, acc0, acc, hl, hrun, rfl, _, _⟩ := loadStep_step h hr
  obtain ⟨a1, a2, a3, h1, h2, h3, h4⟩ := runStages_done hrun
  have m1 := scanFld_mono h1
  have m2 := scanForEach_mono h2
  have m3 := scanFld_mono h3
  have m4 := scanFld_mono h4
  rcases hs with ⟨hn, sw, hsw, hon⟩ | hs | ⟨fe, hfe, hin⟩ | hs | hs
  · -- switchOn: the logic loaded, otherwise no `Step` would have been built
    have hlog : ∀ l, logic = some l → l.isOk = true := by
      intro l hl'
      subst hl'
      unfold loadStep at h
      split at h
      · simp only [pure, Except.pure, Except.ok.injEq] at h; subst h; cases hr
      · simp only [hl] at h
        split at h
        · simp only [pure, Except.pure, Except.ok.injEq] at h; subst h; cases hr
        · cases l with
          | err c => simp only [pure, Except.pure, Except.ok.injEq] at h; subst h; cases hr
          | fn w ks => rfl
          | switch ks => rfl
    obtain ⟨ks, hx, rfl⟩ := loadStepLogic_switch_acc hn hsw hl hlog hon
    exact m4 _ (m3 _ (m2 _ (m1 _ (add_has_ref hx href))))
  · rcases scanFld_spec h1 with ⟨ha, _⟩ | ⟨t, ks, ht, hx, rfl⟩
    · rw [hs] at ha; cases ha
    · rw [hs] at ht; cases ht
      exact m4 _ (m3 _ (m2 _ (add_has_ref hx href)))
  · rcases scanForEach_spec h2 with ⟨ha, _⟩ | ⟨x, t, ks, hx', ht, hx, rfl⟩
    · rw [hfe] at ha; cases ha
    · rw [hfe] at hx'; cases hx'
      rw [hin] at ht; cases ht
      exact m4 _ (m3 _ (add_has_ref hx href))
  · rcases scanFld_spec h3 with ⟨ha, _⟩ | ⟨t, ks, ht, hx, rfl⟩
    · rw [hs] at ha; cases ha
    · rw [hs] at ht; cases ht
      exact m4 _ (add_has_ref hx href)
  · rcases scanFld_spec h4 with ⟨ha, _⟩ | ⟨t, ks, ht, hx, rfl⟩
    · rw [hs] at ha; cases ha
    · rw [hs] at ht; cases ht
      exact add_has_ref hx href

/-- a prepared step depends on already seen labels only -/
theorem deps_are_known {env : Env} {s : StepSpec} {known : List String} {out : StepOut} {deps : List String}
    (h : loadStep env s known = .ok out) (hr : out.result = .step deps) : ∀ n ∈ deps, n ∈ known :=
  Koreo.C14Aux.deps_known h hr

/-- a step that names a label not seen before it is not prepared as a `Step` -/
theorem step_bad_order_rejected {env : Env} {s : StepSpec} {known : List String} {out : StepOut}
    {e : Cel} {n : String}
    (h : loadStep env s known = .ok out) (hs : Scanned s e) (href : StaticRef e n) (hn : n ∉ known) :
    out.result.isError = true := by
  cases hr : out.result with
  | error c => rfl
  | step deps => exact absurd (deps_are_known h hr n (deps_complete h hr hs href)) hn

/-- Workflow level: a step naming a later, an unknown or its own label (i.e. any label that is
    not the label of a step listed before it) is recorded as an error step, and the Workflow is
    reported not ready. -/
theorem bad_order_rejected {env : Env} {pre post : List StepSpec} {s : StepSpec} {r : WfOut}
    {e : Cel} {n : String}
    (h : prepareWorkflow env (pre ++ s :: post) = .ok r)
    (hs : Scanned s e) (href : StaticRef e n) (hn : n ∉ pre.map StepSpec.lbl) :
    (∃ x, r.steps[pre.length]? = some x ∧ x.isError = true) ∧ r.ready ≠ .ok := by
  unfold prepareWorkflow at h
  have hne : (pre ++ s :: post).isEmpty = false := by cases pre <;> rfl
  simp only [hne, Bool.false_eq_true, if_false] at h
  cases hl : loadStepsLoop env (pre ++ s :: post) [] with
  | error e => simp [hl] at h
  | ok v =>
    obtain ⟨rs, res, pp⟩ := v
    simp only [hl, pure, Except.pure, Except.ok.injEq] at h
    subst h
    obtain ⟨x, hx, hcase⟩ := loadStepsLoop_at pre s post [] rs res pp hl
    have herr : x.isError = true := by
      rcases hcase with ⟨_, rfl⟩ | ⟨_, out, hout, rfl, _⟩
      · rfl
      · apply step_bad_order_rejected hout hs href
        intro hmem
        rcases (mem_knownAfter pre []).1 hmem with h1 | h1
        · cases h1
        · exact hn h1
    exact ⟨⟨x, hx, herr⟩, readyOf_error (List.mem_of_getElem? hx) herr⟩

/-- …and a step that *is* prepared depends only on labels of steps listed before it -/
theorem prepared_steps_depend_on_earlier {env : Env} {pre post : List StepSpec} {s : StepSpec} {r : WfOut}
    {deps : List String}
    (h : prepareWorkflow env (pre ++ s :: post) = .ok r) (hx : r.steps[pre.length]? = some (.step deps)) :
    ∀ n ∈ deps, n ∈ pre.map StepSpec.lbl := by
  unfold prepareWorkflow at h
  have hne : (pre ++ s :: post).isEmpty = false := by cases pre <;> rfl
  simp only [hne, Bool.false_eq_true, if_false] at h
  cases hl : loadStepsLoop env (pre ++ s :: post) [] with
  | error e => simp [hl] at h
  | ok v =>
    obtain ⟨rs, res, pp⟩ := v
    simp only [hl, pure, Except.pure, Except.ok.injEq] at h
    subst h
    obtain ⟨x, hx', hcase⟩ := loadStepsLoop_at pre s post [] rs res pp hl
    simp only at hx
    rw [hx] at hx'
    cases hx'
    rcases hcase with ⟨_, hbad⟩ | ⟨_, out, hout, hres, _⟩
    · cases hbad
    · intro n hn
      have := deps_are_known hout hres.symm n hn
      rcases (mem_knownAfter pre []).1 this with h1 | h1
      · cases h1
      · exact h1

/-! ## a Workflow reported ready is well-formed in the sense C01 / C02 assume -/

open Koreo.PrepToWorkflow in
/-- `Koreo.Workflow.Workflow.WF` (distinct labels, every dependency names an earlier step) is the
    standing hypothesis of the run-time theorems of C01 / C02.  It holds of every Workflow that
    `prepare_workflow` reports ready (`steps_ready` Ok), translated into the run-time model with its
    labels and the dependency sets `_load_step` recorded — whatever the translation `tr` of the
    (opaque) expressions. -/
theorem prepared_ready_implies_WF {env : Env} {spec : List StepSpec} {w : WfOut}
    (tr : Cel → Koreo.Workflow.Expr) (name : String)
    (h : prepareWorkflow env spec = .ok w) (hready : w.ready = .ok) :
    (toWorkflow tr name spec w).WF = true := by
  unfold prepareWorkflow at h
  split at h
  · simp only [pure, Except.pure, Except.ok.injEq] at h; subst h; cases hready
  · cases hl : loadStepsLoop env spec [] with
    | error e => simp [hl] at h
    | ok v =>
      obtain ⟨rs, res, pp⟩ := v
      simp only [hl, pure, Except.pure, Except.ok.injEq] at h
      subst h
      exact loop_wfSteps tr spec [] [] rs res pp (fun _ => Iff.rfl) hl (readyOf_ok hready)

open Koreo.PrepToWorkflow in
/-- …and the translation is faithful on what `WF` talks about: every step is kept, in order, under
    its label (so `WF` is not about an emptied workflow) -/
theorem translation_keeps_steps {env : Env} {spec : List StepSpec} {w : WfOut}
    (tr : Cel → Koreo.Workflow.Expr) (name : String) (h : prepareWorkflow env spec = .ok w) (hne : spec ≠ []) :
    Koreo.Workflow.labels (toWorkflow tr name spec w).steps = spec.map StepSpec.lbl := by
  unfold prepareWorkflow at h
  have : spec.isEmpty = false := by cases spec <;> simp_all
  simp only [this, Bool.false_eq_true, if_false] at h
  cases hl : loadStepsLoop env spec [] with
  | error e => simp [hl] at h
  | ok v =>
    obtain ⟨rs, res, pp⟩ := v
    simp only [hl, pure, Except.pure, Except.ok.injEq] at h
    subst h
    exact toSteps_labels tr spec rs (loop_length spec [] rs res pp hl)

/-! ## everything a definition names is watched -/

/-- a Function or Workflow the step names as its Logic -/
def Names (s : StepSpec) (ref : Ref) : Prop :=
  (s.ref = some ref ∧ s.refSwitch = none) ∨
  (s.ref = none ∧ ∃ sw, s.refSwitch = some sw ∧ (∃ t, sw.switchOn = .ast t) ∧
     (sw.cases.filter (·.isDefault)).length ≤ 1 ∧ ∃ c ∈ sw.cases, c.ref = ref)

/-- the resources `_load_step` hands back contain the named Logic: the `ref`, and **every**
    `refSwitch` case (not only the default or the first) -/
theorem step_logic_watched {env : Env} {s : StepSpec} {known : List String} {out : StepOut} {ref : Ref}
    (h : loadStep env s known = .ok out) (hn : Names s ref) (hv : ref.valid) :
    (ref.kind, ref.name) ∈ out.resources.getD [] := by
  -- the resources are those of `loadStepLogic`, on every path
  have hres : ∃ res logic acc0, loadStepLogic env s = .ok (res, logic, acc0) ∧ out.resources = res := by
    unfold loadStep at h
    split at h
    · rename_i hboth
      rcases hn with ⟨_, h2⟩ | ⟨h1, _⟩
      · simp [h2] at hboth
      · simp [h1] at hboth
    · cases hl : loadStepLogic env s with
      | error e => simp [hl] at h
      | ok v =>
        obtain ⟨res, logic, acc0⟩ := v
        refine ⟨res, logic, acc0, rfl, ?_⟩
        simp only [hl] at h
        split at h
        · simp only [pure, Except.pure, Except.ok.injEq] at h; subst h; rfl
        · split at h
          · simp only [pure, Except.pure, Except.ok.injEq] at h; subst h; rfl
          · simp only [pure, Except.pure, Except.ok.injEq] at h; subst h; rfl
          · cases hs : runStages (stages s) acc0 with
            | error e => simp [hs] at h
            | ok v =>
              cases v with
              | inl acc => simp only [hs, pure, Except.pure, Except.ok.injEq] at h; subst h; rfl
              | inr acc =>
                simp only [hs] at h
                split at h <;> (simp only [pure, Except.pure, Except.ok.injEq] at h; subst h; rfl)
  obtain ⟨res, logic, acc0, hl, hout⟩ := hres
  rw [hout]
  unfold loadStepLogic at hl
  rcases hn with ⟨h1, h2⟩ | ⟨h1, sw, h2, ⟨t, ht⟩, hdef, c, hc, hcr⟩
  · simp only [h1] at hl
    simp only [pure, Except.pure, Except.ok.injEq, Prod.mk.injEq] at hl
    rw [← hl.1, loadLogic_valid hv]; simp
  · simp only [h1, h2] at hl
    cases hls : loadLogicSwitch env sw with
    | error e => simp [hls] at hl
    | ok v =>
      obtain ⟨r, l⟩ := v
      have hr : r = res := by
        simp only [hls] at hl
        split at hl
        · split at hl
          · split at hl
            · cases hl
            · simp only [pure, Except.pure, Except.ok.injEq, Prod.mk.injEq] at hl; exact hl.1
          · simp only [pure, Except.pure, Except.ok.injEq, Prod.mk.injEq] at hl; exact hl.1
        · simp only [pure, Except.pure, Except.ok.injEq, Prod.mk.injEq] at hl; exact hl.1
      subst hr
      unfold loadLogicSwitch at hls
      simp only [ht] at hls
      cases hx : extract t with
      | error e => simp [hx] at hls
      | ok keys =>
        simp only [hx] at hls
        have hne : sw.cases.isEmpty = false := by
          cases hcs : sw.cases with
          | nil => rw [hcs] at hc; cases hc
          | cons => rfl
        simp only [hne, Bool.false_eq_true, if_false] at hls
        obtain ⟨acc', hacc⟩ := switchLoop_some (env := env) sw.cases ⟨[], [], none, keys⟩ (by simpa using hdef)
        have hwatch := (switchLoop_resources sw.cases _ acc' hacc).2 c hc (by rw [hcr]; exact hv)
        rw [hcr] at hwatch
        simp only [hacc] at hls
        split at hls
        · simp only [pure, Except.pure, Except.ok.injEq, Prod.mk.injEq] at hls
          rw [← hls.1]; exact hwatch
        · split at hls <;>
            (simp only [pure, Except.pure, Except.ok.injEq, Prod.mk.injEq] at hls; rw [← hls.1]; exact hwatch)

/-- Workflow level: the Logic of every step (whose label is not a repetition of an earlier one),
    including every `refSwitch` case, is among the subscriptions `prepare_workflow` returns. -/
theorem every_named_logic_watched {env : Env} {pre post : List StepSpec} {s : StepSpec} {r : WfOut} {ref : Ref}
    (h : prepareWorkflow env (pre ++ s :: post) = .ok r)
    (hlbl : s.lbl ∉ pre.map StepSpec.lbl) (hn : Names s ref) (hv : ref.valid) :
    (ref.kind, ref.name) ∈ r.watched := by
  unfold prepareWorkflow at h
  have hne : (pre ++ s :: post).isEmpty = false := by cases pre <;> rfl
  simp only [hne, Bool.false_eq_true, if_false] at h
  cases hl : loadStepsLoop env (pre ++ s :: post) [] with
  | error e => simp [hl] at h
  | ok v =>
    obtain ⟨rs, res, pp⟩ := v
    simp only [hl, pure, Except.pure, Except.ok.injEq] at h
    subst h
    obtain ⟨x, _, hcase⟩ := loadStepsLoop_at pre s post [] rs res pp hl
    rcases hcase with ⟨hdup, _⟩ | ⟨_, out, hout, _, hsub⟩
    · have : s.lbl ∈ knownAfter pre [] := by simpa using hdup
      rcases (mem_knownAfter pre []).1 this with h1 | h1
      · cases h1
      · exact absurd h1 hlbl
    · exact hsub _ (step_logic_watched hout hn hv)

/-- ResourceFunction: the ValueFunction of every `overlayRef` entry (whose `skipIf` compiled and
    which has no inline `overlay`) is among the subscriptions `prepare_resource_function` returns. -/
theorem overlay_functions_watched {overlays : List OverlaySpec} {o : OverlaySpec} {n : String} {w : List Res}
    (h : rfWatched true overlays = some w) (ho : o ∈ overlays)
    (hskip : o.skipIf ≠ .parseFail) (hinl : o.hasInline = false) (hname : o.refName = some n) :
    ("ValueFunction", n) ∈ w := by
  simp only [rfWatched, if_true, Option.some.injEq] at h
  subst h
  exact overlayWatched_mem overlays o n ho hskip hinl hname

/-- FunctionTest: whenever `prepare_function_test` returns a prepared test, the function under
    test is watched, and so is every template name that could be resolved. -/
theorem function_under_test_watched {fn : Ref} {templates : List String} {w : List Res} {ok : Bool}
    (h : ftWatched fn ok templates = some w) :
    (fn.kind, fn.name) ∈ w ∧ ∀ t ∈ templates, ("ResourceTemplate", t) ∈ w := by
  unfold ftWatched at h
  cases hf : functionRefResource fn with
  | none => simp [hf] at h
  | some res =>
    simp only [hf] at h
    split at h
    · simp only [Option.some.injEq] at h
      subst h
      have hres : res = (fn.kind, fn.name) := by
        unfold functionRefResource at hf
        split at hf
        · cases hf
        · split at hf
          · cases hf
          · split at hf
            · cases hf; rfl
            · cases hf
      constructor
      · simp [hres]
      · intro t ht
        exact List.mem_cons_of_mem _ (List.mem_map.2 ⟨t, ht, rfl⟩)
    · cases h

/-! ## non-vacuity -/

open Cel in
/-- `steps.a.b + has(inputs.x.map(i, steps["cfg"]))`-like shapes: a reference inside a macro body
    inside a call argument, next to a nested member access -/
def sample : Cel :=
  liftMember (member (primary (identArg "has" [
    liftMember (member (memberDotArg (member (memberDot (var "inputs") "x")) "map" [
      liftMember (var "i"),
      liftMember (member (memberIndex (var "steps") (litExpr .STRING_LIT "\"cfg\"")))]))])))

example : extract sample = .ok ["inputs.x", "steps.cfg"] := by decide
example : LabelOk "cfg" := by decide

example : StaticRef sample "cfg" := by
  have base : StaticRef (Cel.memberIndex (Cel.var "steps")
      (Cel.litExpr .STRING_LIT (String.ofList ('"' :: "cfg".toList ++ ['"'])))) "cfg" :=
    .index "cfg" '"' (by decide) (Or.inl rfl)
  have e : String.ofList ('"' :: "cfg".toList ++ ['"']) = "\"cfg\"" := by decide
  rw [e] at base
  unfold sample Cel.liftMember Cel.expr1 Cel.or1 Cel.and1 Cel.rel1 Cel.add1 Cel.mul1 Cel.unaryMember
    Cel.member Cel.primary Cel.identArg Cel.memberDotArg
  simp only [List.isEmpty_cons, Bool.false_eq_true, if_false]
  have c1 : ∀ {k c cs n}, StaticRef c n → StaticRef (.node k (c :: cs)) n :=
    fun h => .inside _ _ _ _ List.mem_cons_self h
  have c2 : ∀ {k a c cs n}, StaticRef c n → StaticRef (.node k (a :: c :: cs)) n :=
    fun h => .inside _ _ _ _ (List.mem_cons_of_mem _ List.mem_cons_self) h
  have c3 : ∀ {k a b c cs n}, StaticRef c n → StaticRef (.node k (a :: b :: c :: cs)) n :=
    fun h => .inside _ _ _ _ (List.mem_cons_of_mem _ (List.mem_cons_of_mem _ List.mem_cons_self)) h
  -- expr … unary, member, primary, ident_arg → its exprlist → first argument
  refine c1 (c1 (c1 (c1 (c1 (c1 (c1 (c1 (c1 (c2 (c1 ?_))))))))))
  -- expr … unary, member, member_dot_arg → its exprlist → second argument (the macro body)
  refine c1 (c1 (c1 (c1 (c1 (c1 (c1 (c1 (c3 (c2 ?_)))))))))
  -- expr … unary, member → the member_index node
  exact c1 (c1 (c1 (c1 (c1 (c1 (c1 (c1 base)))))))

/-- a receiver the extractor cannot name (`f(steps.a).b`) is skipped, the reference inside it found -/
example : extract (Cel.liftMember (Cel.member (Cel.memberDot
    (Cel.member (Cel.primary (Cel.identArg "f" [Cel.liftMember (Cel.member (Cel.memberDot (Cel.var "steps") "a"))]))) "b")))
    = .ok ["steps.a"] := by decide

example : stepsName "steps.a.b" = some "a" := by decide
example : stepsName "steps2.x" = none := by decide
example : parentName "parent.spec.size" = some "spec.size" := by decide

/-- a two-step workflow whose first step names the second: rejected -/
example :
    (prepareWorkflow (fun _ => .ready false [])
      [{ label := some "one", ref := some ⟨"ValueFunction", "f"⟩, refSwitch := none, skipIf := .absent,
         forEach := none, state := .absent,
         inputs := .ast (Cel.liftMember (Cel.member (Cel.memberDot (Cel.var "steps") "two"))) },
       { label := some "two", ref := some ⟨"ValueFunction", "g"⟩, refSwitch := none, skipIf := .absent,
         forEach := none, state := .absent, inputs := .absent }]).toOption.map (fun r => (r.ready, r.watched))
    = some (.permFail, [("ValueFunction", "f"), ("ValueFunction", "g")]) := by decide

/-- a ready two-step workflow, translated: labels and recorded dependencies arrive in the run-time model -/
example :
    ((prepareWorkflow (fun _ => .ready false [])
      [{ label := some "one", ref := some ⟨"ValueFunction", "f"⟩, refSwitch := none, skipIf := .absent,
         forEach := none, state := .absent, inputs := .absent },
       { label := some "two", ref := some ⟨"ValueFunction", "g"⟩, refSwitch := none, skipIf := .absent,
         forEach := none, state := .absent,
         inputs := .ast (Cel.liftMember (Cel.member (Cel.memberDot (Cel.var "steps") "one"))) }]).toOption.map
      fun w => (w.ready, (Koreo.PrepToWorkflow.toSteps (fun _ => .bad)
        [{ label := some "one", ref := some ⟨"ValueFunction", "f"⟩, refSwitch := none, skipIf := .absent,
           forEach := none, state := .absent, inputs := .absent },
         { label := some "two", ref := some ⟨"ValueFunction", "g"⟩, refSwitch := none, skipIf := .absent,
           forEach := none, state := .absent,
           inputs := .ast (Cel.liftMember (Cel.member (Cel.memberDot (Cel.var "steps") "one"))) }]
        w.steps).map fun s => (s.label, s.deps)))
    = some (.ok, [("one", []), ("two", ["one"])]) := by decide

end Koreo.C14
