/-
  C13 — First false assertion decides the outcome; unevaluable ones fail safe.
  Property theorems only; helper lemmas are in `Koreo/Lemmas/Predicates.lean`.
  Model: `Koreo/Predicates.lean` (hand transcription of predicate_helpers.py,
  cel/evaluation.py `evaluate_predicates`, and the position of the two predicate lists in
  value_function/reconcile.py and resource_function/reconcile/__init__.py).

  Every theorem is about lists of *any* length; the positions `pre ++ p :: post` range over
  every split of every list.

  Interpretation (DESIGN.md section 7): a failing `message` of an assertion that *passes* is
  dropped by the filter together with its predicate and is not constrained by the property
  (`none_false_continues` holds whatever the messages are); a failing message or delay of any
  *false* assertion gives PermFail (`failed_member_of_false_permfail`).
-/
import Koreo.Lemmas.Predicates
import Koreo.Gen.PredicateTable

namespace Koreo.C13
open Koreo.Predicates

/-- no false assertion carries a member (message, delay) that could not be evaluated -/
def CleanFalse (ps : List Pred) : Prop := ∀ p ∈ ps, p.assert = .ok false → p.hasErr = false

/-! ## the model's dispatch is the one the source has now -/

/-- the translator could run `predicate_extractor`, `predicate_to_koreo_result` and `evaluate_predicates`
    of the tree under test on its probe inputs, and the order of the assertion kinds is determined -/
theorem extraction_ok :
    Koreo.Gen.PredicateTable.extractionOk = true ∧ Koreo.Gen.PredicateTable.orderDetermined = true := by decide

/-- the compiled filter keeps exactly the predicates the model's `filterNeg` keeps, in the same
    order, and is an error exactly when it is (probed on 16 assertion patterns); the syntactic scan,
    where it recognises the source's shape, agrees -/
theorem filter_matches_source :
    Koreo.Gen.PredicateTable.filterProbe = Predicates.filterProbeTable ∧
    (Koreo.Gen.PredicateTable.filterSuffix = "unknown" ∨
     Koreo.Gen.PredicateTable.filterSuffix = Predicates.filterSuffix) := by decide

/-- same map keys, tried in the same order, answering with the same outcome class; no key at all is
    the unknown kind -/
theorem table_matches_source :
    Koreo.Gen.PredicateTable.cases = Predicates.caseTable ∧
    Koreo.Gen.PredicateTable.bareOutcome = "PermFail" := by decide

/-- only the first remaining predicate is looked at (its message and delay are returned); the error
    scan covers every survivor and precedes the match; a raising program, an error value and a
    non-list answer PermFail; no program means continue -/
theorem control_flow_matches_source :
    Koreo.Gen.PredicateTable.firstOnly = Predicates.firstOnlyTable ∧
    Koreo.Gen.PredicateTable.evaluatePredicates = Predicates.evaluatePredicatesTable ∧
    Koreo.Gen.PredicateTable.noProgram = "continue" ∧
    Koreo.Gen.PredicateTable.scanBeforeMatch ≠ "no" := by decide

/-- the retry arm's delay conversion is the one the delay abstraction assumes -/
theorem delay_conversion_matches_source :
    Koreo.Gen.PredicateTable.delays = Predicates.delayTable := by decide

/-! ## every assertion is a boolean -/

/-- the first false assertion alone decides: whatever comes after it (true or false, of any
    kind) the answer is the one its own predicate gives -/
theorem all_bool_first_false_decides (pre post : List Pred) (p : Pred)
    (hbool : AllBool (pre ++ p :: post)) (hclean : CleanFalse (pre ++ p :: post))
    (hpre : ∀ q ∈ pre, q.assert = .ok true) (hp : p.assert = .ok false) :
    decide (pre ++ p :: post) = outcomeOf p := by
  rw [decide_allBool _ hbool, falseOnes_split pre post p hpre hp]
  have : (p :: falseOnes post).any Pred.hasErr = false := by
    rw [List.any_eq_false]
    intro q hq
    have hq' : q ∈ pre ++ p :: post ∧ q.assert = .ok false := by
      rcases List.mem_cons.mp hq with rfl | hq
      · exact ⟨by simp, hp⟩
      · have := mem_falseOnes.mp hq
        exact ⟨by simp [this.1], this.2⟩
    simp [hclean q hq'.1 hq'.2]
  simp [this, toResult]

/-- … and that answer is its skip / depSkip / retry / permFail outcome with its own message and
    delay, or "continue" for the ok kind -/
theorem first_false_returns_its_outcome (pre post : List Pred) (p : Pred)
    (hbool : AllBool (pre ++ p :: post)) (hclean : CleanFalse (pre ++ p :: post))
    (hpre : ∀ q ∈ pre, q.assert = .ok true) (hp : p.assert = .ok false) :
    (p.kind = .ok → decide (pre ++ p :: post) = none) ∧
    (∀ m, p.kind = .depSkip → p.message = .ok m → decide (pre ++ p :: post) = some (.depSkip m)) ∧
    (∀ m, p.kind = .skip → p.message = .ok m → decide (pre ++ p :: post) = some (.skip m)) ∧
    (∀ m d, p.kind = .retry → p.message = .ok m → p.delay = .ok d →
        decide (pre ++ p :: post) = some (.retry d m)) ∧
    (∀ m, p.kind = .permFail → p.message = .ok m → decide (pre ++ p :: post) = some (.permFail m)) := by
  rw [all_bool_first_false_decides pre post p hbool hclean hpre hp]
  refine ⟨?_, ?_, ?_, ?_, ?_⟩
  · intro hk; simp [outcomeOf, hk]
  · intro m hk hm; simp [outcomeOf, hk, hm]
  · intro m hk hm; simp [outcomeOf, hk, hm]
  · intro m d hk hm hd; simp [outcomeOf, hk, hm, hd]
  · intro m hk hm; simp [outcomeOf, hk, hm]

/-- "alone": two lists that agree up to and including their first false assertion get the same answer -/
theorem later_predicates_irrelevant (pre post post' : List Pred) (p : Pred)
    (hbool : AllBool (pre ++ p :: post)) (hclean : CleanFalse (pre ++ p :: post))
    (hbool' : AllBool (pre ++ p :: post')) (hclean' : CleanFalse (pre ++ p :: post'))
    (hpre : ∀ q ∈ pre, q.assert = .ok true) (hp : p.assert = .ok false) :
    decide (pre ++ p :: post) = decide (pre ++ p :: post') := by
  rw [all_bool_first_false_decides pre post p hbool hclean hpre hp,
      all_bool_first_false_decides pre post' p hbool' hclean' hpre hp]

/-- if no assertion is false the Function continues (whatever the kinds, messages and delays are) -/
theorem none_false_continues (ps : List Pred) (h : ∀ p ∈ ps, p.assert = .ok true) :
    decide ps = none := by
  have hb : AllBool ps := fun p hp => ⟨true, h p hp⟩
  rw [decide_allBool ps hb, falseOnes_allTrue ps h]
  rfl

/-- a false assertion of the `ok` kind stops the checking: later false assertions, of whatever
    kind, are not consulted and the Function continues -/
theorem ok_kind_stops_checking (pre post : List Pred) (p : Pred)
    (hbool : AllBool (pre ++ p :: post)) (hclean : CleanFalse (pre ++ p :: post))
    (hpre : ∀ q ∈ pre, q.assert = .ok true) (hp : p.assert = .ok false) (hk : p.kind = .ok) :
    decide (pre ++ p :: post) = none :=
  (first_false_returns_its_outcome pre post p hbool hclean hpre hp).1 hk

/-! ## something cannot be evaluated, or is not a boolean -/

/-- a non-boolean assertion at any position of any list, whatever the other predicates are -/
theorem nonbool_anywhere_permfail (pre post : List Pred) (p : Pred) (hp : p.assert = .nonBool) :
    decide (pre ++ p :: post) = some (.evalFail .assertion) ∧
    (Decision.evalFail Why.assertion).cls = .permFail :=
  ⟨decide_of_negate_none _ ⟨p, by simp, by simp [hp, negate]⟩, rfl⟩

/-- an assertion whose evaluation fails, at any position of any list -/
theorem failed_assert_permfail (pre post : List Pred) (p : Pred) (hp : p.assert = .failed) :
    decide (pre ++ p :: post) = some (.evalFail .assertion) ∧
    (Decision.evalFail Why.assertion).cls = .permFail :=
  ⟨decide_of_negate_none _ ⟨p, by simp, by simp [hp, negate]⟩, rfl⟩

/-- a message or delay that cannot be evaluated, on any *false* assertion (not only the first) -/
theorem failed_member_of_false_permfail (ps : List Pred) (p : Pred) (hbool : AllBool ps)
    (hmem : p ∈ ps) (hp : p.assert = .ok false) (herr : p.hasErr = true) :
    decide ps = some (.evalFail .member) ∧ (Decision.evalFail Why.member).cls = .permFail := by
  refine ⟨?_, rfl⟩
  rw [decide_allBool ps hbool]
  have : (falseOnes ps).any Pred.hasErr = true :=
    List.any_eq_true.mpr ⟨p, mem_falseOnes.mpr ⟨hmem, hp⟩, herr⟩
  simp [this]

/-- a retry delay that evaluates but is not an integer -/
theorem bad_delay_permfail (pre post : List Pred) (p : Pred) (m : String)
    (hbool : AllBool (pre ++ p :: post)) (hclean : CleanFalse (pre ++ p :: post))
    (hpre : ∀ q ∈ pre, q.assert = .ok true) (hp : p.assert = .ok false)
    (hk : p.kind = .retry) (hm : p.message = .ok m) (hd : p.delay = .notInt) :
    decide (pre ++ p :: post) = some (.evalFail .badDelay) := by
  rw [all_bool_first_false_decides pre post p hbool hclean hpre hp]
  simp [outcomeOf, hk, hm, hd]

/-- fail-safe: whenever the Function is allowed to continue, every assertion was a boolean and
    either none was false or the first false one was of the ok kind — an undecidable list never
    lets the body run -/
theorem continue_only_if (ps : List Pred) (h : decide ps = none) :
    AllBool ps ∧ (falseOnes ps = [] ∨ ∃ p rest, falseOnes ps = p :: rest ∧ p.kind = .ok) := by
  have hb : AllBool ps := by
    intro p hp
    cases ha : p.assert with
    | ok b => exact ⟨b, rfl⟩
    | nonBool =>
      have := decide_of_negate_none ps ⟨p, hp, by simp [ha, negate]⟩
      rw [h] at this; cases this
    | failed =>
      have := decide_of_negate_none ps ⟨p, hp, by simp [ha, negate]⟩
      rw [h] at this; cases this
  refine ⟨hb, ?_⟩
  rw [decide_allBool ps hb] at h
  split at h
  · cases h
  · cases hf : falseOnes ps with
    | nil => exact .inl rfl
    | cons p rest =>
      refine .inr ⟨p, rest, rfl, ?_⟩
      rw [hf] at h
      exact (outcomeOf_none_iff p).mp h

/-- every non-continue answer is one of the four non-Ok classes, and an unevaluable list is PermFail -/
theorem unevaluable_is_permfail (w : Why) : (Decision.evalFail w).cls = .permFail := rfl

/-! ## the body and the cluster -/

/-- ValueFunction: when the preconditions do not say "continue", nothing else is evaluated and
    their answer is the Function's outcome -/
theorem decided_means_body_not_evaluated (pre : List Pred) (hasReturn : Bool) (d : Decision)
    (h : decide pre = some d) :
    vfRun pre hasReturn = ⟨.decided d, [.preconditions]⟩ := by
  simp [vfRun, h]

/-- ResourceFunction: the same for preconditions (no locals, no apiConfig, no template, no
    postconditions, no return) … -/
theorem rf_decided_means_body_not_evaluated (pre post : List Pred) (lk : Lookup) (crud : Crud)
    (d : Decision) (h : decide pre = some d) :
    rfRun pre post lk crud = ⟨.decided d, [.preconditions]⟩ := by
  simp [rfRun, rfRunR, h]

/-- … and in particular the cluster is not touched — not even by the kind-to-plural discovery
    of a Function without `apiConfig.plural`, and whether or not the cluster knows the kind -/
theorem precondition_decided_means_no_api (pre post : List Pred) (lk : Lookup) (crud : Crud)
    (d : Decision) (h : decide pre = some d) :
    Ev.api ∉ (rfRun pre post lk crud).trace := by
  rw [rf_decided_means_body_not_evaluated pre post lk crud d h]
  simp

/-- postconditions sit between the Kubernetes part and `return`: when they decide, `return` is
    not evaluated and their answer is the Function's outcome -/
theorem postcondition_decided_means_return_not_evaluated (pre post : List Pred) (lk : Lookup) (crud : Crud)
    (d : Decision) (hpre : decide pre = none) (hlk : lk ≠ .unknownKind) (hok : crud.isOk = true)
    (h : decide post = some d) :
    (rfRun pre post lk crud).out = .decided d ∧ Ev.returnValue ∉ (rfRun pre post lk crud).trace := by
  cases crud <;> cases lk <;> simp_all [rfRun, rfRunR, Crud.trace, Crud.isOk, Lookup.trace]

/-- in particular for `deleteIfExists` with the object already gone (an Ok result that is the empty
    map): the postconditions are still evaluated and decide -/
theorem postconditions_checked_for_deleted_object (pre post : List Pred) (d : Decision)
    (hpre : decide pre = none) (h : decide post = some d) :
    (rfRun pre post .notNeeded .deletedAbsent).out = .decided d ∧
    Ev.postconditions ∈ (rfRun pre post .notNeeded .deletedAbsent).trace := by
  simp [rfRun, rfRunR, hpre, h, Crud.isOk, Crud.trace, Lookup.trace]

/-- a ResourceFunction without `return`: the postconditions are evaluated all the same and a deciding
    list gives the outcome; only when they continue is the (absent) return skipped -/
theorem postconditions_checked_without_return (pre post : List Pred) (lk : Lookup) (crud : Crud)
    (d : Decision) (hpre : decide pre = none) (hlk : lk ≠ .unknownKind) (hok : crud.isOk = true)
    (h : decide post = some d) :
    (rfRunR false pre post lk crud).out = .decided d ∧
    Ev.postconditions ∈ (rfRunR false pre post lk crud).trace := by
  cases crud <;> cases lk <;> simp_all [rfRunR, Crud.trace, Crud.isOk, Lookup.trace]

/-- conversely the discovery does happen once the preconditions continue (the theorem above is not
    vacuous), and a failing discovery is an outcome of the body, never of the preconditions -/
theorem continue_means_discovery_happens (pre post : List Pred) (crud : Crud) (h : decide pre = none) :
    rfRun pre post .unknownKind crud =
      ⟨.body "lookupFailed", [.preconditions, .locals, .apiConfig, .api]⟩ := by
  simp [rfRun, rfRunR, h, Lookup.trace]

/-- conversely, "continue" does let the body run (so the two theorems above are not vacuous) -/
theorem continue_means_body_evaluated (pre : List Pred) (h : decide pre = none) :
    vfRun pre true = ⟨.body "return", [.preconditions, .locals, .returnValue]⟩ := by
  simp [vfRun, h]

/-! ## non-vacuity: concrete lists that meet the hypotheses -/

private def t (k : Kind) : Pred := ⟨.ok true, k, .ok "t", .ok 1⟩
private def f (k : Kind) (m : String) : Pred := ⟨.ok false, k, .ok m, .ok 7⟩

/-- three assertions fail at once; the first false one (retry) wins over a later permFail -/
example : decide [t .permFail, f .retry "first", t .skip, f .permFail "later", f .skip "last"]
    = some (.retry 7 "first") := by decide

/-- a failing message on a passing assertion is ignored, on a false one it is PermFail -/
example : decide [⟨.ok true, .skip, .failed, .ok 0⟩, f .depSkip "d"] = some (.depSkip "d") := by decide
example : decide [f .depSkip "d", ⟨.ok false, .skip, .failed, .ok 0⟩] = some (.evalFail .member) := by decide

/-- ok kind first: the later permFail is not consulted -/
example : decide [f .ok "", f .permFail "p"] = none := by decide

/-- a non-boolean after a false assertion still gives PermFail -/
example : decide [f .skip "s", ⟨.nonBool, .ok, .ok "", .ok 0⟩] = some (.evalFail .assertion) := by decide

example : Ev.api ∉ (rfRun [f .skip "s"] [] .found .createRetry).trace := by decide
example : Ev.api ∈ (rfRun [t .skip] [] .notNeeded .createRetry).trace := by decide
example : (rfRun [f .skip "s"] [] .unknownKind .okMatch).out = .decided (.skip "s") := by decide

end Koreo.C13
