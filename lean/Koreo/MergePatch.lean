/-
  RFC 7386 JSON merge-patch — the API server's PATCH semantics as implemented by the
  in-memory cluster (harness/cluster.py `merge_patch`).  Environment model, shared by C04/C05/C08.
-/
import Koreo.Json
namespace Koreo
open JVal

mutual
/-- `merge_patch(target, patch)` -/
def mergePatch (target : JVal) : JVal → JVal
  | .obj pkvs =>
    .obj (mergePatchO (match target with | .obj tkvs => tkvs | _ => []) pkvs)
  | p => p
/-- apply the patch bindings one after the other to the target's bindings -/
def mergePatchO (tkvs : List (String × JVal)) : List (String × JVal) → List (String × JVal)
  | [] => tkvs
  | (k, .null) :: rest => mergePatchO (JVal.erase k tkvs) rest
  | (k, v) :: rest =>
    mergePatchO (JVal.insert k (mergePatch ((JVal.lookup k tkvs).getD .null) v) tkvs) rest
end

end Koreo
