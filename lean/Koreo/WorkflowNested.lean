/-
  C02 — nested asynchronous semantics: a schedule may interleave completion events of the INNER steps of
  sub-workflows (and of forEach iterations whose Logic is a sub-workflow) with the outer ones.

  * an event is addressed by a path: `inside l idx e` = event `e` of the sub-workflow invocation made by step `l`
    (`idx = some i`: by its forEach iteration `i`), `here e` = an event of this workflow;
  * an inner event is enabled when the enclosing step has started — it is not done, its dependencies are done, its
    gate let the Logic run (for an iteration: the item exists and has not finished), and the Logic evaluated there
    is a sub-workflow with a known definition — and the event is enabled inside that invocation, whose trigger is
    the inputs of that evaluation;
  * a step (iteration) whose Logic is a sub-workflow completes only when every inner step is done; its value is
    what `reconcile_workflow` hands back: the inner *state* when the inner overall outcome is Ok, that outcome
    otherwise (`subStepOut ∘ collect`, read in the inner LISTED order);
  * Functions — and sub-workflows below the nesting depth `n` or without a definition — are answered by `base`,
    exactly as in the reference `runAt eval base defs n`.

  Core Lean only.  The flat semantics of `Koreo/Workflow.lean` is untouched.
-/
import Koreo.Workflow

namespace Koreo.Workflow
open Koreo Koreo.Result

/-- the Function / sub-workflow a Logic evaluates on the given inputs (`none`: a refSwitch that selects nothing) -/
def logicTarget (eval : EvalFn) (act : List (String × JVal)) (inputs : JVal) : Logic → Option Target
  | .ref t => some t
  | .switch on cases dflt =>
    match select eval on cases dflt act inputs with
    | .hit t => some t
    | _ => none

/-- what a sub-workflow step hands back (`subOut` without the API log) -/
def subStepOut (r : WfResult) : StepOut :=
  match r.overall with
  | .ok _ => ⟨.ok (.obj r.state), r.resourceIds⟩
  | o => ⟨o, r.resourceIds⟩

/-- how one evaluation of a Logic is answered one level above the bottom: at once (Function, nothing selected,
    sub-workflow without definition), or by running the named sub-workflow definition -/
inductive Answer where
  | direct (o : StepOut)
  | nested (w : Workflow)

def answerOf (eval : EvalFn) (base : RunFn) (defs : Env) (l : Label) (idx : Option Nat)
    (act : List (String × JVal)) (inputs : JVal) (logic : Logic) : Answer :=
  match logicTarget eval act inputs logic with
  | some (.wf name) =>
    match lookupL name defs with
    | some w => .nested w
    | none => .direct (runLogic eval base l idx act inputs logic).1
  | _ => .direct (runLogic eval base l idx act inputs logic).1

/-- the evaluation a gate lets happen at position `idx`: its activation and the inputs handed over -/
def Gate.evalAt : Gate → Option Nat → Option (List (String × JVal) × JVal)
  | .single act inputs, none => some (act, inputs)
  | .each act inputs key items, some i => (items[i]?).map fun it => (act, setKey key it inputs)
  | _, _ => none

/-- who invoked a sub-workflow: the step, and the forEach iteration if any -/
abbrev Frame := Label × Option Nat

/-- asynchronous state of one workflow invocation together with the invocations nested in it -/
inductive NState where
  | mk (top : AState) (subs : List (Frame × NState))

def NState.top : NState → AState | .mk a _ => a
def NState.subs : NState → List (Frame × NState) | .mk _ s => s
def NState.empty : NState := .mk {} []
instance : Inhabited NState := ⟨.empty⟩

def lookupS (k : Frame) : List (Frame × NState) → Option NState
  | [] => none
  | (k', v) :: rest => if k' = k then some v else lookupS k rest

def setS (k : Frame) (v : NState) : List (Frame × NState) → List (Frame × NState)
  | [] => [(k, v)]
  | (k', v') :: rest => if k' = k then (k, v) :: rest else (k', v') :: setS k v rest

inductive NEvent where
  | here (e : Event)
  | inside (l : Label) (idx : Option Nat) (e : NEvent)
  deriving Repr, Inhabited

def allDone (w : Workflow) (a : AState) : Bool := w.steps.all fun s => isDone a s.label

/-- the answer of one Logic evaluation given the nested invocations so far; a sub-workflow answers only once all
    its steps are done -/
def evalOutcome (eval : EvalFn) (base : RunFn) (defs : Env) (subs : List (Frame × NState))
    (l : Label) (idx : Option Nat) (act : List (String × JVal)) (inputs : JVal) (logic : Logic) : Option StepOut :=
  match answerOf eval base defs l idx act inputs logic with
  | .direct o => some o
  | .nested w =>
    let sub := (lookupS (l, idx) subs).getD .empty
    if allDone w sub.top then some (subStepOut (collect eval w sub.top.done)) else none

/-- `stepEvent` with the answer of a Logic evaluation left open (`none`: not available yet) -/
def stepEventG (ans : Label → Option Nat → List (String × JVal) → JVal → Logic → Option StepOut)
    (eval : EvalFn) (trig : JVal) (wf : Workflow) (st : AState) : Event → Option AState
  | .step l =>
    match findStep l wf.steps with
    | none => none
    | some s =>
      if isDone st l || !(s.deps.all (isDone st)) then none
      else
        match gate eval trig (depRes st.done s.deps) s with
        | .done o => some { st with done := st.done ++ [(l, o)] }
        | .single act inputs =>
          match ans l none act inputs s.logic with
          | some o => some { st with done := st.done ++ [(l, o)] }
          | none => none
        | .each _ _ _ items =>
          match gatherItems st l 0 items.length with
          | none => none
          | some outs => some { st with done := st.done ++ [(l, combineItems outs)] }
  | .item l i =>
    match findStep l wf.steps with
    | none => none
    | some s =>
      if isDone st l || !(s.deps.all (isDone st)) || (lookupI l i st.items).isSome then none
      else
        match gate eval trig (depRes st.done s.deps) s with
        | .each act inputs key items =>
          match items[i]? with
          | none => none
          | some it =>
            match ans l (some i) act (setKey key it inputs) s.logic with
            | some o => some { st with items := st.items ++ [((l, i), o)] }
            | none => none
        | _ => none

/-- one path-addressed completion event at nesting depth `n` (`none`: not enabled) -/
def nstep (eval : EvalFn) (base : RunFn) (defs : Env) :
    Nat → Workflow → JVal → NState → NEvent → Option NState
  | 0, wf, trig, st, .here e => (stepEvent eval base trig wf st.top e).map fun a => .mk a st.subs
  | 0, _, _, _, .inside .. => none
  | _ + 1, wf, trig, st, .here e =>
    (stepEventG (evalOutcome eval base defs st.subs) eval trig wf st.top e).map fun a => .mk a st.subs
  | n + 1, wf, trig, st, .inside l idx e' =>
    match findStep l wf.steps with
    | none => none
    | some s =>
      if isDone st.top l || !(s.deps.all (isDone st.top)) ||
          (idx.any fun i => (lookupI l i st.top.items).isSome) then none
      else
        match (gate eval trig (depRes st.top.done s.deps) s).evalAt idx with
        | none => none
        | some (act, inp) =>
          match answerOf eval base defs l idx act inp s.logic with
          | .direct _ => none
          | .nested w =>
            match nstep eval base defs n w inp ((lookupS (l, idx) st.subs).getD .empty) e' with
            | none => none
            | some sub' => some (.mk st.top (setS (l, idx) sub' st.subs))

def nrunEvents (eval : EvalFn) (base : RunFn) (defs : Env) (n : Nat) (wf : Workflow) (trig : JVal) :
    List NEvent → NState → Option NState
  | [], st => some st
  | e :: rest, st =>
    match nstep eval base defs n wf trig st e with
    | none => none
    | some st' => nrunEvents eval base defs n wf trig rest st'

/-- every event of the nested schedule was enabled when it happened and afterwards every (outer) step is done -/
def ValidCompleteNested (eval : EvalFn) (base : RunFn) (defs : Env) (n : Nat) (trig : JVal) (wf : Workflow)
    (σ : List NEvent) : Prop :=
  ∃ st, nrunEvents eval base defs n wf trig σ .empty = some st ∧ ∀ s ∈ wf.steps, isDone st.top s.label = true

def runAsyncNested (eval : EvalFn) (base : RunFn) (defs : Env) (n : Nat) (trig : JVal) (wf : Workflow)
    (σ : List NEvent) : Option WfResult :=
  (nrunEvents eval base defs n wf trig σ .empty).map fun st => collect eval wf st.top.done

end Koreo.Workflow
