/-
  C01 / C02 (and the base of C09) — model of `src/koreo/workflow/reconcile.py`.

  * `gate` + `stepResult`   = the body of `_reconcile_step` (first non-Ok dependency ⇒ DepSkip,
                              `steps` built from Ok values only, inputs, skipIf must be bool,
                              forEach / logic), `_reconcile_step_logic`, `_reconcile_ref_switch`,
                              `_for_each_reconciler`
  * `runSteps`/`reconcile` = the sequential reference semantics (steps folded in listed order)
  * `collect`               = `_reconcile_steps`' post-loop + the tail of `reconcile_workflow`
                              (results / state / conditions read in LISTED order, overall outcome
                              through the C03 `unwrapped_combine` model)
  * `runAsync`              = the asynchronous semantics: a schedule is a list of completion events
                              (a step, or one forEach iteration); `collect` is applied afterwards
  * `runAt`                 = sub-workflows: a `Target.wf name` is run by reconciling the named
                              definition one level down (`Env`), its *state* being the Ok value

  CEL evaluation (`eval`) and the behaviour of Functions (`run`) are oracle parameters: nothing in
  Koreo's own logic depends on what they compute, only on what comes back.  Core Lean only.
-/
import Koreo.Json
import Koreo.Result

namespace Koreo.Workflow
open Koreo Koreo.Result

abbrev Label := String

/-! ## data -/

/-- outcome of a step / Function, messages dropped (they never influence control flow) -/
inductive StepRes where
  | ok (v : JVal)
  | skip
  | depSkip
  | retry (d : Int)
  | permFail
  deriving Repr, Inhabited

def StepRes.isOk : StepRes → Bool | .ok _ => true | _ => false
def StepRes.isErr : StepRes → Bool | .retry _ | .permFail => true | _ => false
def StepRes.okVal? : StepRes → Option JVal | .ok v => some v | _ => none

/-- expressions are opaque to the model; this concrete syntax is what the generators emit
    (literal, `root.k1.k2`, a map / a list of expressions, something that fails) -/
inductive Expr where
  | lit (v : JVal)
  | path (root : String) (keys : List String)
  | mapE (kvs : List (String × Expr))
  | listE (xs : List Expr)
  /-- a (custom) function applied to arguments: `flatten`, `overlay`, `size`, `in` -/
  | callE (f : String) (args : List Expr)
  | bad
  deriving Repr, Inhabited

/-- the CEL oracle: `none` = the evaluation raised or produced an error value (PermFail) -/
abbrev EvalFn := Expr → JVal → Option JVal

/-- what a `ref` names -/
inductive Target where
  | fn (id : String)      -- ValueFunction / ResourceFunction
  | wf (name : String)    -- sub-workflow
  deriving Repr, DecidableEq, Inhabited

inductive Logic where
  | ref (t : Target)
  /-- `cases` holds every case (the default one included), `dflt` the default case's target -/
  | switch (on : Expr) (cases : List (String × Target)) (dflt : Option Target)
  deriving Repr, Inhabited

structure ForEach where
  itemIn : Expr
  inputKey : String
  deriving Repr, Inhabited

structure Step where
  label : Label
  /-- `dynamic_input_keys`: labels of the steps this one references -/
  deps : List Label := []
  inputs : Option Expr := none
  skipIf : Option Expr := none
  forEach : Option ForEach := none
  logic : Logic
  state : Option Expr := none
  /-- `condition: {type, name}` -/
  cond : Option (String × String) := none
  deriving Repr, Inhabited

structure Workflow where
  name : String
  steps : List Step
  deriving Repr, Inhabited

/-- what a Function (or sub-workflow) answers: outcome, resource id(s), API requests it issued -/
structure FnOut where
  res : StepRes
  rid : JVal := .null
  api : List String := []
  deriving Repr, Inhabited

/-- the Function oracle -/
abbrev RunFn := Target → JVal → FnOut

/-- `StepResult(result, resource_ids)` -/
structure StepOut where
  res : StepRes
  rid : JVal := .null
  deriving Repr, Inhabited

/-- one evaluation of a Logic on behalf of a step (`idx` = forEach position) -/
structure Call where
  step : Label
  idx : Option Nat
  target : Target
  inputs : JVal
  api : List String
  deriving Repr, Inhabited

/-! ## one step: `_reconcile_step` -/

def lookupL {α : Type} (l : Label) : List (Label × α) → Option α
  | [] => none
  | (k, v) :: rest => if k = l then some v else lookupL l rest

/-- results of the dependencies, in `deps` order; a label with no entry blocks like a non-Ok one
    (cannot happen for a well-formed workflow: `task_map[dependency]` would raise) -/
def depRes (env : List (Label × StepOut)) (deps : List Label) : List (Label × StepRes) :=
  deps.map fun d => (d, match lookupL d env with | some o => o.res | none => .depSkip)

/-- `ok_outcomes`: the dependencies' values if *all* are Ok, `none` at the first non-Ok one -/
def okVals : List (Label × StepRes) → Option (List (String × JVal))
  | [] => some []
  | (l, .ok v) :: rest => (okVals rest).map ((l, v) :: ·)
  | _ :: _ => none

/-- `workflow_inputs`: `{"parent": trigger}` without dependencies, else `{"steps": …, "parent": …}` -/
def activation (trig : JVal) (deps : List Label) (oks : List (String × JVal)) : List (String × JVal) :=
  if deps.isEmpty then [("parent", trig)] else [("steps", .obj oks), ("parent", trig)]

/-- `inputs = MapType()` when the step has none -/
def evalInputs (eval : EvalFn) (s : Step) (act : List (String × JVal)) : Option JVal :=
  match s.inputs with
  | none => some (.obj [])
  | some e => eval e (.obj act)

inductive SkipDecision where
  | go | skip | fail
  deriving Repr, DecidableEq

/-- `skipIf`: PermFail when it cannot be evaluated or is not a bool -/
def skipDecision (eval : EvalFn) (s : Step) (act : List (String × JVal)) : SkipDecision :=
  match s.skipIf with
  | none => .go
  | some e => match eval e (.obj act) with
    | some (.bool true) => .skip
    | some (.bool false) => .go
    | _ => .fail

/-- how far a step gets before any Logic is evaluated -/
inductive Gate where
  /-- finished without evaluating the Logic -/
  | done (o : StepOut)
  /-- evaluate the Logic once on `inputs` -/
  | single (act : List (String × JVal)) (inputs : JVal)
  /-- evaluate the Logic once per item (non-empty), item placed under `key` -/
  | each (act : List (String × JVal)) (inputs : JVal) (key : String) (items : List JVal)
  deriving Repr

def gate (eval : EvalFn) (trig : JVal) (dr : List (Label × StepRes)) (s : Step) : Gate :=
  match okVals dr with
  | none => .done ⟨.depSkip, .null⟩
  | some oks =>
    let act := activation trig s.deps oks
    match evalInputs eval s act with
    | none => .done ⟨.permFail, .null⟩
    | some inputs =>
      match skipDecision eval s act with
      | .fail => .done ⟨.permFail, .null⟩
      | .skip => .done ⟨.skip, .null⟩
      | .go =>
        match s.forEach with
        | none => .single act inputs
        | some fe =>
          match eval fe.itemIn (.obj act) with
          | some (.arr []) => .done ⟨.ok (.arr []), .null⟩
          | some (.arr items) => .each act inputs fe.inputKey items
          | _ => .done ⟨.permFail, .null⟩

/-- `iterated_inputs[input_key] = map_value` on a (deep-copied) map -/
def setKey (k : String) (v : JVal) : JVal → JVal
  | .obj kvs => .obj (JVal.insert k v kvs)
  | j => j

/-- the inputs each evaluation of the Logic receives -/
def Gate.inputsAt : Gate → Option Nat → Option JVal
  | .single _ inputs, none => some inputs
  | .each _ inputs key items, some i => (items[i]?).map fun it => setKey key it inputs
  | _, _ => none

def runTarget (run : RunFn) (lbl : Label) (idx : Option Nat) (t : Target) (inputs : JVal) :
    StepOut × List Call :=
  let o := run t inputs
  (⟨o.res, o.rid⟩, [⟨lbl, idx, t, inputs, o.api⟩])

/-- what `switchOn` selects -/
inductive Sel where
  | evalFail | badType | noMatch | hit (t : Target)
  deriving Repr, DecidableEq

def orDefault (dflt : Option Target) : Option Target → Sel
  | some t => .hit t
  | none => match dflt with | some t => .hit t | none => .noMatch

/-- `logic_map.get(switch_value, default_logic)`; case keys are strings, so an int never matches a key;
    the switch expression sees `{"inputs": inputs} | workflow_inputs` -/
def select (eval : EvalFn) (on : Expr) (cases : List (String × Target)) (dflt : Option Target)
    (act : List (String × JVal)) (inputs : JVal) : Sel :=
  match eval on (.obj (("inputs", inputs) :: act)) with
  | none => .evalFail
  | some (.str s) => orDefault dflt (lookupL s cases)
  | some (.int _) => orDefault dflt none
  | some _ => .badType

/-- `_reconcile_step_logic` / `_reconcile_ref_switch` -/
def runLogic (eval : EvalFn) (run : RunFn) (lbl : Label) (idx : Option Nat)
    (act : List (String × JVal)) (inputs : JVal) : Logic → StepOut × List Call
  | .ref t => runTarget run lbl idx t inputs
  | .switch on cases dflt =>
    match select eval on cases dflt act inputs with
    | .hit t => runTarget run lbl idx t inputs
    | _ => (⟨.permFail, .null⟩, [])

def StepRes.toOutcome : StepRes → Outcome JVal
  | .ok v => .ok (.raw v) none
  | .skip => .skip none none
  | .depSkip => .depSkip none none
  | .retry d => .retry d none none
  | .permFail => .permFail none none

def StepRes.ofOutcome : Outcome JVal → StepRes
  | .ok d _ => .ok (.arr (unwrapData d))
  | .skip .. => .skip
  | .depSkip .. => .depSkip
  | .retry d .. => .retry d
  | .permFail .. => .permFail

def StepRes.ofCombined : Combined JVal → StepRes
  | .okList vs _ => .ok (.arr vs)
  | .nonOk o => .ofOutcome o

/-- `_outcome_encoder`: skips inside a forEach result list are rendered as strings -/
def encodeItem : StepRes → JVal
  | .ok v => v
  | .skip => .str "<skip>"
  | .depSkip => .str "<depSkip>"
  | _ => .null

/-- tail of `_for_each_reconciler`: errors combined (C03 model), else the list in source order -/
def combineItems (outs : List StepOut) : StepOut :=
  let errs := (outs.filter fun o => o.res.isErr).map fun o => o.res.toOutcome
  let comb := StepRes.ofCombined (Result.combine errs)
  let rids := JVal.arr (outs.map (·.rid))
  if comb.isErr then ⟨comb, rids⟩
  else ⟨.ok (.arr (outs.map fun o => encodeItem o.res)), rids⟩

/-- the per-item evaluations of a forEach step, source position attached -/
def runItems (eval : EvalFn) (run : RunFn) (lbl : Label) (act : List (String × JVal)) (inputs : JVal)
    (key : String) (logic : Logic) : Nat → List JVal → List (StepOut × List Call)
  | _, [] => []
  | i, it :: rest =>
    runLogic eval run lbl (some i) act (setKey key it inputs) logic ::
      runItems eval run lbl act inputs key logic (i + 1) rest

/-- the body of `_reconcile_step`: result and the Logic evaluations made on the step's behalf -/
def stepResult (eval : EvalFn) (run : RunFn) (trig : JVal) (dr : List (Label × StepRes)) (s : Step) :
    StepOut × List Call :=
  match gate eval trig dr s with
  | .done o => (o, [])
  | .single act inputs => runLogic eval run s.label none act inputs s.logic
  | .each act inputs key items =>
    let rs := runItems eval run s.label act inputs key s.logic 0 items
    (combineItems (rs.map (·.1)), rs.flatMap (·.2))

/-! ## sequential reference semantics -/

/-- results so far (listed order) and the calls made -/
structure Trace where
  results : List (Label × StepOut) := []
  calls : List Call := []
  deriving Repr, Inhabited

def runSteps (eval : EvalFn) (run : RunFn) (trig : JVal) : List Step → Trace → Trace
  | [], t => t
  | s :: rest, t =>
    let r := stepResult eval run trig (depRes t.results s.deps) s
    runSteps eval run trig rest ⟨t.results ++ [(s.label, r.1)], t.calls ++ r.2⟩

def trace (eval : EvalFn) (run : RunFn) (trig : JVal) (wf : Workflow) : Trace :=
  runSteps eval run trig wf.steps {}

/-! ## `collect`: the post-loop of `_reconcile_steps` and the tail of `reconcile_workflow` -/

def reason : StepRes → String
  | .depSkip => "DepSkip"
  | .skip => "Skip"
  | .retry _ => "Wait"
  | .permFail => "Failure"
  | .ok _ => "Ready"

/-- `state.update(step_state)` -/
def updateState (st : List (String × JVal)) (upd : List (String × JVal)) : List (String × JVal) :=
  upd.foldl (fun acc kv => JVal.insert kv.1 kv.2 acc) st

/-- contribution of one finished step to the state: `some kvs` to merge, or an error note -/
inductive StateStep where
  | none | upd (kvs : List (String × JVal)) | err
  deriving Repr

def stateStep (eval : EvalFn) (s : Step) (o : StepOut) : StateStep :=
  match s.state, o.res with
  | some e, .ok v =>
    match eval e (.obj [("value", v)]) with
    | some (.obj kvs) => .upd kvs
    | _ => .err
  | _, _ => .none

structure Condition where
  type : String
  reason : String
  status : String := "True"
  deriving Repr, DecidableEq, Inhabited

/-- everything `reconcile_workflow` returns, abstracted -/
structure WfResult where
  /-- per-step results in listed order -/
  steps : List (Label × StepOut)
  /-- `unwrapped_combine` of the results in listed order -/
  overall : StepRes
  state : List (String × JVal)
  stateErrors : List Label
  conditions : List Condition
  /-- `{"workflow": name, "resources": {label: ids}}` -/
  resourceIds : JVal
  deriving Repr, Inhabited

def toUnwrapped (o : StepOut) : Unwrapped JVal :=
  match o.res with
  | .ok v => .val v
  | r => .out r.toOutcome

def overallOf (outs : List StepOut) : StepRes :=
  .ofCombined (unwrappedCombine (outs.map toUnwrapped))

/-- the steps that have a result, in LISTED order, each with its result -/
def listed (wf : Workflow) (res : List (Label × StepOut)) : List (Step × StepOut) :=
  wf.steps.filterMap fun s => (lookupL s.label res).map fun o => (s, o)

def mergeState (eval : EvalFn) : List (Step × StepOut) → List (String × JVal) → List (String × JVal)
  | [], st => st
  | (s, o) :: rest, st =>
    match stateStep eval s o with
    | .upd kvs => mergeState eval rest (updateState st kvs)
    | _ => mergeState eval rest st

def stateErrs (eval : EvalFn) (xs : List (Step × StepOut)) : List Label :=
  xs.filterMap fun (s, o) => match stateStep eval s o with | .err => some s.label | _ => none

def stepConds (xs : List (Step × StepOut)) : List Condition :=
  xs.filterMap fun (s, o) => s.cond.map fun c => { type := c.1, reason := reason o.res }

/-- reads whatever results are there in listed order -/
def collect (eval : EvalFn) (wf : Workflow) (res : List (Label × StepOut)) : WfResult :=
  let xs := listed wf res
  let overall := overallOf (xs.map (·.2))
  { steps := xs.map fun (s, o) => (s.label, o)
    overall := overall
    state := mergeState eval xs []
    stateErrors := stateErrs eval xs
    conditions := stepConds xs ++ [{ type := "Ready", reason := reason overall }]
    resourceIds := .obj [("workflow", .str wf.name),
                         ("resources", .obj (xs.map fun (s, o) => (s.label, o.rid)))] }

/-- the sequential reference answer -/
def reconcile (eval : EvalFn) (run : RunFn) (trig : JVal) (wf : Workflow) : WfResult :=
  collect eval wf (trace eval run trig wf).results

/-! ## well-formedness -/

def labels (steps : List Step) : List Label := steps.map (·.label)

/-- every dependency names an earlier step; labels are distinct -/
def wfSteps : List Label → List Step → Bool
  | _, [] => true
  | seen, s :: rest =>
    s.deps.all (seen.contains ·) && !seen.contains s.label && wfSteps (seen ++ [s.label]) rest

def Workflow.WF (wf : Workflow) : Bool := wfSteps [] wf.steps

/-! ## asynchronous semantics -/

inductive Event where
  /-- step `l` completes (for a forEach step: all its iterations have, and it gathers them) -/
  | step (l : Label)
  /-- iteration `i` of forEach step `l` completes -/
  | item (l : Label) (i : Nat)
  deriving Repr, DecidableEq, Inhabited

/-- what has completed so far, in COMPLETION order -/
structure AState where
  done : List (Label × StepOut) := []
  items : List ((Label × Nat) × StepOut) := []
  deriving Repr, Inhabited

def lookupI (l : Label) (i : Nat) : List ((Label × Nat) × StepOut) → Option StepOut
  | [] => none
  | ((k, j), v) :: rest => if k = l ∧ j = i then some v else lookupI l i rest

def findStep (l : Label) : List Step → Option Step
  | [] => none
  | s :: rest => if s.label = l then some s else findStep l rest

def isDone (st : AState) (l : Label) : Bool := (lookupL l st.done).isSome

/-- the per-item vector of a forEach step read back in SOURCE order (`none` if one is missing) -/
def gatherItems (st : AState) (l : Label) : Nat → Nat → Option (List StepOut)
  | _, 0 => some []
  | i, n + 1 =>
    match lookupI l i st.items, gatherItems st l (i + 1) n with
    | some o, some rest => some (o :: rest)
    | _, _ => none

/-- one completion event; `none` when the event is not enabled -/
def stepEvent (eval : EvalFn) (run : RunFn) (trig : JVal) (wf : Workflow) (st : AState) :
    Event → Option AState
  | .step l =>
    match findStep l wf.steps with
    | none => none
    | some s =>
      if isDone st l || !(s.deps.all (isDone st)) then none
      else
        match gate eval trig (depRes st.done s.deps) s with
        | .done o => some { st with done := st.done ++ [(l, o)] }
        | .single act inputs =>
          some { st with done := st.done ++ [(l, (runLogic eval run l none act inputs s.logic).1)] }
        | .each _ _ _ items =>
          match gatherItems st l 0 items.length with
          | none => none
          | some outs => some { st with done := st.done ++ [(l, combineItems outs)] }
  | .item l i =>
    match findStep l wf.steps with
    | none => none
    | some s =>
      if isDone st l || !(s.deps.all (isDone st)) || (lookupI l i st.items).isSome then none
      else
        match gate eval trig (depRes st.done s.deps) s with
        | .each act inputs key items =>
          match items[i]? with
          | none => none
          | some it =>
            some { st with items := st.items ++
              [((l, i), (runLogic eval run l (some i) act (setKey key it inputs) s.logic).1)] }
        | _ => none

def runEvents (eval : EvalFn) (run : RunFn) (trig : JVal) (wf : Workflow) :
    List Event → AState → Option AState
  | [], st => some st
  | e :: rest, st =>
    match stepEvent eval run trig wf st e with
    | none => none
    | some st' => runEvents eval run trig wf rest st'

/-- every event of `σ` was enabled when it happened and afterwards every step is done -/
def ValidComplete (eval : EvalFn) (run : RunFn) (trig : JVal) (wf : Workflow) (σ : List Event) : Prop :=
  ∃ st, runEvents eval run trig wf σ {} = some st ∧ ∀ s ∈ wf.steps, isDone st s.label = true

/-- the answer of the asynchronous run (`none` for a schedule that is not executable) -/
def runAsync (eval : EvalFn) (run : RunFn) (trig : JVal) (wf : Workflow) (σ : List Event) :
    Option WfResult :=
  (runEvents eval run trig wf σ {}).map fun st => collect eval wf st.done

/-- the schedule that completes everything in listed / source order -/
def listedSchedule (eval : EvalFn) (run : RunFn) (trig : JVal) : List Step → Trace → List Event
  | [], _ => []
  | s :: rest, t =>
    let r := stepResult eval run trig (depRes t.results s.deps) s
    let evs := match gate eval trig (depRes t.results s.deps) s with
      | .each _ _ _ items => (List.range items.length).map (Event.item s.label ·) ++ [Event.step s.label]
      | _ => [Event.step s.label]
    evs ++ listedSchedule eval run trig rest ⟨t.results ++ [(s.label, r.1)], t.calls ++ r.2⟩

/-! ## sub-workflows: tying the knot through a definition environment -/

/-- the named Workflow definitions (the prepared cache) -/
abbrev Env := List (String × Workflow)

/-- what a sub-workflow step hands back: the sub-workflow's *state* when it is Ok, its outcome otherwise;
    resource ids and API requests are passed up -/
def subOut (r : WfResult) (api : List String) : FnOut :=
  match r.overall with
  | .ok _ => ⟨.ok (.obj r.state), r.resourceIds, api⟩
  | o => ⟨o, r.resourceIds, api⟩

/-- Functions answered by `base`, sub-workflows by reconciling the named definition with the step's
    inputs as trigger, `depth` levels deep (an unknown name or exhausted depth answers like `base`) -/
def runAt (eval : EvalFn) (base : RunFn) (defs : Env) : Nat → RunFn
  | 0 => base
  | n + 1 => fun t inputs =>
    match t with
    | .fn _ => base t inputs
    | .wf name =>
      match lookupL name defs with
      | none => base t inputs
      | some w =>
        let tr := trace eval (runAt eval base defs n) inputs w
        subOut (collect eval w tr.results) (tr.calls.flatMap (·.api))

/-! ## specification-side helpers -/

/-- the outcome a step ended with -/
def Trace.resultOf (t : Trace) (l : Label) : Option StepRes := (lookupL l t.results).map (·.res)

/-- the Logic evaluations made on behalf of step `l` -/
def Trace.callsOf (t : Trace) (l : Label) : List Call := t.calls.filter fun c => decide (c.step = l)

/-- the dependencies' values as the final results show them (`none` unless all are Ok) -/
def Trace.okValsOf (t : Trace) (deps : List Label) : Option (List (String × JVal)) :=
  okVals (depRes t.results deps)

/-! ## the standard evaluator for the generators' expression shapes (used by the driver and examples) -/

def getPath : List String → JVal → Option JVal
  | [], v => some v
  | k :: ks, .obj kvs => match JVal.lookup k kvs with
    | some v => getPath ks v
    | none => none
  | _ :: _, _ => none

/-- `flatten()`: the nested lists concatenated into a FRESH list -/
def flattenJ : List JVal → Option (List JVal)
  | [] => some []
  | .arr xs :: rest => (flattenJ rest).map (xs ++ ·)
  | _ :: _ => none

/-- `overlay()`: `_deep_overlay` on a copy of the resource (nesting depth bounded by the fuel) -/
def overlayJ : Nat → List (String × JVal) → List (String × JVal) → List (String × JVal)
  | 0 => fun res _ => res
  | n + 1 => fun res ov =>
    ov.foldl (fun acc kv =>
      match JVal.lookup kv.1 acc, kv.2 with
      | some (.obj r), .obj o => JVal.insert kv.1 (.obj (overlayJ n r o)) acc
      | _, v => JVal.insert kv.1 v acc) res

def applyStd (f : String) (args : List JVal) : Option JVal :=
  match f, args with
  | "flatten", [.arr xs] => (flattenJ xs).map JVal.arr
  | "overlay", [.obj r, .obj o] => some (.obj (overlayJ 16 r o))
  | "size", [.arr xs] => some (.int xs.length)
  | "size", [.obj kvs] => some (.int kvs.length)
  | "in", [.str k, .obj kvs] => some (.bool (JVal.lookup k kvs).isSome)
  | "at0", [.arr (x :: _)] => some x
  | _, _ => none

mutual
def Expr.evalStd (act : JVal) : Expr → Option JVal
  | .lit v => some v
  | .path r ks => getPath (r :: ks) act
  | .mapE kvs => (evalStdKvs act kvs).map JVal.obj
  | .listE xs => (evalStdList act xs).map JVal.arr
  | .callE f args => (evalStdList act args).bind (applyStd f)
  | .bad => none
def evalStdList (act : JVal) : List Expr → Option (List JVal)
  | [] => some []
  | e :: rest =>
    match Expr.evalStd act e, evalStdList act rest with
    | some v, some vs => some (v :: vs)
    | _, _ => none
def evalStdKvs (act : JVal) : List (String × Expr) → Option (List (String × JVal))
  | [] => some []
  | (k, e) :: rest =>
    match Expr.evalStd act e, evalStdKvs act rest with
    | some v, some vs => some ((k, v) :: vs)
    | _, _ => none
end

def evalStd : EvalFn := fun e act => Expr.evalStd act e

end Koreo.Workflow
