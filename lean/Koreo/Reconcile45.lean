/-
  C04 / C05 — one pass of `reconcile_krm_resource` from `convert_bools(expected_resource)` on
  (src/koreo/resource_function/reconcile/__init__.py:315-376), the create call
  (`_create_api_resource`, the POST and its Retry only), `_extract_last_applied`, `_prepare_for_api`
  and `_prepare_update` (src/koreo/resource_function/prepare.py:465-478).

  The environment is one addressed object of the in-memory cluster (`Option JVal`) with RFC 7386
  merge-patch (`Koreo.mergePatch`).  Materialisation of the target, owner-reference computation and
  identity pinning belong to C06–C08; here they are inputs (`t`, `Cfg.ownerFix`, `Cfg.createView`).
  Core Lean only.
-/
import Koreo.Compare
import Koreo.CompareWF
import Koreo.MergePatch
namespace Koreo.R45
open Koreo Koreo.JVal Koreo.Compare

def lastAppliedAnnotation : String := "koreo.dev/last-applied-configuration"

/-- `json.dumps` / `json.loads` on the annotation text.  The theorems only need that what koreo wrote
    is read back (`reads`), which the harness checks on the real `json` module. -/
structure Codec where
  dumps : JVal → String
  loads : String → Option JVal

def Codec.reads (c : Codec) (v : JVal) : Prop := c.dumps v ≠ "" ∧ c.loads (c.dumps v) = some v

/-- `_extract_last_applied`; `none` = it raised (`.get` on a non-map, `json.loads` rejected the text) -/
def extractLastApplied (c : Codec) (live : JVal) : Option JVal :=
  match live with
  | .obj kvs =>
    match lookup "metadata" kvs with
    | none => some .null
    | some md =>
      if !truthy md then some .null else
      match md with
      | .obj mkvs =>
        match lookup "annotations" mkvs with
        | none => some .null
        | some an =>
          if !truthy an then some .null else
          match an with
          | .obj akvs =>
            match lookup lastAppliedAnnotation akvs with
            | none => some .null
            | some v =>
              if !truthy v then some .null else
              match v with
              | .str s => c.loads s
              | _ => none
          | _ => none
      | _ => none
  | v => if truthy v then none else some .null

/-- write `metadata.annotations[k] := v`, creating the two maps when absent; `none` = raised -/
def setAnnotation (k : String) (v : JVal) (kvs : List (String × JVal)) : Option (List (String × JVal)) :=
  match (lookup "metadata" kvs).getD (.obj []) with
  | .obj mkvs =>
    match (lookup "annotations" mkvs).getD (.obj []) with
    | .obj akvs => some (insert "metadata" (.obj (insert "annotations" (.obj (insert k v akvs)) mkvs)) kvs)
    | _ => none
  | _ => none

/-- `_prepare_for_api` -/
def prepareForApi (c : Codec) (t : JVal) : Option JVal :=
  match strip t with
  | .obj kvs => (setAnnotation lastAppliedAnnotation (.str (c.dumps (.obj kvs))) kvs).map .obj
  | _ => none

/-- a key of a target map that is compared plainly (no keyed / set / last-applied directive on it) -/
def plainKey (tkvs : List (String × JVal)) (k : String) : Bool :=
  let d := specDirs tkvs
  (fieldsFor k d.asMap).isNone && !d.asSet.contains k && !d.lastApplied.contains k

/-- the target leaves koreo's own annotation alone: `metadata` / `metadata.annotations`, where the
    target specifies them, are plainly compared maps that do not set the last-applied annotation
    (the forced overlay always makes `metadata` a map) -/
def annFree (t : JVal) : Bool :=
  match t with
  | .obj tkvs =>
    match lookup "metadata" tkvs with
    | none => true
    | some (.obj tm) => plainKey tkvs "metadata" &&
      (match lookup "annotations" tm with
       | none => true
       | some (.obj ta) => plainKey tm "annotations" && (lookup lastAppliedAnnotation ta).isNone
       | some _ => false)
    | some _ => false
  | _ => false

/-- `converted_resource["metadata"]["ownerReferences"] = owner_refs` -/
def setOwnerRefs (refs : JVal) (t : JVal) : Option JVal :=
  match t with
  | .obj kvs =>
    match lookup "metadata" kvs with
    | some (.obj mkvs) => some (.obj (insert "metadata" (.obj (insert ownerReferences refs mkvs)) kvs))
    | _ => none
  | _ => none

/-- the target does not specify `metadata.ownerReferences` (and has a `metadata` map) -/
def ownerRefsFree (t : JVal) : Bool :=
  match t with
  | .obj kvs =>
    match lookup "metadata" kvs with
    | some (.obj mkvs) => (lookup ownerReferences mkvs).isNone
    | _ => false
  | _ => false

/-- `converted_resource["metadata"].pop("ownerReferences", None)` — the patch never carries the
    target's own owner references (fix F7); `none` = raised -/
def dropOwnerRefs (t : JVal) : Option JVal :=
  if ownerRefsFree t then some t
  else match t with
    | .obj kvs =>
      match lookup "metadata" kvs with
      | some (.obj mkvs) => some (.obj (insert "metadata" (.obj (erase ownerReferences mkvs)) kvs))
      | _ => none
    | _ => none

inductive Policy where
  | patch (delay : JVal)
  | recreate (delay : JVal)
  | never
  deriving Repr, BEq, Inhabited

def defaultPatchDelay : Int := 30

/-- `_prepare_update(spec.get("update"))`; `none` = PermFail("Malformed `spec.update` …") -/
def prepareUpdate (spec : Option JVal) : Option Policy :=
  match spec with
  | none => some (.patch (.int defaultPatchDelay))
  | some .null => some (.patch (.int defaultPatchDelay))
  | some (.obj kvs) =>
    let sub (k : String) : Option (List (String × JVal)) :=
      match lookup k kvs with | some (.obj m) => some m | _ => none
    match (sub "patch").bind (lookup "delay") with
    | some d => some (.patch d)
    | none =>
      match (sub "recreate").bind (lookup "delay") with
      | some d => some (.recreate d)
      | none => if (sub "never").isSome then some .never else none
  | some _ => none

/-- what the owner-reference check decided (C08's side): nothing to do, write these references
    with the patch, or `_updated_owner_refs` gave a PermFail -/
inductive OwnerFix where
  | none
  | refs (v : JVal)
  | permFail
  deriving Repr, Inhabited

/-- `DEFAULT_LOAD_RETRY_DELAY`: how long a function that may not create waits for its resource -/
def loadRetryDelay : Int := 30

structure Cfg where
  codec : Codec
  policy : Policy
  shouldOwn : Bool         -- `crud_config.own_resource and owner_namespace == namespace`
  ownerRef : JVal          -- the parent's owner reference (a map with a `uid`)
  createEnabled : Bool     -- `spec.create.enabled` (readonly functions are not managing and are C07's)
  createDelay : JVal
  createView : JVal        -- `resource_view` handed to `_prepare_for_api` by `_create_api_resource`

/-- the one ownership decision, taken at two sites that have to agree: `_create_api_resource`
    (`owned_resource and owner_namespace == namespace` ⇒ the parent's reference goes into the create body) and
    `reconcile_krm_resource` (`should_own`, ⇒ the live object must carry it).  Namespaces are `None` for
    cluster-scoped objects and parents: a cluster-scoped parent owns a cluster-scoped object. -/
def shouldOwnOf (own : Bool) (ownerNs ns : Option String) : Bool := own && (ownerNs == ns)

inductive Req where
  | post (body : JVal)
  | patch (body : JVal)
  | delete
  deriving Repr, BEq, Inhabited

inductive Outcome where
  | okLive (v : JVal)      -- the live object is returned; postconditions / return value follow
  | retry (delay : JVal)
  | permFail
  | raised                 -- an exception leaves `reconcile_resource_function`
  deriving Repr, BEq, Inhabited

structure PassResult where
  cluster : Option JVal
  outcome : Outcome
  reqs : List Req
  deriving Repr, Inhabited

def unchanged (live : JVal) : PassResult := ⟨some live, .okLive live, []⟩
def raisedAt (live : JVal) : PassResult := ⟨some live, .raised, []⟩

/-! ### the owner-reference check (`_validate_owner_reffed` / `_updated_owner_refs`) -/

def uidOf (kvs : List (String × JVal)) : JVal := (lookup "uid" kvs).getD .null

/-- `for current_ref in owner_refs: if current_ref.get("uid") == trigger_uid: return True`;
    `none` = `.get` on a member that is not a map raised before a match was found -/
def scanRefs (uid : JVal) : List JVal → Option Bool
  | [] => some false
  | .obj kvs :: rest => if pyEq (uidOf kvs) uid then some true else scanRefs uid rest
  | _ :: _ => none

/-- the live object's `metadata.ownerReferences`, when `metadata` is a map that has the key -/
def liveRefs (live : JVal) : Option JVal :=
  match live with
  | .obj kvs =>
    match lookup "metadata" kvs with
    | some (.obj mkvs) => lookup ownerReferences mkvs
    | _ => none
  | _ => none

/-- what the two functions decide for a function that should own the object: the reference is in place
    (`none`; also when they answer with a PermFail *object*, which the caller only tests for truth),
    or these references have to be written with the patch (the live ones plus the parent's);
    outer `none` = raised -/
def ownerFixOf (c : Cfg) (live : JVal) : Option OwnerFix :=
  if !c.shouldOwn then some .none else
  match c.ownerRef with
  | .obj refkvs =>
    match live with
    | .obj kvs =>
      match lookup "metadata" kvs with
      | some (.obj mkvs) =>
        match lookup ownerReferences mkvs with
        | none => some (.refs (.arr [c.ownerRef]))
        | some refs =>
          if !truthy refs then some (.refs (.arr [c.ownerRef])) else
          match refs with
          | .arr xs =>
            match scanRefs (uidOf refkvs) xs with
            | none => none
            | some true => some .none
            | some false => some (.refs (.arr (xs ++ [c.ownerRef])))
          | _ => some .none            -- "Corrupt `ownerReferences`" PermFail object: truthy
      | _ => some .none                -- "Missing resource" / "Corrupt `metadata`" PermFail object: truthy
    | _ => some .none
  | _ => none

/-- the parent's reference really is among the live object's owner references -/
def refPresent (c : Cfg) (live : JVal) : Bool :=
  match c.ownerRef, liveRefs live with
  | .obj refkvs, some (.arr xs) => scanRefs (uidOf refkvs) xs == some true
  | _, _ => false

/-- the update-policy dispatch (`match crud_config.update`) -/
def correct (c : Cfg) (fix : OwnerFix) (t live : JVal) : PassResult :=
  match c.policy with
  | .never => unchanged live
  | .recreate d => ⟨none, .retry d, [.delete]⟩
  | .patch d =>
    match fix with
    | .permFail => ⟨some live, .permFail, []⟩
    | fix =>
      match (match fix with | .refs r => setOwnerRefs r t | _ => dropOwnerRefs t) with
      | none => raisedAt live
      | some t' =>
        match prepareForApi c.codec t' with
        | none => raisedAt live
        | some body => ⟨some (mergePatch live body), .retry d, [.patch body]⟩

def OwnerFix.isNone : OwnerFix → Bool | .none => true | _ => false

/-- the possible results of a pass that found the object -/
def passPresent (c : Cfg) (t live : JVal) : List PassResult :=
  match ownerFixOf c live with
  | none => [raisedAt live]
  | some fix =>
    match extractLastApplied c.codec live with
    | none => [raisedAt live]
    | some la =>
      match validateMatch t live la false with
      | .ok => if fix.isNone then [unchanged live] else [correct c fix t live]
      | .bad d r => (if d then [correct c fix t live] else []) ++ (if r then [raisedAt live] else [])

/-- the pass that did not find it: `_create_api_resource` from `_prepare_for_api` on -/
def passAbsent (c : Cfg) : List PassResult :=
  if !c.createEnabled then [⟨none, .retry (.int loadRetryDelay), []⟩] else      -- "not found. Waiting..."
  match prepareForApi c.codec c.createView with
  | none => [⟨none, .raised, []⟩]
  | some body => [⟨some body, .retry c.createDelay, [.post body]⟩]

/-- the GET itself was answered with an error (`load_api_resource`: any `ServerError` other than 404, any
    other exception): nothing is known about the object, the pass waits and writes nothing -/
def passLoadFailed (cluster : Option JVal) : List PassResult :=
  [⟨cluster, .retry (.int loadRetryDelay), []⟩]

def pass (c : Cfg) (t : JVal) (cluster : Option JVal) : List PassResult :=
  match cluster with
  | none => passAbsent c
  | some live => passPresent c t live

end Koreo.R45
