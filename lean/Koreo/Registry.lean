/-
  C17 — model of `src/koreo/registry.py` (the REPAIRED code: `notify_subscribers` tolerates
  `QueueShutDown` as well as `QueueFull`, see fixes/F4-registry-queue-shutdown.diff; the
  behaviour of the unrepaired handler set is `stepWith caughtOriginal`).

  Core Lean only.  Resources are natural numbers (the harness maps indices to
  `Resource(resource_type, name, namespace)` triples).

    _SUBSCRIBER_RESOURCES   ↦  `State.subsOf`         subscriber → resources it watches
    _RESOURCE_SUBSCRIBERS   ↦  `State.subscribersOf`  resource   → who watches it
    _SUBSCRIPTION_QUEUES    ↦  `State.queues`         registered resource → its queue

  Python `set`s are duplicate-free lists (duplicate-freeness is a proved invariant, not a
  subtype); `defaultdict` reads are `Map.get` (missing key = empty list).  An `asyncio.LifoQueue`
  is `Queue`: its items (head = top of the stack), the shut-down flag, the number of unfinished
  tasks (`put` increments, `task_done` decrements: what `join()` waits for) and `maxsize`
  (0 = unbounded, as in asyncio).
-/
namespace Koreo.Registry

abbrev Res := Nat

/-- Python `dict` keyed by resources, as an association list -/
abbrev Assoc (β : Type) := List (Res × β)

namespace Assoc
variable {β : Type}

def find? : Assoc β → Res → Option β
  | [], _ => none
  | (k', v) :: m, k => if k' = k then some v else find? m k

/-- `d[k] = v` -/
def set : Assoc β → Res → β → Assoc β
  | [], k, v => [(k, v)]
  | (k', v') :: m, k, v => if k' = k then (k, v) :: m else (k', v') :: set m k v

/-- `del d[k]` -/
def del : Assoc β → Res → Assoc β
  | [], _ => []
  | (k', v') :: m, k => if k' = k then del m k else (k', v') :: del m k

end Assoc

abbrev Map := Assoc (List Res)

/-- `defaultdict(set)[k]` (reading) -/
def Map.get (m : Map) (k : Res) : List Res := (Assoc.find? m k).getD []

/-- `set.add` -/
def ins (x : Res) (l : List Res) : List Res := if x ∈ l then l else l ++ [x]

/-- `set.remove` / `set.discard` on a duplicate-free list (the `KeyError` of `remove` is decided
    by the caller, see `unsubscribe`) -/
def rem (x : Res) (l : List Res) : List Res := l.filter (fun y => y != x)

/-- `set(xs)` -/
def dedup : List Res → List Res
  | [] => []
  | x :: xs => if x ∈ dedup xs then dedup xs else x :: dedup xs

/-! ## queues -/

inductive Item where
  | kill                                   -- `Kill()`
  | event (src : Res) (time : Option Nat)  -- `ResourceEvent(resource, event_time)`; `none` = `time.monotonic()`
  deriving DecidableEq, Repr

structure Queue where
  items : List Item       -- head = newest (LIFO)
  shut : Bool
  unfinished : Nat
  cap : Nat               -- `maxsize`; 0 = unbounded
  deriving DecidableEq, Repr

inductive QErr where
  | full        -- asyncio.QueueFull
  | shutDown    -- asyncio.QueueShutDown
  deriving DecidableEq, Repr

namespace Queue

def fresh (cap : Nat) : Queue := ⟨[], false, 0, cap⟩

def full (q : Queue) : Bool := decide (0 < q.cap) && decide (q.cap ≤ q.items.length)

/-- `Queue.put_nowait` (3.13: the shut-down test comes first, then the capacity test) -/
def putNowait (q : Queue) (it : Item) : Except QErr Queue :=
  if q.shut then .error .shutDown
  else if q.full then .error .full
  else .ok { q with items := it :: q.items, unfinished := q.unfinished + 1 }

/-- `Queue.shutdown()` (not immediate: items stay) -/
def shutdown (q : Queue) : Queue := { q with shut := true }

/-- a put would be accepted -/
def live (q : Queue) : Bool := !q.shut && !q.full

end Queue

/-- `_kill_resource` on the queue: put `Kill()`; already shut down → nothing; full → shut down only -/
def killQ (q : Queue) : Queue :=
  match q.putNowait .kill with
  | .error .shutDown => q
  | .error .full => q.shutdown
  | .ok q' => q'.shutdown

/-- the drain loop of `deregister`: `get_nowait(); task_done()` until empty -/
def drainQ (q : Queue) : Queue :=
  { q with items := [], unfinished := q.unfinished - q.items.length }

/-! ## state -/

structure State where
  subsOf : Map
  subscribersOf : Map
  queues : Assoc Queue
  deriving Repr

def init : State := ⟨[], [], []⟩

def State.subs (s : State) (a : Res) : List Res := s.subsOf.get a
def State.subscribers (s : State) (b : Res) : List Res := s.subscribersOf.get b

/-! ## `_check_for_cycles` — the level-wise walk as written, with explicit fuel -/

inductive Check where
  | ok          -- loop ended on an empty level: no exception
  | cycle       -- `raise SubscriptionCycle`
  | outOfFuel   -- the `while` loop did not end within the fuel: stands for non-termination
  deriving DecidableEq, Repr

/-- one iteration per unit of fuel: `while to_check: if subscriber in to_check: raise; to_check = ⋃ succ` -/
def checkLoop (succ : Res → List Res) (sub : Res) : Nat → List Res → Check
  | 0, _ => .outOfFuel
  | fuel + 1, lvl =>
    if lvl.isEmpty then .ok
    else if sub ∈ lvl then .cycle
    else checkLoop succ sub fuel (dedup (lvl.flatMap succ))

/-- every resource mentioned in a map (with multiplicity; only its length is used, as fuel) -/
def nodes (m : Map) : List Res := m.flatMap (fun kv => kv.1 :: kv.2)

/-- enough iterations for any acyclic subscription graph (`cycle_check_complete`) -/
def fuelFor (s : State) : Nat := (nodes s.subsOf).length + 2

def checkForCycles (s : State) (sub : Res) (rs : List Res) : Check :=
  checkLoop s.subs sub (fuelFor s) (dedup rs)

/-! ## operations -/

inductive Op where
  | register (r : Res) (cap : Nat)        -- `register(r, queue=LifoQueue(maxsize=cap))`
  | subscribe (sub r : Res)
  | subscribeOnlyTo (sub : Res) (rs : List Res)
  | unsubscribe (sub r : Res)
  | notify (r : Res) (t : Nat)
  | kill (r : Res)
  | deregister (r : Res) (t : Nat)
  deriving DecidableEq, Repr

inductive Out where
  | ok
  | cycle                                   -- raised SubscriptionCycle
  | keyError                                -- raised KeyError
  | diverged                                -- the cycle check ran out of fuel (never on reachable states)
  | delivered (to : List Res)               -- register / notify: whose queue received the event
  | released (q : Option Queue) (to : List Res)  -- deregister: final state of the removed queue, deliveries
  | raised (e : QErr)                       -- an uncaught queue exception (impossible for the repaired handler set)
  deriving DecidableEq, Repr

/-- `for resource in xs: _RESOURCE_SUBSCRIBERS[resource].add(sub)` -/
def addTo (m : Map) (sub : Res) : List Res → Map
  | [] => m
  | r :: rs => addTo (m.set r (ins sub (m.get r))) sub rs

/-- `for resource in xs: _RESOURCE_SUBSCRIBERS[resource].remove(sub)` (see `only_to_remove_never_misses`:
    on states with inverse views the element is always present, so `remove` cannot raise) -/
def removeFrom (m : Map) (sub : Res) : List Res → Map
  | [] => m
  | r :: rs => removeFrom (m.set r (rem sub (m.get r))) sub rs

/-- the body of `subscribe_only_to` after the cycle check -/
def applyOnly (s : State) (sub : Res) (rs : List Res) : State :=
  let cur := s.subsOf.get sub
  let new := dedup rs
  let m1 := addTo s.subscribersOf sub (new.filter (fun r => decide (r ∉ cur)))
  let m2 := removeFrom m1 sub (cur.filter (fun r => decide (r ∉ new)))
  { s with subscribersOf := m2, subsOf := s.subsOf.set sub new }

/-- the body of `subscribe` after the cycle check -/
def applySubscribe (s : State) (sub r : Res) : State :=
  { s with subscribersOf := s.subscribersOf.set r (ins sub (s.subscribersOf.get r)),
           subsOf := s.subsOf.set sub (ins r (s.subsOf.get sub)) }

/-- the delivery loop of `notify_subscribers` over the subscribers that have a registered queue;
    `caught e` = the `except` clause around `put_nowait` lists `e` -/
def deliver (caught : QErr → Bool) (ev : Item) : List Res → Assoc Queue → Except QErr (Assoc Queue × List Res)
  | [], qs => .ok (qs, [])
  | x :: xs, qs =>
    match qs.find? x with
    | none => deliver caught ev xs qs
    | some q =>
      match q.putNowait ev with
      | .ok q' =>
        match deliver caught ev xs (qs.set x q') with
        | .ok (qs', ds) => .ok (qs', x :: ds)
        | .error e => .error e
      | .error e => if caught e then deliver caught ev xs qs else .error e

/-- the handler set of the repaired `notify_subscribers`: `except (QueueFull, QueueShutDown)` -/
def caughtRepaired : QErr → Bool
  | .full => true
  | .shutDown => true

/-- the handler set before the repair: `except QueueFull` -/
def caughtOriginal : QErr → Bool
  | .full => true
  | .shutDown => false

/-- `notify_subscribers(r, t)`; `wrap` builds the result from the deliveries -/
def notifyWith (caught : QErr → Bool) (s : State) (r : Res) (t : Option Nat) (wrap : List Res → Out) :
    State × Out :=
  match deliver caught (.event r t) (s.subscribers r) s.queues with
  | .ok (qs, ds) => ({ s with queues := qs }, wrap ds)
  | .error e => (s, .raised e)

def stepWith (caught : QErr → Bool) (s : State) : Op → State × Out
  | .register r cap =>
    match s.queues.find? r with
    | some _ => (s, .delivered [])
    | none => notifyWith caught { s with queues := s.queues.set r (Queue.fresh cap) } r none .delivered
  | .subscribe sub r =>
    match checkForCycles s sub [r] with
    | .cycle => (s, .cycle)
    | .outOfFuel => (s, .diverged)
    | .ok => (applySubscribe s sub r, .ok)
  | .subscribeOnlyTo sub rs =>
    match checkForCycles s sub rs with
    | .cycle => (s, .cycle)
    | .outOfFuel => (s, .diverged)
    | .ok => (applyOnly s sub rs, .ok)
  | .unsubscribe sub r =>
    -- `_RESOURCE_SUBSCRIBERS[r].remove(sub)` then `_SUBSCRIBER_RESOURCES[sub].remove(r)`, each may raise
    if sub ∈ s.subscribersOf.get r then
      let s1 := { s with subscribersOf := s.subscribersOf.set r (rem sub (s.subscribersOf.get r)) }
      if r ∈ s.subsOf.get sub then
        ({ s1 with subsOf := s1.subsOf.set sub (rem r (s1.subsOf.get sub)) }, .ok)
      else (s1, .keyError)
    else (s, .keyError)
  | .notify r t => notifyWith caught s r (some t) .delivered
  | .kill r =>
    match s.queues.find? r with
    | none => (s, .ok)
    | some q => ({ s with queues := s.queues.set r (killQ q) }, .ok)
  | .deregister r t =>
    -- `subscribe_only_to(r, [])`: the cycle check over no resources ends at once (`check_nil`)
    let s1 := applyOnly s r []
    match s1.queues.find? r with
    | none => notifyWith caught s1 r (some t) (.released none)
    | some q =>
      let released := drainQ (killQ q)
      notifyWith caught { s1 with queues := s1.queues.del r } r (some t) (.released (some released))

/-- the repaired registry -/
def step : State → Op → State × Out := stepWith caughtRepaired

def runWith (caught : QErr → Bool) (s : State) : List Op → State
  | [] => s
  | op :: ops => runWith caught (stepWith caught s op).1 ops

/-- the outputs along a run -/
def outsWith (caught : QErr → Bool) (s : State) : List Op → List Out
  | [] => []
  | op :: ops => (stepWith caught s op).2 :: outsWith caught (stepWith caught s op).1 ops

def run (s : State) : List Op → State
  | [] => s
  | op :: ops => run (step s op).1 ops

def outs : State → List Op → List Out := outsWith caughtRepaired

/-- which exception classes a list of handler names covers (the names come from the translator) -/
def caughtOf (names : List String) (e : QErr) : Bool :=
  names.contains "Exception" || names.contains "BaseException" ||
  match e with
  | .full => names.contains "QueueFull"
  | .shutDown => names.contains "QueueShutDown"

end Koreo.Registry
