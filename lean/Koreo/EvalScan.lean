/-
  C10 — expression failures surface as PermFail, never as crashes or leaked errors.  Core Lean only.

  Transcribed from
    src/koreo/cel/evaluation.py      check_for_celevalerror (scan), evaluate / evaluate_predicates /
                                     evaluate_overlay (`site`, `evalPredicates`, `evalOverlay`),
                                     _overlay_applier (`applyKids`)
    src/koreo/cel/functions.py       _deep_overlay (`deepOverlay`)
    src/koreo/cel/encoder.py         convert_bools (`convert`)
    src/koreo/resource_function/reconcile/__init__.py
                                     reconcile_resource_function / reconcile_krm_resource / _construct_resource_template /
                                     _materialize_from_overlays / _create_api_resource / _prepare_for_api /
                                     _strip_koreo_directives (`rfRun`, `krm`, …)
    src/koreo/value_function/reconcile.py   reconcile_value_function (`vfRun`)
    src/koreo/workflow/reconcile.py  _reconcile_step / _for_each_reconciler / _reconcile_ref_switch / state (`stepRun`, `wfRun`)

  celpy appears only as an oracle `eval : Site → EvalResult`: for every evaluation site it either
  raised or returned a value tree that may contain error objects (as values, list items, or map
  keys, at any depth).  Koreo's logic never looks at *what* was computed beyond its shape, so the
  models take `eval` as a parameter and every theorem quantifies over it.
-/
import Koreo.Json
import Koreo.Directives
namespace Koreo.EvalScan

/-! ## value trees with error objects -/

/-- a map key: a string, or (for an arbitrary oracle) an error object -/
inductive EKey where
  | str (s : String)
  | err
  deriving Repr, DecidableEq, Inhabited

/-- a CEL value as Koreo sees it: JSON plus `err` (a `celpy.CELEvalError` instance in place of data) -/
inductive ETree where
  | null
  | bool (b : Bool)
  | int (n : Int)
  | flt (e : Int)
  | str (s : String)
  | arr (xs : List ETree)
  | obj (kvs : List (EKey × ETree))
  | err
  deriving Repr, Inhabited

namespace ETree

def lookup (k : EKey) : List (EKey × ETree) → Option ETree
  | [] => none
  | (k', v) :: rest => if k' = k then some v else lookup k rest

/-- Python `d[k] = v`: replace in place or append -/
def insert (k : EKey) (v : ETree) : List (EKey × ETree) → List (EKey × ETree)
  | [] => [(k, v)]
  | (k', v') :: rest => if k' = k then (k, v) :: rest else (k', v') :: insert k v rest

/-- Python `d.pop(k, None)` -/
def erase (k : EKey) : List (EKey × ETree) → List (EKey × ETree)
  | [] => []
  | (k', v') :: rest => if k' = k then rest else (k', v') :: erase k rest

def kvsOf : ETree → List (EKey × ETree)
  | .obj kvs => kvs
  | _ => []

/-- Python truthiness (an exception object is truthy) -/
def truthy : ETree → Bool
  | .null => false
  | .bool b => b
  | .int n => n != 0
  | .flt e => e != 0
  | .str s => s != ""
  | .arr xs => !xs.isEmpty
  | .obj kvs => !kvs.isEmpty
  | .err => true

end ETree
open ETree

mutual
/-- `check_for_celevalerror`: `true` = an error object was found (a PermFail is returned).
    Maps: key first, then value, entry by entry; lists and tuples: item by item; any depth. -/
def scan : ETree → Bool
  | .err => true
  | .arr xs => scanL xs
  | .obj kvs => scanO kvs
  | _ => false
def scanL : List ETree → Bool
  | [] => false
  | x :: xs => scan x || scanL xs
def scanO : List (EKey × ETree) → Bool
  | [] => false
  | (k, v) :: rest => (match k with | .err => true | .str _ => false) || scan v || scanO rest
end

/-- the specification, stated with membership instead of the scan's traversal order:
    there is an error object somewhere in the tree -/
inductive HasErr : ETree → Prop where
  | here : HasErr .err
  | item {xs : List ETree} {x : ETree} : x ∈ xs → HasErr x → HasErr (.arr xs)
  | key {kvs : List (EKey × ETree)} {v : ETree} : (EKey.err, v) ∈ kvs → HasErr (.obj kvs)
  | value {kvs : List (EKey × ETree)} {k : EKey} {v : ETree} : (k, v) ∈ kvs → HasErr v → HasErr (.obj kvs)

/-- no error object in place of data, anywhere (keys and values, any depth) -/
def ErrFree (t : ETree) : Prop := ¬ HasErr t

/-! ## JSON values are error-free trees -/

mutual
def embed : JVal → ETree
  | .null => .null
  | .bool b => .bool b
  | .int n => .int n
  | .flt e => .flt e
  | .str s => .str s
  | .arr xs => .arr (embedL xs)
  | .obj kvs => .obj (embedO kvs)
def embedL : List JVal → List ETree
  | [] => []
  | x :: xs => embed x :: embedL xs
def embedO : List (String × JVal) → List (EKey × ETree)
  | [] => []
  | (k, v) :: rest => (.str k, embed v) :: embedO rest
end

/-! ## the pure tree functions values flow through -/

/-- `Overlay.value_index`: a key tree whose leaves are positions in the evaluated value list -/
inductive Index where
  | leaf (i : Nat)
  | node (kids : List (String × Index))
  deriving Repr, Inhabited

mutual
/-- what `_overlay_applier` stores under one key: the indexed value, or (for a sub-tree of the
    index) the recursive application to the base's map at that key / to an empty map -/
def applyIdx (values : List ETree) (baseAtKey : ETree) : Index → ETree
  | .leaf i => values.getD i .null
  | .node kids => .obj (applyKids values (kvsOf baseAtKey) kids (kvsOf baseAtKey))
/-- the `for key, value_index in index.items()` loop; `acc` is `overlaid` (starts as a copy of `base`) -/
def applyKids (values : List ETree) (base : List (EKey × ETree)) :
    List (String × Index) → List (EKey × ETree) → List (EKey × ETree)
  | [], acc => acc
  | (k, ix) :: rest, acc =>
    applyKids values base rest
      (insert (.str k) (applyIdx values ((lookup (.str k) base).getD .null) ix) acc)
end

/-- `_overlay_applier(base, index, values)` -/
def applier (base : ETree) (index : List (String × Index)) (values : List ETree) : ETree :=
  .obj (applyKids values (kvsOf base) index (kvsOf base))

mutual
/-- `_deep_overlay(resource, overlay)` (koreo.cel.functions): maps merge key by key, anything else replaces -/
def deepOverlay (resource : ETree) : ETree → ETree
  | .obj okvs => .obj (deepOverlayO (kvsOf resource) okvs)
  | o => o
def deepOverlayO (res : List (EKey × ETree)) : List (EKey × ETree) → List (EKey × ETree)
  | [] => res
  | (k, ov) :: rest =>
    deepOverlayO
      (insert k
        (match ov, lookup k res with
         | .obj _, some (.obj rkvs) => deepOverlay (.obj rkvs) ov
         | _, _ => ov) res) rest
end

mutual
/-- `convert_bools`: celtypes → native Python types, same JSON value; anything it does not know
    (an error object included) is passed through by its `case _` -/
def convert : ETree → ETree
  | .arr xs => .arr (convertL xs)
  | .obj kvs => .obj (convertO kvs)
  | t => t
def convertL : List ETree → List ETree
  | [] => []
  | x :: xs => convert x :: convertL xs
def convertO : List (EKey × ETree) → List (EKey × ETree)
  | [] => []
  | (k, v) :: rest => (k, convert v) :: convertO rest
end

def isDirectiveKey : EKey → Bool
  | .str s => isDirective s
  | .err => false

mutual
/-- `_strip_koreo_directives` on trees that may carry error objects -/
def stripE : ETree → ETree
  | .obj kvs => .obj (stripEO kvs)
  | .arr xs => .arr (stripEL xs)
  | v => v
def stripEL : List ETree → List ETree
  | [] => []
  | x :: xs => stripE x :: stripEL xs
def stripEO : List (EKey × ETree) → List (EKey × ETree)
  | [] => []
  | (k, v) :: rest => if isDirectiveKey k then stripEO rest else (k, stripE v) :: stripEO rest
end

def lastAppliedKey : String := "koreo.dev/last-applied-configuration"

/-- `_prepare_for_api(obj)`; `render` stands for `json.dumps`.  `none` = a Python exception:
    `json.dumps` raises on an error object (TypeError), and the two item assignments raise when
    `metadata` / `annotations` exist but are not maps. -/
def prepareForApi (render : ETree → String) (t : ETree) : Option ETree :=
  let prepared := stripE t
  if scan prepared then none else
  let dumped := render prepared
  let kvs := kvsOf prepared
  match (lookup (.str "metadata") kvs).getD (.obj []) with
  | .obj md =>
    (match (lookup (.str "annotations") md).getD (.obj []) with
     | .obj ann =>
       some (.obj (insert (.str "metadata")
         (.obj (insert (.str "annotations") (.obj (insert (.str lastAppliedKey) (.str dumped) ann)) md)) kvs))
     | _ => none)
  | _ => none

/-! ## evaluation sites -/

inductive VfSite where
  | preconditions | locals | returnValue
  deriving Repr, DecidableEq, Inhabited

/-- every place where Koreo hands an expression to celpy -/
inductive Site where
  | vf (s : VfSite)                                  -- a ValueFunction used as a step
  | rfPre | rfLocals | apiConfig | templateName | resource
  | overlaySkipIf (i : Nat) | overlay (i : Nat) | overlayInputs (i : Nat) | overlayRef (i : Nat) (s : VfSite)
  | createOverlay | securityOverlay | rfPost | rfReturn
  | stepInputs | stepSkipIf | forEach | switchOn | state
  | iter (j : Nat) (s : Site)                        -- a site of the step's function in forEach iteration j
  | step (k : Nat) (s : Site)                        -- a site of the k-th step of a Workflow
  deriving Repr, DecidableEq, Inhabited

/-- what celpy did with one expression -/
inductive EvalResult where
  | raised                   -- `expression.evaluate` raised (CELEvalError or anything else)
  | val (t : ETree)          -- a value, possibly with error objects inside
  deriving Repr, Inhabited

/-- the expression failed to evaluate: it raised, or there is an error object in its value -/
def EvalResult.bad : EvalResult → Bool
  | .raised => true
  | .val t => scan t

inductive Why where
  | evalError                -- the expression at this site failed to evaluate
  | badType                  -- it evaluated, to something of the wrong shape
  | other
  deriving Repr, DecidableEq, Inhabited

/-- a non-Ok end of a Function / step -/
inductive Stop where
  | permFail (loc : Site) (w : Why)
  | retry (tag : String)
  | skip
  | depSkip
  | crash (what : String)    -- a Python exception that no handler catches
  deriving Repr, DecidableEq, Inhabited

def Stop.isPermFail : Stop → Bool
  | .permFail _ _ => true
  | _ => false

/-- what leaves the Function -/
inductive Out where
  | post | patch | delete            -- a request to the API server (body = the tree; delete carries `null`)
  | fnInputs                         -- the inputs handed to a step's Function
  | state                            -- a step's contribution to the published state
  deriving Repr, DecidableEq, Inhabited

/-- a run: the evaluations performed (in order), what left the Function (in order), the result -/
structure Run (α : Type) where
  evals : List (Site × EvalResult)
  outs : List (Out × ETree)
  res : Except Stop α

namespace Run
def pure' (a : α) : Run α := ⟨[], [], .ok a⟩
def bind' (m : Run α) (f : α → Run β) : Run β :=
  match m.res with
  | .ok a => let r := f a; ⟨m.evals ++ r.evals, m.outs ++ r.outs, r.res⟩
  | .error e => ⟨m.evals, m.outs, .error e⟩
instance : Monad Run where
  pure := pure'
  bind := bind'
def fail (st : Stop) : Run α := ⟨[], [], .error st⟩
def emit (o : Out) (t : ETree) : Run Unit := ⟨[], [(o, t)], .ok ()⟩
/-- run to the end whatever happens, handing the result over as a value (forEach iterations, state) -/
def attempt (m : Run α) : Run (Except Stop α) := ⟨m.evals, m.outs, .ok m.res⟩
end Run
open Run

abbrev Oracle := Site → EvalResult

/-- `evaluate(expression, inputs, location)` for a present expression: raised ⇒ PermFail with
    the location; a value with an error object anywhere inside ⇒ PermFail; otherwise the value.
    (Repaired code, fixes/F10: rendering the failing sub-expression for the message goes through
    `_dump_tree`, which cannot raise, so the `except` arms always reach their `return PermFail`.) -/
def site (eval : Oracle) (s : Site) : Run ETree :=
  match eval s with
  | .raised => ⟨[(s, .raised)], [], .error (.permFail s .evalError)⟩
  | .val t =>
    if scan t then ⟨[(s, .val t)], [], .error (.permFail s .evalError)⟩
    else ⟨[(s, .val t)], [], .ok t⟩

/-- `evaluate` when the expression may be absent (`None` is returned without evaluating) -/
def siteOpt (eval : Oracle) (s : Site) (present : Bool) : Run ETree :=
  if present then site eval s else pure .null

/-- `predicate_to_koreo_result` (C13's subject) as a parameter: what a clean filtered list decides -/
abbrev Interp := ETree → Option Stop

/-- `evaluate_predicates` -/
def evalPredicates (eval : Oracle) (interp : Interp) (s : Site) (present : Bool) : Run Unit :=
  if present then do
    let t ← site eval s
    match t with
    | .arr _ => (match interp t with | some st => fail st | none => pure ())
    | _ => fail (.permFail s .badType)
  else pure ()

/-- `evaluate_overlay`: evaluate the value list, scan it, then `_overlay_applier` -/
def evalOverlay (eval : Oracle) (s : Site) (index : List (String × Index)) (base : ETree) : Run ETree := do
  let vs ← site eval s
  match vs with
  | .arr values => pure (applier base index values)
  | _ => fail (.permFail s .badType)

/-- a value that must be a map (locals, inputs, …) -/
def expectMap (s : Site) (t : ETree) : Run ETree :=
  match t with
  | .obj _ => pure t
  | _ => fail (.permFail s .badType)

/-! ## ValueFunction -/

structure VF where
  hasPre : Bool
  hasLocals : Bool
  ret : Option (List (String × Index))     -- the `return` overlay's index, if there is a `return`
  deriving Inhabited

/-- `reconcile_value_function`; `loc` places the three sites (stand-alone step / overlayRef i / iteration) -/
def vfRun (eval : Oracle) (interp : Interp) (loc : VfSite → Site) (f : VF) (base : Option ETree) : Run ETree := do
  evalPredicates eval interp (loc .preconditions) f.hasPre
  match f.ret with
  | none => pure .null
  | some index =>
    let l ← siteOpt eval (loc .locals) f.hasLocals
    let _ ← (if f.hasLocals then expectMap (loc .locals) l else pure l)
    evalOverlay eval (loc .returnValue) index (base.getD (.obj []))

/-! ## ResourceFunction -/

inductive OverlayStep where
  | inline (hasSkipIf : Bool) (index : List (String × Index))
  | ref (hasSkipIf : Bool) (hasInputs : Bool) (vf : VF)
  deriving Inhabited

inductive Template where
  | absent                       -- neither (forced overlay only)
  | ref                          -- resourceTemplateRef: the name is an expression, the template is static
  | inline (present : Bool)      -- `resource:` (an empty one compiles to no expression)
  deriving Inhabited

inductive Update where
  | patch | recreate | never
  deriving Repr, DecidableEq, Inhabited

structure RF where
  hasPre : Bool
  hasLocals : Bool
  namespaced : Bool
  readonly : Bool
  deleteIfExists : Bool
  owned : Bool
  template : Template
  overlays : List OverlayStep
  createEnabled : Bool
  createOverlay : Option (List (String × Index))
  update : Update
  hasPost : Bool
  hasReturn : Bool
  deriving Inhabited

/-- everything a reconcile reads that is not an expression -/
structure Env where
  live : Option ETree                         -- the object GET returns
  templates : ETree → Option ETree            -- ResourceTemplate cache (static documents)
  ownerRef : ETree
  ownerSameNamespace : Bool
  isMatch : ETree → ETree → Bool              -- validate_match (C04/C05)
  ownerReffed : Bool                          -- the live object already carries the owner reference
  apiVersion : String
  kind : String
  text : ETree → String                       -- `f"{value}"`
  render : ETree → String                     -- `json.dumps`

/-- the environment carries no error objects (the cluster and the caches speak JSON) -/
structure Env.Clean (env : Env) : Prop where
  live : ∀ t, env.live = some t → ErrFree t
  templates : ∀ k t, env.templates k = some t → ErrFree t
  ownerRef : ErrFree env.ownerRef

/-- `_forced_overlay` -/
def forcedOverlay (env : Env) (name : String) (ns : Option String) : ETree :=
  .obj [(.str "apiVersion", .str env.apiVersion), (.str "kind", .str env.kind),
        (.str "metadata", .obj ((.str "name", .str name) ::
          (match ns with | some n => [(.str "namespace", .str n)] | none => [])))]

/-- `functions._overlay(…, forced_overlay)` followed by `check_for_celevalerror` -/
def overlayForced (s : Site) (t forced : ETree) : Run ETree :=
  let m := deepOverlay t forced
  if scan m then fail (.permFail s .evalError) else pure m

/-- `_construct_resource_template` -/
def constructTemplate (eval : Oracle) (loc : Site → Site) (f : RF) (env : Env) (forced : ETree) : Run ETree :=
  match f.template with
  | .absent => pure forced
  | .ref => do
    let n ← site eval (loc .templateName)
    match n with
    | .str _ =>
      (match env.templates n with
       | some t => overlayForced (loc .templateName) t forced
       | none => fail (.retry "template not found"))
    | _ => fail (.permFail (loc .templateName) .badType)
  | .inline present => do
    let t ← siteOpt eval (loc .resource) present
    match t with
    | .obj _ => overlayForced (loc .resource) t forced
    | .null => if present then fail (.permFail (loc .resource) .badType) else overlayForced (loc .resource) (.obj []) forced
    | _ => fail (.permFail (loc .resource) .badType)

/-- one round of the loop in `_materialize_from_overlays` (skipIf, the overlay, the re-scan) -/
def overlayStep (eval : Oracle) (interp : Interp) (loc : Site → Site) (i : Nat) (res : ETree) :
    OverlayStep → Run ETree
  | .inline hasSkipIf index => do
    let skip ← (if hasSkipIf then do
      let v ← site eval (loc (.overlaySkipIf i))
      match v with
      | .bool b => pure b
      | _ => fail (.permFail (loc (.overlaySkipIf i)) .badType)
      else pure false)
    if skip then pure res else do
      let r ← evalOverlay eval (loc (.overlay i)) index res
      if scan r then fail (.permFail (loc (.overlay i)) .evalError) else pure r
  | .ref hasSkipIf hasInputs vf => do
    let skip ← (if hasSkipIf then do
      let v ← site eval (loc (.overlaySkipIf i))
      match v with
      | .bool b => pure b
      | _ => fail (.permFail (loc (.overlaySkipIf i)) .badType)
      else pure false)
    if skip then pure res else do
      let _ ← siteOpt eval (loc (.overlayInputs i)) hasInputs
      let r ← vfRun eval interp (fun s => loc (.overlayRef i s)) vf (some res)
      match r with
      | .obj _ => if scan r then fail (.permFail (loc (.overlay i)) .evalError) else pure r
      | _ => fail (.permFail (loc (.overlayRef i .returnValue)) .badType)

def overlaysLoop (eval : Oracle) (interp : Interp) (loc : Site → Site) : Nat → ETree → List OverlayStep → Run ETree
  | _, res, [] => pure res
  | i, res, st :: rest => do
    let r ← overlayStep eval interp loc i res st
    overlaysLoop eval interp loc (i + 1) r rest

/-- `_updated_owner_refs(src, owner_ref)` + the assignment into the view's `metadata` (what the list
    contains is C08's subject; here: the source's list, if any, followed by the owner reference) -/
def withOwner (ownerRef : ETree) (src view : ETree) : Option ETree :=
  match lookup (.str "metadata") (kvsOf src), lookup (.str "metadata") (kvsOf view) with
  | some (.obj smd), some (.obj md) =>
    let refs := match lookup (.str "ownerReferences") smd with
      | some (.arr xs) => xs ++ [ownerRef]
      | _ => [ownerRef]
    some (.obj (insert (.str "metadata") (.obj (insert (.str "ownerReferences") (.arr refs) md)) (kvsOf view)))
  | _, _ => none

/-- `converted_resource["metadata"].pop("ownerReferences", None)`: a patch that does not add the
    parent's reference must not carry the target's own list (merge-patch replaces lists) -/
def dropOwnerRefs (view : ETree) : ETree :=
  match lookup (.str "metadata") (kvsOf view) with
  | some (.obj md) => .obj (insert (.str "metadata") (.obj (erase (.str "ownerReferences") md)) (kvsOf view))
  | _ => view

/-- convert, `_prepare_for_api`, send -/
def sendPrepared (env : Env) (o : Out) (view : ETree) : Run Unit :=
  match prepareForApi env.render (convert view) with
  | some body => emit o body
  | none => fail (.crash "_prepare_for_api")

/-- `_create_api_resource` -/
def createPath (eval : Oracle) (loc : Site → Site) (f : RF) (env : Env) (expected forced : ETree) : Run ETree := do
  let view ← (match f.createOverlay with
    | some index => do
      let v ← evalOverlay eval (loc .createOverlay) index expected
      if scan v then fail (.permFail (loc .createOverlay) .evalError) else pure v
    | none => pure expected)
  let view ← overlayForced (loc .createOverlay) view forced
  let view ← (if f.owned && env.ownerSameNamespace then
      (match withOwner env.ownerRef view view with
       | some v => pure v
       | none => fail (.permFail (loc .createOverlay) .other))
    else pure view)
  sendPrepared env .post view
  fail (.retry "creating")

/-- the update branch of `reconcile_krm_resource` -/
def updatePath (f : RF) (env : Env) (loc : Site → Site) (live expected : ETree) : Run ETree :=
  let converted := convert expected
  let shouldOwn := f.owned && env.ownerSameNamespace
  if env.isMatch converted live && (!shouldOwn || env.ownerReffed) then pure live else
  match f.update with
  | .never => pure live
  | .recreate => do emit .delete .null; fail (.retry "recreating")
  | .patch => do
    let body ← (if shouldOwn && !env.ownerReffed then
        (match withOwner env.ownerRef live converted with
         | some v => pure v
         | none => fail (.permFail (loc .resource) .other))
      else pure (dropOwnerRefs converted))
    sendPrepared env .patch body
    fail (.retry "patching")

/-- `reconcile_krm_resource` once name and namespace are known -/
def krmBody (eval : Oracle) (interp : Interp) (loc : Site → Site) (f : RF) (env : Env)
    (name : String) (ns : Option String) : Run ETree :=
  if ns.isNone && f.namespaced then fail (.permFail (loc .apiConfig) .other) else
  if f.deleteIfExists then
    (match env.live with
     | none => pure (.obj [])
     | some _ => do emit .delete .null; fail (.retry "deleting"))
  else
  if env.live.isNone && (f.readonly || !f.createEnabled) then fail (.retry "not found") else
  match env.live, f.readonly with
  | some live, true => pure live
  | _, _ => do
    let forced := forcedOverlay env name ns
    let expected ← constructTemplate eval loc f env forced
    let expected ← (match f.overlays with
      | [] => pure expected
      | steps => do
        let r ← overlaysLoop eval interp loc 0 expected steps
        overlayForced (loc .securityOverlay) r forced)
    match env.live with
    | none => createPath eval loc f env expected forced
    | some live => updatePath f env loc live expected

/-- the namespace of `spec.apiConfig`: a truthy value rendered as text, else none -/
def nsOf (env : Env) (id : ETree) : Option String :=
  match lookup (.str "namespace") (kvsOf id) with
  | some v => if truthy v then some (env.text v) else none
  | none => none

/-- `reconcile_krm_resource` -/
def krm (eval : Oracle) (interp : Interp) (loc : Site → Site) (f : RF) (env : Env) : Run ETree := do
  let id ← site eval (loc .apiConfig)
  let nameV ← (match lookup (.str "name") (kvsOf id) with
    | some v => pure v
    | none => fail (.permFail (loc .apiConfig) .badType))
  krmBody eval interp loc f env (env.text nameV) (nsOf env id)

/-- `reconcile_resource_function` -/
def rfRun (eval : Oracle) (interp : Interp) (loc : Site → Site) (f : RF) (env : Env) : Run ETree := do
  evalPredicates eval interp (loc .rfPre) f.hasPre
  let l ← siteOpt eval (loc .rfLocals) f.hasLocals
  let _ ← (if f.hasLocals then expectMap (loc .rfLocals) l else pure l)
  let _resource ← krm eval interp loc f env
  evalPredicates eval interp (loc .rfPost) f.hasPost
  siteOpt eval (loc .rfReturn) f.hasReturn

/-! ## Workflow steps -/

inductive Fn where
  | vf (f : VF)
  | rf (f : RF) (env : Env)

inductive Logic where
  | fn (f : Fn)
  | switch (pick : ETree → Option Fn)       -- refSwitch: `logic_map.get(value, default)`

structure Step where
  deps : List Nat                  -- earlier steps whose values its expressions mention
  hasInputs : Bool
  hasSkipIf : Bool
  forEach : Option String          -- the inputKey, when the step iterates
  logic : Logic
  hasState : Bool

def runFn (eval : Oracle) (interp : Interp) (loc : Site → Site) : Fn → Run ETree
  | .vf f => vfRun eval interp (fun s => loc (.vf s)) f none
  | .rf f env => rfRun eval interp loc f env

/-- `_reconcile_step_logic` / `_reconcile_ref_switch` -/
def runLogic (eval : Oracle) (interp : Interp) (loc : Site → Site) (inputs : ETree) : Logic → Run ETree
  | .fn f => do emit .fnInputs inputs; runFn eval interp loc f
  | .switch pick => do
    let v ← site eval (loc .switchOn)
    match v with
    | .str _ | .int _ =>
      (match pick v with
       | some f => do emit .fnInputs inputs; runFn eval interp loc f
       | none => fail (.permFail (loc .switchOn) .other))
    | _ => fail (.permFail (loc .switchOn) .badType)

/-- one forEach iteration after the other; every iteration runs to its end -/
def iterations (eval : Oracle) (interp : Interp) (loc : Site → Site) (key : String) (inputs : ETree) (logic : Logic) :
    Nat → List ETree → Run (List (Except Stop ETree))
  | _, [] => pure []
  | j, item :: rest => do
    let r ← attempt (runLogic eval interp (fun s => loc (.iter j s)) (.obj (insert (.str key) item (kvsOf inputs))) logic)
    let rs ← iterations eval interp loc key inputs logic (j + 1) rest
    pure (r :: rs)

/-- `result.combine` of the error outcomes, as far as the class goes: a PermFail if there is one,
    else the first Retry / crash; `none` if no iteration ended in an error -/
def firstError : List (Except Stop ETree) → Option Stop
  | [] => none
  | .error (.permFail l w) :: _ => some (.permFail l w)
  | .error (.retry t) :: rest =>
    (match firstError rest with
     | some (.permFail l w) => some (.permFail l w)
     | _ => some (.retry t))
  | .error (.crash t) :: rest =>
    (match firstError rest with
     | some (.permFail l w) => some (.permFail l w)
     | _ => some (.retry t))
  | _ :: rest => firstError rest

/-- `_outcome_encoder`: skips become informational strings, values stay -/
def encodeOutcome : Except Stop ETree → ETree
  | .ok v => v
  | .error _ => .str "skipped"

/-- `_reconcile_step` once its dependencies are known to be Ok -/
def stepBody (eval : Oracle) (interp : Interp) (loc : Site → Site) (st : Step) : Run ETree := do
  let inputs ← (if st.hasInputs then site eval (loc .stepInputs) else pure (.obj []))
  let skip ← (if st.hasSkipIf then do
    let v ← site eval (loc .stepSkipIf)
    match v with
    | .bool b => pure b
    | _ => fail (.permFail (loc .stepSkipIf) .badType)
    else pure false)
  if skip then fail .skip else
  match st.forEach with
  | none => runLogic eval interp loc inputs st.logic
  | some key => do
    let src ← site eval (loc .forEach)
    match src with
    | .arr [] => pure (.arr [])
    | .arr items => do
      let rs ← iterations eval interp loc key inputs st.logic 0 items
      match firstError rs with
      | some e => fail e
      | none => pure (.arr (rs.map encodeOutcome))
    | _ => fail (.permFail (loc .forEach) .badType)

/-- a step's `state` expression (evaluated only for an Ok step): a map is published; a failure
    goes to `state_errors`, not into the state and not into the outcome -/
def stateOf (eval : Oracle) (loc : Site → Site) (st : Step) : Run Unit :=
  if st.hasState then do
    let s ← attempt (site eval (loc .state))
    match s with
    | .ok (.obj kvs) => emit .state (.obj kvs)
    | _ => pure ()
  else pure ()

/-- one step seen on its own: the body, then — if it is Ok — its state -/
def stepRun (eval : Oracle) (interp : Interp) (loc : Site → Site) (st : Step) : Run ETree := do
  let v ← stepBody eval interp loc st
  stateOf eval loc st
  pure v

/-- `_reconcile_steps`, the tasks: a step runs once the steps it mentions are Ok, otherwise it is a
    DepSkip; every step runs to its end whatever the others do -/
def wfBodies (eval : Oracle) (interp : Interp) :
    Nat → List Step → List (Except Stop ETree) → Run (List (Except Stop ETree))
  | _, [], acc => pure acc
  | k, st :: rest, acc => do
    let depsOk := st.deps.all fun d => match acc[d]? with | some (.ok _) => true | _ => false
    let r ← (if depsOk then attempt (stepBody eval interp (fun s => .step k s) st) else pure (.error .depSkip))
    wfBodies eval interp (k + 1) rest (acc ++ [r])

/-- `_reconcile_steps`, after all tasks are done: the state expressions of the Ok steps, in step order -/
def wfStates (eval : Oracle) : Nat → List Step → List (Except Stop ETree) → Run Unit
  | _, [], _ => pure ()
  | _, _ :: _, [] => pure ()
  | k, st :: rest, r :: rs => do
    (match r with
     | .ok _ => stateOf eval (fun s => .step k s) st
     | .error _ => pure ())
    wfStates eval (k + 1) rest rs

def wfRun (eval : Oracle) (interp : Interp) (steps : List Step) : Run (List (Except Stop ETree)) := do
  let rs ← wfBodies eval interp 0 steps []
  wfStates eval 0 steps rs
  pure rs

/-- `state.update(step_state)` over the steps, in order -/
def publishedState (outs : List (Out × ETree)) : ETree :=
  .obj (outs.foldl (fun acc o => match o with
    | (.state, .obj kvs) => kvs.foldl (fun a kv => insert kv.1 kv.2 a) acc
    | _ => acc) [])

/-! ## the sites as they appear in the source (compared with the regenerated table) -/

def VfSite.source : VfSite → String × String × String
  | .preconditions => ("vf", "evaluate_predicates", ":spec.preconditions")
  | .locals => ("vf", "evaluate", ":spec.locals")
  | .returnValue => ("vf", "evaluate_overlay", ":spec.return")

/-- (module, evaluator, last constant piece of the `location` text) of the call a site stands for;
    `securityOverlay` is a re-scan location, not an evaluation -/
def Site.source : Site → Option (String × String × String)
  | .vf s => some s.source
  | .rfPre => some ("rf", "evaluate_predicates", ":spec.preconditions")
  | .rfLocals => some ("rf", "evaluate", ":spec.locals")
  | .apiConfig => some ("rf", "evaluate", "spec.apiConfig.name")
  | .templateName => some ("rf", "evaluate", ":spec.resourceTemplateRef.name<eval>")
  | .resource => some ("rf", "evaluate", ":spec.resource")
  | .overlaySkipIf _ => some ("rf", "evaluate", "].skipIf")
  | .overlay _ => some ("rf", "evaluate_overlay", "].overlay")
  | .overlayInputs _ => some ("rf", "evaluate", "].inputs")
  | .overlayRef _ s => some s.source
  | .createOverlay => some ("rf", "evaluate_overlay", "spec.create.overlay")
  | .securityOverlay => none
  | .rfPost => some ("rf", "evaluate_predicates", ":spec.postconditions")
  | .rfReturn => some ("rf", "evaluate", ":spec.return")
  | .stepInputs => some ("wf", "evaluate", ".inputs")
  | .stepSkipIf => some ("wf", "evaluate", ".skipIf")
  | .forEach => some ("wf", "evaluate", ".forEach.itemIn")
  | .switchOn => some ("wf", "evaluate", ".switchOn")
  | .state => some ("wf", "evaluate", ":state")
  | .iter _ s => s.source
  | .step _ s => s.source

/-- every evaluation call of the three reconcile modules, in the translator's order -/
def sourceTable : List (String × String × String) := [
  ("vf", "evaluate", ":spec.locals"),
  ("vf", "evaluate_overlay", ":spec.return"),
  ("vf", "evaluate_predicates", ":spec.preconditions"),
  ("rf", "evaluate", ":spec.locals"),
  ("rf", "evaluate", ":spec.resource"),
  ("rf", "evaluate", ":spec.resourceTemplateRef.name<eval>"),
  ("rf", "evaluate", ":spec.return"),
  ("rf", "evaluate", "].inputs"),
  ("rf", "evaluate", "].skipIf"),
  ("rf", "evaluate", "spec.apiConfig.name"),
  ("rf", "evaluate_overlay", "].overlay"),
  ("rf", "evaluate_overlay", "spec.create.overlay"),
  ("rf", "evaluate_predicates", ":spec.postconditions"),
  ("rf", "evaluate_predicates", ":spec.preconditions"),
  ("wf", "evaluate", ".forEach.itemIn"),
  ("wf", "evaluate", ".inputs"),
  ("wf", "evaluate", ".skipIf"),
  ("wf", "evaluate", ".switchOn"),
  ("wf", "evaluate", ":state")]

/-- one representative site per table row -/
def representativeSites : List Site := [
  .vf .locals, .vf .returnValue, .vf .preconditions,
  .rfLocals, .resource, .templateName, .rfReturn, .overlayInputs 0, .overlaySkipIf 0, .apiConfig,
  .overlay 0, .createOverlay, .rfPost, .rfPre,
  .forEach, .stepInputs, .stepSkipIf, .switchOn, .state]

/-! ## what the models say about the translator's probe inputs

The translator runs `check_for_celevalerror` and the three evaluators of the tree under test on a
fixed table of small inputs; these are the answers of `scan` / `site` / `evalPredicates` /
`evalOverlay` on the same inputs. -/

def scanProbeInputs : List (String × ETree) :=
  let e := ETree.err
  [("int", .int 1), ("string", .str "s"), ("null", .null), ("empty map", .obj []), ("empty list", .arr []),
   ("error", e),
   ("dict value", .obj [(.str "a", e)]), ("MapType value", .obj [(.str "a", e)]),
   ("dict key", .obj [(.err, .int 1)]), ("MapType key", .obj [(.err, .str "v")]),
   ("list item", .arr [.int 1, e]), ("ListType item", .arr [.int 1, e]), ("tuple item", .arr [.int 1, e]),
   ("map in list in map", .obj [(.str "a", .arr [.obj [(.str "b", e)]])]),
   ("list in tuple in dict", .obj [(.str "a", .arr [.arr [.int 1, .arr [e]]])]),
   ("key at depth 3", .obj [(.str "a", .arr [.obj [(.err, .int 1)]])]),
   ("clean nested", .obj [(.str "a", .arr [.obj [(.str "b", .arr [.int 1, .int 2])], .str "x"]),
                          (.str "c", .obj [(.str "d", .arr [.null])])])]

def scanProbeTable : List (String × String) :=
  scanProbeInputs.map fun (n, t) => (n, if scan t then "found" else "clean")

/-- the stand-in programs: what "celpy" did, per evaluator (evaluate, evaluate_predicates, evaluate_overlay) -/
def evaluatorStimuli : List (String × EvalResult × EvalResult × EvalResult) :=
  let r := EvalResult.raised
  let nested := ETree.obj [(.str "k", .arr [.err])]
  [("raises CELEvalError", r, r, r),
   ("raises a CELEvalError whose tree cannot be dumped", r, r, r),
   ("raises ValueError", r, r, r), ("raises KeyError", r, r, r), ("raises RuntimeError", r, r, r),
   ("returns an error value", .val .err, .val .err, .val .err),
   ("nested error", .val nested,
      .val (.arr [.obj [(.str "assert", .bool false), (.str "skip", .obj [(.str "message", .err)])]]),
      .val (.arr [nested])),
   ("clean", .val (.obj [(.str "k", .int 1)]), .val (.arr []), .val (.arr [.int 1]))]

def renderRes {α : Type} (r : Except Stop α) : String :=
  match r with
  | .ok _ => "value"
  | .error (.permFail _ _) => "PermFail naming the location"
  | .error _ => "other"

def evaluatorProbeTable : List (String × String × String) :=
  evaluatorStimuli.flatMap fun (name, a, b, c) =>
    [("evaluate", name, renderRes (site (fun _ => a) .rfLocals).res),
     ("evaluate_predicates", name, renderRes (evalPredicates (fun _ => b) (fun _ => none) .rfPre true).res),
     ("evaluate_overlay", name, renderRes (evalOverlay (fun _ => c) (.overlay 0) [("a", .leaf 0)] (.obj [])).res)]

end Koreo.EvalScan
