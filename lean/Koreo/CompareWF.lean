/-
  C04 / C05 — the domain of the comparator theorems as decidable predicates on the target:
  `noNullsB` (no explicit nulls), `noDupB` (maps have distinct keys — a Python dict invariant),
  `wfB` (compare directives are well formed: directive values have the documented shapes,
  set-directed lists hold scalars, keyed lists hold maps with pairwise distinct keys that are not
  one of the never-compared names).  Core Lean only (the driver evaluates them).
-/
import Koreo.Compare
namespace Koreo.Compare
open Koreo Koreo.JVal

mutual
def noNullsB : JVal → Bool
  | .null => false
  | .arr xs => noNullsL xs
  | .obj kvs => noNullsO kvs
  | _ => true
def noNullsL : List JVal → Bool
  | [] => true
  | x :: xs => noNullsB x && noNullsL xs
def noNullsO : List (String × JVal) → Bool
  | [] => true
  | (_, v) :: rest => noNullsB v && noNullsO rest
end

def keysNoDup : List (String × JVal) → Bool
  | [] => true
  | (k, _) :: rest => (lookup k rest).isNone && keysNoDup rest

mutual
def noDupB : JVal → Bool
  | .arr xs => noDupL xs
  | .obj kvs => keysNoDup kvs && noDupO kvs
  | _ => true
def noDupL : List JVal → Bool
  | [] => true
  | x :: xs => noDupB x && noDupL xs
def noDupO : List (String × JVal) → Bool
  | [] => true
  | (_, v) :: rest => noDupB v && noDupO rest
end

def isStr : JVal → Bool | .str _ => true | _ => false

def strsOnly : Option JVal → Bool
  | none => true
  | some (.arr xs) => xs.all isStr
  | some _ => false

def mapDirOk : Option JVal → Bool
  | none => true
  | some (.obj m) => m.all fun kv => strsOnly (some kv.2)
  | some _ => false

/-- keyed members: every key computable, pairwise distinct, none of the never-compared names -/
def keysDistinct (fields : List JVal) : List JVal → Bool
  | [] => true
  | m :: rest =>
    (match memberKey fields m with
     | some k => !skippedKey k && !hasKey fields k rest
     | none => false) && keysDistinct fields rest

/-- a key field is a plain name, not one of the directive keys (which the payload drops) -/
def fieldOk : JVal → Bool
  | .str s => !isDirective s
  | _ => false

/-- the key fields of a member hold scalars (so the key does not depend on nested directives) -/
def keyValsScalar (fields : List JVal) : JVal → Bool
  | .obj mkvs => fields.all fun f => match f with
    | .str s => isScalar ((lookup s mkvs).getD .null)
    | _ => true
  | _ => true

def keyDirOk (d : Dirs) (k : String) (tv : JVal) : Bool :=
  match fieldsFor k d.asMap with
  | some fields =>
    (match tv with
     | .arr tms => (allObj tms && keysDistinct fields tms) &&
        (fields.all fieldOk && tms.all (keyValsScalar fields))
     | _ => false)
  | none =>
    if d.asSet.contains k then (match tv with | .arr xs => xs.all isScalar | _ => true) else true

def dirValsOk (kvs : List (String × JVal)) : Bool :=
  strsOnly (lookup compareAsSet kvs) && strsOnly (lookup compareLastApplied kvs) &&
    mapDirOk (lookup compareAsMap kvs)

mutual
def wfB : JVal → Bool
  | .obj kvs => dirValsOk kvs && wfO (specDirs kvs) kvs
  | .arr xs => wfL xs
  | _ => true
def wfO (d : Dirs) (kvs : List (String × JVal)) : Bool :=
  match kvs with
  | [] => true
  | (k, v) :: rest => (isDirective k || keyDirOk d k v) && wfB v && wfO d rest
termination_by structural kvs
def wfL : List JVal → Bool
  | [] => true
  | x :: xs => wfB x && wfL xs
end

/-! the last-applied tree has the target's shape along the target's paths (what koreo itself wrote
    always has; a tampered annotation may not) -/
mutual
def laOkB (t la : JVal) : Bool :=
  match t with
  | .obj tkvs => laMapOk la && laOkO (specDirs tkvs) (laObjKvs la) tkvs
  | .arr txs => laArrOk la && laOkL txs (laArrItems la)
  | _ => true
termination_by structural t
def laOkO (d : Dirs) (lakvs : List (String × JVal)) (tkvs : List (String × JVal)) : Bool :=
  match tkvs with
  | [] => true
  | (k, tv) :: rest =>
    (if skippedKey k then true
     else match fieldsFor k d.asMap with
      | some fields =>
        (match tv with
         | .arr tms => laOkK fields (laMembers (laVal lakvs k)) tms
         | _ => true)
      | none => laOkB tv (laVal lakvs k)) && laOkO d lakvs rest
termination_by structural tkvs
def laOkL (txs items : List JVal) : Bool :=
  match txs with
  | [] => true
  | t :: ts => laOkB t (items.head?.getD .null) && laOkL ts items.tail
termination_by structural txs
def laOkK (fields lams tms : List JVal) : Bool :=
  match tms with
  | [] => true
  | tm :: rest =>
    (match tm with
     | .obj mkvs =>
       match objKey fields mkvs with
       | some key => laOkB tm (laMember fields key lams)
       | none => true
     | _ => true) && laOkK fields lams rest
termination_by structural tms
end

def NoNulls (t : JVal) : Prop := noNullsB t = true
def NoDupKeys (t : JVal) : Prop := noDupB t = true
def DirectivesWF (t : JVal) : Prop := wfB t = true
def LaShaped (t la : JVal) : Prop := laOkB t la = true

end Koreo.Compare
