/-
  C04 / C05 — the domain of the comparator theorems as decidable predicates on the target:
  `noNullsB` (no explicit nulls), `noDupB` (maps have distinct keys — a Python dict invariant),
  `wfB` (compare directives are well formed: directive values have the documented shapes,
  set-directed lists hold scalars, keyed lists hold maps with pairwise distinct keys that are not
  one of the never-compared names).  Core Lean only (the driver evaluates them).
-/
import Koreo.Compare
namespace Koreo.Compare
open Koreo Koreo.JVal

mutual
def noNullsB : JVal → Bool
  | .null => false
  | .arr xs => noNullsL xs
  | .obj kvs => noNullsO kvs
  | _ => true
def noNullsL : List JVal → Bool
  | [] => true
  | x :: xs => noNullsB x && noNullsL xs
def noNullsO : List (String × JVal) → Bool
  | [] => true
  | (_, v) :: rest => noNullsB v && noNullsO rest
end

def keysNoDup : List (String × JVal) → Bool
  | [] => true
  | (k, _) :: rest => (lookup k rest).isNone && keysNoDup rest

mutual
def noDupB : JVal → Bool
  | .arr xs => noDupL xs
  | .obj kvs => keysNoDup kvs && noDupO kvs
  | _ => true
def noDupL : List JVal → Bool
  | [] => true
  | x :: xs => noDupB x && noDupL xs
def noDupO : List (String × JVal) → Bool
  | [] => true
  | (_, v) :: rest => noDupB v && noDupO rest
end

def isStr : JVal → Bool | .str _ => true | _ => false

def strsOnly : Option JVal → Bool
  | none => true
  | some (.arr xs) => xs.all isStr
  | some _ => false

def mapDirOk : Option JVal → Bool
  | none => true
  | some (.obj m) => m.all fun kv => strsOnly (some kv.2)
  | some _ => false

/-- keyed members: every key computable, pairwise distinct, none of the never-compared names -/
def keysDistinct (fields : List JVal) : List JVal → Bool
  | [] => true
  | m :: rest =>
    (match memberKey fields m with
     | some k => !skippedKey k && !hasKey fields k rest
     | none => false) && keysDistinct fields rest

def keyDirOk (d : Dirs) (k : String) (tv : JVal) : Bool :=
  match fieldsFor k d.asMap with
  | some fields =>
    (match tv with
     | .arr tms => allObj tms && keysDistinct fields tms
     | _ => false)
  | none =>
    if d.asSet.contains k then (match tv with | .arr xs => xs.all isScalar | _ => true) else true

def dirValsOk (kvs : List (String × JVal)) : Bool :=
  strsOnly (lookup compareAsSet kvs) && strsOnly (lookup compareLastApplied kvs) &&
    mapDirOk (lookup compareAsMap kvs)

mutual
def wfB : JVal → Bool
  | .obj kvs => dirValsOk kvs && wfO (specDirs kvs) kvs
  | .arr xs => wfL xs
  | _ => true
def wfO (d : Dirs) (kvs : List (String × JVal)) : Bool :=
  match kvs with
  | [] => true
  | (k, v) :: rest => (isDirective k || keyDirOk d k v) && wfB v && wfO d rest
termination_by structural kvs
def wfL : List JVal → Bool
  | [] => true
  | x :: xs => wfB x && wfL xs
end

def NoNulls (t : JVal) : Prop := noNullsB t = true
def NoDupKeys (t : JVal) : Prop := noDupB t = true
def DirectivesWF (t : JVal) : Prop := wfB t = true

end Koreo.Compare
