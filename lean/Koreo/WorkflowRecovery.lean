/-
  C09, recovery at full strength — convergence of repeated reconcile passes over NESTED workflows.

  `Koreo/WorkflowFaults.lean` §3 (`DagSys`) treats a workflow whose steps each own ONE resource and are stable after
  ONE fault-free evaluation.  Here the same argument is made compositional:

  * `GSys`: steps `0 … n-1` in listed order; step `i` owns a piece of cluster state of its OWN type `S i`, is
    evaluated on the workflow's trigger `x` and the Ok values `vs` of its dependencies (`pass`), may be hit by faults
    or cancelled (`F`: what that may do to its state), and needs `k i` fault-free evaluations to reach a stable
    state (`GSys.lim`).  `GIsPass` / `GIsFPass` / `GReach` / `GCleanRun` are the relational passes as before.
  * `GSys.bound`: step `i` is in its limit state after `bound i + k i` fault-free passes and shows its limit result
    from pass `bound (i+1) = bound i + k i + 1` on; the whole workflow needs `bound n = Σᵢ (kᵢ + 1)` passes.
  * step combinators, each a `Stepper` (pass + faulty relation + number of evaluations):
      `rfStepper`    one ResourceFunction (`rfPass`): `k = 1` for update policy patch / never, `2` for recreate
      `pureStepper`  a step that touches no resource (ValueFunction, a gate that answers by itself): `k = 0`
      `vecStepper`   forEach / refSwitch: a vector of independent reconcilers indexed by a key; which keys are
                     evaluated (the item list / the selected case) is a function of the step's inputs; `k` = the
                     items' `k`, whatever the item count
      `dagStepper`   a sub-workflow: a whole `GSys` run as ONE step of an outer workflow, its trigger being the outer
                     step's inputs; `k = bound n` of the inner system
    `Lemmas/WorkflowRecovery.lean` proves that each combinator preserves the step hypotheses (`StepOK`), so any
    nesting of them does, and `Props/C09.lean` states the recovery theorem for every such system.
  Core Lean only.
-/
import Koreo.WorkflowFaults

namespace Koreo.WorkflowFaults

/-- `f` applied `n` times -/
def iterF {α : Type} (f : α → α) : Nat → α → α
  | 0, a => a
  | n + 1, a => iterF f n (f a)

/-- a reconciler for one step: what a fault-free evaluation on inputs `vs` does to its state and answers, what an
    evaluation hit by a fault / cancelled half-way may do to the state, how many evaluations it needs -/
structure Stepper (X V R S : Type) where
  pass : X → List V → S → S × R
  F : X → List V → S → S → Prop
  k : Nat

variable {X V R : Type}

/-- how results are read: an Ok value, an error (Retry / PermFail), or neither (Skip / DepSkip) -/
structure ResView (V R : Type) where
  okv : R → Option V
  isErr : R → Bool
  /-- the result of a step that was not evaluated (DepSkip) -/
  gated : R

namespace Stepper
variable {S : Type}

def next (st : Stepper X V R S) (x : X) (vs : List V) : S → S := fun s => (st.pass x vs s).1

/-- where `k` fault-free evaluations take the state -/
def lim (st : Stepper X V R S) (x : X) (vs : List V) (s : S) : S := iterF (st.next x vs) st.k s

end Stepper

/-- the hypotheses on one step: stable after `k` evaluations; an evaluation that does not answer with an error
    changed nothing; an evaluation hit by a fault does not change where the fault-free evaluations lead -/
structure StepOK {S : Type} (rv : ResView V R) (st : Stepper X V R S) : Prop where
  stable : ∀ x vs s, st.next x vs (st.lim x vs s) = st.lim x vs s
  quiet_unchanged : ∀ x vs s, rv.isErr (st.pass x vs s).2 = false → (st.pass x vs s).1 = s
  faulty_same_limit : ∀ x vs s s', st.F x vs s s' → st.lim x vs s' = st.lim x vs s

/-- a workflow: steps in listed order, each with its own state type and reconciler -/
structure GSys (X V R : Type) where
  n : Nat
  S : Nat → Type
  deps : Nat → List Nat
  step : (i : Nat) → Stepper X V R (S i)
  rv : ResView V R

namespace GSys

abbrev State (sys : GSys X V R) := (i : Nat) → sys.S i

/-- fault-free passes after which step `i` starts being evaluated on its final inputs -/
def bound (sys : GSys X V R) : Nat → Nat
  | 0 => 0
  | i + 1 => bound sys i + (sys.step i).k + 1

end GSys

/-- a fault-free pass with trigger `x` takes cluster `c` to `c'` with results `r` -/
def GIsPass (sys : GSys X V R) (x : X) (c c' : sys.State) (r : Nat → R) : Prop :=
  (∀ i, i < sys.n →
    match depVals sys.rv.okv r (sys.deps i) with
    | some vs => c' i = ((sys.step i).pass x vs (c i)).1 ∧ r i = ((sys.step i).pass x vs (c i)).2
    | none => c' i = c i ∧ r i = sys.rv.gated) ∧
  ∀ i, sys.n ≤ i → c' i = c i

/-- a pass in which evaluations may be hit by faults or cancelled: a step whose dependencies are Ok is evaluated
    faithfully, or its state stays / moves by `F` and its result is not Ok; a step with a dependency that is not
    Ok is not evaluated and is not Ok -/
def GIsFPass (sys : GSys X V R) (x : X) (c c' : sys.State) (r : Nat → R) : Prop :=
  (∀ i, i < sys.n →
    match depVals sys.rv.okv r (sys.deps i) with
    | some vs => (c' i = ((sys.step i).pass x vs (c i)).1 ∧ r i = ((sys.step i).pass x vs (c i)).2) ∨
                 ((c' i = c i ∨ (sys.step i).F x vs (c i) (c' i)) ∧ sys.rv.okv (r i) = none)
    | none => c' i = c i ∧ sys.rv.okv (r i) = none) ∧
  ∀ i, sys.n ≤ i → c' i = c i

inductive GReach (sys : GSys X V R) (x : X) : sys.State → sys.State → Prop where
  | refl (c) : GReach sys x c c
  | step {c c' c'' r} : GReach sys x c c' → GIsFPass sys x c' c'' r → GReach sys x c c''

inductive GCleanRun (sys : GSys X V R) (x : X) : Nat → sys.State → sys.State → Prop where
  | zero (c) : GCleanRun sys x 0 c c
  | succ {N c c' c'' r} : GIsPass sys x c c' r → GCleanRun sys x N c' c'' → GCleanRun sys x (N + 1) c c''

/-- the limit of the never-faulted run from `c0` (bounded recursion, `fuel > i` suffices for step `i`) -/
def gfinF (sys : GSys X V R) (x : X) (c0 : sys.State) : Nat → (i : Nat) → sys.S i × R
  | 0, i => (c0 i, sys.rv.gated)
  | fuel + 1, i =>
    match depVals sys.rv.okv (fun d => (gfinF sys x c0 fuel d).2) (sys.deps i) with
    | some vs => ((sys.step i).lim x vs (c0 i), ((sys.step i).pass x vs ((sys.step i).lim x vs (c0 i))).2)
    | none => (c0 i, sys.rv.gated)

def gfinS (sys : GSys X V R) (x : X) (c0 : sys.State) (i : Nat) : sys.S i := (gfinF sys x c0 (i + 1) i).1
def gfinR (sys : GSys X V R) (x : X) (c0 : sys.State) (i : Nat) : R := (gfinF sys x c0 (i + 1) i).2

/-- the fault-free pass as a function (existence of passes; what `dagStepper` runs) -/
def gpassF (sys : GSys X V R) (x : X) (c : sys.State) : Nat → (i : Nat) → sys.S i × R
  | 0, i => (c i, sys.rv.gated)
  | fuel + 1, i =>
    match depVals sys.rv.okv (fun d => (gpassF sys x c fuel d).2) (sys.deps i) with
    | some vs => (sys.step i).pass x vs (c i)
    | none => (c i, sys.rv.gated)

def gpassS (sys : GSys X V R) (x : X) (c : sys.State) : sys.State :=
  fun i => if i < sys.n then (gpassF sys x c (i + 1) i).1 else c i
def gpassR (sys : GSys X V R) (x : X) (c : sys.State) (i : Nat) : R := (gpassF sys x c (i + 1) i).2

/-! ## combinators -/

/-- one ResourceFunction; machine and flags may depend on the step's inputs.  `ok`: how an answer is turned into
    the workflow's result type -/
def rfStepper {S : Type} (mach : X → List V → RMach S) (cfg : X → List V → RfCfg) (k : Nat)
    (ofAns : X → List V → RAns S → R) : Stepper X V R S where
  pass := fun x vs s => ((rfPass (mach x vs) (cfg x vs) none s).st, ofAns x vs (rfPass (mach x vs) (cfg x vs) none s).ans)
  F := fun x vs s s' => ∃ f, s' = (rfPass (mach x vs) (cfg x vs) f s).st
  k := k

/-- evaluations a ResourceFunction needs: delete-to-recreate takes two mutations -/
def rfK (cfg : RfCfg) : Nat := if cfg.policy = .recreate then 2 else 1

/-- a step that owns no resource -/
def pureStepper (res : X → List V → R) : Stepper X V R Unit where
  pass := fun x vs s => (s, res x vs)
  F := fun _ _ _ _ => False
  k := 0

/-- forEach / refSwitch: independent reconcilers indexed by `K`; `keys x vs` are the ones evaluated in a pass
    (the item list, the selected case), each on its own inputs; `comb` builds the step's result from theirs -/
def vecStepper {K S : Type} [DecidableEq K] (keys : X → List V → List K)
    (item : K → Stepper X V R S) (k : Nat) (comb : X → List V → List R → R) : Stepper X V R (K → S) where
  pass := fun x vs s =>
    (fun key => if key ∈ keys x vs then ((item key).pass x vs (s key)).1 else s key,
     comb x vs ((keys x vs).map fun key => ((item key).pass x vs (s key)).2))
  F := fun x vs s s' => ∀ key, s' key = s key ∨ (key ∈ keys x vs ∧ (item key).F x vs (s key) (s' key))
  k := k

/-- a sub-workflow as one step: the inner system's trigger is built from the outer step's inputs (`trig`), a pass of
    the step is a fault-free pass of the inner system, a faulty evaluation is a faulty inner pass (any inner
    evaluations hit or cancelled), `agg` turns the inner results into the step's result (`subOut`) -/
def dagStepper {X' : Type} (inner : GSys X' V R) (trig : X → List V → X') (agg : X → List V → (Nat → R) → R) :
    Stepper X V R inner.State where
  pass := fun x vs s => (gpassS inner (trig x vs) s, agg x vs (gpassR inner (trig x vs) s))
  F := fun x vs s s' => ∃ r, GIsFPass inner (trig x vs) s s' r
  k := inner.bound inner.n

/-- the same reconciler seen from a context that computes its trigger and inputs (a step's `inputs:` expression, the
    forEach item placed under `inputKey`, …) -/
def Stepper.comap {X' S : Type} (st : Stepper X' V R S) (fx : X → List V → X') (fvs : X → List V → List V) :
    Stepper X V R S where
  pass := fun x vs s => st.pass (fx x vs) (fvs x vs) s
  F := fun x vs s s' => st.F (fx x vs) (fvs x vs) s s'
  k := st.k

/-- **every workflow shape**: the reconcilers obtained from ResourceFunctions (any update policy) and resource-free
    steps by forEach / refSwitch vectors, sub-workflows (to any depth) and re-wiring of inputs -/
inductive Built (rv : ResView V R) : {X S : Type} → Stepper X V R S → Prop where
  | rf {X S : Type} (mach : X → List V → RMach S) (cfg : X → List V → RfCfg) (k : Nat)
      (ofAns : X → List V → RAns S → R)
      (hconv : ∀ x vs, Converges (mach x vs))
      (hdel : ∀ x vs s, (mach x vs).present ((mach x vs).delete s) = false)
      (hk : ∀ x vs, rfK (cfg x vs) ≤ k)
      (hans : ∀ x vs a, rv.isErr (ofAns x vs a) = false → ∃ seen, a = .ok seen) :
      Built rv (rfStepper mach cfg k ofAns)
  | pure {X : Type} (res : X → List V → R) : Built rv (pureStepper res)
  | vec {X K S : Type} [DecidableEq K] (keys : X → List V → List K) (item : K → Stepper X V R S) (k : Nat)
      (comb : X → List V → List R → R)
      (hitem : ∀ key, Built rv (item key)) (hk : ∀ key, (item key).k ≤ k)
      (hcomb : ∀ x vs rs, rv.isErr (comb x vs rs) = false → ∀ r ∈ rs, rv.isErr r = false) :
      Built rv (vecStepper keys item k comb)
  | dag {X X' : Type} (inner : GSys X' V R) (trig : X → List V → X') (agg : X → List V → (Nat → R) → R)
      (hrv : inner.rv = rv)
      (hwf : ∀ i, ∀ d ∈ inner.deps i, d < i)
      (hgated : rv.okv rv.gated = none)
      (hok : ∀ r v, rv.okv r = some v → rv.isErr r = false)
      (hsteps : ∀ i, Built rv (inner.step i))
      (hagg : ∀ x vs r, rv.isErr (agg x vs r) = false → ∀ j, j < inner.n → rv.isErr (r j) = false) :
      Built rv (dagStepper inner trig agg)
  | comap {X X' S : Type} (st : Stepper X' V R S) (fx : X → List V → X') (fvs : X → List V → List V)
      (hst : Built rv st) : Built rv (st.comap fx fvs)

/-! ## from a `Workflow` of `Koreo/Workflow.lean` to a `GSys`

  Steps whose Logic is a Function (`ref`) or a `refSwitch` over Functions, with `inputs`, `skipIf` and `forEach`:
  the SAME `gate`, `select`, `setKey` and `combineItems` as C01/C02 decide what is evaluated, on which inputs, and how
  the step's result is built; what a Function does to the cluster is a parameter `tgt` (one reconciler per target,
  e.g. `rfStepper`).  The evaluations of a step are keyed by (forEach position, selected target), so every forEach
  item and every switch case owns its own piece of cluster state. -/

open Koreo.Workflow

/-- how `StepOut`s are read -/
def stepRv : ResView JVal StepOut where
  okv := fun o => o.res.okVal?
  isErr := fun o => o.res.isErr
  gated := ⟨.depSkip, .null⟩

/-- a step that owns no resource, over any state type -/
def constStepper {X S : Type} (res : X → List V → R) : Stepper X V R S where
  pass := fun x vs s => (s, res x vs)
  F := fun _ _ _ _ => False
  k := 0

/-- the dependencies' results as the step sees them when all of them are Ok (`vs` in `deps` order) -/
def drOf (deps : List Label) (vs : List JVal) : List (Label × StepRes) :=
  List.zipWith (fun d v => (d, StepRes.ok v)) deps vs

/-- one evaluation of a step's Logic: forEach position (if any) and the target selected (`none`: the switch selects
    nothing and answers PermFail by itself) -/
abbrev EKey := Option Nat × Option Target

def selTarget (eval : EvalFn) : Logic → List (String × JVal) → JVal → Option Target
  | .ref t, _, _ => some t
  | .switch on cases dflt, act, inputs =>
    match select eval on cases dflt act inputs with
    | .hit t => some t
    | _ => none

/-- the evaluations `_reconcile_step` makes for trigger `x` and dependency values `vs` -/
def evalKeys (eval : EvalFn) (s : Step) (x : JVal) (vs : List JVal) : List EKey :=
  match gate eval x (drOf s.deps vs) s with
  | .done _ => []
  | .single act inputs => [(none, selTarget eval s.logic act inputs)]
  | .each act inputs key items =>
    items.zipIdx.map fun p => (some p.2, selTarget eval s.logic act (setKey key p.1 inputs))

/-- the inputs handed to the evaluation at forEach position `idx` -/
def evalInputsAt (eval : EvalFn) (s : Step) (x : JVal) (vs : List JVal) (idx : Option Nat) : JVal :=
  ((gate eval x (drOf s.deps vs) s).inputsAt idx).getD .null

/-- the step's result from the results of its evaluations (`rs` in the order of `evalKeys`) -/
def combStep (eval : EvalFn) (s : Step) (x : JVal) (vs : List JVal) (rs : List StepOut) : StepOut :=
  match gate eval x (drOf s.deps vs) s with
  | .done o => match rs with
    | [] => o
    | _ => ⟨.permFail, .null⟩
  | .single _ _ => match rs with
    | [r] => r
    | _ => ⟨.permFail, .null⟩
  | .each _ _ _ _ => combineItems rs

/-- the reconciler behind one evaluation: the target's, fed with the inputs the step computes -/
def itemOf {S₀ : Type} (tgt : Target → Stepper JVal JVal StepOut S₀) (eval : EvalFn) (s : Step) :
    EKey → Stepper JVal JVal StepOut S₀
  | (idx, some t) => (tgt t).comap (fun x vs => evalInputsAt eval s x vs idx) (fun _ _ => [])
  | (_, none) => constStepper fun _ _ => ⟨.permFail, .null⟩

def indexOf (l : Label) : List Step → Nat
  | [] => 0
  | s :: rest => if s.label = l then 0 else indexOf l rest + 1

/-- the workflow as a system of reconcilers; `k` bounds the evaluations any target needs -/
def ofWorkflow {S₀ : Type} (eval : EvalFn) (tgt : Target → Stepper JVal JVal StepOut S₀) (k : Nat)
    (wf : Workflow) : GSys JVal JVal StepOut where
  n := wf.steps.length
  S := fun _ => EKey → S₀
  deps := fun i => match wf.steps[i]? with
    | some s => s.deps.map fun d => indexOf d wf.steps
    | none => []
  step := fun i => match wf.steps[i]? with
    | some s => vecStepper (evalKeys eval s) (itemOf tgt eval s) k (combStep eval s)
    | none => constStepper fun _ _ => ⟨.depSkip, .null⟩
  rv := stepRv

/-! ### sub-workflows as targets, by nesting depth (the `runAt` of the recovery theorem) -/

/-- a reconciler acting on the first component of a pair of states -/
def Stepper.onFst {X S T : Type} (st : Stepper X V R S) : Stepper X V R (S × T) where
  pass := fun x vs p => (((st.pass x vs p.1).1, p.2), (st.pass x vs p.1).2)
  F := fun x vs p p' => p'.2 = p.2 ∧ st.F x vs p.1 p'.1
  k := st.k

/-- a reconciler acting on component `name` of the second component -/
def Stepper.onSndAt {X S T N : Type} [DecidableEq N] (name : N) (st : Stepper X V R T) :
    Stepper X V R (S × (N → T)) where
  pass := fun x vs p =>
    ((p.1, fun m => if m = name then (st.pass x vs (p.2 m)).1 else p.2 m), (st.pass x vs (p.2 name)).2)
  F := fun x vs p p' => p'.1 = p.1 ∧ (∀ m, m ≠ name → p'.2 m = p.2 m) ∧ st.F x vs (p.2 name) (p'.2 name)
  k := st.k

/-- what a sub-workflow hands to its parent from the results of its steps: `subOut ∘ collect` (C01) -/
def aggOf (eval : EvalFn) (w : Workflow) (r : Nat → StepOut) : StepOut :=
  let o := subOut (collect eval w (w.steps.zipIdx.map fun p => (p.1.label, r p.2))) []
  ⟨o.res, o.rid⟩

/-- cluster state behind one evaluation at nesting depth `n`: the Function's resource, and (depth > 0) the state of
    every sub-workflow by name -/
def TS (S : Type) : Nat → Type
  | 0 => S
  | n + 1 => S × (String → Nat → EKey → TS S n)

/-- evaluations any target needs at depth `n`: a Function `kleaf`, a sub-workflow its own pass bound -/
def kAt (kleaf len : Nat) : Nat → Nat
  | 0 => kleaf
  | n + 1 => max kleaf (len * (kAt kleaf len n + 1))

/-- targets at depth `n`: Functions are `leaf`; a sub-workflow is the named definition run as one step (`dagStepper`
    of its own `ofWorkflow`, one level down), its trigger being the step's inputs; depth exhausted or unknown name:
    PermFail -/
def tgtAt {S : Type} (eval : EvalFn) (leaf : String → Stepper JVal JVal StepOut S) (kleaf len : Nat) (defs : Env) :
    (n : Nat) → Target → Stepper JVal JVal StepOut (TS S n)
  | 0, .fn id => leaf id
  | 0, .wf _ => constStepper fun _ _ => ⟨.permFail, .null⟩
  | _ + 1, .fn id => (leaf id).onFst
  | n + 1, .wf name =>
    match lookupL name defs with
    | some w =>
      Stepper.onSndAt name
        (dagStepper (ofWorkflow eval (tgtAt eval leaf kleaf len defs n) (kAt kleaf len n) w)
          (fun x _ => x) (fun _ _ r => aggOf eval w r))
    | none => constStepper fun _ _ => ⟨.permFail, .null⟩

/-- how a ResourceFunction's answer becomes the step's outcome: Ok with the `return` value computed from the inputs
    and the live object, Retry / PermFail as they are (an escaping exception or a hang only occur under faults; the
    post-loop stores them as Retry) -/
def rfLeafAns {S : Type} (ret : JVal → S → JVal) : JVal → List JVal → RAns S → StepOut :=
  fun x _ a => match a with
    | .ok seen => ⟨.ok (ret x seen), .null⟩
    | .retry d => ⟨.retry d, .null⟩
    | .permFail => ⟨.permFail, .null⟩
    | .raised => ⟨.retry errorDelay, .null⟩
    | .hung => ⟨.retry timeoutDelay, .null⟩

/-- a ResourceFunction as a target: machine and flags from the inputs `x` handed to it -/
def rfLeaf {S : Type} (mach : JVal → RMach S) (cfg : JVal → RfCfg) (ret : JVal → S → JVal) :
    Stepper JVal JVal StepOut S :=
  rfStepper (fun x _ => mach x) (fun x _ => cfg x) 2 (rfLeafAns ret)

/-- the environment of the fault model (`FRun`) that answers every evaluation of a step from the step's cluster
    state `cs` through the targets' reconcilers — no faults -/
def frunOf {S₀ : Type} (tgt : Target → Stepper JVal JVal StepOut S₀) (cs : EKey → S₀) : FRun :=
  fun _ idx t inputs =>
    .ans ⟨((tgt t).pass inputs [] (cs (idx, some t))).2.res, ((tgt t).pass inputs [] (cs (idx, some t))).2.rid, []⟩

end Koreo.WorkflowFaults
