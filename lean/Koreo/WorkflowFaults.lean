/-
  C09 — fault semantics of a Workflow reconcile pass (REPAIRED code, fixes/F1-condition-for-failed-step.diff).

  Builds on `Koreo/Workflow.lean` (C01/C02): `gate`, `select`, `combineItems`, `collect`, `subOut` are reused,
  nothing is forked.  Three parts, core Lean only:

  1. **Task-group semantics** (`src/koreo/workflow/reconcile.py`: `_reconcile_steps`, `_for_each_reconciler`).
     Under faults an evaluation of a step's Logic may also answer `raised` (an exception escaped the Function)
     or `hung` (it never answers): `FAns`, `FRun`.  What asyncio then does is schedule dependent, so the model is a
     RELATION: `Possible eval frun trig interrupted wf tags` says that the final task states `tags` (one `Tag` per
     step task, one per forEach iteration task: done / raised / cancelled) are consistent with the rules
       * a task is `done` only if its Logic answered (a hung one never completes),
       * a task is `raised` only if its Logic raised (exceptions of forEach iterations are contained by
         `_for_each_reconciler`, so a forEach step never is),
       * a task is `cancelled` only if there is a cause in its task group: the group was interrupted (its
         time-out fired / the enclosing task was cancelled) or a sibling raised (TaskGroup aborts the rest),
       * a step one of whose dependencies did not complete normally cannot complete either (it is cancelled
         while it awaits them) and its Logic is never evaluated,
       * otherwise the step does what `gate` (C01) says on the results of its dependencies.
     `classify` is the post-loop: cancelled ⇒ Retry(TIMEOUT_RETRY_DELAY), exception ⇒
     Retry(UNKNOWN_ERROR_RETRY_DELAY), done ⇒ the task's result; `condsOfStep` the condition each branch emits;
     `collectF` the `Result` of `reconcile_workflow`; `subAnswer` what a sub-workflow hands to its parent.
  2. **One ResourceFunction evaluation under an API fault** (`reconcile_krm_resource`, `load_api_resource`,
     `_create_api_resource`): `rfPass` over an abstract resource machine `RMach` (comparator and mutation
     effects are oracle fields; `jvalMach` instantiates it with RFC 7386 merge-patch from `Koreo/MergePatch.lean`).
  3. **Convergence of repeated passes over a DAG of reconcilers** (`DagSys`): relational fault-free / faulty
     passes, the limit `fin`, used by `Props/C09.lean` for the workflow-level recovery theorem.
-/
import Koreo.Workflow
import Koreo.MergePatch

namespace Koreo.WorkflowFaults
open Koreo Koreo.Workflow Koreo.Result

/-! ## 1. task groups under faults -/

/-- what one evaluation of a Logic (Function or sub-workflow) may answer -/
inductive FAns where
  /-- it returned (possibly an error outcome: the Function contained the fault itself) -/
  | ans (o : FnOut)
  /-- an exception escaped it -/
  | raised
  /-- it never answers -/
  | hung
  deriving Repr, Inhabited

/-- the environment: the answer to the evaluation made on behalf of step `l` (iteration `idx`) -/
abbrev FRun := Label → Option Nat → Target → JVal → FAns

/-- an answer that reports the fault one way or the other -/
def FAns.faulty : FAns → Bool
  | .ans o => o.res.isErr
  | _ => true

/-- final state of an asyncio task as the post-loops test it: `task.done()` with a result,
    `task.exception()`, `task.cancelled()` -/
inductive Tag where
  | done | raised | cancelled
  deriving Repr, DecidableEq, Inhabited

/-- the tasks of one step: its own and (forEach) one per iteration, in source order (`[]`: none was created) -/
structure StepTags where
  tag : Tag
  items : List Tag := []
  deriving Repr, Inhabited

/-- `TIMEOUT_RETRY_DELAY` -/
def timeoutDelay : Int := 30
/-- `UNKNOWN_ERROR_RETRY_DELAY` -/
def errorDelay : Int := 60

/-- the post-loop of `_reconcile_steps` / `_for_each_reconciler`: what is stored for a task -/
def classify (t : Tag) (o : StepOut) : StepOut :=
  match t with
  | .done => o
  | .raised => ⟨.retry errorDelay, .null⟩
  | .cancelled => ⟨.retry timeoutDelay, .null⟩

/-- `_reconcile_step_logic` / `_reconcile_ref_switch` under faults: the answer, and whether a Function /
    sub-workflow was invoked at all (a switch that selects nothing answers PermFail by itself) -/
def evalLogicF (eval : EvalFn) (frun : FRun) (lbl : Label) (idx : Option Nat)
    (act : List (String × JVal)) (inputs : JVal) : Logic → FAns × Bool
  | .ref t => (frun lbl idx t inputs, true)
  | .switch on cases dflt =>
    match select eval on cases dflt act inputs with
    | .hit t => (frun lbl idx t inputs, true)
    | _ => (.ans ⟨.permFail, .null, []⟩, false)

/-- may a task whose Logic answers `a` end in state `t`?  (`cause`: something in its group cancels) -/
def tagOK (cause : Bool) (a : FAns) : Tag → Bool
  | .done => match a with | .ans _ => true | _ => false
  | .raised => match a with | .raised => true | _ => false
  | .cancelled => cause

/-- the task's own result when it completes -/
def FAns.out : FAns → StepOut
  | .ans o => ⟨o.res, o.rid⟩
  | _ => ⟨.permFail, .null⟩

/-- what the post-loop stores for a task whose Logic answered `a` and which ended in state `t` -/
def taskOut (a : FAns) (t : Tag) : StepOut := classify t a.out

/-- the answers to the iterations of a forEach step, source order -/
def itemAnswers (eval : EvalFn) (frun : FRun) (lbl : Label) (act : List (String × JVal)) (inputs : JVal)
    (key : String) (logic : Logic) : Nat → List JVal → List FAns
  | _, [] => []
  | i, it :: rest =>
    (evalLogicF eval frun lbl (some i) act (setKey key it inputs) logic).1 ::
      itemAnswers eval frun lbl act inputs key logic (i + 1) rest

def zipOK (cause : Bool) : List FAns → List Tag → Bool
  | [], [] => true
  | a :: as, t :: ts => tagOK cause a t && zipOK cause as ts
  | _, _ => false

def zipOut : List FAns → List Tag → List StepOut
  | a :: as, t :: ts => taskOut a t :: zipOut as ts
  | _, _ => []

/-- one step: are its tags consistent, what does the post-loop store for it, might its Logic have run -/
structure StepEval where
  ok : Bool
  out : StepOut
  mayRun : Bool
  deriving Repr, Inhabited

/-- a step task that completes with `o` unless it is cancelled first -/
def plainStep (cause : Bool) (tg : StepTags) (o : StepOut) (mayRun : Bool) : StepEval :=
  match tg.tag with
  | .done => ⟨tg.items.isEmpty, o, mayRun⟩
  | .cancelled => ⟨cause && tg.items.isEmpty, classify .cancelled o, mayRun⟩
  | .raised => ⟨false, classify .raised o, mayRun⟩

/-- `dd`: the results of the step's dependencies if every one of their tasks completed normally -/
def evalStep (eval : EvalFn) (frun : FRun) (trig : JVal) (cause : Bool)
    (dd : Option (List (Label × StepRes))) (s : Step) (tg : StepTags) : StepEval :=
  match dd with
  | none =>
    -- awaiting a task that raised or was cancelled: cancelled with it, nothing evaluated
    ⟨decide (tg.tag = .cancelled) && cause && tg.items.isEmpty, classify .cancelled ⟨.depSkip, .null⟩, false⟩
  | some dr =>
    match gate eval trig dr s with
    | .done o => plainStep cause tg o false
    | .single act inputs =>
      let a := evalLogicF eval frun s.label none act inputs s.logic
      ⟨tagOK cause a.1 tg.tag && tg.items.isEmpty, taskOut a.1 tg.tag, a.2⟩
    | .each act inputs key items =>
      let as := itemAnswers eval frun s.label act inputs key s.logic 0 items
      match tg.items with
      | [] => ⟨decide (tg.tag = .cancelled) && cause, classify .cancelled ⟨.depSkip, .null⟩, false⟩
      | its =>
        -- the iterations' own task group: aborted by an iteration that raises, interrupted with the step
        let causeI := cause || its.any (fun t => decide (t = .raised))
        let o := combineItems (zipOut as its)
        match tg.tag with
        | .done => ⟨zipOK causeI as its, o, true⟩
        | .cancelled => ⟨cause && zipOK causeI as its, classify .cancelled o, true⟩
        | .raised => ⟨false, classify .raised o, true⟩

/-- per-step entry of a finished pass: final task state and stored outcome -/
abbrev Entry := Tag × StepOut

/-- results of `deps` if all of them completed normally -/
def depsDone (pre : List (Label × Entry)) : List Label → Option (List (Label × StepRes))
  | [] => some []
  | d :: rest =>
    match lookupL d pre, depsDone pre rest with
    | some (.done, o), some more => some ((d, o.res) :: more)
    | _, _ => none

structure RunEval where
  ok : Bool := true
  pre : List (Label × Entry) := []
  mayRun : List Label := []
  deriving Repr, Inhabited

def runStepsF (eval : EvalFn) (frun : FRun) (trig : JVal) (cause : Bool) :
    List Step → List (Label × StepTags) → RunEval → RunEval
  | [], [], acc => acc
  | s :: ss, (l, tg) :: ts, acc =>
    let e := evalStep eval frun trig cause (depsDone acc.pre s.deps) s tg
    runStepsF eval frun trig cause ss ts
      ⟨acc.ok && e.ok && decide (l = s.label), acc.pre ++ [(s.label, (tg.tag, e.out))],
       if e.mayRun then acc.mayRun ++ [s.label] else acc.mayRun⟩
  | _, _, acc => { acc with ok := false }

/-- something cancels in the top-level group: it was interrupted, or a step task raised -/
def causeOf (interrupted : Bool) (tags : List (Label × StepTags)) : Bool :=
  interrupted || tags.any (fun p => decide (p.2.tag = .raised))

def runF (eval : EvalFn) (frun : FRun) (trig : JVal) (interrupted : Bool) (wf : Workflow)
    (tags : List (Label × StepTags)) : RunEval :=
  runStepsF eval frun trig (causeOf interrupted tags) wf.steps tags {}

/-- **the relation**: `tags` is a possible outcome of the task group for this workflow and environment -/
def Possible (eval : EvalFn) (frun : FRun) (trig : JVal) (interrupted : Bool) (wf : Workflow)
    (tags : List (Label × StepTags)) : Prop :=
  (runF eval frun trig interrupted wf tags).ok = true

instance (eval : EvalFn) (frun : FRun) (trig : JVal) (b : Bool) (wf : Workflow) (tags) :
    Decidable (Possible eval frun trig b wf tags) := by unfold Possible; infer_instance

/-- what the post-loop stored: (final task state, outcome) per step, listed order -/
def entriesF (eval : EvalFn) (frun : FRun) (trig : JVal) (interrupted : Bool) (wf : Workflow)
    (tags : List (Label × StepTags)) : List (Label × Entry) :=
  (runF eval frun trig interrupted wf tags).pre

def resultsF (eval : EvalFn) (frun : FRun) (trig : JVal) (interrupted : Bool) (wf : Workflow)
    (tags : List (Label × StepTags)) : List (Label × StepOut) :=
  (entriesF eval frun trig interrupted wf tags).map fun p => (p.1, p.2.2)

/-- steps whose Logic may have been evaluated (Function / sub-workflow invoked) -/
def mayRunF (eval : EvalFn) (frun : FRun) (trig : JVal) (interrupted : Bool) (wf : Workflow)
    (tags : List (Label × StepTags)) : List Label :=
  (runF eval frun trig interrupted wf tags).mayRun

/-- the condition(s) the post-loop emits for one step (repaired code: the time-out and exception branches
    hand the Retry outcome itself to `_condition_helper`, type "Ready"; a completed task gets its configured
    condition, if any) -/
def condsOfStep (s : Step) (e : Entry) : List Condition :=
  match e.1 with
  | .done => match s.cond with
    | some c => [{ type := c.1, reason := reason e.2.res }]
    | none => []
  | _ => [{ type := "Ready", reason := reason e.2.res }]

def stepCondsF (wf : Workflow) (pre : List (Label × Entry)) : List Condition :=
  wf.steps.flatMap fun s => match lookupL s.label pre with
    | some e => condsOfStep s e
    | none => []

/-- everything `reconcile_workflow` returns for these task states: `collect` (C01/C02) on the stored
    outcomes — state, state errors, resource ids and the overall outcome do not look at how a task ended —
    with the conditions of the fault branches -/
def collectF (eval : EvalFn) (wf : Workflow) (pre : List (Label × Entry)) : WfResult :=
  let r := collect eval wf (pre.map fun p => (p.1, p.2.2))
  { r with conditions := stepCondsF wf pre ++ [{ type := "Ready", reason := reason r.overall }] }

/-- what a step whose Logic is this workflow receives back -/
def subAnswer (eval : EvalFn) (wf : Workflow) (pre : List (Label × Entry)) (api : List String) : FAns :=
  .ans (subOut (collectF eval wf pre) api)

/-- the Logic of `s` was evaluated and the environment answered with a fault (for a forEach step: one of
    its iterations) -/
def Affected (eval : EvalFn) (frun : FRun) (trig : JVal) (dd : Option (List (Label × StepRes)))
    (s : Step) : Prop :=
  ∃ dr, dd = some dr ∧
    ((∃ act inputs, gate eval trig dr s = .single act inputs ∧
        (evalLogicF eval frun s.label none act inputs s.logic).1.faulty = true) ∨
     (∃ act inputs key items, gate eval trig dr s = .each act inputs key items ∧
        ∃ a ∈ itemAnswers eval frun s.label act inputs key s.logic 0 items, a.faulty = true))

/-! ### the fault-free corner: every evaluation answers, every task completes -/

/-- an environment without faults: the Function oracle of C01/C02 -/
def liftRun (run : RunFn) : FRun := fun _ _ t x => .ans (run t x)

/-- the task states of the pass in which everything completes (one `done` per forEach iteration) -/
def doneTags (eval : EvalFn) (run : RunFn) (trig : JVal) : List Step → Trace → List (Label × StepTags)
  | [], _ => []
  | s :: rest, t =>
    let r := stepResult eval run trig (depRes t.results s.deps) s
    let its := match gate eval trig (depRes t.results s.deps) s with
      | .each _ _ _ items => items.map fun _ => Tag.done
      | _ => []
    (s.label, ⟨.done, its⟩) :: doneTags eval run trig rest ⟨t.results ++ [(s.label, r.1)], t.calls ++ r.2⟩

/-! ## 2. one ResourceFunction evaluation under an API fault -/

inductive FaultKind where
  | raiseBefore | raiseAfter | e404 | e409 | e500 | hang
  /-- a 4xx other than 404 / 409 (400, 401, 403, 429, …) -/
  | e4xx
  /-- `kr8s.ServerError` that carries no HTTP response at all -/
  | noResp
  deriving Repr, DecidableEq, Inhabited

inductive Policy where
  | patch | recreate | never
  deriving Repr, DecidableEq, Inhabited

/-- the flags and delays of `crud_config` that decide the API calls -/
structure RfCfg where
  /-- `apiConfig.deleteIfExists`: the Function's job is to make the object go away -/
  deleteIfExists : Bool := false
  readonly : Bool := false
  createEnabled : Bool := true
  policy : Policy := .patch
  /-- `DEFAULT_LOAD_RETRY_DELAY` -/
  loadDelay : Int := 30
  createDelay : Int := 30
  updateDelay : Int := 30
  deriving Repr, Inhabited

/-- the resource as the cluster holds it; the comparator and the effect of each mutation are oracles -/
structure RMach (S : Type) where
  present : S → Bool
  /-- `validate_match(target, live).match and owner_reffed` (only consulted when present) -/
  meets : S → Bool
  /-- effect of the POST on an absent object -/
  create : S → S
  /-- effect of the PATCH (merge-patch of the prepared target) -/
  patch : S → S
  delete : S → S

/-- what `reconcile_krm_resource` answers; `ok` carries the live object it returns -/
inductive RAns (S : Type) where
  | ok (seen : S)
  | retry (d : Int)
  | permFail
  | raised
  | hung
  deriving Repr, DecidableEq, Inhabited

inductive Method where
  | get | post | patch | delete
  deriving Repr, DecidableEq, Inhabited

structure RfStep (S : Type) where
  ans : RAns S
  st : S
  calls : List Method

def faultAt (fault : Option (Nat × FaultKind)) (j : Nat) : Option FaultKind :=
  match fault with
  | some (i, k) => if i = j then some k else none
  | none => none

/-- a mutation whose only handled failure is none at all (`api_resource.patch()` / `.delete()` are not
    inside a `try`): any error escapes, `raise-after` has taken effect already -/
def mutateUnguarded {S : Type} (f : Option FaultKind) (s s' : S) (d : Int) (m : Method) : RfStep S :=
  match f with
  | none => ⟨.retry d, s', [.get, m]⟩
  | some .hang => ⟨.hung, s, [.get, m]⟩
  | some .raiseAfter => ⟨.raised, s', [.get, m]⟩
  | some _ => ⟨.raised, s, [.get, m]⟩

/-- one evaluation; `fault = some (j, k)`: the j-th API call of this evaluation (0 = the GET) fails with `k` -/
def rfPass {S : Type} (m : RMach S) (cfg : RfCfg) (fault : Option (Nat × FaultKind)) (s : S) : RfStep S :=
  -- `load_api_resource`: NotFound / 404 ⇒ absent; any other error ⇒ Retry(DEFAULT_LOAD_RETRY_DELAY)
  let view : Option Bool := match faultAt fault 0 with
    | none => some (m.present s)
    | some .e404 => some false
    | some _ => none
  match faultAt fault 0, view with
  | some .hang, _ => ⟨.hung, s, [.get]⟩
  | _, none => ⟨.retry cfg.loadDelay, s, [.get]⟩
  | _, some false =>
    -- `delete_if_exists` comes first: nothing there ⇒ Ok({})
    if cfg.deleteIfExists then ⟨.ok s, s, [.get]⟩
    else if cfg.readonly || !cfg.createEnabled then ⟨.retry cfg.loadDelay, s, [.get]⟩
    else
      -- `_create_api_resource`: what the server does with the POST (409 when the object is there after all)
      let posted := if m.present s then s else m.create s
      match faultAt fault 1 with
      | none => ⟨.retry cfg.createDelay, posted, [.get, .post]⟩
      | some .hang => ⟨.hung, s, [.get, .post]⟩
      | some .e409 => ⟨.retry cfg.createDelay, s, [.get, .post]⟩
      | some .raiseAfter => ⟨.permFail, posted, [.get, .post]⟩
      | some _ => ⟨.permFail, s, [.get, .post]⟩
  | _, some true =>
    if cfg.deleteIfExists then mutateUnguarded (faultAt fault 1) s (m.delete s) cfg.loadDelay .delete
    else if cfg.readonly || m.meets s then ⟨.ok s, s, [.get]⟩
    else match cfg.policy with
      | .never => ⟨.ok s, s, [.get]⟩
      | .patch => mutateUnguarded (faultAt fault 1) s (m.patch s) cfg.updateDelay .patch
      | .recreate => mutateUnguarded (faultAt fault 1) s (m.delete s) cfg.updateDelay .delete

/-- state after `n` fault-free evaluations -/
def iter {S : Type} (m : RMach S) (cfg : RfCfg) : Nat → S → S
  | 0, s => s
  | n + 1, s => iter m cfg n (rfPass m cfg none s).st

/-- state after a sequence of evaluations each hit (or not) by a fault -/
def afterFaults {S : Type} (m : RMach S) (cfg : RfCfg) : List (Option (Nat × FaultKind)) → S → S
  | [], s => s
  | f :: fs, s => afterFaults m cfg fs (rfPass m cfg f s).st

/-- what C04 proves of the real comparator: create and patch reach a matching object -/
structure Converges {S : Type} (m : RMach S) : Prop where
  create_ok : ∀ s, m.present s = false → m.present (m.create s) = true ∧ m.meets (m.create s) = true
  patch_ok : ∀ s, m.present s = true → m.present (m.patch s) = true ∧ m.meets (m.patch s) = true

/-- the cluster of `harness/cluster.py`: an object or nothing, PATCH = RFC 7386 merge-patch of `body`,
    POST stores `created`; `cmp` is the comparator against the (fixed) target -/
def jvalMach (cmp : JVal → Bool) (created body : JVal) : RMach (Option JVal) where
  present := Option.isSome
  meets := fun o => match o with | some v => cmp v | none => false
  create := fun _ => some created
  patch := fun o => o.map fun v => mergePatch v body
  delete := fun _ => none

/-- the three situations the sweep's cluster can be in for one resource -/
inductive ObjState where
  | absent | matching | differing
  deriving Repr, DecidableEq, Inhabited

def objMach : RMach ObjState where
  present := fun s => decide (s ≠ .absent)
  meets := fun s => decide (s = .matching)
  create := fun _ => .matching
  patch := fun _ => .matching
  delete := fun _ => .absent

/-! ## 3. repeated passes over a DAG of reconcilers -/

/-- steps `0 … n-1` in listed order, each owning a piece of cluster state `S`; a step is evaluated on the Ok
    values of its dependencies (`pass`), its result `R` shows an Ok value or not (`okv`) -/
structure DagSys (S V R : Type) where
  n : Nat
  deps : Nat → List Nat
  pass : Nat → List V → S → S × R
  okv : R → Option V
  /-- the result of a step that was not evaluated (DepSkip) -/
  gated : R

/-- the Ok values of `ds` in results `r`, `none` unless all are Ok -/
def depVals {V R : Type} (okv : R → Option V) (r : Nat → R) : List Nat → Option (List V)
  | [] => some []
  | d :: ds =>
    match okv (r d), depVals okv r ds with
    | some v, some vs => some (v :: vs)
    | _, _ => none

variable {S V R : Type}

/-- a fault-free pass takes cluster `c` to `c'` with results `r` -/
def IsPass (sys : DagSys S V R) (c c' : Nat → S) (r : Nat → R) : Prop :=
  ∀ i, i < sys.n →
    match depVals sys.okv r (sys.deps i) with
    | some vs => c' i = (sys.pass i vs (c i)).1 ∧ r i = (sys.pass i vs (c i)).2
    | none => c' i = c i ∧ r i = sys.gated

/-- a pass in which evaluations may be hit by faults: a step whose dependencies are Ok is evaluated
    faithfully, or its state moves by the faulty transition `F` and its result is not Ok; a step with a
    dependency that is not Ok is not evaluated and is not Ok (DepSkip, or cancelled) -/
def IsFPass (sys : DagSys S V R) (F : Nat → List V → S → S → Prop) (c c' : Nat → S) (r : Nat → R) : Prop :=
  ∀ i, i < sys.n →
    match depVals sys.okv r (sys.deps i) with
    | some vs => (c' i = (sys.pass i vs (c i)).1 ∧ r i = (sys.pass i vs (c i)).2) ∨
                 (F i vs (c i) (c' i) ∧ sys.okv (r i) = none)
    | none => c' i = c i ∧ sys.okv (r i) = none

/-- any number of faulty passes -/
inductive Reach (sys : DagSys S V R) (F : Nat → List V → S → S → Prop) : (Nat → S) → (Nat → S) → Prop where
  | refl (c) : Reach sys F c c
  | step {c c' c'' r} : Reach sys F c c' → IsFPass sys F c' c'' r → Reach sys F c c''

/-- `N` fault-free passes -/
inductive CleanRun (sys : DagSys S V R) : Nat → (Nat → S) → (Nat → S) → Prop where
  | zero (c) : CleanRun sys 0 c c
  | succ {N c c' c'' r} : IsPass sys c c' r → CleanRun sys N c' c'' → CleanRun sys (N + 1) c c''

/-- the limit of the never-faulted run from `c0`, by bounded recursion (`fuel > i` suffices for step `i`):
    a step whose dependencies end Ok with values `vs` ends in `(pass vs c0ᵢ).1` with the result of a
    further pass there; any other step keeps its state and stays gated -/
def finF (sys : DagSys S V R) (c0 : Nat → S) : Nat → Nat → S × R
  | 0, i => (c0 i, sys.gated)
  | fuel + 1, i =>
    match depVals sys.okv (fun d => (finF sys c0 fuel d).2) (sys.deps i) with
    | some vs =>
      let s1 := (sys.pass i vs (c0 i)).1
      (s1, (sys.pass i vs s1).2)
    | none => (c0 i, sys.gated)

def finS (sys : DagSys S V R) (c0 : Nat → S) (i : Nat) : S := (finF sys c0 (i + 1) i).1
def finR (sys : DagSys S V R) (c0 : Nat → S) (i : Nat) : R := (finF sys c0 (i + 1) i).2

/-- the results of a fault-free pass, by the same bounded recursion (existence of passes) -/
def passF (sys : DagSys S V R) (c : Nat → S) : Nat → Nat → S × R
  | 0, i => (c i, sys.gated)
  | fuel + 1, i =>
    match depVals sys.okv (fun d => (passF sys c fuel d).2) (sys.deps i) with
    | some vs => sys.pass i vs (c i)
    | none => (c i, sys.gated)

def passS (sys : DagSys S V R) (c : Nat → S) (i : Nat) : S := (passF sys c (i + 1) i).1
def passR (sys : DagSys S V R) (c : Nat → S) (i : Nat) : R := (passF sys c (i + 1) i).2

/-- the instance the workflow-level recovery theorem is proved for: step `i` is one ResourceFunction evaluation
    (`rfPass`) whose machine and flags may depend on the Ok values `vs` of its dependencies (the target is built
    from the step's inputs); its Ok value is the live object it saw; `none` = not evaluated (DepSkip) -/
def rfSys (n : Nat) (deps : Nat → List Nat) (mach : Nat → List S → RMach S) (cfg : Nat → List S → RfCfg) :
    DagSys S S (Option (RAns S)) where
  n := n
  deps := deps
  pass := fun i vs s => ((rfPass (mach i vs) (cfg i vs) none s).st, some (rfPass (mach i vs) (cfg i vs) none s).ans)
  okv := fun r => match r with
    | some (.ok x) => some x
    | _ => none
  gated := none

/-- what an evaluation hit by a fault (or cancelled half-way) may do to the step's resource -/
def rfFaulty (mach : Nat → List S → RMach S) (cfg : Nat → List S → RfCfg) : Nat → List S → S → S → Prop :=
  fun i vs s s' => ∃ f, s' = (rfPass (mach i vs) (cfg i vs) f s).st

end Koreo.WorkflowFaults
