/-
  C12 (and the forced overlay of C06) — overlay compile / apply, deep merge, the
  ResourceFunction materialisation pipeline and the ValueFunction return.  Core Lean only.

  Transcribed from
    src/koreo/cel/prepare.py      `_overlay_indexer`, `prepare_overlay_expression`
    src/koreo/cel/evaluation.py   `_overlay_applier`, `evaluate_overlay`
    src/koreo/cel/functions.py    `_overlay` / `_deep_overlay`
    src/koreo/resource_function/reconcile/__init__.py
                                  `_forced_overlay`, `_construct_resource_template`,
                                  `_materialize_from_overlays`, `_create_api_resource` (up to the
                                  second forced overlay)
    src/koreo/value_function/reconcile.py   `reconcile_value_function` (success path)

  CEL evaluation is an *oracle parameter* `ev : Env → ε → JVal` (activation, expression ↦ value):
  nothing below looks inside an expression, and every theorem quantifies over every `ev`.
  Only the success path is modelled (an expression that fails or has the wrong type ends the
  real functions with a PermFail before anything is merged — that is C10's model).
-/
import Koreo.Json
namespace Koreo.Overlay
open Koreo JVal

/-! ## overlay definitions as written -/

/-- An overlay definition.  `node` = a **non-empty map written in the definition**; everything
    else (scalars, lists, empty maps, expressions) is a `leaf`.  `ε` is the type of what is
    written at a leaf (a literal or an expression); `OSpec JVal` is an overlay whose leaves have
    been evaluated. -/
inductive OSpec (ε : Type) where
  | leaf (e : ε)
  | node (kvs : List (String × OSpec ε))
  deriving Repr, Inhabited

/-- the compiled key tree: leaves are positions in one positional value list -/
inductive Index where
  | pos (i : Nat)
  | sub (kvs : List (String × Index))
  deriving Repr, Inhabited, BEq

abbrev Fields := List (String × JVal)
/-- a CEL activation: variable name ↦ value (`inputs`, `locals`, `resource`, …) -/
abbrev Env := List (String × JVal)

variable {ε : Type}

mutual
/-- The split `_overlay_indexer` makes (`case dict() if value:` vs `case _:`) on a written value. -/
def OSpec.ofJVal : JVal → OSpec JVal
  | .obj ((k, v) :: rest) => .node ((k, OSpec.ofJVal v) :: OSpec.ofFields rest)
  | v => .leaf v
def OSpec.ofFields : List (String × JVal) → List (String × OSpec JVal)
  | [] => []
  | (k, v) :: rest => (k, OSpec.ofJVal v) :: OSpec.ofFields rest
end

mutual
/-- the written leaves, left to right -/
def leavesV : OSpec ε → List ε
  | .leaf e => [e]
  | .node kvs => leavesO kvs
def leavesO : List (String × OSpec ε) → List ε
  | [] => []
  | (_, s) :: rest => leavesV s ++ leavesO rest
end

mutual
/-- evaluate every leaf, keep the key tree (`f` = the leaf evaluation) -/
def mapV {α β : Type} (f : α → β) : OSpec α → OSpec β
  | .leaf e => .leaf (f e)
  | .node kvs => .node (mapO f kvs)
def mapO {α β : Type} (f : α → β) : List (String × OSpec α) → List (String × OSpec β)
  | [] => []
  | (k, s) :: rest => (k, mapV f s) :: mapO f rest
end

def keysO (kvs : List (String × OSpec ε)) : List String := kvs.map (·.1)

mutual
/-- keys pairwise distinct in every written map (a Python `dict` cannot be otherwise) -/
def OSpec.WF : OSpec ε → Prop
  | .leaf _ => True
  | .node kvs => WFO kvs
def WFO : List (String × OSpec ε) → Prop
  | [] => True
  | (k, s) :: rest => k ∉ keysO rest ∧ s.WF ∧ WFO rest
end

/-! ## `_overlay_indexer` -/

mutual
/-- one value of the written map at running offset `b`:
    `case dict() if value:` recurse with `base = len(values) + base`;
    `case _: index[key] = len(values) + base; values.append(value)` -/
def indexV : OSpec ε → Nat → Index × List ε
  | .leaf e, b => (.pos b, [e])
  | .node kvs, b => let r := indexO kvs b; (.sub r.1, r.2)
/-- `_overlay_indexer(spec, base)`: the loop over `spec.items()`; `b + vs.length` is
    `len(values) + base` after the values of the preceding siblings have been appended -/
def indexO : List (String × OSpec ε) → Nat → List (String × Index) × List ε
  | [], _ => ([], [])
  | (k, s) :: rest, b =>
    let r := indexV s b
    let q := indexO rest (b + r.2.length)
    ((k, r.1) :: q.1, r.2 ++ q.2)
end

mutual
/-- the positions stored in an index tree, left to right -/
def positionsV : Index → List Nat
  | .pos i => [i]
  | .sub kvs => positionsO kvs
def positionsO : List (String × Index) → List Nat
  | [] => []
  | (_, i) :: rest => positionsV i ++ positionsO rest
end

/-! ## `_overlay_applier` -/

/-- `case dict() as sub_overlaid` / `case None | _: MapType()` on `base.get(key)` -/
def fieldsOf : Option JVal → Fields
  | some (.obj kvs) => kvs
  | _ => []

mutual
/-- what is stored under one key: `values[value_index]` or the recursive application to
    `base.get(key)` — of the **original** base, not of the copy being filled -/
def applyV (values : List JVal) (b : Option JVal) : Index → JVal
  | .pos i => values.getD i .null
  | .sub ix => .obj (applyLoop values (fieldsOf b) ix (fieldsOf b))
/-- `overlaid = copy.deepcopy(base); for key, value_index in index.items(): overlaid[key] = …`
    (`acc` is `overlaid`, `base` stays the original) -/
def applyLoop (values : List JVal) (base : Fields) : List (String × Index) → Fields → Fields
  | [], acc => acc
  | (k, i) :: rest, acc =>
    applyLoop values base rest (JVal.insert k (applyV values (JVal.lookup k base) i) acc)
end

/-- `_overlay_applier(base, index, values)` -/
def applier (base : Fields) (index : List (String × Index)) (values : List JVal) : Fields :=
  applyLoop values base index base

/-! ## the specification: ordered deep merge -/

mutual
/-- a written node merges key by key into the map that is there (or into a fresh one);
    a leaf — whatever its value, a computed map included — replaces -/
def mergeV (b : Option JVal) : OSpec JVal → JVal
  | .leaf v => v
  | .node kvs => .obj (mergeO (fieldsOf b) kvs)
/-- deep merge of an evaluated overlay into a map, key after key, each into the current result -/
def mergeO (acc : Fields) : List (String × OSpec JVal) → Fields
  | [] => acc
  | (k, s) :: rest => mergeO (JVal.insert k (mergeV (JVal.lookup k acc) s) acc) rest
end

/-- first binding of a key in a written map -/
def specLookup (k : String) : List (String × OSpec ε) → Option (OSpec ε)
  | [] => none
  | (k', s) :: rest => if k' = k then some s else specLookup k rest

abbrev deepMerge (base : Fields) (ov : List (String × OSpec JVal)) : Fields := mergeO base ov

/-! ## `_deep_overlay` (the `overlay()` CEL function and the forced overlay) -/

mutual
/-- the value `_deep_overlay` stores under a field: recursive only when the field is present and
    both sides are maps (an **empty** overlay map merges too — unlike the written-overlay split) -/
def dovV (r : Option JVal) : JVal → JVal
  | .obj okvs =>
    match r with
    | some (.obj rkvs) => .obj (dovO rkvs okvs)
    | _ => .obj okvs
  | o => o
/-- `resource = copy.deepcopy(resource); for field, overlay_value in overlay.items(): …` -/
def dovO (acc : Fields) : Fields → Fields
  | [] => acc
  | (k, o) :: rest => dovO (JVal.insert k (dovV (JVal.lookup k acc) o) acc) rest
end

abbrev deepOverlay (resource overlay : Fields) : Fields := dovO resource overlay

/-- `_forced_overlay(resource_api, name, namespace)` -/
def forcedOverlay (apiVersion kind name : String) (ns : Option String) : Fields :=
  [("apiVersion", .str apiVersion), ("kind", .str kind),
   ("metadata", .obj (("name", .str name) ::
      (match ns with | some n => [("namespace", .str n)] | none => [])))]

mutual
/-- keys pairwise distinct in every map of a JSON value -/
def HD : JVal → Prop
  | .obj kvs => HDO kvs
  | .arr xs => HDL xs
  | _ => True
def HDL : List JVal → Prop
  | [] => True
  | x :: xs => HD x ∧ HDL xs
def HDO : Fields → Prop
  | [] => True
  | (k, v) :: rest => k ∉ JVal.keys rest ∧ HD v ∧ HDO rest
end

/-! ## `evaluate_overlay` -/

/-- `combined_inputs = inputs | {"resource": base}`; the value list is one CEL list expression
    over the written leaves, evaluated once; then the applier -/
def evalOverlay (ev : Env → ε → JVal) (env : Env) (base : Fields)
    (spec : List (String × OSpec ε)) : Fields :=
  let compiled := indexO spec 0
  let env' := JVal.insert "resource" (.obj base) env
  applier base compiled.1 (compiled.2.map (ev env'))

/-- the evaluated overlay tree (specification side of `evalOverlay`) -/
def evalTree (ev : Env → ε → JVal) (env : Env) (base : Fields)
    (spec : List (String × OSpec ε)) : List (String × OSpec JVal) :=
  mapO (ev (JVal.insert "resource" (.obj base) env)) spec

/-! ## ValueFunction return (`reconcile_value_function`, success path) -/

structure VFn (ε : Type) where
  locals : Option ε
  ret : List (String × OSpec ε)

/-- activation for `locals`: `{"inputs": inputs}`, plus `resource` only `if value_base:` (truthy) -/
def vfEnv1 (inputs : JVal) (valueBase : Option Fields) : Env :=
  match valueBase with
  | some b => if b.isEmpty then [("inputs", inputs)] else JVal.insert "resource" (.obj b) [("inputs", inputs)]
  | none => [("inputs", inputs)]

/-- activation for the return overlay: the above plus `locals` (`MapType({})` when there are none) -/
def vfEnv (ev : Env → ε → JVal) (vf : VFn ε) (inputs : JVal) (valueBase : Option Fields) : Env :=
  let env1 := vfEnv1 inputs valueBase
  JVal.insert "locals" (match vf.locals with | some e => ev env1 e | none => .obj []) env1

/-- `evaluate_overlay(function.return_value, full_inputs, base = value_base or MapType({}))` -/
def vfReturn (ev : Env → ε → JVal) (vf : VFn ε) (inputs : JVal) (valueBase : Option Fields) : Fields :=
  evalOverlay ev (vfEnv ev vf inputs valueBase) (valueBase.getD []) vf.ret

/-! ## the ResourceFunction pipeline -/

inductive Step (ε : Type) where
  /-- `{skipIf?, overlay: {...}}` -/
  | inline (skipIf : Option ε) (spec : List (String × OSpec ε))
  /-- `{skipIf?, overlayRef: {name}, inputs?}` with the referenced, prepared ValueFunction -/
  | vfRef (skipIf : Option ε) (inputs : Option ε) (vf : VFn ε)

def Step.skipIf : Step ε → Option ε
  | .inline s _ => s
  | .vfRef s _ _ => s

/-- `if overlay_step.skip_if: … case BoolType() as skip: if skip: continue` -/
def skipped (ev : Env → ε → JVal) (env : Env) (s : Step ε) : Bool :=
  match s.skipIf with
  | some e => (match ev env e with | .bool b => b | _ => false)
  | none => false

/-- the activation in which a step's leaves are evaluated (before `resource` is bound) -/
def stepEnv (ev : Env → ε → JVal) (env : Env) (cur : Fields) : Step ε → Env
  | .inline _ _ => env
  | .vfRef _ inputs vf =>
    vfEnv ev vf (match inputs with | some e => ev env e | none => .null) (some cur)

def Step.spec : Step ε → List (String × OSpec ε)
  | .inline _ spec => spec
  | .vfRef _ _ vf => vf.ret

/-- one non-skipped step applied to the current resource -/
def stepApply (ev : Env → ε → JVal) (env : Env) (cur : Fields) : Step ε → Fields
  | .inline _ spec => evalOverlay ev env cur spec
  | .vfRef _ inputs vf =>
    vfReturn ev vf (match inputs with | some e => ev env e | none => .null) (some cur)

/-- the loop of `_materialize_from_overlays` -/
def overlaysLoop (ev : Env → ε → JVal) (env : Env) : List (Step ε) → Fields → Fields
  | [], cur => cur
  | s :: rest, cur =>
    if skipped ev env s then overlaysLoop ev env rest cur
    else overlaysLoop ev env rest (stepApply ev env cur s)

/-- `expected_resource` of `reconcile_krm_resource`: `_construct_resource_template` (template,
    forced overlay), then — `if crud_config.overlays:` — `_materialize_from_overlays`, which ends
    with the forced overlay once more -/
def materialise (ev : Env → ε → JVal) (env : Env) (template forced : Fields)
    (steps : List (Step ε)) : Fields :=
  let t := deepOverlay template forced
  if steps.isEmpty then t else deepOverlay (overlaysLoop ev env steps t) forced

/-- The skip decision with its failure mode: `none` = the `skipIf` did not evaluate to a boolean
    (`evaluate` returned a PermFail, or `case _ as bad_type`) — the reconcile ends with that PermFail
    and **no** target.  A failed evaluation is represented by the oracle answering a non-boolean. -/
def skipDecision (ev : Env → ε → JVal) (env : Env) (s : Step ε) : Option Bool :=
  match s.skipIf with
  | some e => (match ev env e with | .bool b => some b | _ => none)
  | none => some false

/-- the loop of `_materialize_from_overlays` with the PermFail exit of an undecidable `skipIf` -/
def overlaysLoopE (ev : Env → ε → JVal) (env : Env) : List (Step ε) → Fields → Option Fields
  | [], cur => some cur
  | s :: rest, cur =>
    match skipDecision ev env s with
    | none => none
    | some true => overlaysLoopE ev env rest cur
    | some false => overlaysLoopE ev env rest (stepApply ev env cur s)

/-- `expected_resource`, or `none` when some `skipIf` is not a boolean (no target is materialised) -/
def materialiseE (ev : Env → ε → JVal) (env : Env) (template forced : Fields)
    (steps : List (Step ε)) : Option Fields :=
  let t := deepOverlay template forced
  if steps.isEmpty then some t
  else (overlaysLoopE ev env steps t).map (fun r => deepOverlay r forced)

/-! ### order inside one step, and availability of the listed overlays -/

/-- does the `inputs` mapping of a function overlay evaluate?  (`ok` is the second face of the oracle:
    whether `evaluate` succeeds; inline overlays have no `inputs`) -/
def inputsOk (ok : Env → ε → Bool) (env : Env) : Step ε → Bool
  | .vfRef _ (some e) _ => ok env e
  | _ => true

/-- the loop of `_materialize_from_overlays` with both PermFail exits, **in the order of the code**:
    first the `skipIf` (undecidable ⇒ PermFail; `true` ⇒ `continue`, nothing else of the step is
    looked at), only then the function overlay's `inputs` (failing ⇒ that outcome, no target) -/
def overlaysLoopF (ev : Env → ε → JVal) (ok : Env → ε → Bool) (env : Env) :
    List (Step ε) → Fields → Option Fields
  | [], cur => some cur
  | s :: rest, cur =>
    match skipDecision ev env s with
    | none => none
    | some true => overlaysLoopF ev ok env rest cur
    | some false =>
      if inputsOk ok env s then overlaysLoopF ev ok env rest (stepApply ev env cur s) else none

def materialiseF (ev : Env → ε → JVal) (ok : Env → ε → Bool) (env : Env) (template forced : Fields)
    (steps : List (Step ε)) : Option Fields :=
  let t := deepOverlay template forced
  if steps.isEmpty then some t
  else (overlaysLoopF ev ok env steps t).map (fun r => deepOverlay r forced)

/-- `unwrapped_combine` over the prepared overlay list: one listed overlay that could not be prepared
    (`overlayRef` to a ValueFunction that is not cached / not healthy ⇒ `Retry`) makes the whole list
    that outcome — there is no list with a hole in it -/
def allAvailable {α : Type} : List (Option α) → Option (List α)
  | [] => some []
  | none :: _ => none
  | some a :: rest => (allAvailable rest).map (a :: ·)

/-- prepare + reconcile: `if not is_unwrapped_ok(crud_config.overlays): return` — no target -/
def materialiseP (ev : Env → ε → JVal) (ok : Env → ε → Bool) (env : Env) (template forced : Fields)
    (listed : List (Option (Step ε))) : Option Fields :=
  match allAvailable listed with
  | none => none
  | some steps => materialiseF ev ok env template forced steps

/-- `_create_api_resource` up to the second forced overlay: the optional `create.overlay` over the
    target, then the forced overlay (owner references / directive stripping / annotation: C08) -/
def createView (ev : Env → ε → JVal) (env : Env) (target forced : Fields)
    (createOverlay : Option (List (String × OSpec ε))) : Fields :=
  deepOverlay (match createOverlay with
               | some spec => evalOverlay ev env target spec
               | none => target) forced

/-! ## specification side of the pipeline -/

def active (ev : Env → ε → JVal) (env : Env) (steps : List (Step ε)) : List (Step ε) :=
  steps.filter (fun s => !skipped ev env s)

/-- deep-merge one step's evaluated overlay into the current resource -/
def mergeStep (ev : Env → ε → JVal) (env : Env) (cur : Fields) (s : Step ε) : Fields :=
  deepMerge cur (evalTree ev (stepEnv ev env cur s) cur s.spec)

/-! ## the oracle instance used by the driver: the path language of the generators -/

def lookupPath : JVal → List String → JVal
  | v, [] => v
  | .obj kvs, k :: rest => lookupPath ((JVal.lookup k kvs).getD .null) rest
  | _, _ :: _ => .null

/-- koreo's `flatten()`: the members of the nested lists, in order -/
def flattenL : List JVal → List JVal
  | [] => []
  | .arr ys :: rest => ys ++ flattenL rest
  | _ :: rest => flattenL rest

/-- one expression of the generators' language against the activation:
    `a.b.c` (path) | `<path>.flatten()` | `<path>.overlay(<path>)` (koreo's `overlay()` = `_deep_overlay`) -/
def evalExpr (env : Env) (e : String) : JVal :=
  let path (p : String) : JVal := lookupPath (.obj env) (p.splitOn ".")
  if e.endsWith ".flatten()" then
    match path (e.dropEnd 10).toString with
    | .arr xs => .arr (flattenL xs)
    | _ => .null
  else
    match e.splitOn ".overlay(" with
    | [l, r] =>
      (match path l, path (r.dropEnd 1).toString with
       | .obj a, .obj b => .obj (dovO a b)
       | _, _ => .null)
    | _ => path e

def lookupPath? : JVal → List String → Option JVal
  | v, [] => some v
  | .obj kvs, k :: rest => (JVal.lookup k kvs).bind (fun v => lookupPath? v rest)
  | _, _ :: _ => none

/-- does one expression of the generators' language evaluate (every path resolves, operands have
    the right shape)? -/
def exprOk (env : Env) (e : String) : Bool :=
  let path (p : String) : Option JVal := lookupPath? (.obj env) (p.splitOn ".")
  if e.endsWith ".flatten()" then
    match path (e.dropEnd 10).toString with
    | some (.arr _) => true
    | _ => false
  else
    match e.splitOn ".overlay(" with
    | [l, r] =>
      (match path l, path (r.dropEnd 1).toString with
       | some (.obj _), some (.obj _) => true
       | _, _ => false)
    | _ => (path e).isSome

mutual
/-- the `ok` face of the driver's oracle: a written value evaluates iff all its expressions do -/
def okWritten (env : Env) : JVal → Bool
  | .str s => if s.startsWith "=" then exprOk env (s.dropWhile (· == '=')).toString else true
  | .arr xs => okWrittenL env xs
  | .obj kvs => okWrittenO env kvs
  | _ => true
def okWrittenL (env : Env) : List JVal → Bool
  | [] => true
  | x :: xs => okWritten env x && okWrittenL env xs
def okWrittenO (env : Env) : Fields → Bool
  | [] => true
  | (_, v) :: rest => okWritten env v && okWrittenO env rest
end

mutual
/-- a written value: `"=<expr>"` is an expression over the activation; lists and maps are
    evaluated element-wise; everything else is itself -/
def evalWritten (env : Env) : JVal → JVal
  | .str s =>
    if s.startsWith "=" then evalExpr env (s.dropWhile (· == '=')).toString else .str s
  | .arr xs => .arr (evalWrittenL env xs)
  | .obj kvs => .obj (evalWrittenO env kvs)
  | v => v
def evalWrittenL (env : Env) : List JVal → List JVal
  | [] => []
  | x :: xs => evalWritten env x :: evalWrittenL env xs
def evalWrittenO (env : Env) : Fields → Fields
  | [] => []
  | (k, v) :: rest => (k, evalWritten env v) :: evalWrittenO env rest
end

end Koreo.Overlay
