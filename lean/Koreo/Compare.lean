/-
  C04 / C05 — the target-vs-live comparator and its specification.

  Code side (hand transcription of src/koreo/resource_function/reconcile/validate.py, *as repaired*
  by fixes/F9-compare-as-map.diff and fixes/F6-typed-set.diff):
    `validateMatch target actual lastApplied asSet : Res`
  Spec side (written from the property text, not from the comparator):
    `meetsB mode target live lastApplied : Bool`, `Meets`, `MeetsExcl`.

  Python iterates `target_keys` (a `set` of strings) in hash order, which is not fixed between
  processes; when several keys fail, *which* failure is returned depends on that order.  `Res`
  therefore is the set of answers the code can give: `ok` (deterministic: every key matched) or
  `bad differ raise` (it may report differences / it may raise).  Core Lean only.
-/
import Koreo.Json
import Koreo.Directives
namespace Koreo.Compare
open Koreo Koreo.JVal

/-! ## answers of the comparator -/

inductive Res where
  | ok
  | bad (differ raise : Bool)
  deriving DecidableEq, Repr, Inhabited

abbrev Res.differ : Res := .bad true false
abbrev Res.raised : Res := .bad false true

/-- union of the possible failures of two keys visited in an unspecified order -/
def Res.join : Res → Res → Res
  | .ok, r => r
  | r, .ok => r
  | .bad d r, .bad d' r' => .bad (d || d') (r || r')

def Res.isOk : Res → Bool | .ok => true | _ => false
def Res.mayRaise : Res → Bool | .bad _ r => r | _ => false
def Res.mayDiffer : Res → Bool | .bad d _ => d | _ => false

def ownerReferences : String := "ownerReferences"

/-- keys `_validate_dict_match` never compares: the directive keys (removed from the key set)
    and `ownerReferences` (skipped in the loop) -/
def skippedKey (k : String) : Bool := isDirective k || k == ownerReferences

/-! ## scalars -/

def isScalar : JVal → Bool | .arr _ => false | .obj _ => false | _ => true

/-- the tail of `validate_match` for two non-containers: bool only equals bool, everything else is `==` -/
def scalarMatch (t a : JVal) : Bool :=
  match t, a with
  | .bool x, .bool y => x == y
  | .bool _, _ => false
  | _, .bool _ => false
  | _, _ => pyEq t a

/-- specification equality of JSON scalars: same type class, numbers by value (`1` = `1.0`), bool ≠ number -/
def scalarEq (t a : JVal) : Bool :=
  match t, a with
  | .null, .null => true
  | .bool x, .bool y => x == y
  | .str x, .str y => x == y
  | .int x, .int y => x == y
  | .int x, .flt y => x * 8 == y
  | .flt x, .int y => x == y * 8
  | .flt x, .flt y => x == y
  | _, _ => false

/-! ## Python `str()` of a JSON value (the key of a keyed list member) -/

def fracText : Nat → String
  | 0 => "0" | 1 => "125" | 2 => "25" | 3 => "375" | 4 => "5" | 5 => "625" | 6 => "75" | _ => "875"

/-- `repr(e/8)` for moderate magnitudes -/
def fltText (e : Int) : String :=
  let a := e.natAbs
  (if e < 0 then "-" else "") ++ toString (a / 8) ++ "." ++ fracText (a % 8)

/-- `repr(s)` for strings without control characters -/
def strRepr (s : String) : String :=
  let cs := s.toList
  let q : Char := if cs.contains '\'' && !cs.contains '"' then '"' else '\''
  let body := cs.foldl (fun acc c =>
    if c == '\\' then acc ++ "\\\\" else if c == q then (acc.push '\\').push c else acc.push c) ""
  (String.singleton q ++ body).push q

mutual
def pyRepr : JVal → String
  | .null => "None"
  | .bool b => if b then "True" else "False"
  | .int n => toString n
  | .flt e => fltText e
  | .str s => strRepr s
  | .arr xs => "[" ++ pyReprL xs ++ "]"
  | .obj kvs => "{" ++ pyReprO kvs ++ "}"
def pyReprL : List JVal → String
  | [] => ""
  | [x] => pyRepr x
  | x :: xs => pyRepr x ++ ", " ++ pyReprL xs
def pyReprO : List (String × JVal) → String
  | [] => ""
  | [(k, v)] => strRepr k ++ ": " ++ pyRepr v
  | (k, v) :: rest => strRepr k ++ ": " ++ pyRepr v ++ ", " ++ pyReprO rest
end

def pyStr : JVal → String
  | .str s => s
  | v => pyRepr v

def isWs (c : Char) : Bool :=
  c == ' ' || c == '\t' || c == '\n' || c == '\r' || c == '\x0b' || c == '\x0c'

/-- `str.strip()` (ASCII whitespace; the generators use no other kind) -/
def pyStrip (s : String) : String :=
  String.ofList ((s.toList.dropWhile isWs).reverse.dropWhile isWs).reverse

/-- `f"{obj.get(field)}".strip()`; `none` = `obj.get` raised (an unhashable field name) -/
def keyPart (f : JVal) (kvs : List (String × JVal)) : Option String :=
  match f with
  | .str s => some (pyStrip (pyStr ((lookup s kvs).getD .null)))
  | .arr _ => none
  | .obj _ => none
  | _ => some "None"

/-- `"$".join(f"{obj.get(field)}".strip() for field in fields)` -/
def objKey : List JVal → List (String × JVal) → Option String
  | [], _ => some ""
  | f :: fs, kvs =>
    match keyPart f kvs with
    | none => none
    | some p =>
      match fs with
      | [] => some p
      | _ => (objKey fs kvs).map fun r => p ++ "$" ++ r

/-! ## directive parsing as the code does it -/

/-- what `for x in v` yields; `none` = not iterable -/
def pyIter : JVal → Option (List JVal)
  | .arr xs => some xs
  | .str s => some (s.toList.map fun c => .str (String.singleton c))
  | .obj kvs => some (kvs.map fun kv => .str kv.1)
  | _ => none

/-- `{key for key in v if key}` as the list of its string members; `none` = raised
    (not iterable, or a truthy unhashable member) -/
def keySet (v : Option JVal) : Option (List String) :=
  match v with
  | none => some []
  | some v =>
    match pyIter v with
    | none => none
    | some xs =>
      let xs := xs.filter truthy
      if xs.any (fun x => !isScalar x) then none
      else some (xs.filterMap fun x => match x with | .str s => some s | _ => none)

/-- `{key: [f for f in fields if f] for key, fields in v.items() if key}` -/
def mapDirs : List (String × JVal) → Option (List (String × List JVal))
  | [] => some []
  | (k, fields) :: rest =>
    if k == "" then mapDirs rest
    else match pyIter fields, mapDirs rest with
      | some fs, some r => some ((k, fs.filter truthy) :: r)
      | _, _ => none

structure Dirs where
  asSet : List String
  lastApplied : List String
  asMap : List (String × List JVal)
  deriving Inhabited

def fieldsFor (k : String) : List (String × List JVal) → Option (List JVal)
  | [] => none
  | (k', fs) :: rest => if k' = k then some fs else fieldsFor k rest

/-- the three comprehensions at the top of `_validate_dict_match`; `none` = one of them raised -/
def parseDirs (tkvs : List (String × JVal)) : Option Dirs :=
  match keySet (lookup compareAsSet tkvs), keySet (lookup compareLastApplied tkvs),
        (match lookup compareAsMap tkvs with
         | none => some []
         | some (.obj m) => mapDirs m
         | some _ => none) with
  | some s, some l, some m => some ⟨s, l, m⟩
  | _, _, _ => none

/-! ## keyed lists (`_list_to_object`, repaired: anything that is not a list of maps is `None`) -/

def allObj : List JVal → Bool
  | [] => true
  | .obj _ :: rest => allObj rest
  | _ :: _ => false

/-- later members win (`{key: obj for obj in obj_list}`); `none` = a key raised -/
def keyedDict (fields : List JVal) : List JVal → Option (List (String × JVal))
  | [] => some []
  | .obj mkvs :: rest =>
    match objKey fields mkvs, keyedDict fields rest with
    | some k, some d => some (if (lookup k d).isSome then d else (k, .obj mkvs) :: d)
    | _, _ => none
  | _ :: rest => keyedDict fields rest

/-- outer `none` = raised; inner `none` = Python `None` -/
def listToObject (fields : List JVal) : JVal → Option (Option (List (String × JVal)))
  | .arr xs => if allObj xs then (keyedDict fields xs).map some else some none
  | _ => some none

/-- is there a member with this key further on (then the earlier one is overwritten) -/
def hasKey (fields : List JVal) (key : String) : List JVal → Bool
  | [] => false
  | .obj mkvs :: rest => objKey fields mkvs == some key || hasKey fields key rest
  | _ :: rest => hasKey fields key rest

/-! ## last-applied plumbing -/

/-- the last-applied value seen for one key of a map -/
inductive LaAt where
  | val (v : JVal)      -- `last_applied_value[target_key]`
  | junkIn              -- a truthy non-map that "contains" the key: indexing raises later
  | junkRaise           -- a truthy non-map: `x[key] = None` / `key in x` raises
  deriving Inhabited

def isInfix (p : List Char) : List Char → Bool
  | [] => p.isEmpty
  | c :: cs => p.isPrefixOf (c :: cs) || isInfix p cs

def laAt (la : JVal) (k : String) : LaAt :=
  match la with
  | .obj kvs => .val ((lookup k kvs).getD .null)
  | .arr xs => if xs.isEmpty then .val .null else if xs.contains (.str k) then .junkIn else .junkRaise
  | .str s => if s == "" then .val .null else if isInfix k.toList s.toList then .junkIn else .junkRaise
  | v => if truthy v then .junkRaise else .val .null

/-- the per-index last-applied values of `_validate_list_match`; `none` = `len()`/indexing raises -/
def laItems (la : JVal) : Option (List JVal) :=
  match la with
  | .arr xs => some xs
  | .str s => some (s.toList.map fun c => .str (String.singleton c))
  | v => if truthy v then none else some []

/-! ## sets (`_validate_set_match`, repaired: members are compared type-faithfully) -/

def subsetBy (eq : JVal → JVal → Bool) (xs ys : List JVal) : Bool := xs.all fun x => ys.any fun y => eq x y

def setMatch (txs axs : List JVal) : Res :=
  if txs.isEmpty && axs.isEmpty then .ok
  else if !(txs.all isScalar) || !(axs.all isScalar) then .differ      -- TypeError caught
  else if subsetBy scalarMatch txs axs && subsetBy (fun a t => scalarMatch t a) axs txs then .ok
  else .differ

/-- the value a target key is compared with: the last-applied one when the key is directed there -/
def cmpValue (d : Dirs) (k : String) (akvs : List (String × JVal)) (lav : JVal) : Option JVal :=
  if d.lastApplied.contains k then some lav else lookup k akvs

def laVal (lakvs : List (String × JVal)) (k : String) : JVal := (lookup k lakvs).getD .null

/-- the keyed comparison when the target side is not a keyed collection (`None`) -/
def keyedNone (fields : List JVal) (cv lav : JVal) : Res :=
  match listToObject fields cv, listToObject fields lav with
  | some none, some _ => .ok
  | some (some _), some _ => .differ
  | _, _ => .raised

/-- `validate_match(target=dictT, actual=A, last_applied_value=L)` once the three `_list_to_object`
    calls are done (`T` is a dict here); `k` compares the two dicts -/
def keyedDispatch (T : Option (List (String × JVal))) (A L : Option (Option (List (String × JVal))))
    (k : List (String × JVal) → List (String × JVal) → Res) : Res :=
  match T, A, L with
  | some _, some (some adict), some l => k adict (l.getD [])
  | some _, some none, some _ => .differ
  | _, _, _ => .raised

/-! ## the comparator -/

mutual
/-- `validate_match(target, actual, last_applied_value, compare_list_as_set)` -/
def validateMatch (t a la : JVal) (asSet : Bool) : Res :=
  match t with
  | .obj tkvs =>
    match a with
    | .obj akvs =>
      match parseDirs tkvs with
      | none => .raised
      | some d => vmO d akvs la tkvs
    | _ => .differ
  | .arr txs =>
    match a with
    | .obj _ => .differ
    | .arr axs =>
      if asSet then setMatch txs axs
      else if txs.isEmpty && axs.isEmpty then .ok
      else if txs.length != axs.length then .differ
      else match laItems la with
        | none => .raised
        | some items => vmL txs axs items
    | _ => .differ
  | _ =>
    match a with
    | .obj _ => .differ
    | .arr _ => .differ
    | _ => if scalarMatch t a then .ok else .differ
termination_by structural t
/-- the loop of `_validate_dict_match` over the target's bindings -/
def vmO (d : Dirs) (akvs : List (String × JVal)) (la : JVal) (tkvs : List (String × JVal)) : Res :=
  match tkvs with
  | [] => .ok
  | (k, tv) :: rest =>
    (if skippedKey k then Res.ok
     else match laAt la k with
      | .junkRaise => .raised
      | .junkIn => if !d.lastApplied.contains k && (lookup k akvs).isNone then .differ else .raised
      | .val lav =>
        match cmpValue d k akvs lav with
        | none => .differ
        | some cv =>
          match fieldsFor k d.asMap with
          | some fields =>
            match tv with
            | .arr tms =>
              if allObj tms then
                keyedDispatch (keyedDict fields tms) (listToObject fields cv) (listToObject fields lav)
                  fun adict ldict => vmK fields adict ldict tms
              else keyedNone fields cv lav
            | _ => keyedNone fields cv lav
          | none => validateMatch tv cv lav (d.asSet.contains k)).join (vmO d akvs la rest)
termination_by structural tkvs
/-- `_validate_list_match`'s loop: the first failing index decides -/
def vmL (txs axs items : List JVal) : Res :=
  match txs, axs with
  | t :: ts, a :: as =>
    match validateMatch t a (items.head?.getD .null) false with
    | .ok => vmL ts as items.tail
    | r => r
  | _, _ => .ok
termination_by structural txs
/-- the keyed comparison: `_validate_dict_match` on `{key: member}` dictionaries -/
def vmK (fields : List JVal) (adict ldict : List (String × JVal)) (tms : List JVal) : Res :=
  match tms with
  | [] => .ok
  | m :: rest =>
    (match m with
     | .obj mkvs =>
       match objKey fields mkvs with
       | none => Res.ok
       | some key =>
         if skippedKey key || hasKey fields key rest then Res.ok
         else match lookup key adict with
           | none => .differ
           | some am => validateMatch m am ((lookup key ldict).getD .null) false
     | _ => Res.ok).join (vmK fields adict ldict rest)
termination_by structural tms
end

/-! ## pre-repair behaviour (kept only to state the two defects on their witnesses) -/

/-- `_validate_set_match` before fixes/F6-typed-set.diff: plain Python `set` equality, where
    `True == 1` and `False == 0` -/
def setMatchLegacy (txs axs : List JVal) : Res :=
  if txs.isEmpty && axs.isEmpty then .ok
  else if !(txs.all isScalar) || !(axs.all isScalar) then .differ
  else if subsetBy pyEq txs axs && subsetBy (fun a t => pyEq t a) axs txs then .ok
  else .differ

/-- `_list_to_object` before fixes/F9-compare-as-map.diff: every falsy value is `None`, anything else
    is iterated and its members asked for `.get` -/
def listToObjectLegacy (fields : List JVal) (v : JVal) : Option (Option (List (String × JVal))) :=
  if !truthy v then some none
  else match v with
    | .arr xs => if allObj xs then (keyedDict fields xs).map some else none
    | _ => none

/-- the first step of the keyed comparison before the repair, for a target list `tv` and a live value
    `cv`: `some r` when it is already decided, `none` when two dictionaries go on to be compared -/
def keyedLegacyHead (fields : List JVal) (tv cv : JVal) : Option Res :=
  match listToObjectLegacy fields tv, listToObjectLegacy fields cv with
  | none, _ => some .raised
  | _, none => some .raised
  | some none, some none => some .ok
  | some none, some (some _) => some .differ
  | some (some _), some none => some .differ
  | some (some _), some (some _) => none

/-! ## the specification -/

/-- how the property reads the directives of a well-formed target map -/
def strMembers : Option JVal → List String
  | some (.arr xs) => xs.filterMap fun x => match x with | .str s => if s == "" then none else some s | _ => none
  | _ => []

def specFields : JVal → List JVal
  | .arr xs => xs.filter fun x => match x with | .str s => s != "" | _ => false
  | _ => []

def specMap : Option JVal → List (String × List JVal)
  | some (.obj m) => (m.filter fun kv => kv.1 != "").map fun kv => (kv.1, specFields kv.2)
  | _ => []

def specDirs (tkvs : List (String × JVal)) : Dirs :=
  ⟨strMembers (lookup compareAsSet tkvs), strMembers (lookup compareLastApplied tkvs),
   specMap (lookup compareAsMap tkvs)⟩

/-- key of a member under string fields (never raises) -/
def memberKey (fields : List JVal) : JVal → Option String
  | .obj mkvs => objKey fields mkvs
  | _ => none

/-- last-applied member belonging to a key (plumbing only: the last member wins, as in a dict) -/
def laMember (fields : List JVal) (key : String) : List JVal → JVal
  | [] => .null
  | m :: rest =>
    if hasKey fields key rest then laMember fields key rest
    else if memberKey fields m == some key then m else laMember fields key rest

def laMembers : JVal → List JVal
  | .arr xs => if allObj xs then xs else []
  | _ => []

/-- `full`: C04's sufficient condition (last-applied-directed keys are read from the last-applied
    tree, keyed live lists hold maps with unique keys, the last-applied tree has the target's shape);
    `excl`: C05's necessary condition (those keys and `ownerReferences` are dropped, extras free) -/
inductive Mode where | full | excl
  deriving DecidableEq, Repr

def laMapOk : JVal → Bool | .obj _ => true | v => !truthy v
def laArrOk : JVal → Bool | .arr _ => true | v => !truthy v
def laObjKvs : JVal → List (String × JVal) | .obj kvs => kvs | _ => []
def laArrItems : JVal → List JVal | .arr xs => xs | _ => []

def setEqSpec (txs lxs : List JVal) : Bool :=
  txs.all isScalar && lxs.all isScalar &&
    subsetBy scalarEq txs lxs && subsetBy (fun l t => scalarEq t l) lxs txs

def setSpecOf (tv cv : JVal) : Bool :=
  match tv, cv with
  | .arr txs, .arr lxs => setEqSpec txs lxs
  | _, _ => false

mutual
def meetsB (m : Mode) (t live la : JVal) : Bool :=
  match t with
  | .obj tkvs =>
    match live with
    | .obj lkvs => (m == .excl || laMapOk la) && meetsO m (specDirs tkvs) lkvs (laObjKvs la) tkvs
    | _ => false
  | .arr txs =>
    match live with
    | .arr lxs => (m == .excl || laArrOk la) && meetsL m txs lxs (laArrItems la)
    | _ => false
  | _ => scalarEq t live
termination_by structural t
/-- every non-directive key of the target map is present with a value that meets -/
def meetsO (m : Mode) (d : Dirs) (lkvs lakvs : List (String × JVal)) (tkvs : List (String × JVal)) : Bool :=
  match tkvs with
  | [] => true
  | (k, tv) :: rest =>
    (if isDirective k then true
     else if m == .excl && (k == ownerReferences || d.lastApplied.contains k) then true
     else
       match cmpValue d k lkvs (laVal lakvs k) with
       | none => false
       | some cv =>
         match fieldsFor k d.asMap with
         | some fields =>
           (match tv, cv with
            | .arr tms, .arr lms =>
              (m == .excl || allObj lms) && meetsK m fields lms (laMembers (laVal lakvs k)) tms
            | _, _ => false)
         | none =>
           if d.asSet.contains k && isArr tv then
             setSpecOf tv cv
           else meetsB m tv cv (laVal lakvs k)) && meetsO m d lkvs lakvs rest
termination_by structural tkvs
/-- plain lists agree in length and element-wise -/
def meetsL (m : Mode) (txs lxs items : List JVal) : Bool :=
  match txs, lxs with
  | [], [] => true
  | t :: ts, l :: ls => meetsB m t l (items.head?.getD .null) && meetsL m ts ls items.tail
  | _, _ => false
termination_by structural txs
/-- keyed lists: every target member has a live member with the same key that meets
    (`full`: whichever live member carries that key meets, and there is one) -/
def meetsK (m : Mode) (fields : List JVal) (lms lams : List JVal) (tms : List JVal) : Bool :=
  match tms with
  | [] => true
  | tm :: rest =>
    (match tm with
     | .obj mkvs =>
       match objKey fields mkvs with
       | none => false
       | some key =>
         let lam := laMember fields key lams
         if m == .full then
           hasKey fields key lms && lms.all fun l => memberKey fields l != some key || meetsB m tm l lam
         else lms.any fun l => memberKey fields l == some key && meetsB m tm l lam
     | _ => false) && meetsK m fields lms lams rest
termination_by structural tms
end

/-- C04: the live object contains every field of the target with an equal value -/
def Meets (t live la : JVal) : Prop := meetsB .full t live la = true
/-- C05: the same, minus what the comparison deliberately ignores -/
def MeetsExcl (t live : JVal) : Prop := meetsB .excl t live .null = true

instance (t live la : JVal) : Decidable (Meets t live la) := by unfold Meets; infer_instance
instance (t live : JVal) : Decidable (MeetsExcl t live) := by unfold MeetsExcl; infer_instance

end Koreo.Compare
