/-
  Shared by C04/C05/C08/C19: the Koreo comparison-directive keys (src/koreo/constants.py,
  KOREO_DIRECTIVE_KEYS) and `_strip_koreo_directives`
  (src/koreo/resource_function/reconcile/__init__.py:857-870).  Core Lean only.
-/
import Koreo.Json
namespace Koreo

def compareAsSet : String := "x-koreo-compare-as-set"
def compareAsMap : String := "x-koreo-compare-as-map"
def compareLastApplied : String := "x-koreo-compare-last-applied"

def directiveKeys : List String := [compareAsSet, compareAsMap, compareLastApplied]

def isDirective (k : String) : Bool := directiveKeys.contains k

mutual
/-- `_strip_koreo_directives`: drop directive keys from every map, at any depth and list position -/
def strip : JVal → JVal
  | .obj kvs => .obj (stripO kvs)
  | .arr xs => .arr (stripL xs)
  | v => v
def stripL : List JVal → List JVal
  | [] => []
  | x :: xs => strip x :: stripL xs
def stripO : List (String × JVal) → List (String × JVal)
  | [] => []
  | (k, v) :: rest => if isDirective k then stripO rest else (k, strip v) :: stripO rest
end

end Koreo
