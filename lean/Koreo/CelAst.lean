/-
  C14 / C20 — model of the CEL reference analysis.

  * `Cel` is celpy's parse tree exactly as lark hands it to koreo: `Tree(data, children)` with
    `Token(type, value)` leaves.  `Kind` has one constructor per rule name of `cel.lark`
    (the value of `tree.data`), `TokT` one per named terminal that survives in the tree.
    The *alternatives* of every rule live in a `Grammar` table (regenerated from lark's compiled
    rules into `Koreo/Gen/CelTables.lean`); `GrammarTree g t` says that `t` is a tree that grammar
    admits.  The typed views the property talks about (`memberDot`, `memberIndex`, `ternary`, …)
    are the smart constructors at the end of this file.
  * `extractWith d` transcribes `src/koreo/cel/structure_extractor.py` (REPAIRED code, fix F5):
    `extract_argument_structure`, `_process_member_dot`, `_process_member_dot_arg`,
    `_process_member_index`, `_process_primary`.  `d : Dispatch` carries what the translator reads
    from that file: the `x.data == "…"` sets of every if-chain and, for each `raise` statement,
    whether the exception is caught by the visiting loop (`Fall.skip`) or propagates (`Fall.raise`).
    Python-level failures (`IndexError` on `children[i]`, `AttributeError` on a `Token`) are
    `R.raise` whatever `d` says.
  * `stepsMatch` / `parentMatch` model `STEPS_NAME_PATTERN` / `PARENT_NAME_PATTERN` of
    `src/koreo/workflow/prepare.py` used with `re.match`.

  Core Lean only.
-/
namespace Koreo.CelAst

/-- rule names of celpy's `cel.lark` (= `Tree.data`) -/
inductive Kind where
  | expr | conditionalor | conditionaland
  | relation | relation_lt | relation_le | relation_gt | relation_ge | relation_eq | relation_ne | relation_in
  | addition | addition_add | addition_sub
  | multiplication | multiplication_mul | multiplication_div | multiplication_mod
  | unary | unary_not | unary_neg
  | member | member_dot | member_dot_arg | member_index | member_object
  | primary | literal | dot_ident_arg | dot_ident | ident_arg | ident | paren_expr | list_lit | map_lit
  | exprlist | fieldinits | mapinits
  deriving DecidableEq, Repr, Inhabited

/-- named terminals that are kept in the tree (`Token.type`) -/
inductive TokT where
  | IDENT | UINT_LIT | FLOAT_LIT | INT_LIT | MLSTRING_LIT | STRING_LIT | BYTES_LIT | BOOL_LIT | NULL_LIT
  deriving DecidableEq, Repr, Inhabited

/-- a lark parse tree -/
inductive Cel where
  | node (k : Kind) (cs : List Cel)
  | tok (t : TokT) (text : String)
  deriving Repr, Inhabited

namespace Cel

mutual
/-- number of nodes and tokens -/
def size : Cel → Nat
  | node _ cs => 1 + sizeL cs
  | tok .. => 1
def sizeL : List Cel → Nat
  | [] => 0
  | c :: cs => size c + sizeL cs
end

mutual
/-- `Tree.iter_subtrees()`: every `Tree` below and including the root (tokens are not trees).
    The order is irrelevant to the extractor, which fills a set. -/
def subtrees : Cel → List Cel
  | node k cs => node k cs :: subtreesL cs
  | tok .. => []
def subtreesL : List Cel → List Cel
  | [] => []
  | c :: cs => subtrees c ++ subtreesL cs
end

/-- `f"{x}"` of a tree child: the token's text (a `Tree` would print its repr; never the case
    for the positions the extractor formats in a grammatical tree) -/
def strOf : Cel → String
  | tok _ s => s
  | node .. => "<tree>"

end Cel

/-! ## the grammar as data -/

inductive Sym where
  | nt (k : Kind)        -- a rule: contributes one `Tree` child
  | tk (t : TokT)        -- a named terminal: contributes one `Token` child
  | anon                 -- punctuation / keyword terminal, filtered out of the tree
  | inl (h : Nat)        -- lark's `__x_star_n` helper rule: its children are spliced in
  deriving DecidableEq, Repr

inductive Origin where
  | rule (k : Kind)
  | helper (h : Nat)
  deriving DecidableEq, Repr

structure Rule where
  origin : Origin
  rhs : List Sym
  deriving DecidableEq, Repr

abbrev Grammar := List Rule

/-- the right-hand sides of rule `k` -/
def alts (g : Grammar) (k : Kind) : List (List Sym) :=
  (g.filter (fun r => r.origin == .rule k)).map (·.rhs)

/-- the symbols that leave a child in the tree -/
def visible : List Sym → List Sym
  | [] => []
  | .anon :: rest => visible rest
  | s :: rest => s :: visible rest

mutual
/-- `Conf g t`: `t` is a parse tree of grammar `g` (for the rule named by its root) -/
inductive Conf (g : Grammar) : Cel → Prop
  | node {k : Kind} {rhs : List Sym} {cs : List Cel} :
      ⟨.rule k, rhs⟩ ∈ g → Yield g rhs cs → Conf g (.node k cs)
/-- `Yield g rhs cs`: the symbol string `rhs` produces exactly the children `cs` -/
inductive Yield (g : Grammar) : List Sym → List Cel → Prop
  | nil : Yield g [] []
  | nt {k : Kind} {kids : List Cel} {rest : List Sym} {cs : List Cel} :
      Conf g (.node k kids) → Yield g rest cs → Yield g (.nt k :: rest) (.node k kids :: cs)
  | tk {t : TokT} {s : String} {rest : List Sym} {cs : List Cel} :
      s ≠ "" → Yield g rest cs → Yield g (.tk t :: rest) (.tok t s :: cs)
  | anon {rest : List Sym} {cs : List Cel} : Yield g rest cs → Yield g (.anon :: rest) cs
  | inl {h : Nat} {rhs rest : List Sym} {cs₁ cs₂ : List Cel} :
      ⟨.helper h, rhs⟩ ∈ g → Yield g rhs cs₁ → Yield g rest cs₂ → Yield g (.inl h :: rest) (cs₁ ++ cs₂)
end

/-- every parse tree the grammar admits -/
abbrev GrammarTree (g : Grammar) (t : Cel) : Prop := Conf g t

/-! ## what the translator reads from `structure_extractor.py` -/

/-- what happens at a `raise` statement: the exception propagates out of
    `extract_argument_structure` (`raise`) or is caught by its loop, which goes on (`skip`) -/
inductive Fall where
  | raise | skip
  deriving DecidableEq, Repr

structure Dispatch where
  /-- `thing.data == …` in the visiting loop -/
  top : List Kind
  /-- `root.data == …` in `_process_member_dot` / `_process_member_dot_arg` / `_process_member_index` -/
  dotRoots : List Kind
  argRoots : List Kind
  idxRoots : List Kind
  /-- `terminal.data == …` in `_process_member_index` -/
  idxTerms : List Kind
  /-- `primary.data == …` in `_process_primary` -/
  primKinds : List Kind
  /-- the ten `raise` statements, in source order per function -/
  dotLen : Fall
  dotRoot : Fall
  argLen : Fall
  argRoot : Fall
  idxLen : Fall
  idxEmpty : Fall
  idxTerm : Fall
  idxRoot : Fall
  primLen : Fall
  primKind : Fall
  deriving DecidableEq, Repr

/-- the repaired extractor's tables (tied to the source by `Props/C20.dispatch_matches_source`);
    the sets are listed in the order of `Kind`'s constructors, only membership matters -/
def modelDispatch : Dispatch where
  top := [.member_dot, .member_index]
  dotRoots := [.member_dot, .member_dot_arg, .member_index, .primary]
  argRoots := [.member_dot, .member_dot_arg, .member_index, .primary, .ident]
  idxRoots := [.member_dot, .member_dot_arg, .member_index, .primary]
  idxTerms := [.expr, .primary]
  primKinds := [.literal, .ident]
  dotLen := .skip
  dotRoot := .skip
  argLen := .skip
  argRoot := .skip
  idxLen := .skip
  idxEmpty := .skip
  idxTerm := .skip
  idxRoot := .skip
  primLen := .skip
  primKind := .skip

/-- the extractor before fix F5: the same if-chains, every `raise` propagates (kept as the object the
    repaired one is compared with) -/
def unrepairedDispatch : Dispatch :=
  { modelDispatch with
    dotLen := .raise, dotRoot := .raise, argLen := .raise, argRoot := .raise, idxLen := .raise,
    idxEmpty := .raise, idxTerm := .raise, idxRoot := .raise, primLen := .raise, primKind := .raise }

/-- result of naming one access: a dotted key, "not nameable" (the repaired code's `_Unnameable`,
    caught by the loop), or an exception that leaves `extract_argument_structure` -/
inductive R where
  | key (s : String)
  | skip
  | raise (msg : String)
  deriving DecidableEq, Repr

def site (f : Fall) (msg : String) : R :=
  match f with
  | .skip => .skip
  | .raise => .raise msg

/-- `f"{root_value}.{terminal}"` once `root_value` has been computed -/
def R.dot (r : R) (terminal : String) : R :=
  match r with
  | .key s => .key (s ++ "." ++ terminal)
  | other => other

def R.isRaise : R → Bool
  | .raise _ => true
  | _ => false

/-- Python `s.strip(s[0])` on the characters of a non-empty string -/
def pyStripFirst (l : List Char) : List Char :=
  match l with
  | [] => []
  | c :: _ => ((l.dropWhile (· == c)).reverse.dropWhile (· == c)).reverse

/-- `_process_primary` -/
def processPrimary (d : Dispatch) : Cel → R
  | .tok .. => .raise "AttributeError: 'Token' has no children"
  | .node _ cs =>
    match cs with
    | [p] =>
      match p with
      | .tok .. => .raise "AttributeError: 'Token' has no data"
      | .node pk pcs =>
        if d.primKinds.contains pk then
          match pk with
          | .ident =>
            match pcs with
            | c :: _ => .key c.strOf
            | [] => .raise "IndexError"
          | .literal =>
            match pcs with
            | .tok t s :: _ =>
              if t = .INT_LIT then .key s
              else if s = "" then .raise "IndexError: literal[0]"
              else .key (String.ofList (pyStripFirst s.toList))
            | .node .. :: _ => .raise "AttributeError: 'Tree' has no type"
            | [] => .raise "IndexError"
          | _ => .raise "model: no handler for this primary kind"
        else site d.primKind "UNKNOWN PRIMARY DATA TYPE"
    | _ => site d.primLen "UNKNOWN PRIMARY LENGTH"

/-- outcome of the `while terminal and terminal.children` descent of `_process_member_index` -/
inductive Desc where
  | found (p : Cel)     -- a `primary` node was reached
  | none                -- the loop ended with `terminal_value` still `None`
  | attrErr             -- `.children` of a non-empty `Token`
  deriving Repr

/-- follow `children[0]` from the index expression until a `primary` node -/
def descend : Cel → Desc
  | .tok _ s => if s = "" then .none else .attrErr
  | .node _ [] => .none
  | .node k (c :: cs) => if k = .primary then .found (.node k (c :: cs)) else descend c

/-- the first half of `_process_member_index`: `terminal_value` of the index expression -/
def indexTerminal (d : Dispatch) : Cel → R
  | .tok .. => .raise "AttributeError: 'Token' has no data"
  | .node tk tcs =>
    if tk = .primary ∧ d.idxTerms.contains .primary then processPrimary d (.node tk tcs)
    else if tk = .expr ∧ d.idxTerms.contains .expr then
      match descend (.node tk tcs) with
      | .attrErr => .raise "AttributeError: 'Token' has no children"
      | .none => site d.idxEmpty "CAN NOT PROCESS MEMBER_INDEX terminal expr"
      | .found p =>
        match processPrimary d p with
        | .key s => if s = "" then site d.idxEmpty "CAN NOT PROCESS MEMBER_INDEX terminal expr" else .key s
        | other => other
    else site d.idxTerm "UNKNOWN MEMBER_INDEX terminal TYPE"

mutual
/-- `_process_member_dot` -/
def processMemberDot (d : Dispatch) : Cel → R
  | .tok .. => .raise "AttributeError: 'Token' has no children"
  | .node _ cs =>
    match cs with
    | [m, terminal] =>
      match m with
      | .tok .. => .raise "AttributeError: 'Token' has no children"
      | .node _ [] => .raise "IndexError"
      | .node _ (root :: _) =>
        match root with
        | .tok .. => .raise "AttributeError: 'Token' has no data"
        | .node rk rcs =>
          if d.dotRoots.contains rk then
            match rk with
            | .member_dot => (processMemberDot d (.node rk rcs)).dot terminal.strOf
            | .member_index => (processMemberIndex d (.node rk rcs)).dot terminal.strOf
            | .member_dot_arg => (processMemberDotArg d (.node rk rcs)).dot terminal.strOf
            | .primary => (processPrimary d (.node rk rcs)).dot terminal.strOf
            | _ => .raise "model: no handler for this root kind"
          else site d.dotRoot "UNKNOWN MEMBER_DOT ROOT TYPE"
    | _ => site d.dotLen "UNKNOWN MEMBER_DOT LENGTH"

/-- `_process_member_dot_arg` (only ever called on a receiver) -/
def processMemberDotArg (d : Dispatch) : Cel → R
  | .tok .. => .raise "AttributeError: 'Token' has no children"
  | .node _ cs =>
    match cs with
    | [m, terminal, _] =>
      match m with
      | .tok .. => .raise "AttributeError: 'Token' has no children"
      | .node _ [] => .raise "IndexError"
      | .node _ (root :: _) =>
        match root with
        | .tok .. => .raise "AttributeError: 'Token' has no data"
        | .node rk rcs =>
          if d.argRoots.contains rk then
            match rk with
            | .member_dot => (processMemberDot d (.node rk rcs)).dot terminal.strOf
            | .member_index => (processMemberIndex d (.node rk rcs)).dot terminal.strOf
            | .member_dot_arg => (processMemberDotArg d (.node rk rcs)).dot terminal.strOf
            | .primary => (processPrimary d (.node rk rcs)).dot terminal.strOf
            | .ident => (processPrimary d (.node rk rcs)).dot terminal.strOf
            | _ => .raise "model: no handler for this root kind"
          else site d.argRoot "UNKNOWN MEMBER_DOT_ARG ROOT TYPE"
    | _ => site d.argLen "UNKNOWN MEMBER_DOT_ARG LENGTH"

/-- `_process_member_index`: the index expression is named first, then the receiver -/
def processMemberIndex (d : Dispatch) : Cel → R
  | .tok .. => .raise "AttributeError: 'Token' has no children"
  | .node _ cs =>
    match cs with
    | [m, terminal] =>
      match indexTerminal d terminal with
      | .key tvs =>
        match m with
        | .tok .. => .raise "AttributeError: 'Token' has no children"
        | .node _ [] => .raise "IndexError"
        | .node _ (root :: _) =>
          match root with
          | .tok .. => .raise "AttributeError: 'Token' has no data"
          | .node rk rcs =>
            if d.idxRoots.contains rk then
              match rk with
              | .member_dot => (processMemberDot d (.node rk rcs)).dot tvs
              | .member_index => (processMemberIndex d (.node rk rcs)).dot tvs
              | .member_dot_arg => (processMemberDotArg d (.node rk rcs)).dot tvs
              | .primary => (processPrimary d (.node rk rcs)).dot tvs
              | _ => .raise "model: no handler for this root kind"
            else site d.idxRoot "UNKNOWN MEMBER_INDEX root TYPE"
      | other => other
    | _ => site d.idxLen "UNKNOWN MEMBER_INDEX LENGTH"
end

/-- one iteration of the loop of `extract_argument_structure` -/
def visit (d : Dispatch) : Cel → R
  | .tok .. => .skip
  | .node k cs =>
    if k = .member_dot ∧ d.top.contains .member_dot then processMemberDot d (.node k cs)
    else if k = .member_index ∧ d.top.contains .member_index then processMemberIndex d (.node k cs)
    else .skip

/-- gather the keys; the first exception that is not caught ends the call -/
def collect : List R → Except String (List String)
  | [] => .ok []
  | .key s :: rest => (collect rest).map (s :: ·)
  | .skip :: rest => collect rest
  | .raise m :: _ => .error m

/-- `extract_argument_structure` for an extractor with dispatch tables `d` -/
def extractWith (d : Dispatch) (t : Cel) : Except String (List String) :=
  collect (t.subtrees.map (visit d))

/-- `extract_argument_structure` of the repaired source -/
def extract (t : Cel) : Except String (List String) := extractWith modelDispatch t

instance : DecidableEq (Except String (List String)) := fun a b =>
  match a, b with
  | .ok x, .ok y => if h : x = y then isTrue (by rw [h]) else isFalse (by intro e; cases e; exact h rfl)
  | .error x, .error y => if h : x = y then isTrue (by rw [h]) else isFalse (by intro e; cases e; exact h rfl)
  | .ok _, .error _ => isFalse (by intro e; cases e)
  | .error _, .ok _ => isFalse (by intro e; cases e)

/-! ## agreement with a probed fact table -/

def allKinds : List Kind :=
  [.expr, .conditionalor, .conditionaland,
   .relation, .relation_lt, .relation_le, .relation_gt, .relation_ge, .relation_eq, .relation_ne, .relation_in,
   .addition, .addition_add, .addition_sub,
   .multiplication, .multiplication_mul, .multiplication_div, .multiplication_mod,
   .unary, .unary_not, .unary_neg,
   .member, .member_dot, .member_dot_arg, .member_index, .member_object,
   .primary, .literal, .dot_ident_arg, .dot_ident, .ident_arg, .ident, .paren_expr, .list_lit, .map_lit,
   .exprlist, .fieldinits, .mapinits]

/-- the positions of a node the extractor distinguishes (names used by the probe generator) -/
def probePositions : List String :=
  ["top", "dot-root", "idx-root", "arg-root", "idx-term", "prim-child", "idx-descent"]

def sameSet (a b : List String) : Bool := a.all (b.contains ·) && b.all (a.contains ·)

/-- one row of the probed table: a tree and what the real `extract_argument_structure` did with it
    (`some keys` = the returned set, `none` = it raised) -/
def probeAgrees (t : Cel) (observed : Option (List String)) : Bool :=
  match extract t, observed with
  | .ok ks, some e => sameSet ks e
  | .error _, none => true
  | _, _ => false

/-! ## is the dispatch complete for everything the grammar admits?  (decidable over the tables) -/

def singleNt : List Sym → Option Kind
  | [.nt k] => some k
  | _ => none

/-- the kinds `k'` of the one-symbol alternatives `k : k'` -/
def wrappedKinds (g : Grammar) (k : Kind) : List Kind :=
  (alts g k).filterMap (fun r => singleNt (visible r))

/-- every alternative of `k` is a one-symbol wrapper -/
def allWrapped (g : Grammar) (k : Kind) : Bool :=
  (alts g k).all (fun r => (singleNt (visible r)).isSome)

/-- the receiver kinds the model has a transcription for -/
def handlers : List Kind := [.member_dot, .member_index, .member_dot_arg, .primary]

/-- a receiver if-chain copes with every kind in `ks`: a listed kind has a handler, an unlisted
    one ends at a `raise` the loop catches -/
def rootsOk (roots : List Kind) (fall : Fall) (ks : List Kind) : Bool :=
  ks.all fun k => if roots.contains k then handlers.contains k else fall == .skip

/-- the kinds the `children[0]` descent of `_process_member_index` can pass through -/
def chainKinds : List Kind :=
  [.expr, .conditionalor, .conditionaland,
   .relation, .relation_lt, .relation_le, .relation_gt, .relation_ge, .relation_eq, .relation_ne, .relation_in,
   .addition, .addition_add, .addition_sub,
   .multiplication, .multiplication_mul, .multiplication_div, .multiplication_mod,
   .unary, .unary_not, .unary_neg,
   .member, .member_dot, .member_dot_arg, .member_index, .member_object]

/-- first child of a chain node: none at all, or again a chain node or a `primary` -/
def chainAltOk (r : List Sym) : Bool :=
  match visible r with
  | [] => true
  | .nt k :: _ => chainKinds.contains k || k == .primary
  | _ => false

def chainClosed (g : Grammar) : Bool := chainKinds.all fun k => (alts g k).all chainAltOk

def primaryChildOk (g : Grammar) (d : Dispatch) (k : Kind) : Bool :=
  if d.primKinds.contains k then
    (k == .ident && (alts g .ident).all (fun r => visible r == [.tk .IDENT]))
    || (k == .literal && (alts g .literal).all (fun r => match visible r with | [.tk _] => true | _ => false))
  else d.primKind == .skip

/-- For every position the extractor looks at, every shape grammar `g` admits there is either
    handled by the if-chains in `d` or ends at a `raise` that the visiting loop catches; and the
    children the extractor indexes (`children[0].children[0]`, `children[1]`, …) exist. -/
def DispatchComplete (g : Grammar) (d : Dispatch) : Bool :=
  (alts g .member_dot).all (fun r => visible r == [.nt .member, .tk .IDENT])
  && (alts g .member_dot_arg).all (fun r =>
        visible r == [.nt .member, .tk .IDENT, .nt .exprlist]
        || (visible r == [.nt .member, .tk .IDENT] && d.argLen == .skip))
  && (alts g .member_index).all (fun r => visible r == [.nt .member, .nt .expr])
  && (d.idxTerms.contains .expr || d.idxTerm == .skip)
  && d.idxEmpty == .skip
  && chainClosed g
  && allWrapped g .member
  && rootsOk d.dotRoots d.dotRoot (wrappedKinds g .member)
  && rootsOk d.argRoots d.argRoot (wrappedKinds g .member)
  && rootsOk d.idxRoots d.idxRoot (wrappedKinds g .member)
  && allWrapped g .primary
  && (wrappedKinds g .primary).all (primaryChildOk g d)

/-! ## `re.match` of the two name patterns -/

/-- a match object: `group("name")` (`none` = the group did not take part) -/
structure ReMatch where
  name : Option String
  deriving DecidableEq, Repr

def stepsPatternSource : String := "steps.(?P<name>[^.[]+)"
def parentPatternSource : String := "parent.(?P<name>.*)"

/-- `STEPS_NAME_PATTERN.match(key)` for `steps.(?P<name>[^.[]+)`: "steps", any character but a
    newline, then a non-empty maximal run of characters other than `.` and `[` -/
def stepsMatch (key : String) : Option ReMatch :=
  match key.toList with
  | 's' :: 't' :: 'e' :: 'p' :: 's' :: c :: rest =>
    if c = '\n' then none
    else
      let nm := rest.takeWhile (fun ch => ch != '.' && ch != '[')
      if nm.isEmpty then none else some ⟨some (String.ofList nm)⟩
  | _ => none

/-- `PARENT_NAME_PATTERN.match(key)` for `parent.(?P<name>.*)` -/
def parentMatch (key : String) : Option ReMatch :=
  match key.toList with
  | 'p' :: 'a' :: 'r' :: 'e' :: 'n' :: 't' :: c :: rest =>
    if c = '\n' then none
    else some ⟨some (String.ofList (rest.takeWhile (· != '\n')))⟩
  | _ => none

def inputsPatternSource : String := "inputs.(?P<name>[^.[]+)?\\[?.*"

/-- `INPUTS_NAME_PATTERN.match(key)` of resource_function/prepare.py, `inputs.(?P<name>[^.[]+)?\[?.*`: the name
    group is OPTIONAL — `inputs2.zone`, `inputs[".zone"]` (key `inputs..zone`) match with `group("name") is None` -/
def inputsMatch (key : String) : Option ReMatch :=
  match key.toList with
  | 'i' :: 'n' :: 'p' :: 'u' :: 't' :: 's' :: c :: rest =>
    if c = '\n' then none
    else
      let nm := rest.takeWhile (fun ch => ch != '.' && ch != '[')
      some ⟨if nm.isEmpty then none else some (String.ofList nm)⟩
  | _ => none

/-- how `_prepare_overlays` turns the set of missing input names into text:
    `", ".join(f'"{m}"' for m in <missing or sorted(missing)>)` (each name formatted, `None` prints as None)
    or `", ".join(<missing or sorted(missing)>)` (the raw names) -/
inductive JoinStyle where
  | formatEach (sorted : Bool)
  | raw (sorted : Bool)
  deriving DecidableEq, Repr

/-- `match.group("name") for match in (STEPS_NAME_PATTERN.match(key) for key in keys) if match` -/
def stepsNamesRaw (keys : List String) : List (Option String) :=
  (keys.filterMap stepsMatch).map (·.name)

def parentNamesRaw (keys : List String) : List (Option String) :=
  (keys.filterMap parentMatch).map (·.name)

/-- the step label a key names, if any -/
def stepsName (key : String) : Option String := (stepsMatch key).bind (·.name)
def parentName (key : String) : Option String := (parentMatch key).bind (·.name)

/-- the labels an expression depends on -/
def stepDeps (keys : List String) : List String := keys.filterMap stepsName
def parentProps (keys : List String) : List String := keys.filterMap parentName

/-! ## typed views: one smart constructor per grammar alternative -/

namespace Cel

def member (x : Cel) : Cel := node .member [x]
def primary (p : Cel) : Cel := node .primary [p]
def ident (s : String) : Cel := node .ident [tok .IDENT s]
def literal (t : TokT) (text : String) : Cel := node .literal [tok t text]
/-- `member_dot : member "." IDENT` -/
def memberDot (m : Cel) (name : String) : Cel := node .member_dot [m, tok .IDENT name]
/-- `member_dot_arg : member "." IDENT "(" [exprlist] ")"` -/
def memberDotArg (m : Cel) (name : String) (args : List Cel) : Cel :=
  node .member_dot_arg (if args.isEmpty then [m, tok .IDENT name] else [m, tok .IDENT name, node .exprlist args])
/-- `member_index : member "[" expr "]"` -/
def memberIndex (m e : Cel) : Cel := node .member_index [m, e]
/-- `member_object : member "{" [fieldinits] "}"` (fields flat: IDENT, expr, IDENT, expr, …) -/
def memberObject (m : Cel) (fields : List Cel) : Cel :=
  node .member_object (if fields.isEmpty then [m] else [m, node .fieldinits fields])
def identArg (f : String) (args : List Cel) : Cel :=
  node .ident_arg (if args.isEmpty then [tok .IDENT f] else [tok .IDENT f, node .exprlist args])
def dotIdent (s : String) : Cel := node .dot_ident [tok .IDENT s]
def dotIdentArg (f : String) (args : List Cel) : Cel :=
  node .dot_ident_arg (if args.isEmpty then [tok .IDENT f] else [tok .IDENT f, node .exprlist args])
def paren (e : Cel) : Cel := node .paren_expr [e]
def listLit (items : List Cel) : Cel := node .list_lit (if items.isEmpty then [] else [node .exprlist items])
/-- entries flat: key, value, key, value, … -/
def mapLit (entries : List Cel) : Cel := node .map_lit (if entries.isEmpty then [] else [node .mapinits entries])
def unaryMember (m : Cel) : Cel := node .unary [m]
def unaryNot (u : Cel) : Cel := node .unary [node .unary_not [], u]
def unaryNeg (u : Cel) : Cel := node .unary [node .unary_neg [], u]
/-- `multiplication : [multiplication_op] unary`, `op` one of `.multiplication_mul/_div/_mod` -/
def mul1 (u : Cel) : Cel := node .multiplication [u]
def mul2 (op : Kind) (l u : Cel) : Cel := node .multiplication [node op [l], u]
def add1 (m : Cel) : Cel := node .addition [m]
def add2 (op : Kind) (l m : Cel) : Cel := node .addition [node op [l], m]
def rel1 (a : Cel) : Cel := node .relation [a]
def rel2 (op : Kind) (l a : Cel) : Cel := node .relation [node op [l], a]
def and1 (r : Cel) : Cel := node .conditionaland [r]
def and2 (l r : Cel) : Cel := node .conditionaland [l, r]
def or1 (a : Cel) : Cel := node .conditionalor [a]
def or2 (l a : Cel) : Cel := node .conditionalor [l, a]
def expr1 (o : Cel) : Cel := node .expr [o]
def ternary (c t e : Cel) : Cel := node .expr [c, t, e]

/-- a `member` node used as a whole expression -/
def liftMember (m : Cel) : Cel := expr1 (or1 (and1 (rel1 (add1 (mul1 (unaryMember m))))))
/-- a bare variable as a `member` node: `member[primary[ident[IDENT]]]` -/
def var (s : String) : Cel := member (primary (ident s))
/-- a literal as a whole expression -/
def litExpr (t : TokT) (text : String) : Cel := liftMember (member (primary (literal t text)))

end Cel

/-- a name the name pattern returns unchanged and whose quoted form denotes itself -/
def LabelOk (n : String) : Prop :=
  n.toList ≠ [] ∧ ∀ c ∈ n.toList, c ≠ '.' ∧ c ≠ '[' ∧ c ≠ '"' ∧ c ≠ '\'' ∧ c ≠ '\\'

instance (n : String) : Decidable (LabelOk n) := by unfold LabelOk; exact inferInstance

/-- "somewhere in `e` there is `steps.n` or `steps["n"]`": at any depth and in any position —
    operands, conditional branches, receivers, call and macro arguments, list / map / message
    literals, index expressions (every child of every node is a position) -/
inductive StaticRef : Cel → String → Prop
  | dot (n : String) : LabelOk n → StaticRef (Cel.memberDot (Cel.var "steps") n) n
  | index (n : String) (q : Char) : LabelOk n → q = '"' ∨ q = '\'' →
      StaticRef (Cel.memberIndex (Cel.var "steps")
        (Cel.litExpr .STRING_LIT (String.ofList (q :: n.toList ++ [q])))) n
  | inside (k : Kind) (cs : List Cel) (c : Cel) (n : String) :
      c ∈ cs → StaticRef c n → StaticRef (.node k cs) n

end Koreo.CelAst
