/-
  C14 / C20 — model of the preparation of definitions, as far as references are concerned.

  Transcribed from (REPAIRED code, fix F5)
    src/koreo/workflow/prepare.py            `_load_logic`, `_load_logic_switch`, `_prepare_for_each`,
                                             `_load_step`, `_load_steps`, `prepare_workflow`
    src/koreo/resource_function/prepare.py   `_prepare_overlays` (which ValueFunctions are watched)
    src/koreo/function_test/prepare.py       `prepare_function_test` (watched resources)
  and the schema gate every `prepare_*` starts with (`prepareK`).

  What a field holds is abstracted to what `prepare_expression` / `prepare_map_expression`
  returned for it: nothing (`absent`), a `PermFail` (`parseFail`) or a compiled program whose
  parse tree is `ast t`.  The cache is abstracted to `Env`.  Sets are lists (the theorems are about
  membership; the harness compares them as sets).  Core Lean only.
-/
import Koreo.CelAst

namespace Koreo.WorkflowPrep
open Koreo.CelAst

/-- outcome of `prepare_expression` / `prepare_map_expression` on one field -/
inductive Fld where
  | absent
  | parseFail
  | ast (t : Cel)
  deriving Repr, Inhabited

/-- `{kind, name}` as written in the spec (`""` = missing / falsy) -/
structure Ref where
  kind : String
  name : String
  deriving DecidableEq, Repr, Inhabited

/-- `logic_kind_map` -/
def logicKinds : List String := ["ValueFunction", "ResourceFunction", "Workflow"]

/-- `registry.Resource(resource_type, name)` -/
abbrev Res := String × String

/-- what `get_resource_from_cache` holds for a reference -/
inductive Cached where
  | missing                                         -- nothing cached (or a falsy entry)
  | unhealthy                                       -- a non-Ok outcome is cached
  | ready (isWorkflow : Bool) (keys : List String)  -- prepared; its `dynamic_input_keys`
  deriving Repr, Inhabited

abbrev Env := Ref → Cached

inductive ErrCls where
  | retry | permFail
  deriving DecidableEq, Repr

/-- a loaded Logic or the error outcome standing in for it -/
inductive Logic where
  | err (c : ErrCls)
  | fn (isWorkflow : Bool) (keys : List String)     -- ValueFunction / ResourceFunction / Workflow
  | switch (keys : List String)                      -- LogicSwitch
  deriving Repr, Inhabited

def Logic.isOk : Logic → Bool
  | .err _ => false
  | _ => true

/-- `_load_logic`: `(resources | None, logic)` -/
def loadLogic (env : Env) (r : Ref) : Option (List Res) × Logic :=
  if r.kind = "" then (none, .err .permFail)
  else if r.name = "" then (none, .err .permFail)
  else if !logicKinds.contains r.kind then (none, .err .permFail)
  else
    match env r with
    | .missing => (some [(r.kind, r.name)], .err .retry)
    | .unhealthy => (some [(r.kind, r.name)], .err .retry)
    | .ready w keys => (some [(r.kind, r.name)], .fn w keys)

structure CaseSpec where
  case : String
  isDefault : Bool
  ref : Ref
  deriving Repr, Inhabited

structure SwitchSpec where
  switchOn : Fld
  cases : List CaseSpec
  deriving Repr, Inhabited

/-- `logic_map[case] = logic` on an insertion-ordered dict -/
def dictSet (k : String) (v : Logic) : List (String × Logic) → List (String × Logic)
  | [] => [(k, v)]
  | (k', v') :: rest => if k' = k then (k, v) :: rest else (k', v') :: dictSet k v rest

/-- class of `unwrapped_combine(values)` when it is an error (C03: the most severe class present) -/
def worstErr : List Logic → Option ErrCls
  | [] => none
  | .err .permFail :: _ => some .permFail
  | .err .retry :: rest => (match worstErr rest with | some .permFail => some .permFail | _ => some .retry)
  | _ :: rest => worstErr rest

structure SwitchAcc where
  resources : List Res
  logicMap : List (String × Logic)
  default : Option Logic
  keys : List String

/-- the loop over `cases_spec`; `none` = the "only one default" failure -/
def switchLoop (env : Env) : List CaseSpec → SwitchAcc → Option SwitchAcc
  | [], acc => some acc
  | c :: rest, acc =>
    if c.isDefault && acc.default.isSome then none
    else
      let ll := loadLogic env c.ref
      switchLoop env rest {
        resources := acc.resources ++ ll.1.getD []
        logicMap := dictSet c.case ll.2 acc.logicMap
        default := if c.isDefault then some ll.2 else acc.default
        keys := match ll.2 with
          | .fn true ks => acc.keys ++ ks.map ("inputs." ++ ·)
          | .fn false ks => acc.keys ++ ks
          | _ => acc.keys }

/-- `_load_logic_switch` -/
def loadLogicSwitch (env : Env) (sw : SwitchSpec) : Except String (Option (List Res) × Logic) :=
  match sw.switchOn with
  | .absent => pure (none, .err .permFail)
  | .parseFail => pure (none, .err .permFail)
  | .ast t =>
    match extract t with
    | .error e => .error e
    | .ok keys =>
      if sw.cases.isEmpty then pure (none, .err .permFail)
      else
        match switchLoop env sw.cases ⟨[], [], none, keys⟩ with
        | none => pure (none, .err .permFail)
        | some acc =>
          match worstErr (acc.logicMap.map (·.2)) with
          | some c => pure (some acc.resources, .err c)
          | none =>
            match acc.default with
            | some (.err c) => pure (some acc.resources, .err c)
            | _ => pure (some acc.resources, .switch acc.keys)

structure ForEachSpec where
  itemIn : Fld
  inputKeyEmpty : Bool
  /-- `forEach.condition` is present (truthy) and not a mapping — the CRD schema does not describe this member;
      the repaired `_prepare_for_each` (fix F15) answers an ErrorStep -/
  conditionNotObject : Bool := false
  deriving Repr, Inhabited

structure StepSpec where
  /-- `step_spec.get("label", "<missing label>")` is `label.getD …` -/
  label : Option String
  /-- truthy `ref` / `refSwitch` -/
  ref : Option Ref
  refSwitch : Option SwitchSpec
  skipIf : Fld
  /-- truthy `forEach` -/
  forEach : Option ForEachSpec
  inputs : Fld
  state : Fld
  deriving Repr, Inhabited

def missingLabel : String := "<missing label>"
def StepSpec.lbl (s : StepSpec) : String := s.label.getD missingLabel

inductive StepR where
  | step (deps : List String)      -- `structure.Step`, its `dynamic_input_keys`
  | error (c : ErrCls)             -- `structure.ErrorStep`
  deriving Repr, Inhabited

def StepR.isError : StepR → Bool
  | .error _ => true
  | _ => false

structure StepOut where
  resources : Option (List Res)
  result : StepR
  parentProps : List String
  deriving Repr, Inhabited

/-- the parse trees `_load_step` analyses for this step, in the order it does -/
def StepSpec.scanned (s : StepSpec) : List Fld :=
  (match s.refSwitch with | some sw => [sw.switchOn] | none => []) ++
  [s.skipIf] ++ (match s.forEach with | some fe => [fe.itemIn] | none => []) ++ [s.inputs, s.state]

structure Acc where
  needed : List String          -- `needed_steps`
  pp : List String              -- `needed_parent_properties`
  deriving Repr, Inhabited

/-- a stage of `_load_step`: `none` = the field's preparation failed (the step becomes an
    `ErrorStep` carrying the parent properties gathered so far) -/
abbrev Stage := Acc → Except String (Option Acc)

def Acc.add (acc : Acc) (keys : List String) : Acc :=
  ⟨acc.needed ++ stepDeps keys, acc.pp ++ parentProps keys⟩

/-- `skipIf`, `inputs`, `state`: prepare the field, analyse its parse tree -/
def scanFld (f : Fld) : Stage := fun acc =>
  match f with
  | .absent => pure (some acc)
  | .parseFail => pure none
  | .ast t =>
    match extract t with
    | .error e => .error e
    | .ok keys => pure (some (acc.add keys))

/-- `_prepare_for_each` and the use `_load_step` makes of it -/
def scanForEach (fe : Option ForEachSpec) : Stage := fun acc =>
  match fe with
  | none => pure (some acc)
  | some fe =>
    match fe.itemIn with
    | .absent => pure none
    | .parseFail => pure none
    | .ast t =>
      match extract t with
      | .error e => .error e
      | .ok keys => if fe.inputKeyEmpty || fe.conditionNotObject then pure none else pure (some (acc.add keys))

/-- run the stages in order; `.inl acc` = a stage failed with `acc` gathered so far -/
def runStages : List Stage → Acc → Except String (Sum Acc Acc)
  | [], acc => pure (.inr acc)
  | st :: rest, acc =>
    match st acc with
    | .error e => .error e
    | .ok none => pure (.inl acc)
    | .ok (some acc') => runStages rest acc'

def stages (s : StepSpec) : List Stage :=
  [scanFld s.skipIf, scanForEach s.forEach, scanFld s.inputs, scanFld s.state]

/-- the Logic part of `_load_step`: resources, the loaded logic (`none` = neither `ref` nor
    `refSwitch`), and what the `switchOn` expression names -/
def loadStepLogic (env : Env) (s : StepSpec) : Except String (Option (List Res) × Option Logic × Acc) :=
  match s.ref, s.refSwitch with
  | some r, _ =>
    let (res, l) := loadLogic env r
    pure (res, some l, ⟨[], []⟩)
  | none, some sw =>
    match loadLogicSwitch env sw with
    | .error e => .error e
    | .ok (res, l) =>
      if l.isOk then
        match sw.switchOn with
        | .ast t =>
          match extract t with
          | .error e => .error e
          | .ok keys => pure (res, some l, (⟨[], []⟩ : Acc).add keys)
        | _ => pure (res, some l, ⟨[], []⟩)
      else pure (res, some l, ⟨[], []⟩)
  | none, none => pure (none, none, ⟨[], []⟩)

/-- `_load_step` -/
def loadStep (env : Env) (s : StepSpec) (known : List String) : Except String StepOut :=
  if s.ref.isSome && s.refSwitch.isSome then pure ⟨none, .error .permFail, []⟩
  else
    match loadStepLogic env s with
    | .error e => .error e
    | .ok (resources, logic, acc0) =>
      if s.label.isNone then pure ⟨resources, .error .permFail, acc0.pp⟩
      else
        match logic with
        | none => pure ⟨resources, .error .permFail, acc0.pp⟩
        | some (.err c) => pure ⟨resources, .error c, acc0.pp⟩
        | some _ =>
          match runStages (stages s) acc0 with
          | .error e => .error e
          | .ok (.inl acc) => pure ⟨resources, .error .permFail, acc.pp⟩
          | .ok (.inr acc) =>
            -- `needed_steps.difference(known_steps)`
            if acc.needed.all (known.contains ·) then pure ⟨resources, .step acc.needed, acc.pp⟩
            else pure ⟨resources, .error .permFail, acc.pp⟩

/-- what a probe of the real `prepare_workflow` observed for its last step -/
inductive NameObs where
  | step (deps : List String)
  | err (c : ErrCls)
  | raised
  deriving Repr

/-- the probed step: label `probe_last`, a ready ValueFunction as Logic, the expression in `inputs` -/
def nameProbeAgrees (known : List String) (inputsAst : Cel) (obs : NameObs) (parentProps : List String) : Bool :=
  let spec : StepSpec := { label := some "probe_last", ref := some ⟨"ValueFunction", "probe_fn"⟩, refSwitch := none,
                           skipIf := .absent, forEach := none, inputs := .ast inputsAst, state := .absent }
  match loadStep (fun _ => .ready false []) spec known, obs with
  | .ok out, .step deps =>
    (match out.result with | .step d => sameSet d deps | _ => false) && sameSet out.parentProps parentProps
  | .ok out, .err c =>
    (match out.result with | .error c' => c == c' | _ => false) && sameSet out.parentProps parentProps
  | .error _, .raised => true
  | _, _ => false

inductive Ready where
  | ok | retry | permFail
  deriving DecidableEq, Repr, Inhabited

structure WfOut where
  steps : List StepR
  ready : Ready
  watched : List Res
  parentProps : List String
  deriving Repr, Inhabited

/-- the loop of `_load_steps`: results in spec order, resources, parent properties -/
def loadStepsLoop (env : Env) : List StepSpec → List String → Except String (List StepR × List Res × List String)
  | [], _ => pure ([], [], [])
  | s :: rest, known =>
    if known.contains s.lbl then
      match loadStepsLoop env rest known with
      | .error e => .error e
      | .ok (rs, res, pp) => pure (.error .permFail :: rs, res, pp)
    else
      match loadStep env s known with
      | .error e => .error e
      | .ok out =>
        match loadStepsLoop env rest (s.lbl :: known) with
        | .error e => .error e
        | .ok (rs, res, pp) => pure (out.result :: rs, out.resources.getD [] ++ res, out.parentProps ++ pp)

/-- class of `unwrapped_combine(error_outcomes)` (C03) -/
def readyOf (rs : List StepR) : Ready :=
  if rs.any (fun r => match r with | .error .permFail => true | _ => false) then .permFail
  else if rs.any StepR.isError then .retry
  else .ok

/-- `prepare_workflow` after the schema gate -/
def prepareWorkflow (env : Env) (steps : List StepSpec) : Except String WfOut :=
  if steps.isEmpty then pure ⟨[], .permFail, [], []⟩
  else
    match loadStepsLoop env steps [] with
    | .error e => .error e
    | .ok (rs, res, pp) => pure ⟨rs, readyOf rs, res, pp⟩

/-- A run of preparations in one process (a controller prepares many Workflows, and the same
    Workflow again after every update).  `prepare_workflow` keeps no state of its own between
    calls — the only thing it reads besides its argument is the cache (`env`) — so a run is the
    list of the single preparations. -/
def prepareSeq (env : Env) (specs : List (List StepSpec)) : List (Except String WfOut) :=
  specs.map (prepareWorkflow env)

/-! ## ResourceFunction: which overlay functions are watched -/

structure OverlaySpec where
  skipIf : Fld
  /-- the entry has an `overlay` key (matched first) -/
  hasInline : Bool
  /-- `overlayRef.name`, when `overlayRef` is a mapping with a `name` -/
  refName : Option String
  deriving Repr, Inhabited

/-- the `used_value_functions` of `_prepare_overlays` -/
def overlayWatched : List OverlaySpec → List Res
  | [] => []
  | o :: rest =>
    match o.skipIf with
    | .parseFail => overlayWatched rest          -- `continue` before the entry is looked at
    | _ =>
      if o.hasInline then overlayWatched rest
      else match o.refName with
        | some n => ("ValueFunction", n) :: overlayWatched rest
        | none => overlayWatched rest

/-- subscriptions `prepare_resource_function` returns; `none` = it returned a `PermFail`
    (`bodyOk` = every other part of the spec prepared) -/
def rfWatched (bodyOk : Bool) (overlays : List OverlaySpec) : Option (List Res) :=
  if bodyOk then some (overlayWatched overlays) else none

/-! ## ResourceFunction: does an `overlayRef` provide the inputs its ValueFunction names -/

/-- `{match.group("name") for match in (INPUTS_NAME_PATTERN.match(key) for key in dynamic_input_keys) if match}`
    — a set of `str | None` -/
def neededInputs (keys : List String) : List (Option String) :=
  ((keys.filterMap inputsMatch).map (·.name)).eraseDups

/-- `needed_inputs - provided_inputs`: `None` is never provided -/
def missingInputs (keys provided : List String) : List (Option String) :=
  (neededInputs keys).filter fun n =>
    match n with
    | some s => !provided.contains s
    | none => true

/-- `f"{x}"` -/
def pyFormat : Option String → String
  | some s => s
  | none => "None"

/-- `sorted(xs)` on `str | None` values: comparing a `str` with `None` is a `TypeError`
    (only reached when there is something to compare) -/
def pySortable (xs : List (Option String)) : Bool := xs.length ≤ 1 || xs.all (·.isSome)

/-- the quoted names of the "expected the following inputs …" PermFail (set order is not modelled) -/
def missingNames (style : JoinStyle) (missing : List (Option String)) : Except String (List String) :=
  match style with
  | .formatEach sorted =>
    if sorted && !pySortable missing then .error "TypeError: '<' not supported between 'str' and 'NoneType'"
    else .ok (missing.map fun m => "\"" ++ pyFormat m ++ "\"")
  | .raw sorted =>
    if sorted && !pySortable missing then .error "TypeError: '<' not supported between 'str' and 'NoneType'"
    else if missing.all (·.isSome) then .ok (missing.filterMap id)
    else .error "TypeError: sequence item: expected str instance, NoneType found"

/-- the style of the current source (tied to it by `Props/C20.missing_join_style_matches_source`) -/
def modelJoinStyle : JoinStyle := .formatEach false

/-- the input check of one `overlayRef` entry whose ValueFunction is ready:
    `none` = every named input is provided, `some names` = PermFail naming them -/
def overlayInputsCheck (style : JoinStyle) (keys provided : List String) : Except String (Option (List String)) :=
  let missing := missingInputs keys provided
  if missing.isEmpty then .ok none
  else (missingNames style missing).map some

/-- what a probe of the real `_prepare_overlays` observed for one `overlayRef` entry -/
inductive OverlayObs where
  | complete
  | missing (names : List String)   -- the names quoted in the "expected the following inputs" PermFail
  | raised
  deriving Repr, DecidableEq

def overlayProbeAgrees (keys provided : List String) (obs : OverlayObs) : Bool :=
  match overlayInputsCheck modelJoinStyle keys provided, obs with
  | .ok none, .complete => true
  | .ok (some names), .missing seen => sameSet names (seen.map fun n => "\"" ++ n ++ "\"")
  | .error _, .raised => true
  | _, _ => false

/-! ## FunctionTest: watched resources -/

/-- `function_ref_spec_to_resource` -/
def functionRefResource (r : Ref) : Option Res :=
  if r.kind = "" then none
  else if r.name = "" then none
  else if r.kind = "ValueFunction" ∨ r.kind = "ResourceFunction" then some (r.kind, r.name)
  else none

/-- subscriptions of `prepare_function_test`; `casesOk` = test cases and inputs prepared,
    `templates` = the template names `_check_for_resource_template_ref` resolved -/
def ftWatched (fn : Ref) (casesOk : Bool) (templates : List String) : Option (List Res) :=
  match functionRefResource fn with
  | none => none
  | some w => if casesOk then some (w :: templates.map (fun n => ("ResourceTemplate", n))) else none

/-! ## kr8s' class registry, as `_prepare_api_config` uses it (REPAIRED code, fix F12) -/

def slashes (s : String) : Nat := (s.toList.filter (· == '/')).length

/-- `kr8s.objects.get_class` does `cls_group, cls_version = cls.version.split("/")` (when there is a slash)
    for **every** class registered in the process: does that unpacking succeed for version `v` -/
def unpackOk (v : String) : Bool := decide (slashes v ≤ 1)

/-- the `version` attributes of the classes registered so far -/
abbrev Registry := List String

/-- `get_class` returns or raises `KeyError` (handled); `false` = it raises `ValueError` -/
def lookupOk (reg : Registry) : Bool := reg.all unpackOk

inductive ApiR where
  | prepared | permFail | raised
  deriving DecidableEq, Repr

/-- `_prepare_api_config`: required fields, the `apiVersion` shape check, `get_class` / `new_class`
    (a `ValueError` of either is a PermFail); a new class carries `apiVersion` verbatim -/
def prepareApi (reg : Registry) (apiVersion : String) : Registry × ApiR :=
  if apiVersion = "" then (reg, .permFail)
  else if slashes apiVersion > 1 then (reg, .permFail)
  else if !lookupOk reg then (reg, .permFail)
  else (apiVersion :: reg, .prepared)

/-- the same before fix F12: nothing checked, nothing caught -/
def prepareApiOld (reg : Registry) (apiVersion : String) : Registry × ApiR :=
  if apiVersion = "" then (reg, .permFail)
  else if !lookupOk reg then (reg, .raised)
  else (apiVersion :: reg, .prepared)

/-- a run of prepares in one process -/
def prepareApiSeq (step : Registry → String → Registry × ApiR) : Registry → List String → Registry × List ApiR
  | reg, [] => (reg, [])
  | reg, av :: rest =>
    let (reg', r) := step reg av
    let (reg'', rs) := prepareApiSeq step reg' rest
    (reg'', r :: rs)

/-- `predicate_to_koreo_result`'s retry delay (REPAIRED, fix F13): a whole number or a PermFail.
    `num` = the value in eighths when it is a number (`JVal.num8?`), `none` for anything else -/
def retryDelay (num8 : Option Int) : Option Int :=
  match num8 with
  | some e => if e % 8 = 0 then some (e / 8) else none
  | none => none

/-! ## the schema gate -/

inductive Ev where
  | validate | compile | lookup
  deriving DecidableEq, Repr

inductive PrepR where
  | prepared | permFail | retry
  deriving DecidableEq, Repr

/-- every `prepare_*`: `schema.validate(...)` first; only then the body, which compiles
    expressions and looks resources up -/
def prepareK {Spec : Type} (schemaValid : Spec → Bool) (body : Spec → List Ev × PrepR) (spec : Spec) :
    List Ev × PrepR :=
  if schemaValid spec then
    let (evs, r) := body spec
    (.validate :: evs, r)
  else ([.validate], .permFail)

end Koreo.WorkflowPrep
