/-
  C03 — model of `src/koreo/result.py`: the five outcome classes, their pairwise
  `combine` methods, `_OkData`, `combine` and `unwrapped_combine`.
  Transcribed one-to-one; core Lean only.
-/
namespace Koreo.Result

/-- `Ok.data` is either the user's value or the internal `_OkData(values)` wrapper. -/
inductive OkData (α : Type) where
  | raw (a : α)
  | wrapped (vs : List α)
  deriving Repr, BEq, DecidableEq

inductive Outcome (α : Type) where
  | depSkip (msg loc : Option String)
  | skip (msg loc : Option String)
  | ok (data : OkData α) (loc : Option String)
  | retry (delay : Int) (msg loc : Option String)
  | permFail (msg loc : Option String)
  deriving Repr, BEq, DecidableEq

inductive Cls where
  | depSkip | skip | ok | retry | permFail
  deriving Repr, BEq, DecidableEq

def Cls.rank : Cls → Nat
  | .depSkip => 0 | .skip => 1 | .ok => 2 | .retry => 3 | .permFail => 4

variable {α : Type}

def Outcome.cls : Outcome α → Cls
  | .depSkip .. => .depSkip
  | .skip .. => .skip
  | .ok .. => .ok
  | .retry .. => .retry
  | .permFail .. => .permFail

/-- Python truthiness of `str | None`: `if self.message:` -/
def truthyS : Option String → Bool
  | some s => s != ""
  | none => false

def sep : String := ", "

/-- `", ".join(lst)` -/
def joinStrs : List String → String
  | [] => ""
  | [a] => a
  | a :: b :: rest => a ++ sep ++ joinStrs (b :: rest)

/-- the truthy (non-None, non-empty) strings of a list, in order -/
def truthyList : List (Option String) → List String
  | [] => []
  | some s :: rest => if s != "" then s :: truthyList rest else truthyList rest
  | none :: rest => truthyList rest

/-- `lst = []; if a: lst.append(a); if b: lst.append(b); ", ".join(lst)` -/
def join2 (a b : Option String) : Option String :=
  some (joinStrs (truthyList [a, b]))

/-- What a class's `combine` does when it meets another class (regenerated from the
    source as `Gen.ResultTable`, see `Props/C03.lean`). -/
inductive Act where
  | self      -- return self
  | other     -- return other
  | merge     -- build a new outcome of the same class from both
  | wrapSelf  -- Ok only: re-wrap own data into `_OkData` (value kept)
  deriving Repr, BEq, DecidableEq

def table : Cls → Cls → Act
  | .depSkip, _ => .other
  | .skip, .depSkip => .self
  | .skip, _ => .other
  | .ok, .depSkip => .wrapSelf
  | .ok, .skip => .wrapSelf
  | .ok, .ok => .merge
  | .ok, _ => .other
  | .retry, .retry => .merge
  | .retry, .permFail => .other
  | .retry, _ => .self
  | .permFail, .permFail => .merge
  | .permFail, _ => .self

/-- `_OkData.values`, or the single value not yet wrapped -/
def unwrapData : OkData α → List α
  | .wrapped vs => vs
  | .raw a => [a]

/-- `max` for delays as written in `Retry.combine`. -/
def delayOp (a b : Int) : Int := max a b

/-- `self.combine(other)` -/
def Outcome.combine (self other : Outcome α) : Outcome α :=
  match self, other with
  | .depSkip .., o => o
  | .skip m l, .depSkip .. => .skip m l
  | .skip .., o => o
  | .ok d l, .depSkip .. | .ok d l, .skip .. => .ok (.wrapped (unwrapData d)) l
  | .ok d l, .ok d' l' =>
    -- `other.data` is appended as one value; inputs never carry `_OkData`
    .ok (.wrapped (unwrapData d ++ unwrapData d')) (join2 l l')
  | .ok .., o => o
  | .retry d m l, .retry d' m' l' => .retry (delayOp d d') (join2 m m') (join2 l l')
  | .retry .., .permFail m l => .permFail m l
  | .retry d m l, _ => .retry d m l
  | .permFail m l, .permFail m' l' => .permFail (join2 m m') (join2 l l')
  | .permFail m l, _ => .permFail m l

/-- `reduce(lambda acc, o: acc.combine(o), outcomes, DepSkip())` -/
def fold (xs : List (Outcome α)) : Outcome α :=
  xs.foldl Outcome.combine (.depSkip none none)

/-- result of `combine(outcomes)`: non-Ok outcomes as they are, Ok with a plain list. -/
inductive Combined (α : Type) where
  | nonOk (o : Outcome α)
  | okList (vs : List α) (loc : Option String)
  deriving Repr, BEq, DecidableEq

/-- `koreo.result.combine` -/
def combine (xs : List (Outcome α)) : Combined α :=
  if xs.isEmpty then .nonOk (.skip none none)
  else match fold xs with
    | .ok d l => .okList (unwrapData d) l
    | o => .nonOk o

/-- An element of `unwrapped_combine`'s input: an error/skip outcome or a bare value. -/
inductive Unwrapped (α : Type) where
  | out (o : Outcome α)   -- only non-Ok classes occur here
  | val (a : α)

def Unwrapped.lift : Unwrapped α → Outcome α
  | .out o => o
  | .val a => .ok (.raw a) none

/-- `koreo.result.unwrapped_combine` (the Ok case returns the bare list, no location). -/
def unwrappedCombine (xs : List (Unwrapped α)) : Combined α :=
  if xs.isEmpty then .nonOk (.skip none none)
  else match fold (xs.map Unwrapped.lift) with
    | .ok d _ => .okList (unwrapData d) none
    | o => .nonOk o

/-! ### specification-side helpers -/

def Combined.cls : Combined α → Cls
  | .nonOk o => o.cls
  | .okList .. => .ok

/-- the values an outcome contributes -/
def Outcome.vals : Outcome α → List α
  | .ok d _ => unwrapData d
  | _ => []

/-- an input outcome never carries the internal wrapper -/
def Outcome.isInput : Outcome α → Bool
  | .ok (.wrapped _) _ => false
  | _ => true

def maxCls (a b : Cls) : Cls := if a.rank < b.rank then b else a

/-- most severe class present, `depSkip` for the empty list -/
def maxSeverity (xs : List (Outcome α)) : Cls :=
  xs.foldl (fun c o => maxCls c o.cls) .depSkip

def Outcome.delay? : Outcome α → Option Int
  | .retry d .. => some d
  | _ => none

def Outcome.msg : Outcome α → Option String
  | .depSkip m _ | .skip m _ | .retry _ m _ | .permFail m _ => m
  | .ok .. => none

def Outcome.loc : Outcome α → Option String
  | .depSkip _ l | .skip _ l | .retry _ _ l | .permFail _ l | .ok _ l => l

end Koreo.Result
