/-
  Helper lemmas for C07 (and the C06/C08 pipeline): the payload-level model `reconcile`
  refines the finite table `ResourceFn.decide`.
-/
import Koreo.ResourceFn
namespace Koreo.Rf
set_option linter.unusedSimpArgs false
open Koreo JVal Koreo.Identity Koreo.Payload Koreo.ResourceFn

theorem failedRun_left :
    failedRun.action = .none ∧ failedRun.outcome = none ∧ failedRun.request.isNone = true := ⟨rfl, rfl, rfl⟩

/-- the table, specialised to "preconditions passed", cell by cell -/
theorem decide_pass (ro ow ns ce de : Bool) (pol : Policy) (co pg : Bool) (s : Situation) :
    decideCore ⟨ro, ow, ns, ce, de, pol, true, co, pg⟩ s =
      if de then (if s.isAbsent then (.none, .ok) else (.delete, .retry))
      else if s.isAbsent && (ro || !ce) then (.none, .retry)
      else if !s.isAbsent && ro then (.none, .ok)
      else if s.isAbsent then (.create, .retry)
      else if (!s.isDrifted) && (if ow && ns then !s.lacksOwnerRef else true) then (.none, .ok)
      else match pol with
        | .never => (.none, .ok)
        | .recreate => (.delete, .retry)
        | .patch => (.patch, .retry) := by
  cases ro <;> cases ow <;> cases ns <;> cases ce <;> cases de <;> cases pol <;> cases s <;> rfl

theorem decide_of_not_rejected (c : Cfg) (s : Situation) (h : s.mutationRejected = false) :
    ResourceFn.decide c s = decideCore c s := by
  simp [ResourceFn.decide, h]

theorem decide_absent (c : Cfg) : ResourceFn.decide c .absent = decideCore c .absent := by
  simp [ResourceFn.decide, Situation.mutationRejected]
theorem decide_presentMatching (c : Cfg) : ResourceFn.decide c .presentMatching = decideCore c .presentMatching := by
  simp [ResourceFn.decide, Situation.mutationRejected]
theorem decide_presentDrifted (c : Cfg) : ResourceFn.decide c .presentDrifted = decideCore c .presentDrifted := by
  simp [ResourceFn.decide, Situation.mutationRejected]
theorem decide_presentNoOwnerRef (c : Cfg) : ResourceFn.decide c .presentNoOwnerRef = decideCore c .presentNoOwnerRef := by
  simp [ResourceFn.decide, Situation.mutationRejected]

theorem reconcile_follows_table (enc : JVal → String) (defNs : String) (cmp : JVal → JVal → Bool)
    (pp : Bool) (rf : Rf) (owner : Owner) (stored : Option JVal)
    (hns : (owner.ns == rf.ns) = rf.api.namespaced) (hw : (rf.api.namespaced && rf.ns.isNone) = false) :
    let run := reconcile enc defNs cmp pp rf owner stored
    (run.action = .none ∧ run.outcome = none ∧ run.request.isNone) ∨
    ∃ s, (run.action, run.outcome) = ((ResourceFn.decide (rf.cfg pp) s).1, some (ResourceFn.decide (rf.cfg pp) s).2) ∧
      (s = .absent ↔ (stored.bind fun o => krLoaded rf.api o rf.ns) = none) := by
  intro run
  cases pp with
  | false =>
    right
    cases hl : (stored.bind fun o => krLoaded rf.api o rf.ns) with
    | none => exact ⟨.absent, rfl, by simp⟩
    | some l => exact ⟨.presentMatching, rfl, by simp⟩
  | true =>
    obtain ⟨api, name, ns, ro, ow, ce, de, pol, tmpl, steps, cov⟩ := rf
    simp only at hns
    simp only at hw
    have hrun : run = reconcileKrm enc defNs cmp ⟨api, name, ns, ro, ow, ce, de, pol, tmpl, steps, cov⟩ owner stored := by
      show reconcile enc defNs cmp true _ owner stored = _
      simp [reconcile, hw]
    simp only [Rf.cfg]
    rw [hrun]
    unfold reconcileKrm
    simp only [hns]
    cases hl : (stored.bind fun o => krLoaded api o ns) with
    | none =>
      simp only []
      cases de with
      | true => right; exact ⟨.absent, by simp [decide_absent, decide_presentMatching, decide_presentDrifted, decide_presentNoOwnerRef, decide_pass, Situation.isAbsent], by simp⟩
      | false =>
        simp only [Bool.false_eq_true, if_false]
        cases hrc : (ro || !ce) with
        | true =>
          right
          refine ⟨.absent, ?_, by simp⟩
          simp [decide_absent, decide_presentMatching, decide_presentDrifted, decide_presentNoOwnerRef, decide_pass, Situation.isAbsent, hrc]
        | false =>
          simp only [Bool.false_eq_true, if_false]
          generalize ((materialise _ tmpl steps).bind _) = q
          cases q with
          | none => left; exact failedRun_left
          | some req =>
            right
            refine ⟨.absent, ?_, by simp⟩
            have : ro = false ∧ ce = true := by
              cases ro <;> cases ce <;> simp_all
            simp [decide_absent, decide_presentMatching, decide_presentDrifted, decide_presentNoOwnerRef, decide_pass, Situation.isAbsent, this.1, this.2]
    | some live =>
      simp only []
      cases de with
      | true =>
        simp only [if_true]
        generalize deleteRequest api defNs live = q
        cases q with
        | none => left; exact failedRun_left
        | some req => right; exact ⟨.presentMatching, by simp [decide_absent, decide_presentMatching, decide_presentDrifted, decide_presentNoOwnerRef, decide_pass, Situation.isAbsent], by simp⟩
      | false =>
        simp only [Bool.false_eq_true, if_false]
        cases ro with
        | true => right; exact ⟨.presentMatching, by simp [decide_absent, decide_presentMatching, decide_presentDrifted, decide_presentNoOwnerRef, decide_pass, Situation.isAbsent], by simp⟩
        | false =>
          simp only [Bool.false_eq_true, if_false]
          generalize materialise _ tmpl steps = m
          cases m with
          | none => left; exact failedRun_left
          | some expected =>
            simp only []
            cases hc : cmp expected live with
            | false =>
              simp only [Bool.false_and, Bool.false_eq_true, if_false]
              cases pol with
              | never => right; exact ⟨.presentDrifted, by simp [decide_absent, decide_presentMatching, decide_presentDrifted, decide_presentNoOwnerRef, decide_pass, Situation.isAbsent, Situation.isDrifted], by simp⟩
              | recreate =>
                simp only []
                generalize deleteRequest api defNs live = q
                cases q with
                | none => left; exact failedRun_left
                | some req =>
                  right; exact ⟨.presentDrifted, by simp [decide_absent, decide_presentMatching, decide_presentDrifted, decide_presentNoOwnerRef, decide_pass, Situation.isAbsent, Situation.isDrifted], by simp⟩
              | patch =>
                simp only []
                generalize ((patchPayload enc expected live owner.ref _ _).bind _) = q
                cases q with
                | none => left; exact failedRun_left
                | some req =>
                  right; exact ⟨.presentDrifted, by simp [decide_absent, decide_presentMatching, decide_presentDrifted, decide_presentNoOwnerRef, decide_pass, Situation.isAbsent, Situation.isDrifted], by simp⟩
            | true =>
              cases hown : (ow && api.namespaced) with
              | false =>
                right
                refine ⟨.presentMatching, ?_, by simp⟩
                simp [decide_absent, decide_presentMatching, decide_presentDrifted, decide_presentNoOwnerRef, decide_pass, Situation.isAbsent, Situation.isDrifted, hown]
              | true =>
                simp only [if_true, Bool.true_and]
                cases hr : ownerReffed live owner.ref with
                | true =>
                  right
                  refine ⟨.presentMatching, ?_, by simp⟩
                  simp [decide_absent, decide_presentMatching, decide_presentDrifted, decide_presentNoOwnerRef, decide_pass, Situation.isAbsent, Situation.isDrifted, Situation.lacksOwnerRef, hown]
                | false =>
                  simp only [Bool.false_eq_true, if_false]
                  cases pol with
                  | never =>
                    right
                    exact ⟨.presentNoOwnerRef, by simp [decide_absent, decide_presentMatching, decide_presentDrifted, decide_presentNoOwnerRef, decide_pass, Situation.isAbsent, Situation.isDrifted, Situation.lacksOwnerRef, hown], by simp⟩
                  | recreate =>
                    simp only []
                    generalize deleteRequest api defNs live = q
                    cases q with
                    | none => left; exact failedRun_left
                    | some req =>
                      right
                      exact ⟨.presentNoOwnerRef, by simp [decide_absent, decide_presentMatching, decide_presentDrifted, decide_presentNoOwnerRef, decide_pass, Situation.isAbsent, Situation.isDrifted, Situation.lacksOwnerRef, hown], by simp⟩
                  | patch =>
                    simp only []
                    generalize ((patchPayload enc expected live owner.ref _ _).bind _) = q
                    cases q with
                    | none => left; exact failedRun_left
                    | some req =>
                      right
                      exact ⟨.presentNoOwnerRef, by simp [decide_absent, decide_presentMatching, decide_presentDrifted, decide_presentNoOwnerRef, decide_pass, Situation.isAbsent, Situation.isDrifted, Situation.lacksOwnerRef, hown], by simp⟩

end Koreo.Rf
