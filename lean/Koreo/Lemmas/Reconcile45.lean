/-
  C04 / C05: the payload `_prepare_for_api(target)` meets the target, has distinct keys, and carries
  the last-applied tree that `_extract_last_applied` reads back — also after it was merge-patched
  into any live object.
-/
import Koreo.Reconcile45
import Koreo.Lemmas.CompareStrip
import Koreo.Lemmas.ComparePatch
namespace Koreo.R45
open Koreo Koreo.JVal Koreo.Compare

/-! ## small list facts -/

theorem keysNoDup_insert (k : String) (v : JVal) : ∀ l : List (String × JVal),
    keysNoDup l = true → keysNoDup (JVal.insert k v l) = true := by
  intro l
  induction l with
  | nil => intro _; simp [JVal.insert, keysNoDup, lookup]
  | cons kv rest ih =>
    intro h
    obtain ⟨k', v'⟩ := kv
    simp only [keysNoDup, Bool.and_eq_true, Option.isNone_iff_eq_none] at h
    by_cases hk : k' = k
    · subst hk; simp [JVal.insert, keysNoDup, h.1, h.2]
    · simp only [JVal.insert, hk, ↓reduceIte, keysNoDup, Bool.and_eq_true, Option.isNone_iff_eq_none]
      exact ⟨by rw [lookup_insert_ne k' k v (Ne.symm hk)]; exact h.1, ih h.2⟩

theorem noDupO_insert (k : String) (v : JVal) (hv : noDupB v = true) : ∀ l : List (String × JVal),
    noDupO l = true → noDupO (JVal.insert k v l) = true := by
  intro l
  induction l with
  | nil => intro _; simp [JVal.insert, noDupO, hv]
  | cons kv rest ih =>
    intro h
    obtain ⟨k', v'⟩ := kv
    rw [noDupO.eq_2, Bool.and_eq_true] at h
    by_cases hk : k' = k
    · simp [JVal.insert, hk, noDupO, hv, h.2]
    · simp [JVal.insert, hk, noDupO, h.1, ih h.2]

theorem lookup_stripO_none (k : String) : ∀ kvs : List (String × JVal),
    lookup k kvs = none → lookup k (stripO kvs) = none := by
  intro kvs
  induction kvs with
  | nil => intro _; rfl
  | cons kv rest ih =>
    intro h
    obtain ⟨k', v'⟩ := kv
    have hne : k' ≠ k := by intro e; simp [lookup, e] at h
    have hr : lookup k rest = none := by simpa [lookup, hne] using h
    by_cases hd : isDirective k' = true
    · simp [stripO, hd, ih hr]
    · simp [stripO, hd, lookup, hne, ih hr]

mutual
theorem noDup_strip (t : JVal) (h : noDupB t = true) : noDupB (strip t) = true := by
  match t with
  | .obj kvs =>
    rw [noDupB.eq_2, Bool.and_eq_true] at h
    rw [strip.eq_1, noDupB.eq_2, Bool.and_eq_true]
    exact ⟨keysNoDup_stripO kvs h.1, noDupO_stripO kvs h.2⟩
  | .arr xs => rw [noDupB.eq_1] at h; rw [strip.eq_2, noDupB.eq_1]; exact noDupL_stripL xs h
  | .null | .bool _ | .int _ | .flt _ | .str _ => rw [strip.eq_def]; exact h
termination_by structural t
theorem noDupO_stripO (kvs : List (String × JVal)) (h : noDupO kvs = true) : noDupO (stripO kvs) = true := by
  match kvs with
  | [] => rfl
  | (k, v) :: rest =>
    rw [noDupO.eq_2, Bool.and_eq_true] at h
    rw [stripO.eq_2]
    split
    · exact noDupO_stripO rest h.2
    · rw [noDupO.eq_2, Bool.and_eq_true]; exact ⟨noDup_strip v h.1, noDupO_stripO rest h.2⟩
termination_by structural kvs
theorem noDupL_stripL (xs : List JVal) (h : noDupL xs = true) : noDupL (stripL xs) = true := by
  match xs with
  | [] => rfl
  | x :: rest =>
    rw [noDupL.eq_2, Bool.and_eq_true] at h
    rw [stripL.eq_2, noDupL.eq_2, Bool.and_eq_true]
    exact ⟨noDup_strip x h.1, noDupL_stripL rest h.2⟩
termination_by structural xs
theorem keysNoDup_stripO (kvs : List (String × JVal)) (h : keysNoDup kvs = true) :
    keysNoDup (stripO kvs) = true := by
  match kvs with
  | [] => rfl
  | (k, v) :: rest =>
    simp only [keysNoDup, Bool.and_eq_true, Option.isNone_iff_eq_none] at h
    rw [stripO.eq_2]
    split
    · exact keysNoDup_stripO rest h.2
    · simp only [keysNoDup, Bool.and_eq_true, Option.isNone_iff_eq_none]
      exact ⟨lookup_stripO_none k rest h.1, keysNoDup_stripO rest h.2⟩
end

theorem wfO_mem (d : Dirs) : ∀ (kvs : List (String × JVal)) (k : String) (v : JVal),
    wfO d kvs = true → (k, v) ∈ kvs → wfB v = true := by
  intro kvs
  induction kvs with
  | nil => intro k v _ h; cases h
  | cons kv rest ih =>
    intro k v hw hm
    obtain ⟨k', v'⟩ := kv
    rw [wfO.eq_2, Bool.and_eq_true, Bool.and_eq_true] at hw
    rcases List.mem_cons.mp hm with e | h'
    · cases e; exact hw.1.2
    · exact ih k v hw.2 h'

theorem noDupO_mem : ∀ (kvs : List (String × JVal)) (k : String) (v : JVal),
    noDupO kvs = true → (k, v) ∈ kvs → noDupB v = true := by
  intro kvs
  induction kvs with
  | nil => intro k v _ h; cases h
  | cons kv rest ih =>
    intro k v hw hm
    obtain ⟨k', v'⟩ := kv
    rw [noDupO.eq_2, Bool.and_eq_true] at hw
    rcases List.mem_cons.mp hm with e | h'
    · cases e; exact hw.1
    · exact ih k v hw.2 h'

theorem lookup_mem : ∀ (kvs : List (String × JVal)) (k : String) (v : JVal),
    lookup k kvs = some v → (k, v) ∈ kvs := by
  intro kvs
  induction kvs with
  | nil => intro k v h; simp [lookup] at h
  | cons kv rest ih =>
    intro k v h
    obtain ⟨k', v'⟩ := kv
    by_cases hk : k' = k
    · subst hk; simp [lookup] at h; subst h; exact List.mem_cons_self ..
    · exact List.mem_cons_of_mem _ (ih k v (by simpa [lookup, hk] using h))

/-! ## one level of the annotation write -/

/-- a map written over the stripped target map at a key the target compares plainly (or does not
    have) still meets the target map, when the written value meets the target's value there -/
theorem meets_obj_with (tkvs : List (String × JVal)) (hw : wfB (.obj tkvs) = true) (hn : noDupB (.obj tkvs) = true)
    (k0 : String) (v0 : JVal)
    (h0 : ∀ tv, lookup k0 tkvs = some tv →
      plainKey tkvs k0 = true ∧ meetsB .full tv v0 (strip tv) = true) :
    meetsB .full (.obj tkvs) (.obj (JVal.insert k0 v0 (stripO tkvs))) (strip (.obj tkvs)) = true := by
  rw [wfB.eq_1, Bool.and_eq_true] at hw
  rw [noDupB.eq_2, Bool.and_eq_true] at hn
  rw [strip.eq_1, meetsB.eq_1, Bool.and_eq_true]
  refine ⟨by simp [laMapOk], ?_⟩
  apply meetsO_strip_self (specDirs tkvs) _ tkvs tkvs (fun k f hf => specMap_strs _ k f hf)
    (fun k tv hm hd => by rw [lookup_stripO k hd, mem_lookup_nodup tkvs k tv hn.1 hm]; rfl) _ hw.2 hn.2
  intro k tv hm hd
  have hl := mem_lookup_nodup tkvs k tv hn.1 hm
  by_cases hk : k = k0
  · subst hk
    obtain ⟨hp, hmv⟩ := h0 tv hl
    simp only [plainKey, Bool.and_eq_true, Option.isNone_iff_eq_none, Bool.not_eq_true'] at hp
    refine Or.inr ⟨v0, lookup_insert_self _ _ _, hmv, hp.1.1, ?_, hp.2⟩
    rw [hp.1.2]; rfl
  · refine Or.inl ?_
    rw [lookup_insert_ne k k0 v0 (Ne.symm hk), lookup_stripO k hd, hl]; rfl

/-! ## the payload -/

theorem insert_ne_nil (k : String) (v : JVal) (l : List (String × JVal)) : (JVal.insert k v l).isEmpty = false := by
  cases l with
  | nil => rfl
  | cons kv rest => obtain ⟨k', v'⟩ := kv; by_cases h : k' = k <;> simp [JVal.insert, h]

theorem lookup_ne_nil {k : String} {v : JVal} {l : List (String × JVal)} (h : lookup k l = some v) :
    l.isEmpty = false := by
  cases l with
  | nil => simp [lookup] at h
  | cons _ _ => rfl

/-- the shape every payload has: `metadata.annotations[last-applied] = text` written over some maps -/
def annotated (s : String) (kvs0 mkvs0 akvs0 : List (String × JVal)) : JVal :=
  .obj (JVal.insert "metadata" (.obj (JVal.insert "annotations"
    (.obj (JVal.insert lastAppliedAnnotation (.str s) akvs0)) mkvs0)) kvs0)

theorem extract_after_patch (c : Codec) (s : String) (hs : s ≠ "") (kvs0 mkvs0 akvs0 : List (String × JVal))
    (h0 : keysNoDup kvs0 = true) (h1 : keysNoDup mkvs0 = true) (h2 : keysNoDup akvs0 = true) (live : JVal) :
    extractLastApplied c (mergePatch live (annotated s kvs0 mkvs0 akvs0)) = c.loads s := by
  unfold annotated
  rw [mergePatch_obj]
  have e1 := lookup_mergePatchO "metadata" _ (by intro e; cases e) _ (laObjKvs live)
    (keysNoDup_insert _ _ _ h0) (lookup_insert_self "metadata"
      (.obj (JVal.insert "annotations" (.obj (JVal.insert lastAppliedAnnotation (.str s) akvs0)) mkvs0)) kvs0)
  rw [mergePatch_obj] at e1
  have e2 := lookup_mergePatchO "annotations" _ (by intro e; cases e) _
    (laObjKvs ((lookup "metadata" (laObjKvs live)).getD .null))
    (keysNoDup_insert _ _ _ h1) (lookup_insert_self "annotations"
      (.obj (JVal.insert lastAppliedAnnotation (.str s) akvs0)) mkvs0)
  rw [mergePatch_obj] at e2
  have e3 := lookup_mergePatchO lastAppliedAnnotation (.str s) (by intro e; cases e) _
    (laObjKvs ((lookup "annotations" (laObjKvs ((lookup "metadata" (laObjKvs live)).getD .null))).getD .null))
    (keysNoDup_insert _ _ _ h2) (lookup_insert_self lastAppliedAnnotation (.str s) akvs0)
  rw [mergePatch_nonobj _ (.str s) rfl] at e3
  have hne : (s != "") = true := by simpa using hs
  simp only [extractLastApplied, e1, truthy, lookup_ne_nil e2, Bool.not_false, Bool.not_true, Bool.false_eq_true,
    ↓reduceIte, e2, lookup_ne_nil e3, e3, hne]

theorem annotated_nodup (s : String) (kvs0 mkvs0 akvs0 : List (String × JVal))
    (h0 : noDupB (.obj kvs0) = true) (h1 : noDupB (.obj mkvs0) = true) (h2 : noDupB (.obj akvs0) = true) :
    noDupB (annotated s kvs0 mkvs0 akvs0) = true := by
  rw [noDupB.eq_2, Bool.and_eq_true] at h0 h1 h2
  have a2 : noDupB (.obj (JVal.insert lastAppliedAnnotation (.str s) akvs0)) = true := by
    rw [noDupB.eq_2, Bool.and_eq_true]
    exact ⟨keysNoDup_insert _ _ _ h2.1, noDupO_insert _ _ rfl _ h2.2⟩
  have a1 : noDupB (.obj (JVal.insert "annotations" (.obj (JVal.insert lastAppliedAnnotation (.str s) akvs0)) mkvs0)) = true := by
    rw [noDupB.eq_2, Bool.and_eq_true]
    exact ⟨keysNoDup_insert _ _ _ h1.1, noDupO_insert _ _ a2 _ h1.2⟩
  unfold annotated
  rw [noDupB.eq_2, Bool.and_eq_true]
  exact ⟨keysNoDup_insert _ _ _ h0.1, noDupO_insert _ _ a1 _ h0.2⟩

/-- what the theorems need to know about the body of the PATCH / POST -/
structure PayloadFacts (c : Codec) (t body : JVal) : Prop where
  meets : meetsB .full t body (strip t) = true
  nodup : noDupB body = true
  la : ∀ live, c.reads (strip t) → extractLastApplied c (mergePatch live body) = some (strip t)

theorem nodup_sub {tkvs : List (String × JVal)} {k : String} {v : JVal} (hn : noDupB (.obj tkvs) = true)
    (hl : lookup k tkvs = some v) : noDupB v = true := by
  rw [noDupB.eq_2, Bool.and_eq_true] at hn
  exact noDupO_mem tkvs k v hn.2 (lookup_mem _ _ _ hl)

theorem wf_sub {tkvs : List (String × JVal)} {k : String} {v : JVal} (hw : wfB (.obj tkvs) = true)
    (hl : lookup k tkvs = some v) : wfB v = true := by
  rw [wfB.eq_1, Bool.and_eq_true] at hw
  exact wfO_mem _ tkvs k v hw.2 (lookup_mem _ _ _ hl)

theorem lookup_stripO_some {k : String} {kvs : List (String × JVal)} {v : JVal} (hk : isDirective k = false)
    (h : lookup k kvs = some v) : lookup k (stripO kvs) = some (strip v) := by
  rw [lookup_stripO k hk, h]; rfl

theorem nodup_nil : noDupB (.obj []) = true := rfl

/-- the body of the PATCH / POST built from a well-formed target -/
theorem payload_facts (c : Codec) (t : JVal) (hw : wfB t = true) (hn : noDupB t = true)
    (ha : annFree t = true) : ∃ body, prepareForApi c t = some body ∧ PayloadFacts c t body := by
  match t, ha with
  | .obj tkvs, ha =>
    have hsn := noDup_strip _ hn
    rw [strip.eq_1] at hsn
    simp only [annFree] at ha
    -- the two maps the annotation is written into, with what is known about them
    have key : ∃ mkvs0 akvs0,
        prepareForApi c (.obj tkvs) = some (annotated (c.dumps (.obj (stripO tkvs))) (stripO tkvs) mkvs0 akvs0) ∧
        noDupB (.obj mkvs0) = true ∧ noDupB (.obj akvs0) = true ∧
        (∀ tv, lookup "metadata" tkvs = some tv → plainKey tkvs "metadata" = true ∧
          meetsB .full tv (.obj (JVal.insert "annotations" (.obj (JVal.insert lastAppliedAnnotation
            (.str (c.dumps (.obj (stripO tkvs)))) akvs0)) mkvs0)) (strip tv) = true) := by
      cases hmd : lookup "metadata" tkvs with
      | none =>
        refine ⟨[], [], ?_, rfl, rfl, fun tv h => by cases h⟩
        simp [prepareForApi, strip, setAnnotation, lookup_stripO_none _ _ hmd, lookup, annotated]
      | some md =>
        rw [hmd] at ha
        match md, ha, hmd with
        | .obj tm, ha, hmd =>
          rw [Bool.and_eq_true] at ha
          have hwm := wf_sub hw hmd
          have hnm := nodup_sub hn hmd
          have hsm := noDup_strip _ hnm
          rw [strip.eq_1] at hsm
          have hmds := lookup_stripO_some (k := "metadata") (by decide) hmd
          rw [strip.eq_1] at hmds
          cases han : lookup "annotations" tm with
          | none =>
            refine ⟨stripO tm, [], ?_, hsm, rfl, ?_⟩
            · simp [prepareForApi, strip, setAnnotation, hmds, lookup_stripO_none _ _ han, lookup, annotated]
            · intro tv h; cases h
              exact ⟨ha.1, meets_obj_with tm hwm hnm _ _ (fun tv hl => by rw [han] at hl; cases hl)⟩
          | some an =>
            have ha2 := ha.2
            rw [han] at ha2
            match an, ha2, han with
            | .obj ta, ha2, han =>
              rw [Bool.and_eq_true, Option.isNone_iff_eq_none] at ha2
              have hwa := wf_sub hwm han
              have hna := nodup_sub hnm han
              have hsa := noDup_strip _ hna
              rw [strip.eq_1] at hsa
              have hans := lookup_stripO_some (k := "annotations") (by decide) han
              rw [strip.eq_1] at hans
              refine ⟨stripO tm, stripO ta, ?_, hsm, hsa, ?_⟩
              · simp [prepareForApi, strip, setAnnotation, hmds, hans, annotated]
              · intro tv h; cases h
                refine ⟨ha.1, meets_obj_with tm hwm hnm _ _ (fun tv hl => ?_)⟩
                rw [han] at hl; cases hl
                exact ⟨ha2.1, meets_obj_with ta hwa hna _ _ (fun tv hl => by rw [ha2.2] at hl; cases hl)⟩
    obtain ⟨mkvs0, akvs0, hprep, hm0, ha0, hmeet⟩ := key
    refine ⟨_, hprep, ?_, ?_, ?_⟩
    · exact meets_obj_with tkvs hw hn _ _ hmeet
    · exact annotated_nodup _ _ _ _ hsn hm0 ha0
    · intro live hr
      rw [strip.eq_1] at hr ⊢
      rw [noDupB.eq_2, Bool.and_eq_true] at hsn hm0 ha0
      rw [extract_after_patch c _ hr.1 _ _ _ hsn.1 hm0.1 ha0.1 live]
      exact hr.2

theorem noNullsO_lookup : ∀ (kvs : List (String × JVal)) (k : String) (v : JVal),
    noNullsO kvs = true → lookup k kvs = some v → noNullsB v = true := by
  intro kvs
  induction kvs with
  | nil => intro k v _ h; simp [lookup] at h
  | cons kv rest ih =>
    intro k v hn h
    obtain ⟨k', v'⟩ := kv
    rw [noNullsO.eq_2, Bool.and_eq_true] at hn
    by_cases hk : k' = k
    · have : v' = v := by simpa [lookup, hk] using h
      subst this; exact hn.1
    · exact ih k v hn.2 (by simpa [lookup, hk] using h)

end Koreo.R45
