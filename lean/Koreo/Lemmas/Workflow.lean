/-
  Helper lemmas for C01 / C02 over `Koreo/Workflow.lean` (core Lean only).

  1. association-list lookups
  2. one step: what `gate` / `runLogic` / `stepResult` can do
  3. the sequential run: every result is `stepResult` on the *final* results (a fixpoint
     characterisation), and the calls are exactly the steps' calls in listed order
-/
import Koreo.Workflow

namespace Koreo.Workflow
open Koreo Koreo.Result

/-! ## 1. lookups -/

section lookup
variable {α : Type}

theorem lookupL_append_left {l : Label} {xs ys : List (Label × α)} {v : α}
    (h : lookupL l xs = some v) : lookupL l (xs ++ ys) = some v := by
  induction xs with
  | nil => simp [lookupL] at h
  | cons x xs ih =>
    obtain ⟨k, w⟩ := x
    simp only [List.cons_append, lookupL] at h ⊢
    split <;> simp_all

theorem lookupL_append_right {l : Label} {xs ys : List (Label × α)}
    (h : l ∉ xs.map (·.1)) : lookupL l (xs ++ ys) = lookupL l ys := by
  induction xs with
  | nil => rfl
  | cons x xs ih =>
    obtain ⟨k, w⟩ := x
    simp only [List.map_cons, List.mem_cons, not_or] at h
    simp only [List.cons_append, lookupL]
    rw [if_neg (fun e => h.1 e.symm)]
    exact ih h.2

theorem lookupL_isSome_of_mem {l : Label} {xs : List (Label × α)} (h : l ∈ xs.map (·.1)) :
    ∃ v, lookupL l xs = some v := by
  induction xs with
  | nil => simp at h
  | cons x xs ih =>
    obtain ⟨k, w⟩ := x
    simp only [lookupL]
    by_cases e : k = l
    · exact ⟨w, by simp [e]⟩
    · simp only [List.map_cons, List.mem_cons] at h
      rcases h with h | h
      · exact absurd h.symm e
      · simpa [e] using ih h

theorem lookupL_mem {l : Label} {xs : List (Label × α)} {v : α} (h : lookupL l xs = some v) :
    (l, v) ∈ xs := by
  induction xs with
  | nil => simp [lookupL] at h
  | cons x xs ih =>
    obtain ⟨k, w⟩ := x
    simp only [lookupL] at h
    split at h
    · next e => cases h; simp [e]
    · exact List.mem_cons_of_mem _ (ih h)

theorem lookupL_key_mem {l : Label} {xs : List (Label × α)} {v : α} (h : lookupL l xs = some v) :
    l ∈ xs.map (·.1) :=
  List.mem_map.2 ⟨(l, v), lookupL_mem h, rfl⟩

theorem lookupL_none_of_not_mem {l : Label} {xs : List (Label × α)} (h : l ∉ xs.map (·.1)) :
    lookupL l xs = none := by
  cases e : lookupL l xs with
  | none => rfl
  | some v => exact absurd (lookupL_key_mem e) h

theorem lookupL_singleton (l : Label) (v : α) : lookupL l [(l, v)] = some v := by
  simp [lookupL]

end lookup

/-! ## 2. one step -/

theorem okVals_none_iff (dr : List (Label × StepRes)) :
    okVals dr = none ↔ ∃ x ∈ dr, x.2.isOk = false := by
  induction dr with
  | nil => simp [okVals]
  | cons x xs ih =>
    obtain ⟨l, r⟩ := x
    cases r <;> simp [okVals, StepRes.isOk, ih]

theorem okVals_some_all (dr : List (Label × StepRes)) {oks} (h : okVals dr = some oks) :
    ∀ x ∈ dr, ∃ v, x.2 = .ok v := by
  intro x hx
  cases hr : x.2 with
  | ok v => exact ⟨v, rfl⟩
  | _ =>
    exfalso
    have : okVals dr = none := (okVals_none_iff dr).2 ⟨x, hx, by simp [hr, StepRes.isOk]⟩
    simp [this] at h

/-- the Ok values are exactly the dependencies' values, in `deps` order -/
theorem okVals_some_eq (dr : List (Label × StepRes)) {oks} (h : okVals dr = some oks) :
    dr = oks.map fun kv => (kv.1, StepRes.ok kv.2) := by
  induction dr generalizing oks with
  | nil => simp [okVals] at h; subst h; rfl
  | cons x xs ih =>
    obtain ⟨l, r⟩ := x
    cases r with
    | ok v =>
      simp only [okVals, Option.map_eq_some_iff] at h
      obtain ⟨rest, hrest, rfl⟩ := h
      simp [ih hrest]
    | _ => simp [okVals] at h

/-- what it takes for the gate to let the Logic run once -/
theorem gate_single {eval : EvalFn} {trig : JVal} {dr : List (Label × StepRes)} {s : Step} {act inputs}
    (h : gate eval trig dr s = .single act inputs) :
    ∃ oks, okVals dr = some oks ∧ act = activation trig s.deps oks ∧
      evalInputs eval s act = some inputs ∧ skipDecision eval s act = .go ∧ s.forEach = none := by
  unfold gate at h
  split at h
  · cases h
  · next oks hoks =>
    simp only at h
    split at h
    · cases h
    · next inp hinp =>
      split at h
      · cases h
      · cases h
      · next hgo =>
        split at h
        · next hfe =>
          cases h
          exact ⟨oks, hoks, rfl, hinp, hgo, hfe⟩
        · split at h <;> cases h

/-- what it takes for the gate to let the Logic run per item -/
theorem gate_each {eval : EvalFn} {trig : JVal} {dr : List (Label × StepRes)} {s : Step}
    {act inputs key items} (h : gate eval trig dr s = .each act inputs key items) :
    ∃ oks fe, okVals dr = some oks ∧ act = activation trig s.deps oks ∧
      evalInputs eval s act = some inputs ∧ skipDecision eval s act = .go ∧ s.forEach = some fe ∧
      key = fe.inputKey ∧ eval fe.itemIn (.obj act) = some (.arr items) ∧ items ≠ [] := by
  unfold gate at h
  split at h
  · cases h
  · next oks hoks =>
    simp only at h
    split at h
    · cases h
    · next inp hinp =>
      split at h
      · cases h
      · cases h
      · next hgo =>
        split at h
        · cases h
        · next fe hfe =>
          cases hev : eval fe.itemIn (.obj (activation trig s.deps oks)) with
          | none => simp [hev] at h
          | some v =>
            cases v with
            | arr its =>
              cases its with
              | nil => simp [hev] at h
              | cons it rest =>
                simp only [hev] at h
                cases h
                exact ⟨oks, fe, hoks, rfl, hinp, hgo, hfe, rfl, hev, by simp⟩
            | _ => simp [hev] at h

theorem gate_of_nonok {eval : EvalFn} {trig : JVal} {dr : List (Label × StepRes)} {s : Step}
    (h : okVals dr = none) : gate eval trig dr s = .done ⟨.depSkip, .null⟩ := by
  unfold gate; simp [h]

theorem gate_of_skip {eval : EvalFn} {trig : JVal} {dr : List (Label × StepRes)} {s : Step} {oks inputs}
    (h : okVals dr = some oks) (hi : evalInputs eval s (activation trig s.deps oks) = some inputs)
    (hs : skipDecision eval s (activation trig s.deps oks) = .skip) :
    gate eval trig dr s = .done ⟨.skip, .null⟩ := by
  unfold gate; simp [h, hi, hs]

theorem gate_of_skip_fail {eval : EvalFn} {trig : JVal} {dr : List (Label × StepRes)} {s : Step} {oks inputs}
    (h : okVals dr = some oks) (hi : evalInputs eval s (activation trig s.deps oks) = some inputs)
    (hs : skipDecision eval s (activation trig s.deps oks) = .fail) :
    gate eval trig dr s = .done ⟨.permFail, .null⟩ := by
  unfold gate; simp [h, hi, hs]

/-- a switch evaluates at most the selected case -/
theorem runLogic_switch_calls (eval : EvalFn) (run : RunFn) (lbl idx act inputs on cases dflt) :
    (runLogic eval run lbl idx act inputs (.switch on cases dflt)).2 =
      match select eval on cases dflt act inputs with
      | .hit t => [⟨lbl, idx, t, inputs, (run t inputs).api⟩]
      | _ => [] := by
  cases h : select eval on cases dflt act inputs <;> simp [runLogic, h, runTarget]

theorem runLogic_switch_res (eval : EvalFn) (run : RunFn) (lbl idx act inputs on cases dflt) :
    (runLogic eval run lbl idx act inputs (.switch on cases dflt)).1 =
      match select eval on cases dflt act inputs with
      | .hit t => ⟨(run t inputs).res, (run t inputs).rid⟩
      | _ => ⟨.permFail, .null⟩ := by
  cases h : select eval on cases dflt act inputs <;> simp [runLogic, h, runTarget]

/-- every call made by one evaluation of a Logic names the step, the position and the inputs -/
theorem runLogic_calls (eval : EvalFn) (run : RunFn) (lbl idx act inputs logic) :
    ∀ c ∈ (runLogic eval run lbl idx act inputs logic).2,
      c.step = lbl ∧ c.idx = idx ∧ c.inputs = inputs ∧ c.api = (run c.target inputs).api := by
  intro c hc
  cases logic with
  | ref t => simp [runLogic, runTarget] at hc; subst hc; simp
  | switch on cases dflt =>
    rw [runLogic_switch_calls] at hc
    split at hc
    · simp at hc; subst hc; simp
    · simp at hc

/-- one evaluation of a Logic calls at most one Function -/
theorem runLogic_calls_length (eval : EvalFn) (run : RunFn) (lbl idx act inputs logic) :
    (runLogic eval run lbl idx act inputs logic).2.length ≤ 1 := by
  cases logic with
  | ref t => simp [runLogic, runTarget]
  | switch on cases dflt =>
    rw [runLogic_switch_calls]
    split <;> simp

theorem runItems_length (eval : EvalFn) (run : RunFn) (lbl act inputs key logic) (i : Nat) (items : List JVal) :
    (runItems eval run lbl act inputs key logic i items).length = items.length := by
  induction items generalizing i with
  | nil => rfl
  | cons it rest ih => simp [runItems, ih]

/-- source order: the j-th entry is the evaluation on the j-th item -/
theorem runItems_getElem? (eval : EvalFn) (run : RunFn) (lbl act inputs key logic) (i : Nat)
    (items : List JVal) (j : Nat) :
    (runItems eval run lbl act inputs key logic i items)[j]? =
      (items[j]?).map fun it => runLogic eval run lbl (some (i + j)) act (setKey key it inputs) logic := by
  induction items generalizing i j with
  | nil => simp [runItems]
  | cons it rest ih =>
    cases j with
    | zero => simp [runItems]
    | succ j =>
      simp only [runItems, List.getElem?_cons_succ]
      rw [ih]
      congr 2; funext it; congr 2; omega

theorem runItems_calls (eval : EvalFn) (run : RunFn) (lbl act inputs key logic) (i : Nat) (items : List JVal) :
    ∀ c ∈ (runItems eval run lbl act inputs key logic i items).flatMap (·.2),
      c.step = lbl ∧ ∃ j it, c.idx = some (i + j) ∧ items[j]? = some it ∧ c.inputs = setKey key it inputs ∧
        c ∈ (runLogic eval run lbl (some (i + j)) act (setKey key it inputs) logic).2 := by
  induction items generalizing i with
  | nil => simp [runItems]
  | cons it rest ih =>
    intro c hc
    simp only [runItems, List.flatMap_cons, List.mem_append] at hc
    rcases hc with hc | hc
    · have := runLogic_calls eval run lbl (some i) act (setKey key it inputs) logic c hc
      exact ⟨this.1, 0, it, by simpa using this.2.1, by simp, this.2.2.1, by simpa using hc⟩
    · obtain ⟨h1, j, it', h2, h3, h4, h5⟩ := ih (i + 1) c hc
      refine ⟨h1, j + 1, it', ?_, by simpa using h3, h4, ?_⟩
      · rw [h2]; congr 1; omega
      · have e : i + (j + 1) = i + 1 + j := by omega
        rw [e]; exact h5

/-- every call on behalf of a step names it and carries exactly the inputs the gate prepared -/
theorem stepResult_calls (eval : EvalFn) (run : RunFn) (trig : JVal) (dr : List (Label × StepRes)) (s : Step) :
    ∀ c ∈ (stepResult eval run trig dr s).2,
      c.step = s.label ∧ (gate eval trig dr s).inputsAt c.idx = some c.inputs ∧
      c.api = (run c.target c.inputs).api := by
  intro c hc
  unfold stepResult at hc
  split at hc
  · simp at hc
  · next act inputs hg =>
    have := runLogic_calls eval run s.label none act inputs s.logic c hc
    refine ⟨this.1, ?_, ?_⟩
    · rw [hg, this.2.1, this.2.2.1]; rfl
    · rw [this.2.2.2, this.2.2.1]
  · next act inputs key items hg =>
    simp only at hc
    obtain ⟨h1, j, it, h2, h3, h4, h5⟩ := runItems_calls eval run s.label act inputs key s.logic 0 items c hc
    refine ⟨h1, ?_, ?_⟩
    · rw [hg, h2]; simp [Gate.inputsAt, h3, h4]
    · have := runLogic_calls eval run s.label (some (0 + j)) act (setKey key it inputs) s.logic c h5
      rw [this.2.2.2, this.2.2.1]

theorem stepResult_done {eval : EvalFn} {run : RunFn} {trig : JVal} {dr : List (Label × StepRes)} {s : Step} {o}
    (h : gate eval trig dr s = .done o) : stepResult eval run trig dr s = (o, []) := by
  unfold stepResult; rw [h]

/-! ## 3. the sequential run -/

theorem runSteps_results_prefix (eval : EvalFn) (run : RunFn) (trig : JVal) (steps : List Step) (t : Trace) :
    ∃ xs, (runSteps eval run trig steps t).results = t.results ++ xs ∧ xs.map (·.1) = labels steps := by
  induction steps generalizing t with
  | nil => exact ⟨[], by simp [runSteps], rfl⟩
  | cons s rest ih =>
    obtain ⟨xs, h1, h2⟩ := ih ⟨t.results ++ [(s.label, (stepResult eval run trig (depRes t.results s.deps) s).1)],
      t.calls ++ (stepResult eval run trig (depRes t.results s.deps) s).2⟩
    refine ⟨(s.label, (stepResult eval run trig (depRes t.results s.deps) s).1) :: xs, ?_, ?_⟩
    · simp only [runSteps]; rw [h1]; simp
    · simp [labels, h2]

theorem runSteps_labels (eval : EvalFn) (run : RunFn) (trig : JVal) (steps : List Step) (t : Trace) :
    (runSteps eval run trig steps t).results.map (·.1) = t.results.map (·.1) ++ labels steps := by
  obtain ⟨xs, h1, h2⟩ := runSteps_results_prefix eval run trig steps t
  rw [h1, List.map_append, h2]

theorem depRes_congr {env env' : List (Label × StepOut)} {deps : List Label}
    (h : ∀ d ∈ deps, lookupL d env = lookupL d env') : depRes env deps = depRes env' deps := by
  unfold depRes
  apply List.map_congr_left
  intro d hd
  rw [h d hd]

theorem wfSteps_cons {seen : List Label} {s : Step} {rest : List Step} (h : wfSteps seen (s :: rest) = true) :
    (∀ d ∈ s.deps, d ∈ seen) ∧ s.label ∉ seen ∧ wfSteps (seen ++ [s.label]) rest = true := by
  simp only [wfSteps, Bool.and_eq_true, List.all_eq_true, Bool.not_eq_true', List.contains_eq_mem,
    decide_eq_true_eq, decide_eq_false_iff_not] at h
  exact ⟨h.1.1, h.1.2, h.2⟩

/-- **fixpoint characterisation**: in a well-formed run every step's result is `stepResult` applied to
    the dependencies' entries of the *final* result list -/
theorem runSteps_fixpoint (eval : EvalFn) (run : RunFn) (trig : JVal) (steps : List Step) (t : Trace)
    (hwf : wfSteps (t.results.map (·.1)) steps = true) :
    ∀ s ∈ steps,
      lookupL s.label (runSteps eval run trig steps t).results =
        some (stepResult eval run trig (depRes (runSteps eval run trig steps t).results s.deps) s).1 := by
  induction steps generalizing t with
  | nil => intro s hs; simp at hs
  | cons s0 rest ih =>
    obtain ⟨hdeps, hfresh, hrest⟩ := wfSteps_cons hwf
    let r := stepResult eval run trig (depRes t.results s0.deps) s0
    let t' : Trace := ⟨t.results ++ [(s0.label, r.1)], t.calls ++ r.2⟩
    have hrun : runSteps eval run trig (s0 :: rest) t = runSteps eval run trig rest t' := rfl
    have hwf' : wfSteps (t'.results.map (·.1)) rest = true := by
      simpa [t'] using hrest
    obtain ⟨xs, hx, -⟩ := runSteps_results_prefix eval run trig rest t'
    intro s hs
    rw [hrun]
    rcases List.mem_cons.1 hs with rfl | hs
    · -- the head: its dependencies are all in `t.results`, a prefix of the final list
      have hdr : depRes (runSteps eval run trig rest t').results s.deps = depRes t.results s.deps := by
        apply depRes_congr
        intro d hd
        obtain ⟨v, hv⟩ := lookupL_isSome_of_mem (hdeps d hd)
        rw [hx, hv]
        exact lookupL_append_left (lookupL_append_left hv)
      rw [hdr, hx]
      show lookupL s.label ((t.results ++ [(s.label, r.1)]) ++ xs) = some r.1
      apply lookupL_append_left
      rw [lookupL_append_right hfresh]
      exact lookupL_singleton _ _
    · exact ih t' hwf' s hs

/-- the calls of a well-formed run are the steps' calls (on the final results), in listed order -/
theorem runSteps_calls (eval : EvalFn) (run : RunFn) (trig : JVal) (steps : List Step) (t : Trace)
    (hwf : wfSteps (t.results.map (·.1)) steps = true) :
    (runSteps eval run trig steps t).calls =
      t.calls ++ steps.flatMap fun s =>
        (stepResult eval run trig (depRes (runSteps eval run trig steps t).results s.deps) s).2 := by
  induction steps generalizing t with
  | nil => simp [runSteps]
  | cons s0 rest ih =>
    obtain ⟨hdeps, hfresh, hrest⟩ := wfSteps_cons hwf
    let r := stepResult eval run trig (depRes t.results s0.deps) s0
    let t' : Trace := ⟨t.results ++ [(s0.label, r.1)], t.calls ++ r.2⟩
    have hrun : runSteps eval run trig (s0 :: rest) t = runSteps eval run trig rest t' := rfl
    have hwf' : wfSteps (t'.results.map (·.1)) rest = true := by
      simpa [t'] using hrest
    obtain ⟨xs, hx, -⟩ := runSteps_results_prefix eval run trig rest t'
    have hdr : depRes (runSteps eval run trig rest t').results s0.deps = depRes t.results s0.deps := by
      apply depRes_congr
      intro d hd
      obtain ⟨v, hv⟩ := lookupL_isSome_of_mem (hdeps d hd)
      rw [hx, hv]
      exact lookupL_append_left (lookupL_append_left hv)
    rw [hrun, ih t' hwf', List.flatMap_cons, hdr]
    simp [t', r, List.append_assoc]

theorem wfSteps_labels_nodup {seen : List Label} {steps : List Step} (h : wfSteps seen steps = true) :
    (labels steps).Nodup ∧ ∀ l ∈ labels steps, l ∉ seen := by
  induction steps generalizing seen with
  | nil => simp [labels]
  | cons s rest ih =>
    obtain ⟨-, hfresh, hrest⟩ := wfSteps_cons h
    obtain ⟨hnd, hdis⟩ := ih hrest
    constructor
    · simp only [labels, List.map_cons, List.nodup_cons]
      refine ⟨?_, hnd⟩
      intro hm
      exact hdis _ hm (by simp)
    · intro l hl
      simp only [labels, List.map_cons, List.mem_cons] at hl
      rcases hl with rfl | hl
      · exact hfresh
      · intro hs; exact hdis l hl (by simp [hs])

theorem wfSteps_deps {seen : List Label} {steps : List Step} (h : wfSteps seen steps = true) :
    ∀ s ∈ steps, ∀ d ∈ s.deps, d ∈ seen ∨ d ∈ labels steps := by
  induction steps generalizing seen with
  | nil => intro s hs; simp at hs
  | cons s0 rest ih =>
    obtain ⟨hdeps, -, hrest⟩ := wfSteps_cons h
    intro s hs d hd
    rcases List.mem_cons.1 hs with rfl | hs
    · exact Or.inl (hdeps d hd)
    · rcases ih hrest s hs d hd with h' | h'
      · rcases List.mem_append.1 h' with h'' | h''
        · exact Or.inl h''
        · simp at h''; subst h''; right; simp [labels]
      · right; simp only [labels, List.map_cons, List.mem_cons]; exact Or.inr h'

theorem step_unique {steps : List Step} (hnd : (labels steps).Nodup) {s s' : Step}
    (hs : s ∈ steps) (hs' : s' ∈ steps) (h : s.label = s'.label) : s = s' := by
  induction steps with
  | nil => simp at hs
  | cons s0 rest ih =>
    simp only [labels, List.map_cons, List.nodup_cons] at hnd
    rcases List.mem_cons.1 hs with e | hr
    · rcases List.mem_cons.1 hs' with e' | hr'
      · rw [e, e']
      · subst e
        exact absurd (List.mem_map.2 ⟨s', hr', h.symm⟩) hnd.1
    · rcases List.mem_cons.1 hs' with e' | hr'
      · subst e'
        exact absurd (List.mem_map.2 ⟨s, hr, h⟩) hnd.1
      · exact ih hnd.2 hr hr'

/-- picking one step's calls out of the listed-order concatenation -/
theorem flatMap_filter_step {steps : List Step} (f : Step → List Call)
    (hf : ∀ s ∈ steps, ∀ c ∈ f s, c.step = s.label) (hnd : (labels steps).Nodup)
    {s : Step} (hs : s ∈ steps) :
    (steps.flatMap f).filter (fun c => decide (c.step = s.label)) = f s := by
  induction steps with
  | nil => simp at hs
  | cons s0 rest ih =>
    simp only [labels, List.map_cons, List.nodup_cons] at hnd
    have hrest : ∀ s' ∈ rest, ∀ c ∈ f s', c.step = s'.label := fun s' h' => hf s' (List.mem_cons_of_mem _ h')
    rw [List.flatMap_cons, List.filter_append]
    rcases List.mem_cons.1 hs with rfl | hs
    · have h1 : (f s).filter (fun c => decide (c.step = s.label)) = f s := by
        apply List.filter_eq_self.2
        intro c hc; simpa using hf s (by simp) c hc
      have h2 : (rest.flatMap f).filter (fun c => decide (c.step = s.label)) = [] := by
        apply List.filter_eq_nil_iff.2
        intro c hc
        obtain ⟨s', hs', hc'⟩ := List.mem_flatMap.1 hc
        have := hrest s' hs' c hc'
        simp only [decide_eq_true_eq]
        intro e
        exact hnd.1 (List.mem_map.2 ⟨s', hs', by rw [← this, e]⟩)
      rw [h1, h2, List.append_nil]
    · have h1 : (f s0).filter (fun c => decide (c.step = s.label)) = [] := by
        apply List.filter_eq_nil_iff.2
        intro c hc
        have := hf s0 (by simp) c hc
        simp only [decide_eq_true_eq]
        intro e
        exact hnd.1 (List.mem_map.2 ⟨s, hs, by rw [← e, this]⟩)
      rw [h1, List.nil_append]
      exact ih hrest hnd.2 hs

/-! ### the two facts everything in C01 rests on -/

/-- (F1) a step's entry in the final results is `stepResult` on the final results -/
theorem trace_result (eval : EvalFn) (run : RunFn) (trig : JVal) (wf : Workflow) (hwf : wf.WF = true)
    {s : Step} (hs : s ∈ wf.steps) :
    lookupL s.label (trace eval run trig wf).results =
      some (stepResult eval run trig (depRes (trace eval run trig wf).results s.deps) s).1 :=
  runSteps_fixpoint eval run trig wf.steps {} (by simpa [Workflow.WF] using hwf) s hs

/-- (F2) the calls made on a step's behalf are `stepResult`'s calls on the final results -/
theorem trace_calls (eval : EvalFn) (run : RunFn) (trig : JVal) (wf : Workflow) (hwf : wf.WF = true)
    {s : Step} (hs : s ∈ wf.steps) :
    (trace eval run trig wf).calls.filter (fun c => decide (c.step = s.label)) =
      (stepResult eval run trig (depRes (trace eval run trig wf).results s.deps) s).2 := by
  have hw : wfSteps (({} : Trace).results.map (·.1)) wf.steps = true := by simpa [Workflow.WF] using hwf
  have hc := runSteps_calls eval run trig wf.steps {} hw
  have hnd := (wfSteps_labels_nodup hw).1
  unfold trace
  rw [hc]
  simp only [List.nil_append]
  exact flatMap_filter_step _ (fun s' _ c hc' => (stepResult_calls eval run trig _ s' c hc').1) hnd hs

theorem trace_labels (eval : EvalFn) (run : RunFn) (trig : JVal) (wf : Workflow) :
    (trace eval run trig wf).results.map (·.1) = labels wf.steps := by
  simpa [trace] using runSteps_labels eval run trig wf.steps {}

/-- a dependency's result as the step sees it -/
theorem depRes_mem {env : List (Label × StepOut)} {deps : List Label} {d : Label} (hd : d ∈ deps) :
    (d, match lookupL d env with | some o => o.res | none => StepRes.depSkip) ∈ depRes env deps :=
  List.mem_map.2 ⟨d, hd, rfl⟩

end Koreo.Workflow
