/-
  C19 — specification of "equal modulo compare directives" (`EqMod`) and the helper lemmas that
  relate the runner's exact comparator (`Koreo/ExactCompare.lean`) to it.
  Property theorems are in `Props/C19.lean`.
-/
import Koreo.ExactCompare
namespace Koreo.Exact
open Koreo JVal

/-! ## Specification -/

/-- set-directed lists: both hold scalars only and are equal as sets under typed JSON equality -/
def SetEq (ts as : List JVal) : Prop :=
  (∀ x ∈ ts, isScalar x = true) ∧ (∀ y ∈ as, isScalar y = true) ∧
  (∀ x ∈ ts, ∃ y ∈ as, scalarEq x y = true) ∧ (∀ y ∈ as, ∃ x ∈ ts, scalarEq x y = true)

/-- `EqMod t a`: the actual value `a` equals the expected value `t` modulo the compare directives
    written in `t`.

    * scalars: typed JSON equality (numbers by value, bool ≠ number);
    * lists: same length, equal position by position;
    * maps: the same keys (directive keys are not keys — on either side), and under every key the
      values are equal — as sets of scalars if the key is set-directed and both values are lists,
      as keyed collections if it is map-directed and both are lists of objects (the keyed
      collection of a list maps a member key to the LAST member carrying it), plainly otherwise. -/
inductive EqMod : JVal → JVal → Prop
  | scalar {t a : JVal} : isScalar t = true → scalarEq t a = true → EqMod t a
  | arr {ts as : List JVal} :
      ts.length = as.length →
      (∀ (i : Nat) (t a : JVal), ts[i]? = some t → as[i]? = some a → EqMod t a) →
      EqMod (.arr ts) (.arr as)
  | obj {t a : List (String × JVal)} :
      (∀ k, isDirective k = false → ((lookup k t).isSome ↔ (lookup k a).isSome)) →
      (∀ k v w, isDirective k = false → lookup k t = some v → lookup k a = some w →
        modeOf (setKeysOf t) (mapKeysOf t) k v w = .plain → EqMod v w) →
      (∀ k v w, isDirective k = false → lookup k t = some v → lookup k a = some w →
        ∀ ts as, modeOf (setKeysOf t) (mapKeysOf t) k v w = .set ts as → SetEq ts as) →
      (∀ k v w, isDirective k = false → lookup k t = some v → lookup k a = some w →
        ∀ fs ts as, modeOf (setKeysOf t) (mapKeysOf t) k v w = .keyed fs ts as →
          ∀ κ, isDirective κ = false → ((lastWith fs κ ts).isSome ↔ (lastWith fs κ as).isSome)) →
      (∀ k v w, isDirective k = false → lookup k t = some v → lookup k a = some w →
        ∀ fs ts as, modeOf (setKeysOf t) (mapKeysOf t) k v w = .keyed fs ts as →
          ∀ κ x y, isDirective κ = false → lastWith fs κ ts = some x → lastWith fs κ as = some y →
            EqMod x y) →
      EqMod (.obj t) (.obj a)

/-! ## Well-formed expectations -/

def nodupKeys : List (String × JVal) → Bool
  | [] => true
  | (k, _) :: rest => (lookup k rest).isNone && nodupKeys rest

def isStr : JVal → Bool
  | .str _ => true
  | _ => false

/-- the directive entries of a map have the shape the CRDs document: `x-koreo-compare-as-set` a list
    of strings, `x-koreo-compare-as-map` a map from key to a list of field names; and no member of a
    map-directed list is keyed by a directive name -/
def dirShape (kvs : List (String × JVal)) : Bool :=
  (match lookup compareAsSet kvs with
   | none => true
   | some (.arr xs) => xs.all isStr
   | some _ => false) &&
  (match lookup compareAsMap kvs with
   | none => true
   | some (.obj kfs) => kfs.all fun kf => match kf.2 with
     | .arr fs => fs.all isStr
     | _ => false
   | some _ => false) &&
  (mapKeysOf kvs).all fun kf =>
    match lookup kf.1 kvs with
    | some (.arr ts) => ts.all fun t => !isDirective (memberKey kf.2 t)
    | _ => true

mutual
/-- keys unique in every map (what a Python `dict` guarantees) and directive entries well-shaped, at every depth -/
def wf : JVal → Bool
  | .obj kvs => nodupKeys kvs && dirShape kvs && wfO kvs
  | .arr xs => wfL xs
  | _ => true
def wfL : List JVal → Bool
  | [] => true
  | x :: xs => wf x && wfL xs
def wfO : List (String × JVal) → Bool
  | [] => true
  | (_, v) :: rest => wf v && wfO rest
end

def DirectivesWF (t : JVal) : Prop := wf t = true

instance (t : JVal) : Decidable (DirectivesWF t) := by unfold DirectivesWF; infer_instance

/-! ## basic facts -/

theorem wfL_mem : ∀ {xs : List JVal}, wfL xs = true → ∀ x ∈ xs, wf x = true
  | [], _, x, hx => by cases hx
  | y :: ys, h, x, hx => by
    simp only [wfL, Bool.and_eq_true] at h
    rcases List.mem_cons.mp hx with rfl | hx
    · exact h.1
    · exact wfL_mem h.2 x hx

theorem wfO_mem : ∀ {kvs : List (String × JVal)}, wfO kvs = true → ∀ kv ∈ kvs, wf kv.2 = true
  | [], _, x, hx => by cases hx
  | (k, v) :: ys, h, x, hx => by
    simp only [wfO, Bool.and_eq_true] at h
    rcases List.mem_cons.mp hx with rfl | hx
    · exact h.1
    · exact wfO_mem h.2 x hx

theorem lookup_mem : ∀ {kvs : List (String × JVal)} {k : String} {v : JVal},
    lookup k kvs = some v → (k, v) ∈ kvs
  | [], _, _, h => by simp [lookup] at h
  | (k', v') :: rest, k, v, h => by
    simp only [lookup] at h
    split at h
    · rename_i hk; cases h; subst hk; simp
    · exact List.mem_cons_of_mem _ (lookup_mem h)

theorem lookup_isSome_of_mem : ∀ {kvs : List (String × JVal)} {k : String} {v : JVal},
    (k, v) ∈ kvs → (lookup k kvs).isSome = true
  | [], _, _, h => by cases h
  | (k', v') :: rest, k, v, h => by
    simp only [lookup]
    split
    · rfl
    · rename_i hk
      rcases List.mem_cons.mp h with h | h
      · cases h; exact absurd rfl hk
      · exact lookup_isSome_of_mem h

theorem lookup_of_mem_nodup : ∀ {kvs : List (String × JVal)} {k : String} {v : JVal},
    nodupKeys kvs = true → (k, v) ∈ kvs → lookup k kvs = some v
  | [], _, _, _, h => by cases h
  | (k', v') :: rest, k, v, hn, h => by
    simp only [nodupKeys, Bool.and_eq_true] at hn
    simp only [lookup]
    rcases List.mem_cons.mp h with h | h
    · cases h; simp
    · split
      · rename_i hk
        subst hk
        have := lookup_isSome_of_mem h
        have h1 := hn.1
        cases hl : lookup k' rest <;> simp_all
      · exact lookup_of_mem_nodup hn.2 h

/-! ## scalars -/

theorem exactMatch_scalar : ∀ (t a : JVal), isScalar t = true → exactMatch t a = scalarEq t a := by
  intro t a h
  cases t <;> cases a <;> simp_all [isScalar, exactMatch, scalarEq, pyEq, num8?]
  rw [Bool.eq_iff_iff]
  simp only [beq_iff_eq]
  omega

theorem scalarEq_scalar_right {t a : JVal} (h : scalarEq t a = true) : isScalar a = true := by
  cases t <;> cases a <;> simp_all [scalarEq, isScalar]

theorem eqmod_scalar_iff {t a : JVal} (h : isScalar t = true) : EqMod t a ↔ scalarEq t a = true := by
  constructor
  · intro e
    cases e with
    | scalar _ h2 => exact h2
    | arr _ _ => simp [isScalar] at h
    | obj _ _ _ _ _ => simp [isScalar] at h
  · exact fun h2 => EqMod.scalar h h2

theorem eqmod_arr_iff {ts : List JVal} {w : JVal} :
    EqMod (.arr ts) w ↔ ∃ as, w = .arr as ∧ ts.length = as.length ∧
      ∀ (i : Nat) (t a : JVal), ts[i]? = some t → as[i]? = some a → EqMod t a := by
  constructor
  · intro e
    cases e with
    | scalar h _ => simp [isScalar] at h
    | arr hl hall => exact ⟨_, rfl, hl, hall⟩
  · rintro ⟨as, rfl, hl, hall⟩
    exact EqMod.arr hl hall

/-! ## sets -/

theorem setMatch_iff (ts as : List JVal) : setMatch ts as = true ↔ SetEq ts as := by
  simp only [setMatch, SetEq, Bool.and_eq_true, List.all_eq_true, List.any_eq_true, and_assoc]

/-! ## keyed collections -/

theorem lastWith_mem {fs : List JVal} {κ : String} : ∀ {xs : List JVal} {x : JVal},
    lastWith fs κ xs = some x → x ∈ xs ∧ memberKey fs x = κ
  | [], _, h => by simp [lastWith] at h
  | y :: rest, x, h => by
    simp only [lastWith] at h
    split at h
    · rename_i z hz
      cases h
      have := lastWith_mem hz
      exact ⟨List.mem_cons_of_mem _ this.1, this.2⟩
    · split at h
      · rename_i hk; cases h; exact ⟨by simp, hk⟩
      · cases h

theorem lastWith_isSome_iff {fs : List JVal} {κ : String} : ∀ {xs : List JVal},
    (lastWith fs κ xs).isSome = true ↔ ∃ x ∈ xs, memberKey fs x = κ
  | [] => by simp [lastWith]
  | y :: rest => by
    have ih := @lastWith_isSome_iff fs κ rest
    simp only [lastWith]
    cases hl : lastWith fs κ rest with
    | some z =>
      simp only [Option.isSome_some, true_iff]
      have := lastWith_mem hl
      exact ⟨z, List.mem_cons_of_mem _ this.1, this.2⟩
    | none =>
      rw [hl] at ih
      simp only [Option.isSome_none, Bool.false_eq_true, false_iff, not_exists, not_and] at ih
      by_cases hk : memberKey fs y = κ
      · simp only [hk, if_true, Option.isSome_some, true_iff]
        exact ⟨y, by simp, hk⟩
      · simp only [hk, if_false, Option.isSome_none, Bool.false_eq_true, false_iff]
        rintro ⟨x, hx, hxk⟩
        rcases List.mem_cons.mp hx with rfl | hx
        · exact hk hxk
        · exact ih x hx hxk

theorem keyedBack_iff (fs : List JVal) (ts as : List JVal) :
    keyedBack fs ts as = true ↔
      ∀ κ, isDirective κ = false → (lastWith fs κ as).isSome = true → (lastWith fs κ ts).isSome = true := by
  simp only [keyedBack, List.all_eq_true, Bool.or_eq_true]
  constructor
  · intro h κ hd hs
    obtain ⟨y, hy, hk⟩ := lastWith_isSome_iff.mp hs
    rcases h y hy with h | h
    · rw [hk, hd] at h; cases h
    · rw [hk] at h; exact h
  · intro h y hy
    cases hd : isDirective (memberKey fs y) with
    | true => exact Or.inl rfl
    | false => exact Or.inr (h _ hd (lastWith_isSome_iff.mpr ⟨y, hy, rfl⟩))

/-- map-directed lists of objects: equal as keyed collections (directive-named member keys ignored) -/
def KeyedEq (fs : List JVal) (ts as : List JVal) : Prop :=
  (∀ κ, isDirective κ = false → ((lastWith fs κ ts).isSome ↔ (lastWith fs κ as).isSome)) ∧
  (∀ κ x y, isDirective κ = false → lastWith fs κ ts = some x → lastWith fs κ as = some y → EqMod x y)

/-- what `_validate_dict_match` requires of the values under a common key -/
def CmpSpec (sk : List String) (mk : List (String × List JVal)) (k : String) (v w : JVal) : Prop :=
  (modeOf sk mk k v w = .plain → EqMod v w) ∧
  (∀ ts as, modeOf sk mk k v w = .set ts as → SetEq ts as) ∧
  (∀ fs ts as, modeOf sk mk k v w = .keyed fs ts as → KeyedEq fs ts as)

theorem keyed_combine {fs : List JVal} {ts as : List JVal}
    (hf : ∀ κ x, isDirective κ = false → lastWith fs κ ts = some x →
      ∃ y, lastWith fs κ as = some y ∧ EqMod x y)
    (hb : ∀ κ, isDirective κ = false → (lastWith fs κ as).isSome = true → (lastWith fs κ ts).isSome = true) :
    KeyedEq fs ts as := by
  refine ⟨fun κ hd => ⟨fun h => ?_, hb κ hd⟩, fun κ x y hd hx hy => ?_⟩
  · cases hx : lastWith fs κ ts with
    | none => rw [hx] at h; cases h
    | some x => obtain ⟨y, hy, _⟩ := hf κ x hd hx; rw [hy]; rfl
  · obtain ⟨y', hy', e⟩ := hf κ x hd hx
    rw [hy] at hy'; cases hy'; exact e

theorem keyed_split {fs : List JVal} {ts as : List JVal} (h : KeyedEq fs ts as) :
    (∀ κ x, isDirective κ = false → lastWith fs κ ts = some x →
      ∃ y, lastWith fs κ as = some y ∧ EqMod x y) ∧
    (∀ κ, isDirective κ = false → (lastWith fs κ as).isSome = true → (lastWith fs κ ts).isSome = true) := by
  refine ⟨fun κ x hd hx => ?_, fun κ hd => (h.1 κ hd).mpr⟩
  have : (lastWith fs κ as).isSome = true := (h.1 κ hd).mp (by rw [hx]; rfl)
  cases hy : lastWith fs κ as with
  | none => rw [hy] at this; cases this
  | some y => exact ⟨y, rfl, h.2 κ x y hd hx hy⟩

/-! ## assembling the map case -/

theorem eqmod_obj_left {t : List (String × JVal)} {w : JVal} (e : EqMod (.obj t) w) : ∃ a, w = .obj a := by
  cases e with
  | scalar h _ => simp [isScalar] at h
  | obj _ _ _ _ _ => exact ⟨_, rfl⟩

theorem obj_assemble {t a : List (String × JVal)} (hnd : nodupKeys t = true) :
    ((∀ k v, (k, v) ∈ t → isDirective k = false →
        ∃ w, lookup k a = some w ∧ CmpSpec (setKeysOf t) (mapKeysOf t) k v w) ∧
      (a.all (fun kv => isDirective kv.1 || (lookup kv.1 t).isSome) = true)) ↔
    EqMod (.obj t) (.obj a) := by
  constructor
  · rintro ⟨hf, hb⟩
    simp only [List.all_eq_true, Bool.or_eq_true] at hb
    have key : ∀ k v w, isDirective k = false → lookup k t = some v → lookup k a = some w →
        CmpSpec (setKeysOf t) (mapKeysOf t) k v w := by
      intro k v w hd hv hw
      obtain ⟨w', hw', c⟩ := hf k v (lookup_mem hv) hd
      rw [hw] at hw'; cases hw'; exact c
    refine EqMod.obj ?_ ?_ ?_ ?_ ?_
    · intro k hd
      constructor
      · intro h
        cases hv : lookup k t with
        | none => rw [hv] at h; cases h
        | some v =>
          obtain ⟨w, hw, _⟩ := hf k v (lookup_mem hv) hd
          rw [hw]; rfl
      · intro h
        cases hw : lookup k a with
        | none => rw [hw] at h; cases h
        | some w =>
          rcases hb (k, w) (lookup_mem hw) with h' | h'
          · simp only at h'; rw [hd] at h'; cases h'
          · exact h'
    · intro k v w hd hv hw hm; exact (key k v w hd hv hw).1 hm
    · intro k v w hd hv hw ts as hm; exact (key k v w hd hv hw).2.1 ts as hm
    · intro k v w hd hv hw fs ts as hm; exact ((key k v w hd hv hw).2.2 fs ts as hm).1
    · intro k v w hd hv hw fs ts as hm; exact ((key k v w hd hv hw).2.2 fs ts as hm).2
  · intro e
    cases e with
    | scalar h _ => simp [isScalar] at h
    | obj h1 h2 h3 h4 h5 =>
      constructor
      · intro k v hm hd
        have hv := lookup_of_mem_nodup hnd hm
        have hs : (lookup k a).isSome = true := (h1 k hd).mp (by rw [hv]; rfl)
        cases hw : lookup k a with
        | none => rw [hw] at hs; cases hs
        | some w =>
          exact ⟨w, rfl, h2 k v w hd hv hw, h3 k v w hd hv hw,
            fun fs ts as hm => ⟨h4 k v w hd hv hw fs ts as hm, h5 k v w hd hv hw fs ts as hm⟩⟩
      · simp only [List.all_eq_true, Bool.or_eq_true]
        intro kv hkv
        cases hd : isDirective kv.1 with
        | true => exact Or.inl rfl
        | false => exact Or.inr ((h1 kv.1 hd).mpr (lookup_isSome_of_mem (v := kv.2) hkv))

/-! ## the value comparison under one key -/

/-- position-by-position equality of two lists -/
def ListSpec (ts as : List JVal) : Prop :=
  ∀ (i : Nat) (t a : JVal), ts[i]? = some t → as[i]? = some a → EqMod t a

/-- the target side of the keyed comparison -/
def KFSpec (fs : List JVal) (ts as : List JVal) : Prop :=
  ∀ κ x, isDirective κ = false → lastWith fs κ ts = some x → ∃ y, lastWith fs κ as = some y ∧ EqMod x y

theorem cmpSpec_plain {sk : List String} {mk : List (String × List JVal)} {k : String} {v w : JVal}
    (hm : modeOf sk mk k v w = .plain) : CmpSpec sk mk k v w ↔ EqMod v w := by
  unfold CmpSpec; rw [hm]; simp

theorem cmpSpec_set {sk : List String} {mk : List (String × List JVal)} {k : String} {v w : JVal}
    {ts as : List JVal} (hm : modeOf sk mk k v w = .set ts as) : CmpSpec sk mk k v w ↔ SetEq ts as := by
  unfold CmpSpec; rw [hm]; simp

theorem cmpSpec_keyed {sk : List String} {mk : List (String × List JVal)} {k : String} {v w : JVal}
    {fs ts as : List JVal} (hm : modeOf sk mk k v w = .keyed fs ts as) :
    CmpSpec sk mk k v w ↔ KeyedEq fs ts as := by
  unfold CmpSpec; rw [hm]; simp

theorem modeOf_plain_left {sk : List String} {mk : List (String × List JVal)} {k : String} {v w : JVal}
    (hv : ∀ ts, v ≠ .arr ts) : modeOf sk mk k v w = .plain := by
  cases v with
  | arr ts => exact absurd rfl (hv ts)
  | _ => simp only [modeOf]

theorem modeOf_plain_right {sk : List String} {mk : List (String × List JVal)} {k : String} {v w : JVal}
    (hw : ∀ as, w ≠ .arr as) : modeOf sk mk k v w = .plain := by
  cases w with
  | arr as => exact absurd rfl (hw as)
  | _ => cases v <;> simp only [modeOf]

theorem cmp_nonarr {sk : List String} {mk : List (String × List JVal)} {k : String} {v w : JVal}
    (hv : ∀ ts, v ≠ .arr ts) (h : exactMatch v w = true ↔ EqMod v w) :
    exactMatch v w = true ↔ CmpSpec sk mk k v w := by
  rw [h, cmpSpec_plain (modeOf_plain_left hv)]

theorem cmp_arr {sk : List String} {mk : List (String × List JVal)} {k : String} {ts : List JVal} {w : JVal}
    (hlm : ∀ as, ts.length = as.length → (listMatch ts as = true ↔ ListSpec ts as))
    (hkf : ∀ fs as, keyedFwd fs ts as = true ↔ KFSpec fs ts as) :
    ((match w with
      | .arr as =>
        (match fieldsFor k mk with
         | some fs =>
           if allObj ts && allObj as then keyedFwd fs ts as && keyedBack fs ts as
           else if sk.contains k then setMatch ts as
           else ts.length == as.length && listMatch ts as
         | none =>
           if sk.contains k then setMatch ts as
           else ts.length == as.length && listMatch ts as)
      | _ => false) = true) ↔ CmpSpec sk mk k (.arr ts) w := by
  have plainList : ∀ as, modeOf sk mk k (.arr ts) (.arr as) = .plain →
      ((ts.length == as.length && listMatch ts as) = true ↔ CmpSpec sk mk k (.arr ts) (.arr as)) := by
    intro as hm
    rw [cmpSpec_plain hm, eqmod_arr_iff]
    simp only [Bool.and_eq_true, beq_iff_eq]
    constructor
    · intro h; exact ⟨as, rfl, h.1, (hlm as h.1).mp h.2⟩
    · rintro ⟨as', e, hl, hs⟩; cases e; exact ⟨hl, (hlm _ hl).mpr hs⟩
  have setList : ∀ as, modeOf sk mk k (.arr ts) (.arr as) = .set ts as →
      (setMatch ts as = true ↔ CmpSpec sk mk k (.arr ts) (.arr as)) := by
    intro as hm
    rw [cmpSpec_set hm, setMatch_iff]
  cases w with
  | arr as =>
    cases hf : fieldsFor k mk with
    | some fs =>
      by_cases hc : (allObj ts && allObj as) = true
      · have hm : modeOf sk mk k (.arr ts) (.arr as) = .keyed fs ts as := by
          simp only [modeOf, hf, hc, if_true]
        rw [cmpSpec_keyed hm]
        simp only [hc, if_true, Bool.and_eq_true, hkf, keyedBack_iff]
        exact ⟨fun ⟨h1, h2⟩ => keyed_combine h1 h2, keyed_split⟩
      · by_cases hs : sk.contains k = true
        · have hm : modeOf sk mk k (.arr ts) (.arr as) = .set ts as := by
            simp only [modeOf, hf, hc, hs, if_true]; rfl
          simp only [hc, hs, if_true]
          exact setList as hm
        · have hm : modeOf sk mk k (.arr ts) (.arr as) = .plain := by
            simp only [modeOf, hf, hc, hs]; rfl
          simp only [hc, hs]
          exact plainList as hm
    | none =>
      by_cases hs : sk.contains k = true
      · have hm : modeOf sk mk k (.arr ts) (.arr as) = .set ts as := by
          simp only [modeOf, hf, hs, if_true]
        simp only [hs, if_true]
        exact setList as hm
      · have hm : modeOf sk mk k (.arr ts) (.arr as) = .plain := by
          simp only [modeOf, hf, hs]; rfl
        simp only [hs]
        exact plainList as hm
  | _ =>
    rw [cmpSpec_plain (modeOf_plain_right (by intro as h; cases h)), eqmod_arr_iff]
    simp

/-! ## the comparator decides `EqMod` -/

theorem not_eqmod_of_kind {t a : JVal} (hs : isScalar t = false)
    (ha : ∀ ts as, ¬ (t = .arr ts ∧ a = .arr as)) (ho : ∀ x y, ¬ (t = .obj x ∧ a = .obj y)) :
    ¬ EqMod t a := by
  intro e
  cases e with
  | scalar h _ => rw [h] at hs; cases hs
  | arr _ _ => exact ha _ _ ⟨rfl, rfl⟩
  | obj _ _ _ _ _ => exact ho _ _ ⟨rfl, rfl⟩

theorem forall_mem_cons_kv {P : String → JVal → Prop} {k : String} {v : JVal}
    {rest : List (String × JVal)} :
    (∀ k' v', (k', v') ∈ (k, v) :: rest → P k' v') ↔ (P k v ∧ ∀ k' v', (k', v') ∈ rest → P k' v') := by
  constructor
  · intro h; exact ⟨h k v (by simp), fun k' v' hm => h k' v' (List.mem_cons_of_mem _ hm)⟩
  · rintro ⟨h0, hr⟩ k' v' hm
    rcases List.mem_cons.mp hm with e | hm
    · cases e; exact h0
    · exact hr k' v' hm

mutual
theorem em_iff : ∀ (t a : JVal), wf t = true → (exactMatch t a = true ↔ EqMod t a)
  | .obj t, a, h => by
    simp only [wf, Bool.and_eq_true] at h
    cases a with
    | obj akvs =>
      have hdf := df_iff (setKeysOf t) (mapKeysOf t) t akvs h.2
      rw [← obj_assemble h.1.1, ← hdf]
      simp only [exactMatch, Bool.and_eq_true]
    | _ =>
      simp only [exactMatch, Bool.false_eq_true, false_iff]
      exact not_eqmod_of_kind rfl (by intro _ _ h; cases h.1) (by intro _ _ h; cases h.2)
  | .arr ts, a, h => by
    simp only [wf] at h
    cases a with
    | arr as =>
      rw [eqmod_arr_iff]
      simp only [exactMatch, Bool.and_eq_true, beq_iff_eq]
      constructor
      · rintro ⟨hl, hm⟩; exact ⟨as, rfl, hl, (lm_iff ts as h hl).mp hm⟩
      · rintro ⟨as', e, hl, hs⟩; cases e; exact ⟨hl, (lm_iff ts _ h hl).mpr hs⟩
    | _ =>
      simp only [exactMatch, Bool.false_eq_true, false_iff]
      exact not_eqmod_of_kind rfl (by intro _ _ h; cases h.2) (by intro _ _ h; cases h.1)
  | .null, a, _ => by rw [exactMatch_scalar _ _ rfl, eqmod_scalar_iff rfl]
  | .bool _, a, _ => by rw [exactMatch_scalar _ _ rfl, eqmod_scalar_iff rfl]
  | .int _, a, _ => by rw [exactMatch_scalar _ _ rfl, eqmod_scalar_iff rfl]
  | .flt _, a, _ => by rw [exactMatch_scalar _ _ rfl, eqmod_scalar_iff rfl]
  | .str _, a, _ => by rw [exactMatch_scalar _ _ rfl, eqmod_scalar_iff rfl]
theorem lm_iff : ∀ (ts as : List JVal), wfL ts = true → ts.length = as.length →
    (listMatch ts as = true ↔ ListSpec ts as)
  | [], [], _, _ => by
    simp only [listMatch, true_iff]
    intro i t a h; simp at h
  | t :: ts, a :: as, h, hl => by
    simp only [wfL, Bool.and_eq_true] at h
    have h0 := em_iff t a h.1
    have ih := lm_iff ts as h.2 (by simpa using hl)
    simp only [listMatch, Bool.and_eq_true, h0, ih]
    constructor
    · rintro ⟨e0, hr⟩ i t' a' ht ha
      cases i with
      | zero => simp at ht ha; subst ht ha; exact e0
      | succ j => simp at ht ha; exact hr j t' a' ht ha
    · intro hs
      exact ⟨hs 0 t a rfl rfl, fun i t' a' ht ha => hs (i + 1) t' a' (by simpa using ht) (by simpa using ha)⟩
  | [], _ :: _, _, hl => by simp at hl
  | _ :: _, [], _, hl => by simp at hl
theorem df_iff : ∀ (sk : List String) (mk : List (String × List JVal))
    (t a : List (String × JVal)), wfO t = true →
    (dictFwd sk mk t a = true ↔
      ∀ k v, (k, v) ∈ t → isDirective k = false → ∃ w, lookup k a = some w ∧ CmpSpec sk mk k v w)
  | sk, mk, [], a, _ => by simp [dictFwd]
  | sk, mk, (k, v) :: rest, a, h => by
    simp only [wfO, Bool.and_eq_true] at h
    have ih := df_iff sk mk rest a h.2
    rw [dictFwd, Bool.and_eq_true, ih, forall_mem_cons_kv]
    refine and_congr ?_ Iff.rfl
    cases hd : isDirective k with
    | true => simp
    | false =>
      simp only [Bool.false_eq_true, if_false, true_implies]
      cases hl : lookup k a with
      | none => simp
      | some w =>
        simp only [Option.some.injEq, exists_eq_left']
        cases v with
        | arr ts =>
          simp only [wf] at h
          exact cmp_arr (fun as hl => lm_iff ts as h.1 hl) (fun fs as => kf_iff fs ts as h.1)
        | null => exact cmp_nonarr (by intro _ e; cases e) (em_iff .null w h.1)
        | bool b => exact cmp_nonarr (by intro _ e; cases e) (em_iff (.bool b) w h.1)
        | int n => exact cmp_nonarr (by intro _ e; cases e) (em_iff (.int n) w h.1)
        | flt n => exact cmp_nonarr (by intro _ e; cases e) (em_iff (.flt n) w h.1)
        | str n => exact cmp_nonarr (by intro _ e; cases e) (em_iff (.str n) w h.1)
        | obj o => exact cmp_nonarr (by intro _ e; cases e) (em_iff (.obj o) w h.1)
theorem kf_iff : ∀ (fs : List JVal) (ts as : List JVal), wfL ts = true →
    (keyedFwd fs ts as = true ↔ KFSpec fs ts as)
  | fs, [], as, _ => by
    simp only [keyedFwd, true_iff]
    intro κ x _ h; simp [lastWith] at h
  | fs, t :: rest, as, h => by
    simp only [wfL, Bool.and_eq_true] at h
    have ih := kf_iff fs rest as h.2
    have ht := fun a => em_iff t a h.1
    rw [keyedFwd, Bool.and_eq_true, ih]
    constructor
    · rintro ⟨hh, hr⟩ κ x hd hx
      simp only [lastWith] at hx
      cases hl : lastWith fs κ rest with
      | some z => rw [hl] at hx; simp only at hx; cases hx; exact hr κ _ hd hl
      | none =>
        rw [hl] at hx
        simp only at hx
        split at hx
        · rename_i hk
          injection hx with hx
          subst hx
          subst hk
          rw [hd, hl] at hh
          simp only [Bool.false_eq_true, if_false, Option.isSome_none] at hh
          cases ha : lastWith fs (memberKey fs t) as with
          | none => rw [ha] at hh; cases hh
          | some y => rw [ha] at hh; exact ⟨y, rfl, (ht y).mp hh⟩
        · cases hx
    · intro hs
      refine ⟨?_, fun κ x hd hx => hs κ x hd (by simp only [lastWith, hx])⟩
      cases hd : isDirective (memberKey fs t) with
      | true => simp
      | false =>
        simp only [Bool.false_eq_true, if_false]
        cases hl : lastWith fs (memberKey fs t) rest with
        | some z => simp
        | none =>
          simp only [Option.isSome_none, Bool.false_eq_true, if_false]
          obtain ⟨y, hy, e⟩ := hs (memberKey fs t) t hd (by simp only [lastWith, hl, if_true])
          rw [hy]
          exact (ht y).mpr e
end

/-- the comparator accepts exactly the actual values that equal the expectation modulo its directives -/
theorem exactMatch_iff_eqMod (t a : JVal) (h : DirectivesWF t) : exactMatch t a = true ↔ EqMod t a :=
  em_iff t a h

/-! ## expectations without directives: plain typed equality -/

mutual
/-- no directive key anywhere -/
def noDir : JVal → Bool
  | .obj kvs => noDirO kvs
  | .arr xs => noDirL xs
  | _ => true
def noDirL : List JVal → Bool
  | [] => true
  | x :: xs => noDir x && noDirL xs
def noDirO : List (String × JVal) → Bool
  | [] => true
  | (k, v) :: rest => !isDirective k && noDir v && noDirO rest
end

theorem noDirO_lookup : ∀ {kvs : List (String × JVal)} {k : String} {v : JVal},
    noDirO kvs = true → lookup k kvs = some v → isDirective k = false ∧ noDir v = true
  | [], _, _, _, h => by simp [lookup] at h
  | (k', v') :: rest, k, v, hn, h => by
    simp only [noDirO, Bool.and_eq_true, Bool.not_eq_true'] at hn
    simp only [lookup] at h
    split at h
    · rename_i hk; cases h; subst hk; exact ⟨hn.1.1, hn.1.2⟩
    · exact noDirO_lookup hn.2 h

theorem noDirO_lookup_directive {kvs : List (String × JVal)} {k : String}
    (hn : noDirO kvs = true) (hd : isDirective k = true) : lookup k kvs = none := by
  cases h : lookup k kvs with
  | none => rfl
  | some v => have := (noDirO_lookup hn h).1; rw [hd] at this; cases this

theorem noDirL_mem : ∀ {xs : List JVal}, noDirL xs = true → ∀ x ∈ xs, noDir x = true
  | [], _, x, hx => by cases hx
  | y :: ys, h, x, hx => by
    simp only [noDirL, Bool.and_eq_true] at h
    rcases List.mem_cons.mp hx with rfl | hx
    · exact h.1
    · exact noDirL_mem h.2 x hx

theorem modeOf_noDir {t : List (String × JVal)} (hn : noDirO t = true) (k : String) (v w : JVal) :
    modeOf (setKeysOf t) (mapKeysOf t) k v w = .plain := by
  have h1 : setKeysOf t = [] := by
    simp only [setKeysOf, noDirO_lookup_directive hn (show isDirective compareAsSet = true by decide)]
  have h2 : mapKeysOf t = [] := by
    simp only [mapKeysOf, noDirO_lookup_directive hn (show isDirective compareAsMap = true by decide)]
  rw [h1, h2]
  simp only [modeOf, fieldsFor, List.contains_nil, Bool.false_eq_true, if_false]
  split <;> rfl

theorem scalarEq_refl : ∀ (s : JVal), isScalar s = true → scalarEq s s = true := by
  intro s h; cases s <;> simp_all [scalarEq, isScalar]

theorem scalarEq_symm : ∀ (s t : JVal), scalarEq s t = scalarEq t s := by
  intro s t
  cases s <;> cases t <;> simp only [scalarEq] <;> exact BEq.comm

theorem eqmod_obj_noDir {t a : List (String × JVal)} (hn : noDirO t = true) :
    EqMod (.obj t) (.obj a) ↔
      (∀ k, isDirective k = false → ((lookup k t).isSome ↔ (lookup k a).isSome)) ∧
      (∀ k v w, lookup k t = some v → lookup k a = some w → EqMod v w) := by
  constructor
  · intro e
    cases e with
    | scalar h _ => simp [isScalar] at h
    | obj h1 h2 _ _ _ =>
      exact ⟨h1, fun k v w hv hw => h2 k v w (noDirO_lookup hn hv).1 hv hw (modeOf_noDir hn k v w)⟩
  · rintro ⟨h1, h2⟩
    refine EqMod.obj h1 (fun k v w _ hv hw _ => h2 k v w hv hw) ?_ ?_ ?_
    · intro k v w _ _ _ ts as hm; rw [modeOf_noDir hn] at hm; cases hm
    · intro k v w _ _ _ fs ts as hm; rw [modeOf_noDir hn] at hm; cases hm
    · intro k v w _ _ _ fs ts as hm; rw [modeOf_noDir hn] at hm; cases hm

mutual
/-- a directive-free value equals itself: the assertion copied from the actual value holds -/
theorem eqmod_refl : ∀ (a : JVal), noDir a = true → EqMod a a
  | .obj t, h => by
    simp only [noDir] at h
    rw [eqmod_obj_noDir h]
    refine ⟨fun _ _ => Iff.rfl, fun k v w hv hw => ?_⟩
    rw [hv] at hw; cases hw
    exact eqmod_refl_O t h k v hv
  | .arr xs, h => by
    simp only [noDir] at h
    refine EqMod.arr rfl (fun i t a ht ha => ?_)
    rw [ht] at ha; cases ha
    exact eqmod_refl_L xs h t (List.mem_of_getElem? ht)
  | .null, _ => EqMod.scalar rfl rfl
  | .bool _, _ => EqMod.scalar rfl (scalarEq_refl _ rfl)
  | .int _, _ => EqMod.scalar rfl (scalarEq_refl _ rfl)
  | .flt _, _ => EqMod.scalar rfl (scalarEq_refl _ rfl)
  | .str _, _ => EqMod.scalar rfl (scalarEq_refl _ rfl)
theorem eqmod_refl_L : ∀ (xs : List JVal), noDirL xs = true → ∀ x ∈ xs, EqMod x x
  | [], _, x, hx => by cases hx
  | y :: ys, h, x, hx => by
    simp only [noDirL, Bool.and_eq_true] at h
    rcases List.mem_cons.mp hx with e | hx
    · rw [e]; exact eqmod_refl y h.1
    · exact eqmod_refl_L ys h.2 x hx
theorem eqmod_refl_O : ∀ (kvs : List (String × JVal)), noDirO kvs = true →
    ∀ k v, lookup k kvs = some v → EqMod v v
  | [], _, k, v, h => by simp [lookup] at h
  | (k', v') :: rest, hn, k, v, h => by
    simp only [noDirO, Bool.and_eq_true] at hn
    simp only [lookup] at h
    split at h
    · injection h with h; rw [← h]; exact eqmod_refl v' hn.1.2
    · exact eqmod_refl_O rest hn.2 k v h
end

/-! ## one-step deviations -/

/-- `Dev a a'`: `a'` is `a` with exactly one deviation — a changed or retyped leaf, a dropped key, an
    added key, two neighbouring list elements swapped (that differ), at any depth -/
inductive Dev : JVal → JVal → Prop
  | leaf {s s' : JVal} : (isScalar s = true ∨ isScalar s' = true) → scalarEq s s' = false → Dev s s'
  | dropKey {o : List (String × JVal)} {k : String} {v : JVal} :
      lookup k o = some v → Dev (.obj o) (.obj (JVal.erase k o))
  | addKey {o : List (String × JVal)} {k : String} {v : JVal} :
      lookup k o = none → isDirective k = false → Dev (.obj o) (.obj (o ++ [(k, v)]))
  | swap {xs zs : List JVal} {x y : JVal} :
      ¬ EqMod y x → Dev (.arr (xs ++ x :: y :: zs)) (.arr (xs ++ y :: x :: zs))
  | inKey {o : List (String × JVal)} {k : String} {v v' : JVal} :
      lookup k o = some v → Dev v v' → Dev (.obj o) (.obj (JVal.insert k v' o))
  | inIdx {xs zs : List JVal} {x x' : JVal} :
      Dev x x' → Dev (.arr (xs ++ x :: zs)) (.arr (xs ++ x' :: zs))

theorem lookup_erase_self : ∀ {o : List (String × JVal)} {k : String},
    nodupKeys o = true → lookup k (JVal.erase k o) = none
  | [], _, _ => rfl
  | (k', v') :: rest, k, hn => by
    simp only [nodupKeys, Bool.and_eq_true] at hn
    simp only [JVal.erase]
    split
    · rename_i hk; subst hk
      cases h : lookup k' rest with
      | none => rfl
      | some _ => have := hn.1; rw [h] at this; cases this
    · rename_i hk
      simp only [lookup, hk, if_false]
      exact lookup_erase_self hn.2

theorem lookup_append_new : ∀ {o : List (String × JVal)} {k : String} {v : JVal},
    lookup k o = none → lookup k (o ++ [(k, v)]) = some v
  | [], _, _, _ => by simp [lookup]
  | (k', v') :: rest, k, v, h => by
    simp only [lookup] at h
    split at h
    · cases h
    · rename_i hk
      simp only [List.cons_append, lookup, hk, if_false]
      exact lookup_append_new h

theorem lookup_insert_self : ∀ {o : List (String × JVal)} {k : String} {v : JVal},
    lookup k (JVal.insert k v o) = some v
  | [], _, _ => by simp [JVal.insert, lookup]
  | (k', v') :: rest, k, v => by
    simp only [JVal.insert]
    split
    · simp [lookup]
    · rename_i hk
      simp only [lookup, hk, if_false]
      exact lookup_insert_self

theorem noDirO_insert : ∀ {o : List (String × JVal)} {k : String} {v : JVal},
    noDirO o = true → isDirective k = false → noDir v = true → noDirO (JVal.insert k v o) = true
  | [], _, _, _, hk, hv => by simp [JVal.insert, noDirO, hk, hv]
  | (k', v') :: rest, k, v, hn, hk, hv => by
    simp only [noDirO, Bool.and_eq_true, Bool.not_eq_true'] at hn
    simp only [JVal.insert]
    split
    · simp [noDirO, hk, hv, hn.2]
    · simp only [noDirO, Bool.and_eq_true, Bool.not_eq_true']
      exact ⟨hn.1, noDirO_insert hn.2 hk hv⟩

theorem getElem?_append_mid {xs zs : List JVal} {x : JVal} : (xs ++ x :: zs)[xs.length]? = some x := by
  simp

/-- a one-step deviation of a directive-free value is never accepted in its place -/
theorem dev_not_eqmod {a a' : JVal} (d : Dev a a') :
    wf a = true → noDir a = true → noDir a' = true → ¬ EqMod a' a := by
  induction d with
  | leaf hs hne =>
    intro _ _ _ e
    cases e with
    | scalar _ h2 => rw [scalarEq_symm, hne] at h2; cases h2
    | arr _ _ => rcases hs with h | h <;> simp [isScalar] at h
    | obj _ _ _ _ _ => rcases hs with h | h <;> simp [isScalar] at h
  | @dropKey o k v hl =>
    intro hw hn hn' e
    simp only [wf, Bool.and_eq_true] at hw
    simp only [noDir] at hn hn'
    have hk := (noDirO_lookup hn hl).1
    have := ((eqmod_obj_noDir hn').mp e).1 k hk
    rw [lookup_erase_self hw.1.1, hl] at this
    simp at this
  | @addKey o k v hl hk =>
    intro _ _ hn' e
    simp only [noDir] at hn'
    have := ((eqmod_obj_noDir hn').mp e).1 k hk
    rw [lookup_append_new hl, hl] at this
    simp at this
  | @swap xs zs x y hne =>
    intro _ _ _ e
    obtain ⟨as, ea, _, hs⟩ := eqmod_arr_iff.mp e
    cases ea
    exact hne (hs xs.length y x getElem?_append_mid getElem?_append_mid)
  | @inKey o k v v' hl _ ih =>
    intro hw hn hn' e
    simp only [wf, Bool.and_eq_true] at hw
    simp only [noDir] at hn hn'
    have hv := noDirO_lookup hn hl
    have hv' := noDirO_lookup hn' (lookup_insert_self (o := o) (k := k) (v := v'))
    have := ((eqmod_obj_noDir hn').mp e).2 k v' v lookup_insert_self hl
    exact ih (wfO_mem hw.2 (k, v) (lookup_mem hl)) hv.2 hv'.2 this
  | @inIdx xs zs x x' _ ih =>
    intro hw hn hn' e
    simp only [wf] at hw
    simp only [noDir] at hn hn'
    obtain ⟨as, ea, _, hs⟩ := eqmod_arr_iff.mp e
    cases ea
    have := hs xs.length x' x getElem?_append_mid getElem?_append_mid
    exact ih (wfL_mem hw x (by simp)) (noDirL_mem hn x (by simp)) (noDirL_mem hn' x' (by simp)) this

/-! ## normalising an expectation keeps it well formed -/

theorem lookup_insert_ne : ∀ {o : List (String × JVal)} {k k' : String} {v : JVal},
    k' ≠ k → lookup k' (JVal.insert k v o) = lookup k' o
  | [], k, k', v, h => by simp [JVal.insert, lookup, Ne.symm h]
  | (k0, v0) :: rest, k, k', v, h => by
    simp only [JVal.insert]
    split
    · rename_i hk
      subst hk
      simp [lookup, Ne.symm h]
    · simp only [lookup]
      split
      · rfl
      · exact lookup_insert_ne h

theorem lookup_erase_ne : ∀ {o : List (String × JVal)} {k k' : String},
    k' ≠ k → lookup k' (JVal.erase k o) = lookup k' o
  | [], _, _, _ => rfl
  | (k0, v0) :: rest, k, k', h => by
    simp only [JVal.erase]
    split
    · rename_i hk
      subst hk
      simp [lookup, Ne.symm h]
    · simp only [lookup]
      split
      · rfl
      · exact lookup_erase_ne h

theorem lookup_erase_isNone_of : ∀ {o : List (String × JVal)} {k k' : String},
    (lookup k' o).isNone = true → (lookup k' (JVal.erase k o)).isNone = true
  | [], _, _, h => h
  | (k0, v0) :: rest, k, k', h => by
    simp only [lookup] at h
    split at h
    · cases h
    · rename_i hk
      simp only [JVal.erase]
      split
      · exact h
      · simp only [lookup, hk, if_false]
        exact lookup_erase_isNone_of h

theorem lookup_insert_isNone_of : ∀ {o : List (String × JVal)} {k k' : String} {v : JVal},
    k' ≠ k → (lookup k' o).isNone = true → (lookup k' (JVal.insert k v o)).isNone = true := by
  intro o k k' v hne h
  rw [lookup_insert_ne hne]; exact h

theorem nodupKeys_erase : ∀ {o : List (String × JVal)} {k : String},
    nodupKeys o = true → nodupKeys (JVal.erase k o) = true
  | [], _, _ => rfl
  | (k0, v0) :: rest, k, h => by
    simp only [nodupKeys, Bool.and_eq_true] at h
    simp only [JVal.erase]
    split
    · exact h.2
    · simp only [nodupKeys, Bool.and_eq_true]
      exact ⟨lookup_erase_isNone_of h.1, nodupKeys_erase h.2⟩

theorem nodupKeys_insert : ∀ {o : List (String × JVal)} {k : String} {v : JVal},
    nodupKeys o = true → nodupKeys (JVal.insert k v o) = true
  | [], _, _, _ => by simp [JVal.insert, nodupKeys, lookup]
  | (k0, v0) :: rest, k, v, h => by
    simp only [nodupKeys, Bool.and_eq_true] at h
    simp only [JVal.insert]
    split
    · rename_i hk
      subst hk
      simp only [nodupKeys, Bool.and_eq_true]
      exact h
    · rename_i hk
      simp only [nodupKeys, Bool.and_eq_true]
      exact ⟨lookup_insert_isNone_of hk h.1, nodupKeys_insert h.2⟩

theorem wfO_erase : ∀ {o : List (String × JVal)} {k : String}, wfO o = true → wfO (JVal.erase k o) = true
  | [], _, _ => rfl
  | (k0, v0) :: rest, k, h => by
    simp only [wfO, Bool.and_eq_true] at h
    simp only [JVal.erase]
    split
    · exact h.2
    · simp only [wfO, Bool.and_eq_true]
      exact ⟨h.1, wfO_erase h.2⟩

theorem wfO_insert : ∀ {o : List (String × JVal)} {k : String} {v : JVal},
    wfO o = true → wf v = true → wfO (JVal.insert k v o) = true
  | [], _, _, _, hv => by simp [JVal.insert, wfO, hv]
  | (k0, v0) :: rest, k, v, h, hv => by
    simp only [wfO, Bool.and_eq_true] at h
    simp only [JVal.insert]
    split
    · simp only [wfO, Bool.and_eq_true]; exact ⟨hv, h.2⟩
    · simp only [wfO, Bool.and_eq_true]; exact ⟨h.1, wfO_insert h.2 hv⟩

theorem ne_of_not_directive {k d : String} (hk : isDirective k = false) (hd : isDirective d = true) : d ≠ k := by
  intro e; subst e; rw [hk] at hd; cases hd

/-- replacing / adding an ordinary key whose new value is a map keeps the directive entries well-shaped -/
theorem dirShape_insert_obj {o : List (String × JVal)} {k : String} {x : List (String × JVal)}
    (hk : isDirective k = false) (h : dirShape o = true) : dirShape (JVal.insert k (.obj x) o) = true := by
  have hs : lookup compareAsSet (JVal.insert k (.obj x) o) = lookup compareAsSet o :=
    lookup_insert_ne (ne_of_not_directive hk (by decide))
  have hm : lookup compareAsMap (JVal.insert k (.obj x) o) = lookup compareAsMap o :=
    lookup_insert_ne (ne_of_not_directive hk (by decide))
  have hmk : mapKeysOf (JVal.insert k (.obj x) o) = mapKeysOf o := by simp only [mapKeysOf, hm]
  simp only [dirShape, Bool.and_eq_true, hs, hm, hmk] at h ⊢
  refine ⟨h.1, ?_⟩
  simp only [List.all_eq_true] at h ⊢
  intro kf hkf
  by_cases e : kf.1 = k
  · rw [e, lookup_insert_self]
  · rw [lookup_insert_ne e]; exact h.2 kf hkf

theorem dirShape_erase {o : List (String × JVal)} {k : String}
    (hk : isDirective k = false) (hn : nodupKeys o = true) (h : dirShape o = true) :
    dirShape (JVal.erase k o) = true := by
  have hs : lookup compareAsSet (JVal.erase k o) = lookup compareAsSet o :=
    lookup_erase_ne (ne_of_not_directive hk (by decide))
  have hm : lookup compareAsMap (JVal.erase k o) = lookup compareAsMap o :=
    lookup_erase_ne (ne_of_not_directive hk (by decide))
  have hmk : mapKeysOf (JVal.erase k o) = mapKeysOf o := by simp only [mapKeysOf, hm]
  simp only [dirShape, Bool.and_eq_true, hs, hm, hmk] at h ⊢
  refine ⟨h.1, ?_⟩
  simp only [List.all_eq_true] at h ⊢
  intro kf hkf
  by_cases e : kf.1 = k
  · rw [e, lookup_erase_self hn]
  · rw [lookup_erase_ne e]; exact h.2 kf hkf

theorem wf_obj_parts {o : List (String × JVal)} (h : wf (.obj o) = true) :
    nodupKeys o = true ∧ dirShape o = true ∧ wfO o = true := by
  simp only [wf, Bool.and_eq_true] at h
  exact ⟨h.1.1, h.1.2, h.2⟩

theorem wf_obj_mk {o : List (String × JVal)} (h1 : nodupKeys o = true) (h2 : dirShape o = true)
    (h3 : wfO o = true) : wf (.obj o) = true := by
  simp only [wf, Bool.and_eq_true]; exact ⟨⟨h1, h2⟩, h3⟩

theorem wf_lookup {o : List (String × JVal)} {k : String} {v : JVal}
    (h : wfO o = true) (hl : lookup k o = some v) : wf v = true :=
  wfO_mem h (k, v) (lookup_mem hl)

/-- normalising an expectation keeps it well formed -/
theorem wf_stripLastApplied (e : JVal) (h : DirectivesWF e) : DirectivesWF (stripLastApplied e) := by
  unfold DirectivesWF at *
  unfold stripLastApplied
  split
  · rename_i kvs
    obtain ⟨n1, d1, w1⟩ := wf_obj_parts h
    split
    · rename_i md hmd
      obtain ⟨n2, d2, w2⟩ := wf_obj_parts (wf_lookup w1 hmd)
      split
      · rename_i ann hann
        obtain ⟨n3, d3, w3⟩ := wf_obj_parts (wf_lookup w2 hann)
        have wann : wf (.obj (JVal.erase lastApplied ann)) = true :=
          wf_obj_mk (nodupKeys_erase n3) (dirShape_erase (by decide) n3 d3) (wfO_erase w3)
        have wmd : wf (.obj (if (JVal.erase lastApplied ann).isEmpty then JVal.erase "annotations" md
            else JVal.insert "annotations" (.obj (JVal.erase lastApplied ann)) md)) = true := by
          split
          · exact wf_obj_mk (nodupKeys_erase n2) (dirShape_erase (by decide) n2 d2) (wfO_erase w2)
          · exact wf_obj_mk (nodupKeys_insert n2) (dirShape_insert_obj (by decide) d2) (wfO_insert w2 wann)
        exact wf_obj_mk (nodupKeys_insert n1) (dirShape_insert_obj (by decide) d1) (wfO_insert w1 wmd)
      · exact h
    · exact h
  · exact h

end Koreo.Exact
