/-
  Helper lemmas for C16: the inductive invariant of the hot-reload transition system.
  Property theorems live in `Props/C16.lean`.
-/
import Koreo.HotReload

set_option linter.unusedSectionVars false

namespace Koreo.HotReload
variable {R : Type} [DecidableEq R] {Spec : Type}

@[simp] theorem upd_same {α : Type} (f : R → α) (a : R) (b : α) : upd f a b a = b := by simp [upd]
theorem upd_other {α : Type} (f : R → α) (a : R) (b : α) {x : R} (h : x ≠ a) : upd f a b x = f x := by
  simp [upd, h]

/-- `x` has an event in its queue that is newer than its own prepare start -/
def Pending (s : State R Spec) (x : R) : Prop :=
  ∃ q, s.queue x = some q ∧ ∃ t ∈ q, s.prepT x < t

/-- The invariant, with two waivers used inside composite actions: resource `r0` may be
    registered before it is cached (`qok`), and `r0`'s monitor may hold popped events `pend`
    that it has not processed yet. -/
structure InvG (decl : Spec → (R → Bool) → List R) (rank : R → Nat) (r0 : R) (qok : Bool) (pend : List Nat) (s : State R Spec) : Prop where
  cached : ∀ x e, s.cache x = some e → s.subs x = e.deps ∧ (s.queue x).isSome = true
  uncached : ∀ x, s.cache x = none →
    s.subs x = [] ∧ s.mon x = .none ∧ (s.queue x = none ∨ (x = r0 ∧ qok = true))
  watched : ∀ x e, s.cache x = some e → e.deps ≠ [] → s.mon x ≠ .none
  fresh : ∀ x e, s.cache x = some e → ∀ d ∈ e.deps,
    e.seen d = s.gen d ∨ Pending s x ∨ (x = r0 ∧ ∃ t ∈ pend, s.prepT x < t)
  prepLt : ∀ x e, s.cache x = some e → s.prepT x < s.clock
  evLt : ∀ x q, s.queue x = some q → ∀ t ∈ q, t < s.clock
  ranked : ∀ x, ∀ d ∈ s.subs x, rank d < rank x
  /-- every cached spec keeps its preparer's declarations within the rank -/
  specOk : ∀ x e, s.cache x = some e → SpecRanked decl rank x e.spec

/-- the invariant of reachable states -/
structure Inv (decl : Spec → (R → Bool) → List R) (rank : R → Nat) (s : State R Spec) : Prop where
  cached : ∀ x e, s.cache x = some e → s.subs x = e.deps ∧ (s.queue x).isSome = true
  uncached : ∀ x, s.cache x = none → s.subs x = [] ∧ s.mon x = .none ∧ s.queue x = none
  watched : ∀ x e, s.cache x = some e → e.deps ≠ [] → s.mon x ≠ .none
  fresh : ∀ x e, s.cache x = some e → ∀ d ∈ e.deps, e.seen d = s.gen d ∨ Pending s x
  prepLt : ∀ x e, s.cache x = some e → s.prepT x < s.clock
  evLt : ∀ x q, s.queue x = some q → ∀ t ∈ q, t < s.clock
  ranked : ∀ x, ∀ d ∈ s.subs x, rank d < rank x
  /-- every cached spec keeps its preparer's declarations within the rank -/
  specOk : ∀ x e, s.cache x = some e → SpecRanked decl rank x e.spec

theorem Inv.toG {decl : Spec → (R → Bool) → List R} {rank : R → Nat} {s : State R Spec} (h : Inv decl rank s) (r0 : R) (qok : Bool)
    (pend : List Nat) : InvG decl rank r0 qok pend s where
  cached := h.cached
  uncached := fun x hx => let ⟨a, b, c⟩ := h.uncached x hx; ⟨a, b, Or.inl c⟩
  watched := h.watched
  fresh := fun x e hx d hd => (h.fresh x e hx d hd).elim Or.inl (fun p => Or.inr (Or.inl p))
  prepLt := h.prepLt
  evLt := h.evLt
  ranked := h.ranked
  specOk := h.specOk

theorem InvG.toInv {decl : Spec → (R → Bool) → List R} {rank : R → Nat} {s : State R Spec} {r0 : R}
    (h : InvG decl rank r0 false [] s) : Inv decl rank s where
  cached := h.cached
  uncached := fun x hx => by
    obtain ⟨a, b, c⟩ := h.uncached x hx
    exact ⟨a, b, c.elim id (fun ⟨_, hf⟩ => by simp at hf)⟩
  watched := h.watched
  fresh := fun x e hx d hd => by
    rcases h.fresh x e hx d hd with h1 | h1 | ⟨_, t, ht, _⟩
    · exact Or.inl h1
    · exact Or.inr h1
    · simp at ht
  prepLt := h.prepLt
  evLt := h.evLt
  ranked := h.ranked
  specOk := h.specOk

/-! ### the initial state -/

theorem inv_init (decl : Spec → (R → Bool) → List R) (rank : R → Nat) : Inv decl rank (init : State R Spec) where
  cached := by intro x e h; simp [init] at h
  uncached := by intro x _; simp [init]
  watched := by intro x e h; simp [init] at h
  fresh := by intro x e h; simp [init] at h
  prepLt := by intro x e h; simp [init] at h
  evLt := by intro x q h; simp [init] at h
  ranked := by intro x d h; simp [init] at h
  specOk := by intro x e h; simp [init] at h

/-! ### primitive transformers -/

theorem pending_notify {s : State R Spec} {x : R} (d : R) (t : Nat) (h : Pending s x) :
    Pending (notify s d t) x := by
  obtain ⟨q, hq, t', ht', hlt⟩ := h
  unfold Pending notify
  by_cases hd : d ∈ s.subs x
  · exact ⟨t :: q, by simp [hd, hq], t', by simp [ht'], hlt⟩
  · exact ⟨q, by simp [hd, hq], t', ht', hlt⟩

theorem invG_tick {decl : Spec → (R → Bool) → List R} {rank : R → Nat} {r0 : R} {qok : Bool} {pend : List Nat} {s : State R Spec}
    (h : InvG decl rank r0 qok pend s) : InvG decl rank r0 qok pend (tick s) where
  cached := h.cached
  uncached := h.uncached
  watched := h.watched
  fresh := h.fresh
  prepLt := fun x e hx => Nat.lt_succ_of_lt (h.prepLt x e hx)
  evLt := fun x q hq t ht => Nat.lt_succ_of_lt (h.evLt x q hq t ht)
  ranked := h.ranked
  specOk := h.specOk

theorem notify_queue_isSome (s : State R Spec) (d : R) (t : Nat) (x : R) :
    ((notify s d t).queue x).isSome = (s.queue x).isSome := by
  unfold notify; simp only; split <;> simp

theorem notify_queue_none (s : State R Spec) (d : R) (t : Nat) (x : R) :
    (notify s d t).queue x = none ↔ s.queue x = none := by
  unfold notify; simp only; split <;> simp

theorem invG_notify {decl : Spec → (R → Bool) → List R} {rank : R → Nat} {r0 : R} {qok : Bool} {pend : List Nat} {s : State R Spec}
    (h : InvG decl rank r0 qok pend s) (d : R) (t : Nat) (ht : t < s.clock) :
    InvG decl rank r0 qok pend (notify s d t) where
  cached := fun x e hx => ⟨(h.cached x e hx).1, by rw [notify_queue_isSome]; exact (h.cached x e hx).2⟩
  uncached := fun x hx => by
    obtain ⟨a, b, c⟩ := h.uncached x hx
    exact ⟨a, b, c.elim (fun c => Or.inl ((notify_queue_none s d t x).2 c)) Or.inr⟩
  watched := h.watched
  fresh := fun x e hx d' hd' => by
    rcases h.fresh x e hx d' hd' with h1 | h1 | h1
    · exact Or.inl h1
    · exact Or.inr (Or.inl (pending_notify d t h1))
    · exact Or.inr (Or.inr h1)
  prepLt := h.prepLt
  evLt := fun x q hq t' ht' => by
    unfold notify at hq; simp only at hq
    split at hq
    · cases hsq : s.queue x with
      | none => simp [hsq] at hq
      | some q0 =>
        simp [hsq] at hq; subst hq
        simp only [List.mem_cons] at ht'
        rcases ht' with rfl | ht'
        · exact ht
        · exact h.evLt x q0 hsq t' ht'
    · exact h.evLt x q hq t' ht'
  ranked := h.ranked
  specOk := h.specOk

theorem register_some {s : State R Spec} {r : R} {q : List Nat} (hq : s.queue r = some q) :
    register s r = s := by simp [register, hq]

theorem register_none {s : State R Spec} {r : R} (hq : s.queue r = none) :
    register s r = notify (tick { s with queue := upd s.queue r (some []) }) r s.clock := by
  simp [register, hq]

/-- `registry.register` inside `prepare_and_cache` / the monitor: afterwards `r` has a queue;
    nothing but queues and the clock changes -/
theorem invG_register {decl : Spec → (R → Bool) → List R} {rank : R → Nat} {r : R} {qok : Bool} {pend : List Nat} {s : State R Spec}
    (h : InvG decl rank r qok pend s) :
    InvG decl rank r true pend (register s r) ∧ ((register s r).queue r).isSome = true ∧
    (register s r).cache = s.cache ∧ (register s r).gen = s.gen ∧ (register s r).subs = s.subs ∧
    (register s r).mon = s.mon ∧ (register s r).prepT = s.prepT ∧ s.clock ≤ (register s r).clock := by
  cases hq : s.queue r with
  | some q =>
    rw [register_some hq]
    refine ⟨?_, by simp [hq], rfl, rfl, rfl, rfl, rfl, Nat.le_refl _⟩
    exact {
      cached := h.cached
      uncached := fun x hx => by
        obtain ⟨a, b, c⟩ := h.uncached x hx
        exact ⟨a, b, c.elim Or.inl (fun ⟨e, _⟩ => Or.inr ⟨e, rfl⟩)⟩
      watched := h.watched
      fresh := h.fresh
      prepLt := h.prepLt
      evLt := h.evLt
      ranked := h.ranked
      specOk := h.specOk }
  | none =>
    rw [register_none hq]
    have hbase : InvG decl rank r true pend { s with queue := upd s.queue r (some []) } := {
      cached := fun x e hx => by
        refine ⟨(h.cached x e hx).1, ?_⟩
        by_cases hxr : x = r
        · subst hxr; simp
        · simp only [upd_other _ _ _ hxr]; exact (h.cached x e hx).2
      uncached := fun x hx => by
        obtain ⟨a, b, c⟩ := h.uncached x hx
        refine ⟨a, b, ?_⟩
        by_cases hxr : x = r
        · exact Or.inr ⟨hxr, rfl⟩
        · simp only [upd_other _ _ _ hxr]
          exact c.elim Or.inl (fun ⟨e, _⟩ => absurd e hxr)
      watched := h.watched
      fresh := fun x e hx d hd => by
        rcases h.fresh x e hx d hd with h1 | ⟨q, hq', h1⟩ | h1
        · exact Or.inl h1
        · have hxr : x ≠ r := by intro e'; subst e'; rw [hq] at hq'; cases hq'
          exact Or.inr (Or.inl ⟨q, by simp only [upd_other _ _ _ hxr]; exact hq', h1⟩)
        · exact Or.inr (Or.inr h1)
      prepLt := h.prepLt
      evLt := fun x q' hq' t ht => by
        by_cases hxr : x = r
        · subst hxr; simp at hq'; subst hq'; simp at ht
        · simp only [upd_other _ _ _ hxr] at hq'; exact h.evLt x q' hq' t ht
      ranked := h.ranked
      specOk := h.specOk }
    have hn := invG_notify (invG_tick hbase) r s.clock (by simp [tick])
    refine ⟨hn, ?_, rfl, rfl, rfl, rfl, rfl, by simp [notify, tick]⟩
    rw [notify_queue_isSome]; simp [tick]

/-! ### committing a (re)preparation: cache write + `_handle_notifications` -/

/-- the state after the preparer has run and the entry is written (ghost `gen r` bumped) -/
def writeEntry (s : State R Spec) (r : R) (v : Nat) (spec : Spec) (deps : List R) : State R Spec :=
  { s with cache := upd s.cache r (some { version := v, spec := spec, deps := deps, seen := s.gen }),
           gen := upd s.gen r (s.gen r + 1) }

/-- explicit form of the state after `_handle_notifications` -/
def commitState (s : State R Spec) (r : R) (v : Nat) (spec : Spec) (deps : List R) (t0 : Nat)
    (monF : R → Mon) : State R Spec :=
  { cache := upd s.cache r (some { version := v, spec := spec, deps := deps, seen := s.gen }),
    gen := upd s.gen r (s.gen r + 1),
    subs := upd s.subs r deps,
    queue := fun x => if r ∈ upd s.subs r deps x then (s.queue x).map (s.clock :: ·) else s.queue x,
    mon := monF, prepT := upd s.prepT r t0, clock := s.clock + 1 }

theorem handle_eq (s : State R Spec) (r : R) (v : Nat) (spec : Spec) (deps : List R) (t0 : Nat) (m : Bool) :
    handleNotifications (tick (writeEntry s r v spec deps)) r deps t0 s.clock m =
      commitState s r v spec deps t0
        (if m = true ∧ deps ≠ [] ∧ s.mon r = .none then upd s.mon r .starting else s.mon) := by
  by_cases hc : m = true ∧ deps ≠ [] ∧ s.mon r = .none
  · have hc' : m = true ∧ deps ≠ [] ∧ (notify { tick (writeEntry s r v spec deps) with
        prepT := upd (tick (writeEntry s r v spec deps)).prepT r t0,
        subs := upd (tick (writeEntry s r v spec deps)).subs r deps } r s.clock).mon r = .none := hc
    simp only [handleNotifications, if_pos hc', if_pos hc]
    rfl
  · have hc' : ¬ (m = true ∧ deps ≠ [] ∧ (notify { tick (writeEntry s r v spec deps) with
        prepT := upd (tick (writeEntry s r v spec deps)).prepT r t0,
        subs := upd (tick (writeEntry s r v spec deps)).subs r deps } r s.clock).mon r = .none) := hc
    simp only [handleNotifications, if_neg hc', if_neg hc]
    rfl

theorem inv_commitState {decl : Spec → (R → Bool) → List R} {rank : R → Nat} {r : R} {qok : Bool} {pend : List Nat} {s : State R Spec}
    (h : InvG decl rank r qok pend s) (hq : (s.queue r).isSome = true) (v : Nat) (spec : Spec)
    (hspec : SpecRanked decl rank r spec) (deps : List R)
    (hrank : ∀ d ∈ deps, rank d < rank r) (t0 : Nat) (ht0 : t0 < s.clock) (monF : R → Mon)
    (hmo : ∀ x, x ≠ r → monF x = s.mon x) (hmr : deps ≠ [] → monF r ≠ .none) :
    Inv decl rank (commitState s r v spec deps t0 monF) := by
  have hnotself : r ∉ deps := fun hmem => Nat.lt_irrefl _ (hrank r hmem)
  have hcache_r : (commitState s r v spec deps t0 monF).cache r =
      some { version := v, spec := spec, deps := deps, seen := s.gen } := by simp [commitState]
  have hcache_o : ∀ x, x ≠ r → (commitState s r v spec deps t0 monF).cache x = s.cache x := by
    intro x hx; simp [commitState, upd_other _ _ _ hx]
  have hqsome : ∀ x, ((commitState s r v spec deps t0 monF).queue x).isSome = (s.queue x).isSome := by
    intro x; simp only [commitState]; split <;> simp
  have hqnone : ∀ x, (commitState s r v spec deps t0 monF).queue x = none ↔ s.queue x = none := by
    intro x; simp only [commitState]; split <;> simp
  refine { cached := ?_, uncached := ?_, watched := ?_, fresh := ?_, prepLt := ?_, evLt := ?_,
           ranked := ?_, specOk := ?_ }
  · intro x e hx
    rw [hqsome]
    by_cases hxr : x = r
    · subst hxr
      rw [hcache_r] at hx; cases hx
      exact ⟨by simp [commitState], hq⟩
    · rw [hcache_o x hxr] at hx
      simp only [commitState, upd_other _ _ _ hxr]
      exact h.cached x e hx
  · intro x hx
    have hxr : x ≠ r := by intro e; subst e; rw [hcache_r] at hx; cases hx
    rw [hcache_o x hxr] at hx
    obtain ⟨a, b, c⟩ := h.uncached x hx
    refine ⟨by simp only [commitState, upd_other _ _ _ hxr]; exact a,
            by simp only [commitState]; rw [hmo x hxr]; exact b, ?_⟩
    rw [hqnone]
    exact c.elim id (fun ⟨e, _⟩ => absurd e hxr)
  · intro x e hx hne
    by_cases hxr : x = r
    · subst hxr
      rw [hcache_r] at hx; cases hx
      exact hmr hne
    · rw [hcache_o x hxr] at hx
      simp only [commitState]; rw [hmo x hxr]
      exact h.watched x e hx hne
  · intro x e hx d hd
    by_cases hxr : x = r
    · subst hxr
      rw [hcache_r] at hx; cases hx
      left
      have hdr : d ≠ x := fun e => hnotself (e ▸ hd)
      simp [commitState, upd_other _ _ _ hdr]
    · rw [hcache_o x hxr] at hx
      obtain ⟨hsubs, hqs⟩ := h.cached x e hx
      by_cases hdr : d = r
      · -- the dependency that just changed: `x` watches it and gets the event
        subst hdr
        right
        cases hqx : s.queue x with
        | none => rw [hqx] at hqs; cases hqs
        | some q =>
          refine ⟨s.clock :: q, ?_, s.clock, by simp, ?_⟩
          · simp only [commitState, upd_other _ _ _ hxr, hsubs, hd, if_true, hqx, Option.map]
          · simp only [commitState, upd_other _ _ _ hxr]
            exact h.prepLt x e hx
      · rcases h.fresh x e hx d hd with h1 | ⟨q, hqx, t, ht, hlt⟩ | ⟨e', _⟩
        · left; simp only [commitState, upd_other _ _ _ hdr]; exact h1
        · right
          simp only [Pending, commitState, upd_other _ _ _ hxr]
          by_cases hw : r ∈ s.subs x
          · exact ⟨s.clock :: q, by simp [hw, hqx], t, by simp [ht], hlt⟩
          · exact ⟨q, by simp [hw, hqx], t, ht, hlt⟩
        · exact absurd e' hxr
  · intro x e hx
    by_cases hxr : x = r
    · subst hxr; simp only [commitState, upd_same]; omega
    · rw [hcache_o x hxr] at hx
      simp only [commitState, upd_other _ _ _ hxr]
      exact Nat.lt_succ_of_lt (h.prepLt x e hx)
  · intro x q hqx t ht
    simp only [commitState] at hqx ⊢
    split at hqx
    · cases hsq : s.queue x with
      | none => simp [hsq] at hqx
      | some q0 =>
        simp [hsq] at hqx; subst hqx
        simp only [List.mem_cons] at ht
        rcases ht with rfl | ht
        · omega
        · exact Nat.lt_succ_of_lt (h.evLt x q0 hsq t ht)
    · exact Nat.lt_succ_of_lt (h.evLt x q hqx t ht)
  · intro x d hd
    by_cases hxr : x = r
    · subst hxr; simp only [commitState, upd_same] at hd; exact hrank d hd
    · simp only [commitState, upd_other _ _ _ hxr] at hd; exact h.ranked x d hd
  · intro x e hx
    by_cases hxr : x = r
    · subst hxr
      rw [hcache_r] at hx; cases hx
      exact hspec
    · rw [hcache_o x hxr] at hx
      exact h.specOk x e hx

/-! ### the composite actions -/

theorem offerNew_eq (decl : Spec → (R → Bool) → List R) (s : State R Spec) (r : R) (v : Nat) (spec : Spec) :
    offerNew decl s r v spec =
      handleNotifications
        (tick (writeEntry (register (tick s) r) r v spec (decl spec (cachedB (register (tick s) r)))))
        r (decl spec (cachedB (register (tick s) r))) s.clock (register (tick s) r).clock true := rfl

theorem inv_offerNew {decl : Spec → (R → Bool) → List R} {rank : R → Nat} {s : State R Spec}
    (h : Inv decl rank s) (r : R) (v : Nat) (spec : Spec) (hrank : SpecRanked decl rank r spec) :
    Inv decl rank (offerNew decl s r v spec) := by
  obtain ⟨hG, hq, -, -, -, -, -, hclk⟩ := invG_register (invG_tick (h.toG r false []))
  rw [offerNew_eq, handle_eq]
  refine inv_commitState hG hq v spec hrank _ (hrank _) s.clock ?_ _ ?_ ?_
  · have : (tick s).clock = s.clock + 1 := rfl
    omega
  · intro x hx
    split
    · exact upd_other _ _ _ hx
    · rfl
  · intro hne
    by_cases hc : (register (tick s) r).mon r = .none
    · rw [if_pos ⟨rfl, hne, hc⟩]; simp
    · rw [if_neg (fun hcc => hc hcc.2.2)]; exact hc

theorem inv_offer {decl : Spec → (R → Bool) → List R} {rank : R → Nat} {s : State R Spec}
    (h : Inv decl rank s) (r : R) (v : Nat) (spec : Spec) (hrank : SpecRanked decl rank r spec) :
    Inv decl rank (offer decl s r v spec) := by
  unfold offer
  split
  · split
    · exact h
    · exact inv_offerNew h r v spec hrank
  · exact inv_offerNew h r v spec hrank

theorem reprepare_eq {decl : Spec → (R → Bool) → List R} {s : State R Spec} {r : R} {e : Entry R Spec}
    (hc : s.cache r = some e) :
    reprepare decl s r =
      handleNotifications (tick (writeEntry (tick s) r e.version e.spec (decl e.spec (cachedB (tick s)))))
        r (decl e.spec (cachedB (tick s))) s.clock (tick s).clock false := by
  simp only [reprepare, hc]
  rfl

theorem reprepare_mon (decl : Spec → (R → Bool) → List R) (s : State R Spec) (r : R) :
    (reprepare decl s r).mon = s.mon := by
  cases hc : s.cache r with
  | none => simp [reprepare, hc]
  | some e => rw [reprepare_eq hc, handle_eq]; simp [commitState, tick]

theorem inv_reprepare {decl : Spec → (R → Bool) → List R} {rank : R → Nat} {r : R} {pend : List Nat}
    {s : State R Spec} (h : InvG decl rank r false pend s) (hmon : s.mon r ≠ .none)
    {e : Entry R Spec} (hc : s.cache r = some e) :
    Inv decl rank (reprepare decl s r) := by
  rw [reprepare_eq hc, handle_eq]
  have hG := invG_tick h
  obtain ⟨-, hq⟩ := h.cached r e hc
  have hspec := h.specOk r e hc
  refine inv_commitState hG hq e.version e.spec hspec _ (hspec _) s.clock ?_ _ ?_ ?_
  · show s.clock < s.clock + 1; omega
  · intro x _; simp
  · intro _; simp only [Bool.false_eq_true, false_and, if_false]
    exact hmon

theorem InvG.drop_pend {decl : Spec → (R → Bool) → List R} {rank : R → Nat} {r : R} {t : Nat} {rest : List Nat} {s : State R Spec}
    (h : InvG decl rank r false (t :: rest) s) (ht : t ≤ s.prepT r) : InvG decl rank r false rest s :=
  { cached := h.cached, uncached := h.uncached, watched := h.watched, prepLt := h.prepLt,
    evLt := h.evLt, ranked := h.ranked, specOk := h.specOk,
    fresh := fun x e hx d hd => by
      rcases h.fresh x e hx d hd with h1 | h1 | ⟨hxr, t', ht', hlt⟩
      · exact Or.inl h1
      · exact Or.inr (Or.inl h1)
      · simp only [List.mem_cons] at ht'
        rcases ht' with rfl | ht'
        · subst hxr; omega
        · exact Or.inr (Or.inr ⟨hxr, t', ht', hlt⟩) }

theorem InvG.pend_uncached {decl : Spec → (R → Bool) → List R} {rank : R → Nat} {r : R} {p p' : List Nat} {s : State R Spec}
    (h : InvG decl rank r false p s) (hc : s.cache r = none) : InvG decl rank r false p' s :=
  { cached := h.cached, uncached := h.uncached, watched := h.watched, prepLt := h.prepLt,
    evLt := h.evLt, ranked := h.ranked, specOk := h.specOk,
    fresh := fun x e hx d hd => by
      rcases h.fresh x e hx d hd with h1 | h1 | ⟨hxr, _⟩
      · exact Or.inl h1
      · exact Or.inr (Or.inl h1)
      · subst hxr; rw [hc] at hx; cases hx }

theorem inv_drain {decl : Spec → (R → Bool) → List R} {rank : R → Nat} {r : R} (q : List Nat) {s : State R Spec}
    (h : InvG decl rank r false q s) (hmon : s.mon r ≠ .none) : Inv decl rank (drain decl s r q) := by
  induction q generalizing s with
  | nil => exact h.toInv
  | cons t rest ih =>
    unfold drain
    split
    · rename_i ht; exact ih (h.drop_pend ht) hmon
    · cases hc : s.cache r with
      | none =>
        have : reprepare decl s r = s := by simp [reprepare, hc]
        rw [this]; exact ih (h.pend_uncached hc) hmon
      | some e =>
        exact ih ((inv_reprepare h hmon hc).toG r false rest) (by rw [reprepare_mon]; exact hmon)

theorem inv_runDrain {decl : Spec → (R → Bool) → List R} {rank : R → Nat} {s : State R Spec} (h : Inv decl rank s) (r : R)
    (hmon : s.mon r ≠ .none) : Inv decl rank (runDrain decl s r) := by
  unfold runDrain
  cases hq : s.queue r with
  | none => exact h
  | some q =>
    simp only
    refine inv_drain q ?_ hmon
    have hcached : ∃ e, s.cache r = some e := by
      cases hc : s.cache r with
      | none => have := (h.uncached r hc).2.2; rw [hq] at this; cases this
      | some e => exact ⟨e, rfl⟩
    obtain ⟨er, hcr⟩ := hcached
    exact {
      cached := fun x e hx => by
        refine ⟨(h.cached x e hx).1, ?_⟩
        by_cases hxr : x = r
        · subst hxr; simp
        · simp only [upd_other _ _ _ hxr]; exact (h.cached x e hx).2
      uncached := fun x hx => by
        obtain ⟨a, b, c⟩ := h.uncached x hx
        have hxr : x ≠ r := by intro e; subst e; rw [hcr] at hx; cases hx
        exact ⟨a, b, Or.inl (by simp only [upd_other _ _ _ hxr]; exact c)⟩
      watched := h.watched
      fresh := fun x e hx d hd => by
        rcases h.fresh x e hx d hd with h1 | ⟨q', hq', t, ht, hlt⟩
        · exact Or.inl h1
        · by_cases hxr : x = r
          · subst hxr
            rw [hq] at hq'; cases hq'
            exact Or.inr (Or.inr ⟨rfl, t, ht, hlt⟩)
          · exact Or.inr (Or.inl ⟨q', by simp only [upd_other _ _ _ hxr]; exact hq', t, ht, hlt⟩)
      prepLt := h.prepLt
      evLt := fun x q' hq' t ht => by
        by_cases hxr : x = r
        · subst hxr; simp at hq'; subst hq'; simp at ht
        · simp only [upd_other _ _ _ hxr] at hq'; exact h.evLt x q' hq' t ht
      ranked := h.ranked
      specOk := h.specOk }

theorem inv_bg {decl : Spec → (R → Bool) → List R} {rank : R → Nat} {s : State R Spec} (h : Inv decl rank s) (r : R) :
    Inv decl rank (bg decl s r) := by
  unfold bg
  split
  · exact h
  · rename_i hm
    -- a starting monitor belongs to a cached, hence registered, resource
    have hcached : ∃ e, s.cache r = some e := by
      cases hc : s.cache r with
      | none => have := (h.uncached r hc).2.1; rw [hm] at this; cases this
      | some e => exact ⟨e, rfl⟩
    obtain ⟨er, hcr⟩ := hcached
    have hq := (h.cached r er hcr).2
    cases hqr : s.queue r with
    | none => rw [hqr] at hq; cases hq
    | some q =>
      rw [register_some hqr]
      refine inv_runDrain ?_ r (by simp)
      exact {
        cached := h.cached
        uncached := fun x hx => by
          obtain ⟨a, b, c⟩ := h.uncached x hx
          have hxr : x ≠ r := by intro e; subst e; rw [hcr] at hx; cases hx
          exact ⟨a, by simp only [upd_other _ _ _ hxr]; exact b, c⟩
        watched := fun x e hx hne => by
          by_cases hxr : x = r
          · subst hxr; simp
          · simp only [upd_other _ _ _ hxr]; exact h.watched x e hx hne
        fresh := h.fresh
        prepLt := h.prepLt
        evLt := h.evLt
        ranked := h.ranked
        specOk := h.specOk }
  · rename_i hm; exact inv_runDrain h r (by rw [hm]; simp)

/-- explicit form of the state after an effective delete -/
def deleteState (s : State R Spec) (r : R) : State R Spec :=
  { cache := upd s.cache r none, gen := upd s.gen r (s.gen r + 1), subs := upd s.subs r [],
    queue := fun x => if r ∈ upd s.subs r [] x then (upd s.queue r none x).map (s.clock :: ·)
                      else upd s.queue r none x,
    mon := upd s.mon r .none, prepT := s.prepT, clock := s.clock + 1 }

theorem inv_deleteState {decl : Spec → (R → Bool) → List R} {rank : R → Nat} {s : State R Spec} (h : Inv decl rank s) (r : R) :
    Inv decl rank (deleteState s r) := by
  have hcache_o : ∀ x, x ≠ r → (deleteState s r).cache x = s.cache x := by
    intro x hx; simp [deleteState, upd_other _ _ _ hx]
  have hq_o : ∀ x, x ≠ r → (deleteState s r).queue x =
      if r ∈ s.subs x then (s.queue x).map (s.clock :: ·) else s.queue x := by
    intro x hx; simp [deleteState, upd_other _ _ _ hx]
  have hq_r : (deleteState s r).queue r = none := by simp [deleteState]
  refine { cached := ?_, uncached := ?_, watched := ?_, fresh := ?_, prepLt := ?_, evLt := ?_,
           ranked := ?_, specOk := ?_ }
  · intro x e hx
    have hxr : x ≠ r := by intro e'; subst e'; simp [deleteState] at hx
    rw [hcache_o x hxr] at hx
    obtain ⟨a, b⟩ := h.cached x e hx
    refine ⟨by simp only [deleteState, upd_other _ _ _ hxr]; exact a, ?_⟩
    rw [hq_o x hxr]; split <;> simp [b]
  · intro x hx
    by_cases hxr : x = r
    · subst hxr; exact ⟨by simp [deleteState], by simp [deleteState], hq_r⟩
    · rw [hcache_o x hxr] at hx
      obtain ⟨a, b, c⟩ := h.uncached x hx
      refine ⟨by simp only [deleteState, upd_other _ _ _ hxr]; exact a,
              by simp only [deleteState, upd_other _ _ _ hxr]; exact b, ?_⟩
      rw [hq_o x hxr]; split <;> simp [c]
  · intro x e hx hne
    have hxr : x ≠ r := by intro e'; subst e'; simp [deleteState] at hx
    rw [hcache_o x hxr] at hx
    simp only [deleteState, upd_other _ _ _ hxr]
    exact h.watched x e hx hne
  · intro x e hx d hd
    have hxr : x ≠ r := by intro e'; subst e'; simp [deleteState] at hx
    rw [hcache_o x hxr] at hx
    obtain ⟨hsubs, hqs⟩ := h.cached x e hx
    by_cases hdr : d = r
    · subst hdr
      right
      cases hqx : s.queue x with
      | none => rw [hqx] at hqs; cases hqs
      | some q =>
        refine ⟨s.clock :: q, ?_, s.clock, by simp, ?_⟩
        · rw [hq_o x hxr, hsubs, if_pos hd, hqx]; rfl
        · exact h.prepLt x e hx
    · rcases h.fresh x e hx d hd with h1 | ⟨q, hqx, t, ht, hlt⟩
      · left; simp only [deleteState, upd_other _ _ _ hdr]; exact h1
      · right
        unfold Pending
        rw [hq_o x hxr]
        by_cases hw : r ∈ s.subs x
        · exact ⟨s.clock :: q, by simp [hw, hqx], t, by simp [ht], hlt⟩
        · exact ⟨q, by simp [hw, hqx], t, ht, hlt⟩
  · intro x e hx
    have hxr : x ≠ r := by intro e'; subst e'; simp [deleteState] at hx
    rw [hcache_o x hxr] at hx
    exact Nat.lt_succ_of_lt (h.prepLt x e hx)
  · intro x q hqx t ht
    by_cases hxr : x = r
    · subst hxr; rw [hq_r] at hqx; cases hqx
    · rw [hq_o x hxr] at hqx
      show t < s.clock + 1
      split at hqx
      · cases hsq : s.queue x with
        | none => simp [hsq] at hqx
        | some q0 =>
          simp [hsq] at hqx; subst hqx
          simp only [List.mem_cons] at ht
          rcases ht with rfl | ht
          · omega
          · exact Nat.lt_succ_of_lt (h.evLt x q0 hsq t ht)
      · exact Nat.lt_succ_of_lt (h.evLt x q hqx t ht)
  · intro x d hd
    by_cases hxr : x = r
    · subst hxr; simp [deleteState] at hd
    · simp only [deleteState, upd_other _ _ _ hxr] at hd; exact h.ranked x d hd
  · intro x e hx
    have hxr : x ≠ r := by intro e'; subst e'; simp [deleteState] at hx
    rw [hcache_o x hxr] at hx
    exact h.specOk x e hx

theorem delete_eq {s : State R Spec} {r : R} {e : Entry R Spec} {ver : Option Nat} (hc : s.cache r = some e)
    (hv : staleVersion ver e.version = false) : delete s r ver = deleteState s r := by
  simp only [delete, hc, hv]
  rfl

theorem inv_delete {decl : Spec → (R → Bool) → List R} {rank : R → Nat} {s : State R Spec} (h : Inv decl rank s) (r : R) (ver : Option Nat) :
    Inv decl rank (delete s r ver) := by
  cases hc : s.cache r with
  | none => simp only [delete, hc]; exact h
  | some er =>
    cases hv : staleVersion ver er.version with
    | true => simp only [delete, hc, hv]; exact h
    | false => rw [delete_eq hc hv]; exact inv_deleteState h r

theorem inv_step {decl : Spec → (R → Bool) → List R} {rank : R → Nat} {s : State R Spec} (h : Inv decl rank s)
    (a : Action R Spec) (ha : Ranked decl rank a) : Inv decl rank (step decl s a) := by
  cases a with
  | offer r v spec => exact inv_offer h r v spec ha
  | delete r ver => exact inv_delete h r ver
  | bg r => exact inv_bg h r

theorem inv_run {decl : Spec → (R → Bool) → List R} {rank : R → Nat} (acts : List (Action R Spec)) {s : State R Spec}
    (h : Inv decl rank s) (ha : ∀ a ∈ acts, Ranked decl rank a) : Inv decl rank (run decl s acts) := by
  induction acts generalizing s with
  | nil => exact h
  | cons a rest ih =>
    unfold run; simp only [List.foldl_cons]
    exact ih (inv_step h a (ha a (by simp))) (fun b hb => ha b (by simp [hb]))

end Koreo.HotReload
