/-
  Helper lemmas for C12 (overlay compile/apply, deep merge, deep overlay).
  Property theorems live in `Props/C12.lean`.  Core Lean only.
-/
import Koreo.Overlay
namespace Koreo.Overlay
open Koreo JVal
variable {ε : Type}

theorem lookup_insert_self (k : String) (v : JVal) : ∀ l : Fields, JVal.lookup k (JVal.insert k v l) = some v
  | [] => by simp [JVal.insert, JVal.lookup]
  | (k', v') :: rest => by
    by_cases h : k' = k
    · simp [JVal.insert, JVal.lookup, h]
    · simp [JVal.insert, JVal.lookup, h, lookup_insert_self k v rest]

theorem lookup_insert_ne {k k' : String} (v : JVal) (h : k' ≠ k) :
    ∀ l : Fields, JVal.lookup k' (JVal.insert k v l) = JVal.lookup k' l
  | [] => by simp [JVal.insert, JVal.lookup, Ne.symm h]
  | (k'', v'') :: rest => by
    by_cases h1 : k'' = k
    · subst h1
      simp [JVal.insert, JVal.lookup, Ne.symm h]
    · by_cases h2 : k'' = k'
      · subst h2
        simp [JVal.insert, JVal.lookup, h1]
      · simp [JVal.insert, JVal.lookup, h1, h2, lookup_insert_ne v h rest]

theorem insert_of_lookup {k : String} {v : JVal} :
    ∀ {l : Fields}, JVal.lookup k l = some v → JVal.insert k v l = l
  | [], h => by simp [JVal.lookup] at h
  | (k', v') :: rest, h => by
    by_cases h1 : k' = k
    · simp [JVal.lookup, h1] at h
      simp [JVal.insert, h1, h]
    · simp [JVal.lookup, h1] at h
      simp [JVal.insert, h1, insert_of_lookup h]

mutual
theorem indexV_values : ∀ (s : OSpec ε) (b : Nat), (indexV s b).2 = leavesV s
  | .leaf e, b => by simp [indexV, leavesV]
  | .node kvs, b => by simp [indexV, leavesV, indexO_values kvs b]
theorem indexO_values : ∀ (kvs : List (String × OSpec ε)) (b : Nat), (indexO kvs b).2 = leavesO kvs
  | [], b => by simp [indexO, leavesO]
  | (k, s) :: rest, b => by
    simp [indexO, leavesO, indexV_values s b, indexO_values rest]
end

mutual
theorem positionsV_index : ∀ (s : OSpec ε) (b : Nat),
    positionsV (indexV s b).1 = List.range' b (leavesV s).length
  | .leaf e, b => by simp [indexV, leavesV, positionsV]
  | .node kvs, b => by simp [indexV, leavesV, positionsV, positionsO_index kvs b]
theorem positionsO_index : ∀ (kvs : List (String × OSpec ε)) (b : Nat),
    positionsO (indexO kvs b).1 = List.range' b (leavesO kvs).length
  | [], b => by simp [indexO, leavesO, positionsO]
  | (k, s) :: rest, b => by
    simp only [indexO, leavesO, positionsO, positionsV_index s b, indexV_values,
      positionsO_index rest, List.length_append]
    rw [List.range'_append_1] 
end

theorem getD_mid (pre post : List JVal) (x : JVal) (d : JVal) :
    (pre ++ x :: post).getD pre.length d = x := by
  simp [List.getD]

/-- lookups of keys not written by the remaining index entries are untouched -/
theorem keysO_mapO {α β : Type} (f : α → β) : ∀ kvs : List (String × OSpec α), keysO (mapO f kvs) = keysO kvs
  | [] => rfl
  | (k, s) :: rest => by simp [mapO, keysO] at *; exact keysO_mapO f rest

mutual
theorem applyV_eq_mergeV (f : ε → JVal) : ∀ (s : OSpec ε), s.WF → ∀ (bv : Option JVal) (pre post : List JVal),
    applyV (pre ++ (leavesV s).map f ++ post) bv (indexV s pre.length).1 = mergeV bv (mapV f s)
  | .leaf e, _, bv, pre, post => by
    simp [leavesV, indexV, applyV, mapV, mergeV, List.getD]
  | .node kvs, h, bv, pre, post => by
    simp only [leavesV, indexV, applyV, mapV, mergeV]
    congr 1
    exact applyLoop_eq_mergeO f kvs h (fieldsOf bv) pre post (fieldsOf bv) (fun _ _ => rfl)
theorem applyLoop_eq_mergeO (f : ε → JVal) : ∀ (kvs : List (String × OSpec ε)), WFO kvs →
    ∀ (base : Fields) (pre post : List JVal) (acc : Fields),
    (∀ k ∈ keysO kvs, JVal.lookup k acc = JVal.lookup k base) →
    applyLoop (pre ++ (leavesO kvs).map f ++ post) base (indexO kvs pre.length).1 acc
      = mergeO acc (mapO f kvs)
  | [], _, base, pre, post, acc, _ => by simp [indexO, applyLoop, mapO, mergeO]
  | (k, s) :: rest, h, base, pre, post, acc, hacc => by
    obtain ⟨hk, hs, hrest⟩ := h
    simp only [indexO, leavesO, applyLoop, mapO, mergeO, indexV_values]
    have e1 := applyV_eq_mergeV f s hs (JVal.lookup k base) pre ((leavesO rest).map f ++ post)
    have hkacc : JVal.lookup k acc = JVal.lookup k base := hacc k (by simp [keysO])
    simp only [List.map_append, List.append_assoc] at e1 ⊢
    rw [e1, hkacc]
    have e2 := applyLoop_eq_mergeO f rest hrest base (pre ++ (leavesV s).map f) post
      (JVal.insert k (mergeV (JVal.lookup k base) (mapV f s)) acc)
      (by
        intro k' hk'
        have hne : k' ≠ k := by intro e; subst e; exact hk hk'
        rw [lookup_insert_ne _ hne]
        exact hacc k' (by simp [keysO] at hk' ⊢; exact Or.inr hk'))
    simp only [List.length_append, List.length_map, List.append_assoc] at e2
    exact e2
end

theorem specLookup_none_of_not_mem {k : String} : ∀ {kvs : List (String × OSpec ε)},
    k ∉ keysO kvs → specLookup k kvs = none
  | [], _ => rfl
  | (k', s) :: rest, h => by
    simp [keysO] at h
    have h1 : ¬ k' = k := fun e => h.1 e.symm
    simp [specLookup, h1]
    exact specLookup_none_of_not_mem (by simpa [keysO] using h.2)

/-- key by key: a key the overlay does not write keeps its value; a key it writes holds the merge
    of what was there with what is written -/
theorem mergeO_lookup (k : String) : ∀ (kvs : List (String × OSpec JVal)), WFO kvs → ∀ (acc : Fields),
    JVal.lookup k (mergeO acc kvs) =
      match specLookup k kvs with
      | none => JVal.lookup k acc
      | some s => some (mergeV (JVal.lookup k acc) s)
  | [], _, acc => by simp [mergeO, specLookup]
  | (k', s) :: rest, h, acc => by
    obtain ⟨hk, _, hrest⟩ := h
    simp only [mergeO, specLookup]
    rw [mergeO_lookup k rest hrest]
    by_cases e : k' = k
    · subst e
      simp [specLookup_none_of_not_mem hk, lookup_insert_self]
    · simp only [e, if_false]
      rw [lookup_insert_ne _ (Ne.symm e)]

theorem keys_insert (k : String) (v : JVal) : ∀ l : Fields,
    JVal.keys (JVal.insert k v l) = if k ∈ JVal.keys l then JVal.keys l else JVal.keys l ++ [k]
  | [] => by simp [JVal.insert, JVal.keys]
  | (k', v') :: rest => by
    have ih := keys_insert k v rest
    simp only [JVal.keys] at ih
    by_cases e : k' = k
    · simp [JVal.insert, JVal.keys, e]
    · have e' : ¬ k = k' := fun h => e h.symm
      simp only [JVal.insert, JVal.keys, e, if_false, List.map_cons, List.mem_cons, e', false_or, ih]
      split <;> simp [*]

/-- existing keys keep their place, new keys are appended in the overlay's order -/
theorem mergeO_keys : ∀ (kvs : List (String × OSpec JVal)), WFO kvs → ∀ (acc : Fields),
    JVal.keys (mergeO acc kvs) = JVal.keys acc ++ (keysO kvs).filter (fun k => !(JVal.keys acc).contains k)
  | [], _, acc => by simp [mergeO, keysO]
  | (k, s) :: rest, h, acc => by
    obtain ⟨hk, _, hrest⟩ := h
    simp only [mergeO]
    rw [mergeO_keys rest hrest, keys_insert]
    by_cases hm : k ∈ JVal.keys acc
    · simp [hm, keysO]
    · simp only [hm, if_false, keysO, List.map_cons, List.filter_cons, List.contains_eq_mem,
        decide_false, Bool.not_false, if_true, List.append_assoc, List.cons_append, List.nil_append]
      congr 2
      apply List.filter_congr
      intro k' hk'
      have : k' ≠ k := by
        intro e; subst e; exact hk (by simpa [keysO] using hk')
      simp [this]


theorem lookup_none_of_not_mem {k : String} : ∀ {l : Fields}, k ∉ JVal.keys l → JVal.lookup k l = none
  | [], _ => rfl
  | (k', v) :: rest, h => by
    simp [JVal.keys] at h
    have h1 : ¬ k' = k := fun e => h.1 e.symm
    simp [JVal.lookup, h1]
    exact lookup_none_of_not_mem (by simpa [JVal.keys] using h.2)

/-- field by field: untouched fields keep their value, written fields hold `dovV old new` -/
theorem dovO_lookup (k : String) : ∀ (ov : Fields), HDO ov → ∀ (acc : Fields),
    JVal.lookup k (dovO acc ov) =
      match JVal.lookup k ov with
      | none => JVal.lookup k acc
      | some o => some (dovV (JVal.lookup k acc) o)
  | [], _, acc => by simp [dovO, JVal.lookup]
  | (k', o) :: rest, h, acc => by
    obtain ⟨hk, _, hrest⟩ := h
    simp only [dovO, JVal.lookup]
    rw [dovO_lookup k rest hrest]
    by_cases e : k' = k
    · subst e
      simp [lookup_none_of_not_mem hk, lookup_insert_self]
    · simp only [e, if_false]
      rw [lookup_insert_ne _ (Ne.symm e)]

/-- an overlay whose every field is already in place (as a fixed point) changes nothing -/
theorem dovO_fixed : ∀ (ov acc : Fields),
    (∀ k o, (k, o) ∈ ov → ∃ x, JVal.lookup k acc = some x ∧ dovV (some x) o = x) → dovO acc ov = acc
  | [], acc, _ => rfl
  | (k, o) :: rest, acc, h => by
    obtain ⟨x, hx, hfix⟩ := h k o (by simp)
    simp only [dovO]
    rw [hx, hfix, insert_of_lookup hx]
    exact dovO_fixed rest acc (fun k' o' hm => h k' o' (by simp [hm]))

theorem lookup_of_mem_hdo {k : String} {o : JVal} : ∀ {ov : Fields}, HDO ov → (k, o) ∈ ov →
    JVal.lookup k ov = some o
  | [], _, h => by simp at h
  | (k', o') :: rest, hd, h => by
    obtain ⟨hk, _, hrest⟩ := hd
    simp only [List.mem_cons, Prod.mk.injEq] at h
    rcases h with ⟨e1, e2⟩ | h
    · subst e1; subst e2; simp [JVal.lookup]
    · have : k' ≠ k := by
        intro e; subst e
        exact hk (by simp [JVal.keys]; exact ⟨o, h⟩)
      simp [JVal.lookup, this]
      exact lookup_of_mem_hdo hrest h

/-- what idempotence needs of one overlay value -/
def Idem (o : JVal) : Prop :=
  (∀ r, dovV (some (dovV r o)) o = dovV r o) ∧ dovV (some o) o = o

theorem dovO_self {ov : Fields} (hd : HDO ov) (hm : ∀ k o, (k, o) ∈ ov → Idem o) : dovO ov ov = ov :=
  dovO_fixed ov ov (fun k o h => ⟨o, lookup_of_mem_hdo hd h, (hm k o h).2⟩)

theorem dovO_idem_of {ov : Fields} (hd : HDO ov) (hm : ∀ k o, (k, o) ∈ ov → Idem o) (acc : Fields) :
    dovO (dovO acc ov) ov = dovO acc ov := by
  apply dovO_fixed
  intro k o h
  refine ⟨dovV (JVal.lookup k acc) o, ?_, (hm k o h).1 _⟩
  rw [dovO_lookup k ov hd, lookup_of_mem_hdo hd h]

theorem idem_obj {ov : Fields} (hd : HDO ov) (hm : ∀ k o, (k, o) ∈ ov → Idem o) : Idem (.obj ov) := by
  constructor
  · intro r
    match r with
    | some (.obj rkvs) => simp only [dovV]; rw [dovO_idem_of hd hm]
    | none => simp only [dovV]; rw [dovO_self hd hm]
    | some .null | some (.bool _) | some (.int _) | some (.flt _) | some (.str _) | some (.arr _) =>
      simp only [dovV]; rw [dovO_self hd hm]
  · simp only [dovV]; rw [dovO_self hd hm]

mutual
theorem idem_of_hd : ∀ (o : JVal), HD o → Idem o
  | .obj ov, h => idem_obj h (idem_members ov h)
  | .null, _ | .bool _, _ | .int _, _ | .flt _, _ | .str _, _ | .arr _, _ => by
    constructor <;> (intros; simp [dovV])
theorem idem_members : ∀ (ov : Fields), HDO ov → ∀ k o, (k, o) ∈ ov → Idem o
  | [], _, _, _, h => by simp at h
  | (k', o') :: rest, hd, k, o, h => by
    obtain ⟨_, ho, hrest⟩ := hd
    simp only [List.mem_cons, Prod.mk.injEq] at h
    rcases h with ⟨_, e2⟩ | h
    · subst e2; exact idem_of_hd o ho
    · exact idem_members rest hrest k o h
end

/-- applying the same (duplicate-free) overlay twice is applying it once -/
theorem dovO_idem {ov : Fields} (hd : HDO ov) (acc : Fields) : dovO (dovO acc ov) ov = dovO acc ov :=
  dovO_idem_of hd (idem_members ov hd) acc

theorem forcedOverlay_hdo (a k n : String) (ns : Option String) : HDO (forcedOverlay a k n ns) := by
  cases ns <;> simp [forcedOverlay, HDO, HD, JVal.keys]

theorem keysO_ofFields : ∀ (kvs : Fields), keysO (OSpec.ofFields kvs) = JVal.keys kvs
  | [] => rfl
  | (k, v) :: rest => by
    have := keysO_ofFields rest
    simp [OSpec.ofFields, keysO, JVal.keys] at this ⊢
    exact this

mutual
theorem ofJVal_wf : ∀ (v : JVal), HD v → (OSpec.ofJVal v).WF
  | .obj [], _ => by simp [OSpec.ofJVal, OSpec.WF]
  | .obj ((k, v) :: rest), h => by
    obtain ⟨hk, hv, hrest⟩ := h
    simp only [OSpec.ofJVal, OSpec.WF, WFO]
    refine ⟨?_, ofJVal_wf v hv, ofFields_wf rest hrest⟩
    rw [keysO_ofFields]; exact hk
  | .null, _ | .bool _, _ | .int _, _ | .flt _, _ | .str _, _ | .arr _, _ => by simp [OSpec.ofJVal, OSpec.WF]
theorem ofFields_wf : ∀ (kvs : Fields), HDO kvs → WFO (OSpec.ofFields kvs)
  | [], _ => by simp [OSpec.ofFields, WFO]
  | (k, v) :: rest, h => by
    obtain ⟨hk, hv, hrest⟩ := h
    simp only [OSpec.ofFields, WFO]
    refine ⟨?_, ofJVal_wf v hv, ofFields_wf rest hrest⟩
    rw [keysO_ofFields]; exact hk
end


theorem applier_eq_mergeO (f : ε → JVal) (spec : List (String × OSpec ε)) (h : WFO spec) (base : Fields) :
    applier base (indexO spec 0).1 ((indexO spec 0).2.map f) = mergeO base (mapO f spec) := by
  have := applyLoop_eq_mergeO f spec h base [] [] base (fun _ _ => rfl)
  simpa [applier, indexO_values] using this

theorem evalOverlay_eq (ev : Env → ε → JVal) (env : Env) (base : Fields)
    (spec : List (String × OSpec ε)) (h : WFO spec) :
    evalOverlay ev env base spec = mergeO base (evalTree ev env base spec) := by
  simp only [evalOverlay, evalTree]
  exact applier_eq_mergeO _ spec h base

theorem stepApply_eq (ev : Env → ε → JVal) (env : Env) (cur : Fields) (s : Step ε) (h : WFO s.spec) :
    stepApply ev env cur s = mergeStep ev env cur s := by
  cases s with
  | inline sk spec => exact evalOverlay_eq ev env cur spec h
  | vfRef sk inputs vf =>
    simp only [stepApply, mergeStep, vfReturn, stepEnv, Step.spec, Option.getD_some]
    exact evalOverlay_eq ev _ cur vf.ret h

theorem overlaysLoop_eq (ev : Env → ε → JVal) (env : Env) : ∀ (steps : List (Step ε)),
    (∀ s ∈ steps, WFO s.spec) → ∀ (cur : Fields),
    overlaysLoop ev env steps cur = (active ev env steps).foldl (mergeStep ev env) cur
  | [], _, cur => rfl
  | s :: rest, h, cur => by
    have hs := h s (by simp)
    have hr : ∀ s ∈ rest, WFO s.spec := fun s' hm => h s' (by simp [hm])
    simp only [overlaysLoop, active, List.filter_cons]
    by_cases hk : skipped ev env s = true
    · simp only [hk, if_true, Bool.not_true, Bool.false_eq_true, if_false]
      exact overlaysLoop_eq ev env rest hr cur
    · have hk' : skipped ev env s = false := by simpa using hk
      simp only [hk', Bool.false_eq_true, if_false, Bool.not_false, if_true, List.foldl_cons]
      rw [stepApply_eq ev env cur s hs]
      exact overlaysLoop_eq ev env rest hr _

/-! ### the loop with the PermFail exit -/

theorem skipped_eq_of_decision (ev : Env → ε → JVal) (env : Env) (s : Step ε) (b : Bool)
    (h : skipDecision ev env s = some b) : skipped ev env s = b := by
  unfold skipDecision at h
  unfold skipped
  cases hs : s.skipIf with
  | none => simp [hs] at h ⊢; exact h
  | some e =>
    simp only [hs] at h ⊢
    cases hv : ev env e <;> simp [hv] at h ⊢
    exact h

theorem overlaysLoopE_decided (ev : Env → ε → JVal) (env : Env) : ∀ (steps : List (Step ε)),
    (∀ s ∈ steps, skipDecision ev env s ≠ none) → ∀ cur,
    overlaysLoopE ev env steps cur = some (overlaysLoop ev env steps cur)
  | [], _, cur => rfl
  | s :: rest, h, cur => by
    have hs := h s (by simp)
    have hr : ∀ s' ∈ rest, skipDecision ev env s' ≠ none := fun s' hm => h s' (by simp [hm])
    simp only [overlaysLoopE, overlaysLoop]
    cases hd : skipDecision ev env s with
    | none => exact absurd hd hs
    | some b =>
      have := skipped_eq_of_decision ev env s b hd
      cases b
      · simp only [this, Bool.false_eq_true, if_false]; exact overlaysLoopE_decided ev env rest hr _
      · simp only [this, if_true]; exact overlaysLoopE_decided ev env rest hr _

theorem overlaysLoopE_undecided (ev : Env → ε → JVal) (env : Env) : ∀ (steps : List (Step ε)),
    (∃ s ∈ steps, skipDecision ev env s = none) → ∀ cur, overlaysLoopE ev env steps cur = none
  | [], h, _ => by obtain ⟨s, hm, _⟩ := h; simp at hm
  | s :: rest, h, cur => by
    simp only [overlaysLoopE]
    cases hd : skipDecision ev env s with
    | none => rfl
    | some b =>
      have hr : ∃ s' ∈ rest, skipDecision ev env s' = none := by
        obtain ⟨s', hm, hn⟩ := h
        simp only [List.mem_cons] at hm
        rcases hm with e | hm
        · subst e; rw [hd] at hn; cases hn
        · exact ⟨s', hm, hn⟩
      cases b <;> exact overlaysLoopE_undecided ev env rest hr _

/-! ### step order (skipIf before inputs) and availability -/

theorem overlaysLoopF_of_inputsOk (ev : Env → ε → JVal) (ok : Env → ε → Bool) (env : Env) :
    ∀ (steps : List (Step ε)),
    (∀ s ∈ steps, skipDecision ev env s = some false → inputsOk ok env s = true) → ∀ cur,
    overlaysLoopF ev ok env steps cur = overlaysLoopE ev env steps cur
  | [], _, _ => rfl
  | s :: rest, h, cur => by
    have hr : ∀ s' ∈ rest, skipDecision ev env s' = some false → inputsOk ok env s' = true :=
      fun s' hm => h s' (by simp [hm])
    simp only [overlaysLoopF, overlaysLoopE]
    cases hd : skipDecision ev env s with
    | none => rfl
    | some b =>
      cases b
      · simp only [h s (by simp) hd, if_true]; exact overlaysLoopF_of_inputsOk ev ok env rest hr _
      · exact overlaysLoopF_of_inputsOk ev ok env rest hr _

theorem overlaysLoopF_congr (ev : Env → ε → JVal) (ok ok' : Env → ε → Bool) (env : Env) :
    ∀ (steps : List (Step ε)),
    (∀ s ∈ steps, skipDecision ev env s = some false → inputsOk ok env s = inputsOk ok' env s) → ∀ cur,
    overlaysLoopF ev ok env steps cur = overlaysLoopF ev ok' env steps cur
  | [], _, _ => rfl
  | s :: rest, h, cur => by
    have hr : ∀ s' ∈ rest, skipDecision ev env s' = some false → inputsOk ok env s' = inputsOk ok' env s' :=
      fun s' hm => h s' (by simp [hm])
    simp only [overlaysLoopF]
    cases hd : skipDecision ev env s with
    | none => rfl
    | some b =>
      cases b
      · simp only [h s (by simp) hd]
        split
        · exact overlaysLoopF_congr ev ok ok' env rest hr _
        · rfl
      · exact overlaysLoopF_congr ev ok ok' env rest hr _

theorem overlaysLoopF_drop_skipped (ev : Env → ε → JVal) (ok : Env → ε → Bool) (env : Env) (s : Step ε)
    (hs : skipDecision ev env s = some true) (post : List (Step ε)) :
    ∀ (pre : List (Step ε)) (cur : Fields),
    overlaysLoopF ev ok env (pre ++ s :: post) cur = overlaysLoopF ev ok env (pre ++ post) cur
  | [], cur => by simp [overlaysLoopF, hs]
  | p :: pre, cur => by
    simp only [List.cons_append, overlaysLoopF]
    cases skipDecision ev env p with
    | none => rfl
    | some b =>
      cases b
      · simp only
        split
        · exact overlaysLoopF_drop_skipped ev ok env s hs post pre _
        · rfl
      · exact overlaysLoopF_drop_skipped ev ok env s hs post pre _

theorem overlaysLoopF_failing_inputs (ev : Env → ε → JVal) (ok : Env → ε → Bool) (env : Env) :
    ∀ (steps : List (Step ε)),
    (∃ s ∈ steps, skipDecision ev env s = some false ∧ inputsOk ok env s = false) → ∀ cur,
    overlaysLoopF ev ok env steps cur = none
  | [], h, _ => by obtain ⟨s, hm, _⟩ := h; simp at hm
  | s :: rest, h, cur => by
    simp only [overlaysLoopF]
    cases hd : skipDecision ev env s with
    | none => rfl
    | some b =>
      by_cases hfail : b = false ∧ inputsOk ok env s = false
      · obtain ⟨hb, hi⟩ := hfail
        subst hb; simp [hi]
      · have hr : ∃ s' ∈ rest, skipDecision ev env s' = some false ∧ inputsOk ok env s' = false := by
          obtain ⟨s', hm, hd', hi'⟩ := h
          simp only [List.mem_cons] at hm
          rcases hm with e | hm
          · subst e
            rw [hd] at hd'
            injection hd' with hb
            exact absurd ⟨hb, hi'⟩ hfail
          · exact ⟨s', hm, hd', hi'⟩
        cases b
        · simp only
          split
          · exact overlaysLoopF_failing_inputs ev ok env rest hr _
          · rfl
        · exact overlaysLoopF_failing_inputs ev ok env rest hr _

theorem allAvailable_none {α : Type} : ∀ (l : List (Option α)), none ∈ l → allAvailable l = none
  | [], h => by simp at h
  | none :: _, _ => rfl
  | some a :: rest, h => by
    have : none ∈ rest := by simpa using h
    simp [allAvailable, allAvailable_none rest this]

theorem allAvailable_some {α : Type} : ∀ (l : List (Option α)) (xs : List α),
    allAvailable l = some xs → l = xs.map some
  | [], xs, h => by simp [allAvailable] at h; subst h; rfl
  | none :: _, _, h => by simp [allAvailable] at h
  | some a :: rest, xs, h => by
    simp only [allAvailable, Option.map_eq_some_iff] at h
    obtain ⟨ys, hy, rfl⟩ := h
    simp [allAvailable_some rest ys hy]
end Koreo.Overlay
