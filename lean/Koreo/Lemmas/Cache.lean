/-
  Helper lemmas for C15 (`Koreo/Props/C15.lean`): the association list behaves like a map.
-/
import Koreo.Cache

namespace Koreo.Cache
variable {β : Type}

@[simp] theorem find_set (m : List (Key × β)) (k k' : Key) (v : β) :
    find? (set m k v) k' = if k = k' then some v else find? m k' := by
  induction m with
  | nil => simp [set, find?]
  | cons kv m ih =>
    obtain ⟨k0, v0⟩ := kv
    by_cases h : k0 = k
    · subst h; by_cases h' : k0 = k' <;> simp [set, find?, h']
    · by_cases h' : k = k'
      · subst h'; simp [set, find?, h, ih]
      · simp only [set, h, if_false, find?, ih, h']

@[simp] theorem find_del (m : List (Key × β)) (k k' : Key) :
    find? (del m k) k' = if k = k' then none else find? m k' := by
  induction m with
  | nil => simp [del, find?]
  | cons kv m ih =>
    obtain ⟨k0, v0⟩ := kv
    by_cases h : k0 = k
    · subst h
      by_cases h' : k0 = k'
      · subst h'; simpa [del, find?] using ih
      · simp [del, find?, h', ih]
    · by_cases h' : k = k'
      · subst h'; simp [del, find?, h, ih]
      · simp only [del, h, if_false, find?, ih, h']

theorem validMeta_iff (k : Key) (version : Option String) :
    validMeta k version = true ↔ k.2 ≠ "" ∧ ∃ v, version = some v ∧ v ≠ "" := by
  cases version with
  | none => simp [validMeta, truthy]
  | some v => simp [validMeta, truthy]

variable {σ ρ : Type} (prep : Nat → String → σ → PrepResult ρ)

/-- a quiet operation keeps the entry of `k` -/
theorem quiet_step (s : State σ ρ) (k : Key) (v : String) (e : Entry σ ρ) (op : Op σ)
    (hq : Quiet k v op) (hc : find? s.cache k = some e) (hver : e.version = v) :
    find? (step prep s op).1.cache k = some e := by
  cases op with
  | offer k' version spec sys =>
    simp only [step]
    split
    · rename_i hm
      obtain ⟨hk', w, hw, hw'⟩ := (validMeta_iff k' version).mp hm
      subst hw
      rcases hq with hne | heq | hbad
      · cases hf : find? s.cache k' with
        | none => simp [hne, hc]
        | some e' =>
          simp only []
          split
          · exact hc
          · simp [hne, hc]
      · by_cases hkk : k' = k
        · subst hkk
          cases heq
          simp [hc, hver]
        · cases hf : find? s.cache k' with
          | none => simp [hkk, hc]
          | some e' =>
            simp only []
            split
            · exact hc
            · simp [hkk, hc]
      · rw [hm] at hbad; cases hbad
    · exact hc
  | delete k' version =>
    simp only [step]
    cases hf : find? s.cache k' with
    | none => exact hc
    | some e' =>
      simp only []
      rcases hq with hne | ⟨w, hw, hw1, hw2⟩
      · split
        · exact hc
        · simp [hne, hc]
      · subst hw
        by_cases hkk : k' = k
        · subst hkk
          rw [hc] at hf; cases hf
          simp [truthy, hw1, hver, hw2, hc]
        · split
          · exact hc
          · simp [hkk, hc]
  | lookup k' => exact hc
  | systemData k' => exact hc

end Koreo.Cache
