/-
  Helper lemmas for C15 (`Koreo/Props/C15.lean`): the association list behaves like a map.
-/
import Koreo.Cache

namespace Koreo.Cache
variable {β : Type}

@[simp] theorem find_set (m : List (Key × β)) (k k' : Key) (v : β) :
    find? (set m k v) k' = if k = k' then some v else find? m k' := by
  induction m with
  | nil => simp [set, find?]
  | cons kv m ih =>
    obtain ⟨k0, v0⟩ := kv
    by_cases h : k0 = k
    · subst h; by_cases h' : k0 = k' <;> simp [set, find?, h']
    · by_cases h' : k = k'
      · subst h'; simp [set, find?, h, ih]
      · simp only [set, h, if_false, find?, ih, h']

@[simp] theorem find_del (m : List (Key × β)) (k k' : Key) :
    find? (del m k) k' = if k = k' then none else find? m k' := by
  induction m with
  | nil => simp [del, find?]
  | cons kv m ih =>
    obtain ⟨k0, v0⟩ := kv
    by_cases h : k0 = k
    · subst h
      by_cases h' : k0 = k'
      · subst h'; simpa [del, find?] using ih
      · simp [del, find?, h', ih]
    · by_cases h' : k = k'
      · subst h'; simp [del, find?, h, ih]
      · simp only [del, h, if_false, find?, ih, h']

theorem validMeta_iff (k : Key) (version : Option String) :
    validMeta k version = true ↔ k.2 ≠ "" ∧ ∃ v, version = some v ∧ v ≠ "" := by
  cases version with
  | none => simp [validMeta, truthy]
  | some v => simp [validMeta, truthy]

end Koreo.Cache
