/-
  Helper lemmas for C15 (`Koreo/Props/C15.lean`): the association list behaves like a map.
-/
import Koreo.Cache

namespace Koreo.Cache
variable {β : Type}

@[simp] theorem find_set (m : List (Key × β)) (k k' : Key) (v : β) :
    find? (set m k v) k' = if k = k' then some v else find? m k' := by
  induction m with
  | nil => simp [set, find?]
  | cons kv m ih =>
    obtain ⟨k0, v0⟩ := kv
    by_cases h : k0 = k
    · subst h; by_cases h' : k0 = k' <;> simp [set, find?, h']
    · by_cases h' : k = k'
      · subst h'; simp [set, find?, h, ih]
      · simp only [set, h, if_false, find?, ih, h']

@[simp] theorem find_del (m : List (Key × β)) (k k' : Key) :
    find? (del m k) k' = if k = k' then none else find? m k' := by
  induction m with
  | nil => simp [del, find?]
  | cons kv m ih =>
    obtain ⟨k0, v0⟩ := kv
    by_cases h : k0 = k
    · subst h
      by_cases h' : k0 = k'
      · subst h'; simpa [del, find?] using ih
      · simp [del, find?, h', ih]
    · by_cases h' : k = k'
      · subst h'; simp [del, find?, h, ih]
      · simp only [del, h, if_false, find?, ih, h']

theorem validMeta_iff (k : Key) (version : Option String) :
    validMeta k version = true ↔ k.2 ≠ "" ∧ ∃ v, version = some v ∧ v ≠ "" := by
  cases version with
  | none => simp [validMeta, truthy]
  | some v => simp [validMeta, truthy]

variable {σ ρ : Type} (prep : Nat → String → σ → PrepResult ρ)

/-! ## the three ways an offer can go -/

theorem step_offer_bad (s : State σ ρ) (k : Key) (version : Option String) (spec : σ) (sys : Option Nat)
    (c : Bool) (h : validMeta k version = false) :
    step prep s (.offer k version spec sys c) = (s, .typeError) := by
  simp [step, h]

theorem step_offer_hit (s : State σ ρ) (k : Key) (version : Option String) (spec : σ) (sys : Option Nat)
    (c : Bool) (e : Entry σ ρ) (h : validMeta k version = true) (hc : find? s.cache k = some e)
    (hv : e.version = version.getD "") :
    step prep s (.offer k version spec sys c) = (s, .returned e.resource e.serial false) := by
  simp [step, h, hc, hv]

theorem step_offer_miss (s : State σ ρ) (k : Key) (version : Option String) (spec : σ) (sys : Option Nat)
    (c : Bool) (h : validMeta k version = true)
    (hd : ∀ e, find? s.cache k = some e → e.version ≠ version.getD "") :
    step prep s (.offer k version spec sys c) =
      (⟨set s.cache k ⟨spec, prep k.1 k.2 spec, s.calls, version.getD "", sys⟩, s.calls + 1⟩,
       if c then .raisedCycle (prep k.1 k.2 spec) s.calls else .returned (prep k.1 k.2 spec) s.calls true) := by
  cases hf : find? s.cache k with
  | none => simp [step, h, hf]
  | some e => simp [step, h, hf, hd e hf]

/-- every offer is one of the three -/
theorem step_offer_cases (s : State σ ρ) (k : Key) (version : Option String) (spec : σ) (sys : Option Nat)
    (c : Bool) :
    (validMeta k version = false ∧ step prep s (.offer k version spec sys c) = (s, .typeError)) ∨
    (∃ e, validMeta k version = true ∧ find? s.cache k = some e ∧ e.version = version.getD "" ∧
      step prep s (.offer k version spec sys c) = (s, .returned e.resource e.serial false)) ∨
    (validMeta k version = true ∧ (∀ e, find? s.cache k = some e → e.version ≠ version.getD "") ∧
      step prep s (.offer k version spec sys c) =
        (⟨set s.cache k ⟨spec, prep k.1 k.2 spec, s.calls, version.getD "", sys⟩, s.calls + 1⟩,
         if c then .raisedCycle (prep k.1 k.2 spec) s.calls else .returned (prep k.1 k.2 spec) s.calls true)) := by
  by_cases h : validMeta k version = true
  · by_cases hit : ∃ e, find? s.cache k = some e ∧ e.version = version.getD ""
    · obtain ⟨e, he, hv⟩ := hit
      exact .inr (.inl ⟨e, h, he, hv, step_offer_hit prep s k version spec sys c e h he hv⟩)
    · have hd : ∀ e, find? s.cache k = some e → e.version ≠ version.getD "" :=
        fun e he hv => hit ⟨e, he, hv⟩
      exact .inr (.inr ⟨h, hd, step_offer_miss prep s k version spec sys c h hd⟩)
  · have h' : validMeta k version = false := by simpa using h
    exact .inl ⟨h', step_offer_bad prep s k version spec sys c h'⟩

/-- a quiet operation keeps the entry of `k` -/
theorem quiet_step (s : State σ ρ) (k : Key) (v : String) (e : Entry σ ρ) (op : Op σ)
    (hq : Quiet k v op) (hc : find? s.cache k = some e) (hver : e.version = v) :
    find? (step prep s op).1.cache k = some e := by
  cases op with
  | offer k' version spec sys c =>
    rcases step_offer_cases prep s k' version spec sys c with ⟨_, h⟩ | ⟨e', _, _, _, h⟩ | ⟨hm, hd, h⟩
    · rw [h]; exact hc
    · rw [h]; exact hc
    · rw [h]
      have hne : k' ≠ k := by
        rcases hq with hne | heq | hbad
        · exact hne
        · intro hkk; subst hkk
          exact hd e hc (by rw [heq]; exact hver)
        · rw [hm] at hbad; cases hbad
      simp [hne, hc]
  | delete k' version =>
    simp only [step]
    cases hf : find? s.cache k' with
    | none => exact hc
    | some e' =>
      simp only []
      rcases hq with hne | ⟨w, hw, hw1, hw2⟩
      · split
        · exact hc
        · simp [hne, hc]
      · subst hw
        by_cases hkk : k' = k
        · subst hkk
          rw [hc] at hf; cases hf
          simp [truthy, hw1, hver, hw2, hc]
        · split
          · exact hc
          · simp [hkk, hc]
  | deleteMeta k' version =>
    simp only [step]
    split
    · rename_i hm
      rcases hq with hne | hbad
      · cases hf : find? s.cache k' with
        | none => exact hc
        | some e' => simp [hne, hc]
      · rw [hm] at hbad; cases hbad
    · exact hc
  | lookup k' => exact hc
  | systemData k' => exact hc
  | elapse n => exact hc

end Koreo.Cache
