/-
  C04 / C05: the owner-reference branch of a pass.  What the patch does to the live object's
  `metadata.ownerReferences` (keeps them when the reference is in place; writes the live ones plus
  the parent's otherwise) and what any view that meets the target gives once it has been patched in.
-/
import Koreo.Lemmas.CreateOverlay
namespace Koreo.R45
open Koreo Koreo.JVal Koreo.Compare Koreo.Overlay

/-! ## the check -/

theorem scanRefs_nonempty {uid : JVal} {xs : List JVal} (h : scanRefs uid xs = some true) : xs.isEmpty = false := by
  cases xs with
  | nil => simp [scanRefs] at h
  | cons _ _ => rfl

/-- a reference that is really there is recognised: nothing to write -/
theorem ownerFix_of_present (c : Cfg) (live : JVal) (h : refPresent c live = true) :
    ownerFixOf c live = some .none := by
  unfold ownerFixOf
  by_cases hs : c.shouldOwn = true
  · simp only [hs, Bool.not_true, Bool.false_eq_true, ↓reduceIte]
    unfold refPresent liveRefs at h
    cases hr : c.ownerRef with
    | obj refkvs =>
      rw [hr] at h
      simp only []
      cases live with
      | obj kvs =>
        simp only [] at h ⊢
        cases hm : lookup "metadata" kvs with
        | none => rfl
        | some md =>
          rw [hm] at h
          cases md with
          | obj mkvs =>
            simp only [] at h ⊢
            cases ho : lookup ownerReferences mkvs with
            | none => rw [ho] at h; simp at h
            | some refs =>
              rw [ho] at h
              cases refs with
              | arr xs =>
                simp only [beq_iff_eq] at h
                simp only [truthy, scanRefs_nonempty h, Bool.not_false, Bool.not_true, Bool.false_eq_true,
                  ↓reduceIte, h]
              | null | bool _ | int _ | flt _ | str _ | obj _ => simp at h
          | null | bool _ | int _ | flt _ | str _ | arr _ => rfl
      | null | bool _ | int _ | flt _ | str _ | arr _ => rfl
    | null | bool _ | int _ | flt _ | str _ | arr _ => rw [hr] at h; simp at h
  · simp [hs]

/-- when something has to be written it is the live references, in their order, plus the parent's:
    co-owners are preserved -/
theorem ownerFix_refs_shape (c : Cfg) (live r : JVal) (h : ownerFixOf c live = some (.refs r)) :
    r = .arr [c.ownerRef] ∨ ∃ xs, liveRefs live = some (.arr xs) ∧ r = .arr (xs ++ [c.ownerRef]) := by
  unfold ownerFixOf at h
  by_cases hs : c.shouldOwn = true
  · simp only [hs, Bool.not_true, Bool.false_eq_true, ↓reduceIte] at h
    cases hr : c.ownerRef with
    | obj refkvs =>
      rw [hr] at h
      simp only [] at h
      cases live with
      | obj kvs =>
        simp only [] at h
        cases hm : lookup "metadata" kvs with
        | none => rw [hm] at h; simp at h
        | some md =>
          rw [hm] at h
          cases md with
          | obj mkvs =>
            simp only [] at h
            cases ho : lookup ownerReferences mkvs with
            | none => rw [ho] at h; simp at h; exact Or.inl (by first | exact h.symm | (rw [hr]; exact h.symm))
            | some refs =>
              rw [ho] at h
              simp only [] at h
              by_cases ht : (!truthy refs) = true
              · simp only [ht, ↓reduceIte, Option.some.injEq, OwnerFix.refs.injEq] at h
                exact Or.inl (by first | exact h.symm | (rw [hr]; exact h.symm))
              · simp only [ht, Bool.false_eq_true, ↓reduceIte] at h
                cases refs with
                | arr xs =>
                  simp only [] at h
                  cases hsc : scanRefs (uidOf refkvs) xs with
                  | none => rw [hsc] at h; simp at h
                  | some b =>
                    rw [hsc] at h
                    cases b with
                    | true => simp at h
                    | false =>
                      simp only [Option.some.injEq, OwnerFix.refs.injEq] at h
                      exact Or.inr ⟨xs, by simp [liveRefs, hm, ho], by first | exact h.symm | (rw [hr]; exact h.symm)⟩
                | null | bool _ | int _ | flt _ | str _ | obj _ => simp at h
          | null | bool _ | int _ | flt _ | str _ | arr _ => simp at h
      | null | bool _ | int _ | flt _ | str _ | arr _ => simp at h
    | null | bool _ | int _ | flt _ | str _ | arr _ => rw [hr] at h; simp at h
  · simp [hs] at h

/-! ## what a patch does to the live owner references -/

theorem patched_metadata (live : JVal) (s : String) (kvs0 mkvs0 akvs0 : List (String × JVal))
    (h0 : keysNoDup kvs0 = true) :
    ∃ lk, mergePatch live (annotated s kvs0 mkvs0 akvs0) = .obj lk ∧
      lookup "metadata" lk = some (.obj (mergePatchO
        (laObjKvs ((lookup "metadata" (laObjKvs live)).getD .null))
        (JVal.insert "annotations" (.obj (JVal.insert lastAppliedAnnotation (.str s) akvs0)) mkvs0))) := by
  unfold annotated
  rw [mergePatch_obj]
  have e1 := lookup_mergePatchO "metadata" _ (by intro e; cases e) _ (laObjKvs live)
    (keysNoDup_insert _ _ _ h0) (Compare.lookup_insert_self "metadata"
      (.obj (JVal.insert "annotations" (.obj (JVal.insert lastAppliedAnnotation (.str s) akvs0)) mkvs0)) kvs0)
  rw [mergePatch_obj] at e1
  exact ⟨_, rfl, e1⟩

theorem liveRefs_old (live : JVal) :
    lookup ownerReferences (laObjKvs ((lookup "metadata" (laObjKvs live)).getD .null)) = liveRefs live := by
  cases live with
  | obj lkvs =>
    simp only [laObjKvs, liveRefs]
    cases hm : lookup "metadata" lkvs with
    | none => simp [laObjKvs, lookup]
    | some md => cases md <;> simp [laObjKvs, lookup]
  | _ => simp [laObjKvs, liveRefs, lookup]

/-- a patch whose `metadata` does not mention `ownerReferences` leaves the live ones alone -/
theorem liveRefs_patch_keep (live : JVal) (s : String) (kvs0 mkvs0 akvs0 : List (String × JVal))
    (h0 : keysNoDup kvs0 = true) (ho : lookup ownerReferences mkvs0 = none) :
    liveRefs (mergePatch live (annotated s kvs0 mkvs0 akvs0)) = liveRefs live := by
  obtain ⟨lk, e, hm⟩ := patched_metadata live s kvs0 mkvs0 akvs0 h0
  rw [e]
  simp only [liveRefs, hm]
  rw [lookup_mergePatchO_notin _ _ _
    (by rw [Compare.lookup_insert_ne _ _ _ (by decide)]; exact ho)]
  exact liveRefs_old live

/-- a patch that carries a list of owner references replaces the live ones by it -/
theorem liveRefs_patch_set (live : JVal) (s : String) (kvs0 mkvs0 akvs0 : List (String × JVal)) (rs : List JVal)
    (h0 : keysNoDup kvs0 = true) (h1 : keysNoDup mkvs0 = true)
    (ho : lookup ownerReferences mkvs0 = some (.arr rs)) :
    liveRefs (mergePatch live (annotated s kvs0 mkvs0 akvs0)) = some (.arr rs) := by
  obtain ⟨lk, e, hm⟩ := patched_metadata live s kvs0 mkvs0 akvs0 h0
  rw [e]
  simp only [liveRefs, hm]
  rw [lookup_mergePatchO ownerReferences (.arr rs) (by intro e; cases e) _ _ (keysNoDup_insert _ _ _ h1)
    (by rw [Compare.lookup_insert_ne _ _ _ (by decide)]; exact ho), mergePatch_nonobj _ _ rfl]

/-! ## any view that meets the target, patched into any live object -/

theorem nodup_getD {kvs : List (String × JVal)} {k : String} {sub : List (String × JVal)}
    (hn : noDupB (.obj kvs) = true) (h : (lookup k kvs).getD (.obj []) = .obj sub) : noDupB (.obj sub) = true := by
  cases hl : lookup k kvs with
  | none => rw [hl] at h; simp at h; subst h; rfl
  | some v =>
    rw [hl] at h; simp only [Option.getD_some] at h; subst h
    rw [noDupB.eq_2, Bool.and_eq_true] at hn
    exact noDupO_lookup kvs k _ hn.2 hl

structure PatchFacts (c : Codec) (t x body : JVal) : Prop where
  meets : ∀ live, meetsB .full t (mergePatch live body) (strip x) = true
  la : ∀ live, extractLastApplied c (mergePatch live body) = some (strip x)
  shape : ∃ kvs mkvs akvs, strip x = .obj kvs ∧ body = annotated (c.dumps (.obj kvs)) kvs mkvs akvs ∧
    (lookup "metadata" kvs).getD (.obj []) = .obj mkvs ∧ keysNoDup kvs = true ∧ keysNoDup mkvs = true

/-- the body built from a view that meets the target, merge-patched into *any* live object: the result
    meets the target and its annotation reads back as the stripped view -/
theorem view_patch_facts (c : Codec) (t x body : JVal) (hn : noDupB t = true) (hnn : noNullsB t = true)
    (ha : annFree t = true) (hx : noDupB x = true)
    (hm : meetsB .full t (strip x) (strip x) = true) (hb : prepareForApi c x = some body)
    (hr : c.reads (strip x)) : PatchFacts c t x body := by
  obtain ⟨hmb, _⟩ := view_body_facts c t x body hn ha hm hb hr
  obtain ⟨kvs, S', hsx, hbody, hs, mkvs, akvs, hann, hgm, hga⟩ := prepareForApi_shape c x body hb
  have hsn := noDup_strip x hx
  rw [hsx] at hsn hr
  have hnm := nodup_getD hsn hgm
  have hna := nodup_getD hnm hga
  have hbn : noDupB body = true := by rw [hann]; exact annotated_nodup _ _ _ _ hsn hnm hna
  have hsn' := hsn
  have hnm' := hnm
  have hna' := hna
  rw [noDupB.eq_2, Bool.and_eq_true] at hsn' hnm' hna'
  refine ⟨fun live => meets_mergePatch t body _ live hnn hbn hmb, fun live => ?_,
    ⟨kvs, mkvs, akvs, hsx, hann, hgm, hsn'.1, hnm'.1⟩⟩
  rw [hann, extract_after_patch c _ hr.1 _ _ _ hsn'.1 hnm'.1 hna'.1 live, hsx]
  exact hr.2

/-! ## the view of the owner-reference patch: the target with `metadata.ownerReferences := refs` -/

theorem owner_view (t r : JVal) (hw : wfB t = true) (hn : noDupB t = true) (hf : ownerRefsFree t = true)
    (hr : noDupB r = true) :
    ∃ x, setOwnerRefs r t = some x ∧ noDupB x = true ∧ meetsB .full t (strip x) (strip x) = true := by
  match t, hf with
  | .obj tkvs, hf =>
    have hf' := hf
    simp only [ownerRefsFree] at hf'
    cases hm : lookup "metadata" tkvs with
    | none => rw [hm] at hf'; simp at hf'
    | some md =>
      rw [hm] at hf'
      cases md with
      | obj tm =>
        refine ⟨.obj (JVal.insert "metadata" (.obj (JVal.insert ownerReferences r tm)) tkvs),
          by simp [setOwnerRefs, hm], ?_, ?_⟩
        · have hn' := hn
          rw [noDupB.eq_2, Bool.and_eq_true] at hn'
          have hnm : noDupB (.obj tm) = true := noDupO_lookup tkvs _ _ hn'.2 hm
          rw [noDupB.eq_2, Bool.and_eq_true] at hnm
          have h1 : noDupB (.obj (JVal.insert ownerReferences r tm)) = true := by
            rw [noDupB.eq_2, Bool.and_eq_true]
            exact ⟨keysNoDup_insert _ _ _ hnm.1, noDupO_insert _ _ hr _ hnm.2⟩
          rw [noDupB.eq_2, Bool.and_eq_true]
          exact ⟨keysNoDup_insert _ _ _ hn'.1, noDupO_insert _ _ h1 _ hn'.2⟩
        · have hv : createViewOf (.obj tkvs) [] (some r) =
              some (.obj (JVal.insert "metadata" (.obj (JVal.insert ownerReferences r tm)) tkvs)) := by
            simp [createViewOf, mergeO, setOwnerRefs, hm]
          exact create_view_meets (.obj tkvs) _ [] (some r) hw hn hf trivial (by simp [noContradict, ncO]) hv
      | null | bool _ | int _ | flt _ | str _ | arr _ => simp at hf'

/-- `_prepare_for_api` succeeds on that view (the target's `metadata.annotations`, when there, is a map) -/
theorem owner_view_prepares (c : Codec) (t r x : JVal) (ha : annFree t = true)
    (hx : setOwnerRefs r t = some x) : ∃ body, prepareForApi c x = some body := by
  match t, ha, hx with
  | .obj tkvs, ha, hx =>
    simp only [setOwnerRefs] at hx
    cases hm : lookup "metadata" tkvs with
    | none => rw [hm] at hx; simp at hx
    | some md =>
      rw [hm] at hx
      cases md with
      | obj tm =>
        simp only [Option.some.injEq] at hx
        subst hx
        simp only [annFree, hm] at ha
        rw [Bool.and_eq_true] at ha
        have hl : lookup "annotations" (JVal.insert ownerReferences (strip r) (stripO tm)) =
            (lookup "annotations" tm).map strip := by
          rw [Compare.lookup_insert_ne _ _ _ (by decide), lookup_stripO _ (by decide)]
        simp only [prepareForApi, strip.eq_1, stripO_insert _ _ (show isDirective "metadata" = false by decide),
          stripO_insert _ _ (show isDirective ownerReferences = false by decide), setAnnotation,
          Compare.lookup_insert_self, Option.getD_some, hl]
        cases han : lookup "annotations" tm with
        | none => exact ⟨_, rfl⟩
        | some an =>
          have ha2 := ha.2
          rw [han] at ha2
          cases an with
          | obj ta => exact ⟨_, rfl⟩
          | null | bool _ | int _ | flt _ | str _ | arr _ => simp at ha2
      | null | bool _ | int _ | flt _ | str _ | arr _ => simp at hx

/-- scanning a list of maps that ends with the parent's reference finds it -/
theorem scanRefs_append (uid : JVal) (refkvs : List (String × JVal)) (hu : pyEq (uidOf refkvs) uid = true) :
    ∀ ys : List JVal, allObj ys = true → scanRefs uid (ys ++ [.obj refkvs]) = some true := by
  intro ys
  induction ys with
  | nil => intro _; simp [scanRefs, hu]
  | cons y ys ih =>
    intro h
    cases y with
    | obj k =>
      simp only [allObj] at h
      simp only [List.cons_append, scanRefs]
      split
      · rfl
      · exact ih h
    | null | bool _ | int _ | flt _ | str _ | arr _ => simp [allObj] at h

/-! ## the reference across a patch -/

theorem refPresent_congr (c : Cfg) (live live' : JVal) (h : liveRefs live' = liveRefs live) :
    refPresent c live' = refPresent c live := by
  unfold refPresent; rw [h]

/-- the metadata map of the body built from a target (or view) whose `metadata` is a map -/
theorem shape_metadata {kvs mkvs tm : List (String × JVal)} (hl : lookup "metadata" kvs = some (.obj tm))
    (hg : (lookup "metadata" kvs).getD (.obj []) = .obj mkvs) : mkvs = tm := by
  rw [hl] at hg; simp only [Option.getD_some, JVal.obj.injEq] at hg; exact hg.symm

/-- a patch built from the target itself (reference in place: the target's own `ownerReferences` are
    not sent) leaves the live owner references as they are -/
theorem refs_kept_by_target_patch (c : Codec) (t body : JVal) (hf : ownerRefsFree t = true)
    (hp : PatchFacts c t t body) (live : JVal) : liveRefs (mergePatch live body) = liveRefs live := by
  obtain ⟨kvs, mkvs, akvs, hsx, hann, hgm, h0, _⟩ := hp.shape
  match t, hf, hsx with
  | .obj tkvs, hf, hsx =>
    rw [strip.eq_1] at hsx
    simp only [JVal.obj.injEq] at hsx
    subst hsx
    simp only [ownerRefsFree] at hf
    cases hm : lookup "metadata" tkvs with
    | none => rw [hm] at hf; simp at hf
    | some md =>
      rw [hm] at hf
      cases md with
      | obj tm =>
        simp only [Option.isNone_iff_eq_none] at hf
        have hl : lookup "metadata" (stripO tkvs) = some (.obj (stripO tm)) := by
          rw [lookup_stripO _ (by decide), hm]; rfl
        have := shape_metadata hl hgm
        subst this
        rw [hann]
        exact liveRefs_patch_keep live _ _ _ _ h0 (lookup_stripO_none _ _ hf)
      | null | bool _ | int _ | flt _ | str _ | arr _ => simp at hf

/-- a patch built from the owner-reference view writes exactly those references -/
theorem refs_set_by_owner_patch (c : Codec) (t x body : JVal) (rs : List JVal)
    (hx : setOwnerRefs (.arr rs) t = some x) (hp : PatchFacts c t x body) (live : JVal) :
    liveRefs (mergePatch live body) = some (.arr (stripL rs)) := by
  obtain ⟨kvs, mkvs, akvs, hsx, hann, hgm, h0, h1⟩ := hp.shape
  match t, hx with
  | .obj tkvs, hx =>
    simp only [setOwnerRefs] at hx
    cases hm : lookup "metadata" tkvs with
    | none => rw [hm] at hx; simp at hx
    | some md =>
      rw [hm] at hx
      cases md with
      | obj tm =>
        simp only [Option.some.injEq] at hx
        subst hx
        rw [strip.eq_1, stripO_insert _ _ (by decide), strip.eq_1, stripO_insert _ _ (by decide), strip.eq_2] at hsx
        simp only [JVal.obj.injEq] at hsx
        subst hsx
        have := shape_metadata (Compare.lookup_insert_self _ _ _) hgm
        subst this
        rw [hann]
        exact liveRefs_patch_set live _ _ _ _ (stripL rs) h0 h1 (Compare.lookup_insert_self _ _ _)
      | null | bool _ | int _ | flt _ | str _ | arr _ => simp at hx

theorem stripL_append (xs ys : List JVal) : stripL (xs ++ ys) = stripL xs ++ stripL ys := by
  induction xs with
  | nil => rfl
  | cons x xs ih => simp [stripL, ih]

end Koreo.R45
