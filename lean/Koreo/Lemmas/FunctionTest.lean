/-
  Helper definitions and lemmas for C18 / C19 over `Koreo/FunctionTest.lean`.
  Property theorems are in `Props/C18.lean` and `Props/C19.lean`.
-/
import Koreo.FunctionTest
import Koreo.Lemmas.ExactCompare
namespace Koreo.FT
open Koreo JVal Koreo.Exact
variable {Ov : Type}

/-! ## C19: message containment -/

theorem containsSub_iff (p : List Char) : ∀ (s : List Char), containsSub p s = true ↔ p <:+: s
  | [] => by
    simp only [containsSub, List.isEmpty_iff, List.infix_nil]
  | c :: cs => by
    have ih := containsSub_iff p cs
    simp only [containsSub, Bool.or_eq_true, ih, List.isPrefixOf_iff_prefix]
    constructor
    · rintro (h | h)
      · exact h.isInfix
      · exact List.infix_cons h
    · intro h
      rcases List.infix_cons_iff.mp h with h | h
      · exact Or.inl h
      · exact Or.inr h

/-! ## C18: core / auxiliary cases -/

/-- a case that is neither skipped nor a variant: the only kind that may change the threaded state -/
def isCore (c : Case Ov) : Bool := !c.skip && !c.variant

def core (cs : List (Case Ov)) : List (Case Ov) := cs.filter isCore

/-- the state after a list of cases (each started from its predecessor's hand-over) -/
def stateAfter (env : Env Ov) (st : State) (cs : List (Case Ov)) : State :=
  cs.foldl (fun s c => (runCase env s c).1) st

/-- the results that belong to the core cases of `cs` -/
def coreResults (cs : List (Case Ov)) (rs : List CaseResult) : List CaseResult :=
  ((cs.zip rs).filter (fun p => isCore p.1)).map (·.2)

/-- no skipped/variant case aborts the run (only a variant's setup error can) -/
def NoAuxFatal (env : Env Ov) : State → List (Case Ov) → Prop
  | _, [] => True
  | st, c :: cs =>
    if isCore c then (runCase env st c).2.2 = true ∨ NoAuxFatal env (runCase env st c).1 cs
    else (runCase env st c).2.2 = false ∧ NoAuxFatal env st cs

theorem aux_state (env : Env Ov) (st : State) (c : Case Ov) (h : isCore c = false) :
    (runCase env st c).1 = st := by
  unfold isCore at h
  unfold runCase
  cases hs : c.skip with
  | true => simp
  | false =>
    have hv : c.variant = true := by simpa [hs] using h
    simp only [Bool.false_eq_true, if_false]
    cases c.overlay with
    | none => simp [finishCase, hv]
    | some ov =>
      simp only
      split
      · split
        · rfl
        · simp [finishCase, hv]
      · rfl

theorem stateAfter_core (env : Env Ov) : ∀ (st : State) (cs : List (Case Ov)),
    stateAfter env st cs = stateAfter env st (core cs)
  | _, [] => rfl
  | st, c :: cs => by
    cases hc : isCore c with
    | true =>
      have : core (c :: cs) = c :: core cs := by simp [core, List.filter, hc]
      rw [this]
      simp only [stateAfter, List.foldl_cons]
      exact stateAfter_core env _ cs
    | false =>
      have : core (c :: cs) = core cs := by simp [core, List.filter, hc]
      rw [this]
      simp only [stateAfter, List.foldl_cons]
      rw [aux_state env st c hc]
      exact stateAfter_core env st cs

theorem runCases_append (env : Env Ov) : ∀ (st : State) (pre rest : List (Case Ov)),
    (runCases env st pre).2 = false →
    (runCases env st pre).1.length = pre.length ∧
    runCases env st (pre ++ rest) =
      ((runCases env st pre).1 ++ (runCases env (stateAfter env st pre) rest).1,
       (runCases env (stateAfter env st pre) rest).2)
  | st, [], rest, _ => by simp [runCases, stateAfter]
  | st, c :: pre, rest, h => by
    simp only [runCases, List.cons_append] at h ⊢
    rcases hr : runCase env st c with ⟨st', r, fatal⟩
    rw [hr] at h
    simp only at h ⊢
    cases fatal with
    | true => simp at h
    | false =>
      simp only [Bool.false_eq_true, if_false] at h ⊢
      have ih := runCases_append env st' pre rest h
      have hs : stateAfter env st (c :: pre) = stateAfter env st' pre := by
        simp [stateAfter, hr]
      rw [hs, ih.2]
      simp [ih.1]

theorem coreResults_cons_core (c : Case Ov) (cs : List (Case Ov)) (r : CaseResult) (rs : List CaseResult)
    (h : isCore c = true) : coreResults (c :: cs) (r :: rs) = r :: coreResults cs rs := by
  simp [coreResults, List.zip, h]

theorem coreResults_cons_aux (c : Case Ov) (cs : List (Case Ov)) (r : CaseResult) (rs : List CaseResult)
    (h : isCore c = false) : coreResults (c :: cs) (r :: rs) = coreResults cs rs := by
  simp [coreResults, List.zip, h]

theorem core_run (env : Env Ov) : ∀ (st : State) (cs : List (Case Ov)), NoAuxFatal env st cs →
    coreResults cs (runCases env st cs).1 = (runCases env st (core cs)).1 ∧
    (runCases env st cs).2 = (runCases env st (core cs)).2
  | _, [], _ => by simp [coreResults, core, runCases]
  | st, c :: cs, h => by
    cases hc : isCore c with
    | true =>
      have hcore : core (c :: cs) = c :: core cs := by simp [core, List.filter, hc]
      simp only [NoAuxFatal, hc, if_true] at h
      rw [hcore]
      simp only [runCases]
      rcases hr : runCase env st c with ⟨st', r, fatal⟩
      rw [hr] at h
      simp only at h ⊢
      cases fatal with
      | true => simp [coreResults, List.zip, List.filter, hc]
      | false =>
        simp only [Bool.false_eq_true, false_or] at h
        have ih := core_run env st' cs h
        simp only [Bool.false_eq_true, if_false]
        rw [coreResults_cons_core c cs r _ hc, ih.1, ih.2]
        exact ⟨rfl, rfl⟩
    | false =>
      have hcore : core (c :: cs) = core cs := by simp [core, List.filter, hc]
      simp only [NoAuxFatal, hc, Bool.false_eq_true, if_false] at h
      rw [hcore]
      have hst := aux_state env st c hc
      simp only [runCases]
      rcases hr : runCase env st c with ⟨st', r, fatal⟩
      rw [hr] at h hst
      simp only at h hst ⊢
      subst hst
      rw [h.1]
      simp only [Bool.false_eq_true, if_false]
      have ih := core_run env st' cs h.2
      rw [coreResults_cons_aux c cs r _ hc, ih.1, ih.2]
      exact ⟨rfl, rfl⟩

end Koreo.FT
