/-
  Helper lemmas for the nested asynchronous semantics (`Koreo/WorkflowNested.lean`).

  `NInv n`: the invariant `Inv` of the flat semantics (every done entry / finished iteration equals the reference
  entry of `runAt … n`) for the top invocation, and — recursively, one level down — for every nested invocation,
  each of which sits at an evaluation the reference makes too (same step, same inputs, same definition).
  Preservation is by induction on the depth; the step case of depth n+1 reduces to the flat `inv_step` through
  `stepEventG_sound`.
-/
import Koreo.WorkflowNested
import Koreo.Lemmas.WorkflowAsync

namespace Koreo.Workflow
open Koreo Koreo.Result

/-! ## one Logic evaluation -/

theorem runLogic_eq_target (eval : EvalFn) (run : RunFn) (l idx act inputs) (logic : Logic) :
    runLogic eval run l idx act inputs logic =
      match logicTarget eval act inputs logic with
      | some t => runTarget run l idx t inputs
      | none => (⟨.permFail, .null⟩, []) := by
  cases logic with
  | ref t => rfl
  | switch on cases dflt =>
    cases h : select eval on cases dflt act inputs <;> simp [runLogic, logicTarget, h]

theorem runAt_fn (eval : EvalFn) (base : RunFn) (defs : Env) (n : Nat) (id : String) (inp : JVal) :
    runAt eval base defs n (.fn id) inp = base (.fn id) inp := by
  cases n <;> rfl

theorem runAt_unknown (eval : EvalFn) (base : RunFn) (defs : Env) (n : Nat) (name : String) (inp : JVal)
    (h : lookupL name defs = none) : runAt eval base defs n (.wf name) inp = base (.wf name) inp := by
  cases n with
  | zero => rfl
  | succ n => simp [runAt, h]

theorem subOut_stepOut (r : WfResult) (api : List String) :
    (⟨(subOut r api).res, (subOut r api).rid⟩ : StepOut) = subStepOut r := by
  unfold subOut subStepOut
  cases r.overall <;> rfl

/-- an evaluation that is answered at once is answered the same by the reference Function oracle of any depth -/
theorem answer_direct {eval : EvalFn} {base : RunFn} {defs : Env} {l idx act inp logic o} (n : Nat)
    (h : answerOf eval base defs l idx act inp logic = .direct o) :
    (runLogic eval (runAt eval base defs n) l idx act inp logic).1 = o := by
  unfold answerOf at h
  rw [runLogic_eq_target]
  rw [runLogic_eq_target] at h
  cases ht : logicTarget eval act inp logic with
  | none => simp [ht] at h ⊢; exact h
  | some t =>
    cases t with
    | fn id => simp [ht] at h ⊢; rw [← h]; simp [runTarget, runAt_fn]
    | wf name =>
      cases hd : lookupL name defs with
      | some w => simp [ht, hd] at h
      | none => simp [ht, hd] at h ⊢; rw [← h]; simp [runTarget, runAt_unknown _ _ _ _ _ _ hd]

/-- an evaluation that runs a sub-workflow definition: the reference one level up reconciles that definition one
    level down with the evaluation's inputs as trigger -/
theorem answer_nested {eval : EvalFn} {base : RunFn} {defs : Env} {l idx act inp logic w} (n : Nat)
    (h : answerOf eval base defs l idx act inp logic = .nested w) :
    (runLogic eval (runAt eval base defs (n + 1)) l idx act inp logic).1 =
      subStepOut (collect eval w (trace eval (runAt eval base defs n) inp w).results) := by
  unfold answerOf at h
  rw [runLogic_eq_target]
  cases ht : logicTarget eval act inp logic with
  | none => simp [ht] at h
  | some t =>
    cases t with
    | fn id => simp [ht] at h
    | wf name =>
      cases hd : lookupL name defs with
      | none => simp [ht, hd] at h
      | some w' =>
        simp only [ht, hd, Answer.nested.injEq] at h
        subst h
        simp only [runTarget, runAt, hd]
        exact subOut_stepOut _ _

/-! ## the generalised step is the flat step once its answers are the reference's -/

theorem stepEventG_sound {ans : Label → Option Nat → List (String × JVal) → JVal → Logic → Option StepOut}
    {eval : EvalFn} {run : RunFn} {trig : JVal} {wf : Workflow} {st st' : AState} {e : Event}
    (h : ∀ s, s ∈ wf.steps → ∀ idx act inp o, s.deps.all (isDone st) = true →
      (gate eval trig (depRes st.done s.deps) s).evalAt idx = some (act, inp) →
      ans s.label idx act inp s.logic = some o → o = (runLogic eval run s.label idx act inp s.logic).1)
    (hs : stepEventG ans eval trig wf st e = some st') : stepEvent eval run trig wf st e = some st' := by
  cases e with
  | step l =>
    simp only [stepEventG] at hs
    simp only [stepEvent]
    cases hf : findStep l wf.steps with
    | none => simp [hf] at hs
    | some s =>
      obtain ⟨hmem, hsl⟩ := findStep_some hf
      simp only [hf] at hs ⊢
      split at hs
      · cases hs
      · next hen =>
        rw [if_neg hen]
        simp only [Bool.or_eq_true, Bool.not_eq_true', not_or, Bool.not_eq_true, Bool.not_eq_false] at hen
        cases hg : gate eval trig (depRes st.done s.deps) s with
        | done o => simp only [hg] at hs ⊢; exact hs
        | single act inputs =>
          simp only [hg] at hs ⊢
          cases ha : ans l none act inputs s.logic with
          | none => simp [ha] at hs
          | some o =>
            simp only [ha] at hs
            have := h s hmem none act inputs o hen.2 (by rw [hg]; rfl) (by rw [hsl]; exact ha)
            rw [hsl] at this
            rw [← this]; exact hs
        | each act inputs key items => simp only [hg] at hs ⊢; exact hs
  | item l i =>
    simp only [stepEventG] at hs
    simp only [stepEvent]
    cases hf : findStep l wf.steps with
    | none => simp [hf] at hs
    | some s =>
      obtain ⟨hmem, hsl⟩ := findStep_some hf
      simp only [hf] at hs ⊢
      split at hs
      · cases hs
      · next hen =>
        rw [if_neg hen]
        simp only [Bool.or_eq_true, Bool.not_eq_true', not_or, Bool.not_eq_true, Bool.not_eq_false] at hen
        cases hg : gate eval trig (depRes st.done s.deps) s with
        | done o => simp [hg] at hs
        | single act inputs => simp [hg] at hs
        | each act inputs key items =>
          simp only [hg] at hs ⊢
          cases hit : items[i]? with
          | none => simp [hit] at hs
          | some it =>
            simp only [hit] at hs ⊢
            cases ha : ans l (some i) act (setKey key it inputs) s.logic with
            | none => simp [ha] at hs
            | some o =>
              simp only [ha] at hs
              have := h s hmem (some i) act (setKey key it inputs) o hen.1.2
                (by rw [hg]; simp [Gate.evalAt, hit]) (by rw [hsl]; exact ha)
              rw [hsl] at this
              rw [← this]; exact hs

/-! ## lookups among the nested invocations -/

theorem lookupS_setS_same (k : Frame) (v : NState) (xs : List (Frame × NState)) :
    lookupS k (setS k v xs) = some v := by
  induction xs with
  | nil => simp [setS, lookupS]
  | cons x rest ih =>
    obtain ⟨k', v'⟩ := x
    simp only [setS]
    by_cases h : k' = k
    · simp [h, lookupS]
    · simp [h, lookupS, ih]

theorem lookupS_setS_other {k k' : Frame} (hne : k' ≠ k) (v : NState) (xs : List (Frame × NState)) :
    lookupS k' (setS k v xs) = lookupS k' xs := by
  induction xs with
  | nil => simp [setS, lookupS, Ne.symm hne]
  | cons x rest ih =>
    obtain ⟨k0, v0⟩ := x
    simp only [setS]
    by_cases h : k0 = k
    · subst h
      simp [lookupS, Ne.symm hne]
    · simp only [h, if_false, lookupS, ih]

/-! ## the nested invariant -/

/-- the reference results of one invocation at depth `n` -/
def refResults (eval : EvalFn) (base : RunFn) (defs : Env) (n : Nat) (trig : JVal) (wf : Workflow) :
    List (Label × StepOut) :=
  (trace eval (runAt eval base defs n) trig wf).results

def NInv (eval : EvalFn) (base : RunFn) (defs : Env) : Nat → Workflow → JVal → NState → Prop
  | 0, wf, trig, st =>
    Inv eval (runAt eval base defs 0) trig wf (refResults eval base defs 0 trig wf) st.top
  | n + 1, wf, trig, st =>
    Inv eval (runAt eval base defs (n + 1)) trig wf (refResults eval base defs (n + 1) trig wf) st.top ∧
    ∀ l idx sub, lookupS (l, idx) st.subs = some sub →
      ∃ s, s ∈ wf.steps ∧ s.label = l ∧ ∃ act inp w,
        (gate eval trig (depRes (refResults eval base defs (n + 1) trig wf) s.deps) s).evalAt idx = some (act, inp) ∧
        answerOf eval base defs l idx act inp s.logic = .nested w ∧
        NInv eval base defs n w inp sub

theorem NInv.topInv {eval : EvalFn} {base : RunFn} {defs : Env} {n : Nat} {wf : Workflow} {trig : JVal}
    {st : NState} (h : NInv eval base defs n wf trig st) :
    Inv eval (runAt eval base defs n) trig wf (refResults eval base defs n trig wf) st.top := by
  cases n with
  | zero => exact h
  | succ n => exact h.1

theorem ninv_empty (eval : EvalFn) (base : RunFn) (defs : Env) (n : Nat) (wf : Workflow) (trig : JVal) :
    NInv eval base defs n wf trig .empty := by
  cases n with
  | zero => exact inv_init ..
  | succ n =>
    refine ⟨inv_init .., ?_⟩
    intro l idx sub h
    simp [NState.empty, NState.subs, lookupS] at h

/-- everything done and every done entry the reference's: `collect` gives the reference's answer -/
theorem collect_of_complete {eval : EvalFn} {run : RunFn} {trig : JVal} {wf : Workflow}
    {R : List (Label × StepOut)} {a : AState} (inv : Inv eval run trig wf R a)
    (hall : ∀ s ∈ wf.steps, isDone a s.label = true) : collect eval wf a.done = collect eval wf R := by
  apply collect_congr
  apply listed_congr
  intro s hs
  have hd := hall s hs
  unfold isDone at hd
  cases hl : lookupL s.label a.done with
  | none => simp [hl] at hd
  | some o => rw [inv.done_ref _ _ hl]

/-- under the invariant, whatever `evalOutcome` answers for an evaluation the gate really lets happen is what the
    reference Function oracle of this depth answers -/
theorem evalOutcome_ref {eval : EvalFn} {base : RunFn} {defs : Env} {n : Nat} {wf : Workflow} {trig : JVal}
    {st : NState} (hwf : wf.WF = true) (inv : NInv eval base defs (n + 1) wf trig st)
    {s : Step} (hs : s ∈ wf.steps) {idx act inp o}
    (hdeps : s.deps.all (isDone st.top) = true)
    (hev : (gate eval trig (depRes st.top.done s.deps) s).evalAt idx = some (act, inp))
    (ho : evalOutcome eval base defs st.subs s.label idx act inp s.logic = some o) :
    o = (runLogic eval (runAt eval base defs (n + 1)) s.label idx act inp s.logic).1 := by
  unfold evalOutcome at ho
  cases ha : answerOf eval base defs s.label idx act inp s.logic with
  | direct o' =>
    simp only [ha, Option.some.injEq] at ho
    rw [answer_direct (n + 1) ha, ho]
  | nested w =>
    simp only [ha] at ho
    split at ho
    · next hall =>
      simp only [Option.some.injEq] at ho
      rw [answer_nested n ha, ← ho]
      -- the nested invocation satisfies the invariant one level down, with exactly these inputs as trigger
      have hsub : NInv eval base defs n w inp ((lookupS (s.label, idx) st.subs).getD .empty) := by
        cases hl : lookupS (s.label, idx) st.subs with
        | none => simp only [Option.getD_none]; exact ninv_empty ..
        | some sub =>
          simp only [Option.getD_some]
          obtain ⟨s', hs', hsl, act', inp', w', hev', ha', hinv'⟩ := inv.2 _ _ _ hl
          have hw : wfSteps [] wf.steps = true := by simpa [Workflow.WF] using hwf
          have : s' = s := step_unique (wfSteps_labels_nodup hw).1 hs' hs hsl
          subst this
          rw [← depRes_of_done inv.1 hdeps, hev] at hev'
          cases hev'
          rw [ha] at ha'
          cases ha'
          exact hinv'
      congr 1
      exact collect_of_complete hsub.topInv (by simpa [allDone, List.all_eq_true] using hall)
    · cases ho

/-- **preservation** of the nested invariant by any enabled path-addressed event, for every depth -/
theorem ninv_step (eval : EvalFn) (base : RunFn) (defs : Env)
    (hdefs : ∀ name w, lookupL name defs = some w → w.WF = true) :
    ∀ (n : Nat) (wf : Workflow) (trig : JVal) (st st' : NState) (e : NEvent), wf.WF = true →
      NInv eval base defs n wf trig st → nstep eval base defs n wf trig st e = some st' →
      NInv eval base defs n wf trig st' := by
  intro n
  induction n with
  | zero =>
    intro wf trig st st' e hwf inv h
    cases e with
    | inside l idx e' => simp [nstep] at h
    | here e0 =>
      simp only [nstep, Option.map_eq_some_iff] at h
      obtain ⟨a, ha, rfl⟩ := h
      exact inv_step eval (runAt eval base defs 0) trig wf hwf inv ha
  | succ n ih =>
    intro wf trig st st' e hwf inv h
    cases e with
    | here e0 =>
      simp only [nstep, Option.map_eq_some_iff] at h
      obtain ⟨a, ha, rfl⟩ := h
      have hflat : stepEvent eval (runAt eval base defs (n + 1)) trig wf st.top e0 = some a :=
        stepEventG_sound (fun s hs idx act inp o hdeps hev ho => evalOutcome_ref hwf inv hs hdeps hev ho) ha
      exact ⟨inv_step eval (runAt eval base defs (n + 1)) trig wf hwf inv.1 hflat, inv.2⟩
    | inside l idx e' =>
      simp only [nstep] at h
      cases hf : findStep l wf.steps with
      | none => simp [hf] at h
      | some s =>
        obtain ⟨hs, hsl⟩ := findStep_some hf
        simp only [hf] at h
        split at h
        · cases h
        · next hen =>
          simp only [Bool.or_eq_true, Bool.not_eq_true', not_or, Bool.not_eq_true, Bool.not_eq_false] at hen
          cases hev : (gate eval trig (depRes st.top.done s.deps) s).evalAt idx with
          | none => simp [hev] at h
          | some ai =>
            obtain ⟨act, inp⟩ := ai
            simp only [hev] at h
            cases ha : answerOf eval base defs l idx act inp s.logic with
            | direct o => simp [ha] at h
            | nested w =>
              simp only [ha] at h
              cases hn : nstep eval base defs n w inp ((lookupS (l, idx) st.subs).getD .empty) e' with
              | none => simp [hn] at h
              | some sub' =>
                simp only [hn, Option.some.injEq] at h
                subst h
                -- the gate on the done dependencies is the reference gate
                have hevR : (gate eval trig (depRes (refResults eval base defs (n + 1) trig wf) s.deps) s).evalAt idx =
                    some (act, inp) := by
                  rw [← depRes_of_done inv.1 hen.1.2]; exact hev
                -- the invocation stepped inside satisfied the invariant one level down
                have hsub : NInv eval base defs n w inp ((lookupS (l, idx) st.subs).getD .empty) := by
                  cases hl : lookupS (l, idx) st.subs with
                  | none => simp only [Option.getD_none]; exact ninv_empty ..
                  | some sub =>
                    simp only [Option.getD_some]
                    obtain ⟨s', hs', hsl', act', inp', w', hev', ha', hinv'⟩ := inv.2 _ _ _ hl
                    have hw : wfSteps [] wf.steps = true := by simpa [Workflow.WF] using hwf
                    have : s' = s := step_unique (wfSteps_labels_nodup hw).1 hs' hs (by rw [hsl', hsl])
                    subst this
                    rw [hevR] at hev'
                    cases hev'
                    rw [ha] at ha'
                    cases ha'
                    exact hinv'
                have hwname : w.WF = true := by
                  unfold answerOf at ha
                  cases ht : logicTarget eval act inp s.logic with
                  | none => simp [ht] at ha
                  | some t =>
                    cases t with
                    | fn id => simp [ht] at ha
                    | wf name =>
                      cases hd : lookupL name defs with
                      | none => simp [ht, hd] at ha
                      | some w' =>
                        simp only [ht, hd, Answer.nested.injEq] at ha
                        subst ha
                        exact hdefs name w' hd
                have hsub' := ih w inp _ sub' e' hwname hsub hn
                refine ⟨inv.1, ?_⟩
                intro l2 idx2 sub2 hl2
                by_cases hk : (l2, idx2) = (l, idx)
                · cases hk
                  simp only [NState.subs, lookupS_setS_same, Option.some.injEq] at hl2
                  subst hl2
                  exact ⟨s, hs, hsl, act, inp, w, hevR, ha, hsub'⟩
                · simp only [NState.subs] at hl2
                  rw [lookupS_setS_other hk] at hl2
                  exact inv.2 _ _ _ hl2

theorem ninv_run (eval : EvalFn) (base : RunFn) (defs : Env)
    (hdefs : ∀ name w, lookupL name defs = some w → w.WF = true) (n : Nat) (wf : Workflow) (trig : JVal)
    (hwf : wf.WF = true) (σ : List NEvent) {st st' : NState}
    (inv : NInv eval base defs n wf trig st) (h : nrunEvents eval base defs n wf trig σ st = some st') :
    NInv eval base defs n wf trig st' := by
  induction σ generalizing st with
  | nil => simp [nrunEvents] at h; subst h; exact inv
  | cons e rest ih =>
    simp only [nrunEvents] at h
    cases he : nstep eval base defs n wf trig st e with
    | none => simp [he] at h
    | some st1 =>
      simp only [he] at h
      exact ih (ninv_step eval base defs hdefs n wf trig st st1 e hwf inv he) h

end Koreo.Workflow
