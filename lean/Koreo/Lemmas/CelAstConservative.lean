/-
  `fix_conservative`: fix F5 only removes raises.  Wherever the extractor with the pre-repair
  tables (`unrepairedDispatch`: every `raise` propagates) returns a key set, the repaired one
  (`modelDispatch`: every `raise` is caught by the loop) returns the same set — for every tree,
  grammatical or not.
-/
import Koreo.CelAst

namespace Koreo.CelAst

/-- `a ⊑ b`: the old result `a` is an exception, or the new result `b` is the same -/
def Le (a b : R) : Prop := a.isRaise = true ∨ a = b

theorem Le.refl (a : R) : Le a a := Or.inr rfl
theorem Le.raise (m : String) (b : R) : Le (.raise m) b := Or.inl rfl

theorem Le.site (f : Fall) (m : String) : Le (site .raise m) (site f m) := Or.inl rfl

theorem Le.dot {a b : R} (h : Le a b) (s : String) : Le (a.dot s) (b.dot s) := by
  rcases h with h | rfl
  · left; cases a <;> simp_all [R.dot, R.isRaise]
  · exact .refl _

abbrev dO := unrepairedDispatch
abbrev dN := modelDispatch

theorem primary_le (t : Cel) : Le (processPrimary dO t) (processPrimary dN t) := by
  unfold processPrimary
  split
  · exact .refl _
  · split
    · split
      · exact .refl _
      · rename_i pk pcs
        by_cases h : dO.primKinds.contains pk = true
        · have h' : dN.primKinds.contains pk = true := h
          rw [if_pos h, if_pos h']
          exact .refl _
        · have h' : ¬ dN.primKinds.contains pk = true := h
          rw [if_neg h, if_neg h']
          exact Or.inl rfl
    · exact Or.inl rfl

theorem indexTerminal_le (t : Cel) : Le (indexTerminal dO t) (indexTerminal dN t) := by
  unfold indexTerminal
  split
  · exact .refl _
  · rename_i tk tcs
    by_cases h1 : tk = .primary ∧ dO.idxTerms.contains .primary = true
    · have h1' : tk = .primary ∧ dN.idxTerms.contains .primary = true := h1
      rw [if_pos h1, if_pos h1']
      exact primary_le _
    · have h1' : ¬ (tk = .primary ∧ dN.idxTerms.contains .primary = true) := h1
      rw [if_neg h1, if_neg h1']
      by_cases h2 : tk = .expr ∧ dO.idxTerms.contains .expr = true
      · have h2' : tk = .expr ∧ dN.idxTerms.contains .expr = true := h2
        rw [if_pos h2, if_pos h2']
        cases descend (.node tk tcs) with
        | attrErr => exact .refl _
        | none => exact Or.inl rfl
        | found p =>
          simp only
          rcases primary_le p with h | h
          · left
            cases hp : processPrimary dO p with
            | raise m => rfl
            | key s => rw [hp] at h; cases h
            | skip => rw [hp] at h; cases h
          · rw [← h]
            cases processPrimary dO p with
            | key s =>
              simp only
              split
              · exact Or.inl rfl
              · exact .refl _
            | skip => exact .refl _
            | raise m => exact .refl _
      · have h2' : ¬ (tk = .expr ∧ dN.idxTerms.contains .expr = true) := h2
        rw [if_neg h2, if_neg h2']
        exact Or.inl rfl

/-- the three naming functions, together (they call each other on the receiver) -/
def NameLe (t : Cel) : Prop :=
  Le (processMemberDot dO t) (processMemberDot dN t) ∧
  Le (processMemberDotArg dO t) (processMemberDotArg dN t) ∧
  Le (processMemberIndex dO t) (processMemberIndex dN t)

theorem size_root_lt (k km rk : Kind) (rcs rest cs' : List Cel) :
    (Cel.node rk rcs).size < (Cel.node k (Cel.node km (Cel.node rk rcs :: rest) :: cs')).size := by
  simp only [Cel.size, Cel.sizeL]; omega

theorem dot_le (k km rk : Kind) (rcs rest : List Cel) (terminal : Cel) (ih : NameLe (.node rk rcs)) :
    Le (processMemberDot dO (.node k [.node km (.node rk rcs :: rest), terminal]))
       (processMemberDot dN (.node k [.node km (.node rk rcs :: rest), terminal])) := by
  obtain ⟨h1, h2, h3⟩ := ih
  simp only [processMemberDot]
  by_cases hc : dO.dotRoots.contains rk = true
  · have hc' : dN.dotRoots.contains rk = true := hc
    rw [if_pos hc, if_pos hc']
    cases rk <;> first
      | exact h1.dot _ | exact h2.dot _ | exact h3.dot _ | exact (primary_le _).dot _ | exact .refl _
  · have hc' : ¬ dN.dotRoots.contains rk = true := hc
    rw [if_neg hc, if_neg hc']
    exact Or.inl rfl

theorem arg_le (k km rk : Kind) (rcs rest : List Cel) (terminal x : Cel) (ih : NameLe (.node rk rcs)) :
    Le (processMemberDotArg dO (.node k [.node km (.node rk rcs :: rest), terminal, x]))
       (processMemberDotArg dN (.node k [.node km (.node rk rcs :: rest), terminal, x])) := by
  obtain ⟨h1, h2, h3⟩ := ih
  simp only [processMemberDotArg]
  by_cases hc : dO.argRoots.contains rk = true
  · have hc' : dN.argRoots.contains rk = true := hc
    rw [if_pos hc, if_pos hc']
    cases rk <;> first
      | exact h1.dot _ | exact h2.dot _ | exact h3.dot _ | exact (primary_le _).dot _ | exact .refl _
  · have hc' : ¬ dN.argRoots.contains rk = true := hc
    rw [if_neg hc, if_neg hc']
    exact Or.inl rfl

/-- the receiver half of `_process_member_index`, once the index has the name `tvs` -/
theorem idx_recv_le (rk : Kind) (rcs : List Cel) (tvs : String) : NameLe (.node rk rcs) →
    Le (if dO.idxRoots.contains rk = true then
          match rk with
          | .member_dot => (processMemberDot dO (.node rk rcs)).dot tvs
          | .member_index => (processMemberIndex dO (.node rk rcs)).dot tvs
          | .member_dot_arg => (processMemberDotArg dO (.node rk rcs)).dot tvs
          | .primary => (processPrimary dO (.node rk rcs)).dot tvs
          | _ => R.raise "model: no handler for this root kind"
        else site dO.idxRoot "UNKNOWN MEMBER_INDEX root TYPE")
       (if dN.idxRoots.contains rk = true then
          match rk with
          | .member_dot => (processMemberDot dN (.node rk rcs)).dot tvs
          | .member_index => (processMemberIndex dN (.node rk rcs)).dot tvs
          | .member_dot_arg => (processMemberDotArg dN (.node rk rcs)).dot tvs
          | .primary => (processPrimary dN (.node rk rcs)).dot tvs
          | _ => R.raise "model: no handler for this root kind"
        else site dN.idxRoot "UNKNOWN MEMBER_INDEX root TYPE") := by
  rintro ⟨h1, h2, h3⟩
  by_cases hc : dO.idxRoots.contains rk = true
  · have hc' : dN.idxRoots.contains rk = true := hc
    rw [if_pos hc, if_pos hc']
    cases rk <;> first
      | exact h1.dot _ | exact h2.dot _ | exact h3.dot _ | exact (primary_le _).dot _ | exact .refl _
  · have hc' : ¬ dN.idxRoots.contains rk = true := hc
    rw [if_neg hc, if_neg hc']
    exact Or.inl rfl

theorem nameLe_all : ∀ (n : Nat) (t : Cel), t.size ≤ n → NameLe t := by
  intro n
  induction n with
  | zero =>
    intro t h
    have : 0 < t.size := by cases t <;> simp [Cel.size] <;> omega
    omega
  | succ n ih =>
    intro t hs
    have sub : ∀ (k km rk : Kind) (rcs rest cs' : List Cel),
        t = .node k (.node km (.node rk rcs :: rest) :: cs') → NameLe (.node rk rcs) := by
      intro k km rk rcs rest cs' ht
      apply ih
      have := size_root_lt k km rk rcs rest cs'
      rw [← ht] at this
      omega
    refine ⟨?_, ?_, ?_⟩
    · -- _process_member_dot
      match t, sub with
      | .tok .., _ => exact .refl _
      | .node k [], _ => exact Or.inl rfl
      | .node k [_], _ => exact Or.inl rfl
      | .node k (_ :: _ :: _ :: _), _ => exact Or.inl rfl
      | .node k [.tok .., _], _ => exact .refl _
      | .node k [.node _ [], _], _ => exact .refl _
      | .node k [.node _ (.tok .. :: _), _], _ => exact .refl _
      | .node k [.node km (.node rk rcs :: rest), terminal], sub =>
        exact dot_le k km rk rcs rest terminal (sub k km rk rcs rest _ rfl)
    · -- _process_member_dot_arg
      match t, sub with
      | .tok .., _ => exact .refl _
      | .node k [], _ => exact Or.inl rfl
      | .node k [_], _ => exact Or.inl rfl
      | .node k [_, _], _ => exact Or.inl rfl
      | .node k (_ :: _ :: _ :: _ :: _), _ => exact Or.inl rfl
      | .node k [.tok .., _, _], _ => exact .refl _
      | .node k [.node _ [], _, _], _ => exact .refl _
      | .node k [.node _ (.tok .. :: _), _, _], _ => exact .refl _
      | .node k [.node km (.node rk rcs :: rest), terminal, x], sub =>
        exact arg_le k km rk rcs rest terminal x (sub k km rk rcs rest _ rfl)
    · -- _process_member_index
      match t, sub with
      | .tok .., _ => exact .refl _
      | .node k [], _ => exact Or.inl rfl
      | .node k [_], _ => exact Or.inl rfl
      | .node k (_ :: _ :: _ :: _), _ => exact Or.inl rfl
      | .node k [m, terminal], sub =>
        simp only [processMemberIndex]
        rcases indexTerminal_le terminal with h | h
        · left
          cases hp : indexTerminal dO terminal with
          | raise m => rfl
          | key s => rw [hp] at h; cases h
          | skip => rw [hp] at h; cases h
        · rw [← h]
          cases indexTerminal dO terminal with
          | skip => exact .refl _
          | raise msg => exact .refl _
          | key tvs =>
            simp only
            match m, sub with
            | .tok .., _ => exact .refl _
            | .node _ [], _ => exact .refl _
            | .node _ (.tok .. :: _), _ => exact .refl _
            | .node km (.node rk rcs :: rest), sub =>
              simp only
              exact idx_recv_le rk rcs tvs (sub k km rk rcs rest _ rfl)

theorem visit_le (t : Cel) : Le (visit dO t) (visit dN t) := by
  have hn := nameLe_all t.size t (Nat.le_refl _)
  unfold visit
  split
  · exact .refl _
  · rename_i k cs
    by_cases h1 : k = .member_dot ∧ dO.top.contains .member_dot = true
    · have h1' : k = .member_dot ∧ dN.top.contains .member_dot = true := h1
      rw [if_pos h1, if_pos h1']; exact hn.1
    · have h1' : ¬ (k = .member_dot ∧ dN.top.contains .member_dot = true) := h1
      rw [if_neg h1, if_neg h1']
      by_cases h2 : k = .member_index ∧ dO.top.contains .member_index = true
      · have h2' : k = .member_index ∧ dN.top.contains .member_index = true := h2
        rw [if_pos h2, if_pos h2']; exact hn.2.2
      · have h2' : ¬ (k = .member_index ∧ dN.top.contains .member_index = true) := h2
        rw [if_neg h2, if_neg h2']; exact .refl _

theorem collect_le : ∀ (ts : List Cel) (ks : List String),
    collect (ts.map (visit dO)) = .ok ks → collect (ts.map (visit dN)) = .ok ks
  | [], ks, h => h
  | t :: ts, ks, h => by
    simp only [List.map_cons] at h ⊢
    rcases visit_le t with hr | he
    · cases hv : visit dO t with
      | raise m => rw [hv] at h; simp [collect] at h
      | key s => rw [hv] at hr; cases hr
      | skip => rw [hv] at hr; cases hr
    · rw [← he]
      cases hv : visit dO t with
      | raise m => rw [hv] at h; simp [collect] at h
      | skip =>
        rw [hv] at h
        simp only [collect] at h ⊢
        exact collect_le ts ks h
      | key s =>
        rw [hv] at h
        simp only [collect] at h ⊢
        cases hc : collect (ts.map (visit dO)) with
        | error e => rw [hc] at h; simp [Except.map] at h
        | ok ks' =>
          rw [hc] at h
          rw [collect_le ts ks' hc]
          exact h

/-- wherever the pre-F5 extractor returned a key set, the repaired one returns the same -/
theorem extractWith_conservative (t : Cel) (ks : List String)
    (h : extractWith unrepairedDispatch t = .ok ks) : extractWith modelDispatch t = .ok ks :=
  collect_le t.subtrees ks h

end Koreo.CelAst
