/-
  C05: what koreo itself wrote is a well-shaped last-applied tree — `laOkB t (strip t)` for every
  well-formed target with distinct keys.
-/
import Koreo.Lemmas.CompareStrip
namespace Koreo.Compare
open Koreo Koreo.JVal

mutual
theorem laOk_strip_self (t : JVal) (hw : wfB t = true) (hn : noDupB t = true) : laOkB t (strip t) = true := by
  match t with
  | .obj tkvs =>
    rw [wfB.eq_1, Bool.and_eq_true] at hw
    rw [noDupB.eq_2, Bool.and_eq_true] at hn
    rw [strip.eq_1, laOkB.eq_1, Bool.and_eq_true]
    refine ⟨rfl, ?_⟩
    exact laOkO_strip_self (specDirs tkvs) tkvs tkvs (fun k f hf => specMap_strs _ k f hf)
      (fun k tv hm hd => by rw [lookup_stripO k hd, mem_lookup_nodup tkvs k tv hn.1 hm]; rfl) hw.2 hn.2
  | .arr txs =>
    rw [wfB.eq_2] at hw
    rw [noDupB.eq_1] at hn
    rw [strip.eq_2, laOkB.eq_2, Bool.and_eq_true]
    exact ⟨rfl, laOkL_strip_self txs hw hn⟩
  | .null | .bool _ | .int _ | .flt _ | .str _ => rw [laOkB.eq_def]
termination_by structural t
theorem laOkO_strip_self (d : Dirs) (all tkvs : List (String × JVal))
    (hd : ∀ k f, fieldsFor k d.asMap = some f → f.all isStr = true)
    (hsub : ∀ k tv, (k, tv) ∈ tkvs → isDirective k = false → lookup k (stripO all) = some (strip tv))
    (hw : wfO d tkvs = true) (hn : noDupO tkvs = true) :
    laOkO d (laObjKvs (.obj (stripO all))) tkvs = true := by
  match tkvs with
  | [] => rw [laOkO.eq_1]
  | (k, tv) :: rest =>
    rw [wfO.eq_2, Bool.and_eq_true, Bool.and_eq_true] at hw
    rw [noDupO.eq_2, Bool.and_eq_true] at hn
    have ih := laOkO_strip_self d all rest hd
      (fun k' tv' hm hdk => hsub k' tv' (List.mem_cons_of_mem _ hm) hdk) hw.2 hn.2
    rw [laOkO.eq_2, Bool.and_eq_true]
    refine ⟨?_, ih⟩
    by_cases hs : skippedKey k = true
    · rw [if_pos hs]
    · rw [if_neg hs]
      have hdir : isDirective k = false := by
        cases h : isDirective k
        · rfl
        · simp [skippedKey, h] at hs
      have hkd : keyDirOk d k tv = true := by simpa [hdir] using hw.1.1
      have hl := hsub k tv (List.mem_cons_self ..) hdir
      have hlav : laVal (laObjKvs (.obj (stripO all))) k = strip tv := by
        simp only [laVal, laObjKvs, hl, Option.getD_some]
      rw [hlav]
      match hf : fieldsFor k d.asMap with
      | some fields =>
        cases tv with
        | arr tms =>
          simp only [keyDirOk, hf, Bool.and_eq_true] at hkd
          rw [wfB.eq_2] at hw
          rw [noDupB.eq_1] at hn
          have hao : allObj (stripL tms) = true := by rw [allObj_stripL]; exact hkd.1.1
          have : laMembers (strip (.arr tms)) = stripL tms := by simp [strip, laMembers, hao]
          simp only [this]
          exact laOkK_strip_self fields (hd k fields hf) hkd.2.1 tms hkd.1.1 hkd.1.2 hkd.2.2 tms
            (fun _ h => h) hw.1.2 hn.1
        | _ => simp [keyDirOk, hf] at hkd
      | none => exact laOk_strip_self tv hw.1.2 hn.1
termination_by structural tkvs
theorem laOkL_strip_self (txs : List JVal) (hw : wfL txs = true) (hn : noDupL txs = true) :
    laOkL txs (laArrItems (.arr (stripL txs))) = true := by
  match txs with
  | [] => rw [laOkL.eq_1]
  | t :: ts =>
    rw [wfL.eq_2, Bool.and_eq_true] at hw
    rw [noDupL.eq_2, Bool.and_eq_true] at hn
    simp only [stripL, laArrItems]
    rw [laOkL.eq_2, Bool.and_eq_true]
    exact ⟨laOk_strip_self t hw.1 hn.1, laOkL_strip_self ts hw.2 hn.2⟩
termination_by structural txs
theorem laOkK_strip_self (fields : List JVal) (hf : fields.all isStr = true) (hfo : fields.all fieldOk = true)
    (all : List JVal) (hao : allObj all = true) (hdist : keysDistinct fields all = true)
    (hsc : all.all (keyValsScalar fields) = true)
    (tms : List JVal) (hsub : ∀ tm ∈ tms, tm ∈ all) (hw : wfL tms = true) (hn : noDupL tms = true) :
    laOkK fields (stripL all) tms = true := by
  match tms with
  | [] => rw [laOkK.eq_1]
  | tm :: rest =>
    rw [wfL.eq_2, Bool.and_eq_true] at hw
    rw [noDupL.eq_2, Bool.and_eq_true] at hn
    have ih := laOkK_strip_self fields hf hfo all hao hdist hsc rest
      (fun x hx => hsub x (List.mem_cons_of_mem _ hx)) hw.2 hn.2
    have hmem := hsub tm (List.mem_cons_self ..)
    cases tm with
    | obj mkvs =>
      obtain ⟨key, hkey⟩ := objKey_isSome fields hf mkvs
      have hmk : memberKey fields (.obj mkvs) = some key := hkey
      have hstripKey : ∀ x ∈ all, memberKey fields (strip x) = memberKey fields x := fun x hx =>
        memberKey_strip fields hfo x (List.all_eq_true.mp hsc x hx)
      have honly : ∀ l ∈ stripL all, memberKey fields l = some key → l = strip (.obj mkvs) := by
        intro l hl hk
        obtain ⟨x, hx, rfl⟩ := mem_stripL all l hl
        rw [hstripKey x hx] at hk
        rw [key_unique fields all hdist x (.obj mkvs) key hx hmem hk hmk]
      have hhas : hasKey fields key (stripL all) = true :=
        (hasKey_iff fields key _).mpr ⟨_, strip_mem_stripL all _ hmem, by rw [hstripKey _ hmem]; exact hmk⟩
      have hlam : laMember fields key (stripL all) = strip (.obj mkvs) := by
        obtain ⟨h1, h2⟩ := laMember_spec fields key (stripL all) hhas
        exact honly _ h1 h2
      rw [laOkK.eq_2, Bool.and_eq_true]
      refine ⟨?_, ih⟩
      simp only [hkey, hlam]
      exact laOk_strip_self (.obj mkvs) hw.1 hn.1
    | _ => obtain ⟨_, e⟩ := allObj_mem all hao _ hmem; cases e
termination_by structural tms
end

end Koreo.Compare
