/-
  Helper lemmas for C03 (outcome algebra).  Property theorems live in `Props/C03.lean`.
-/
import Koreo.Result

namespace Koreo.Result
variable {α : Type}

/-! ### strings -/

theorem str_append_eq_empty {s t : String} (h : s ++ t = "") : s = "" ∧ t = "" := by
  have := congrArg String.length h
  simp at this
  exact this

theorem truthyList_ne_empty : ∀ (ms : List (Option String)), ∀ s ∈ truthyList ms, s ≠ ""
  | [], s, h => by simp [truthyList] at h
  | none :: rest, s, h => by
    simp only [truthyList] at h; exact truthyList_ne_empty rest s h
  | some a :: rest, s, h => by
    simp only [truthyList] at h
    split at h
    · rename_i hne
      simp only [List.mem_cons] at h
      rcases h with h | h
      · subst h; simpa using hne
      · exact truthyList_ne_empty rest s h
    · exact truthyList_ne_empty rest s h

theorem truthyList_append (a b : List (Option String)) :
    truthyList (a ++ b) = truthyList a ++ truthyList b := by
  induction a with
  | nil => simp [truthyList]
  | cons x xs ih =>
    cases x with
    | none => simpa [truthyList] using ih
    | some s =>
      simp only [List.cons_append, truthyList]
      split <;> simp [ih]

theorem joinStrs_ne_empty : ∀ (l : List String), l ≠ [] → (∀ s ∈ l, s ≠ "") → joinStrs l ≠ ""
  | [], h, _ => absurd rfl h
  | [a], _, h => by simpa [joinStrs] using h a (by simp)
  | a :: b :: rest, _, h => by
    simp only [joinStrs]
    intro hc
    have := (str_append_eq_empty hc).1
    have := (str_append_eq_empty this).1
    exact h a (by simp) this

theorem joinStrs_snoc : ∀ (l : List String) (c : String), l ≠ [] →
    joinStrs (l ++ [c]) = joinStrs l ++ sep ++ c
  | [], _, h => absurd rfl h
  | [a], c, _ => by simp [joinStrs]
  | a :: b :: rest, c, _ => by
    have ih := joinStrs_snoc (b :: rest) c (by simp)
    simp only [List.cons_append] at ih ⊢
    simp only [joinStrs] at ih ⊢
    rw [ih]
    simp [String.append_assoc]

/-- spec of a merged message: a single winner keeps its message untouched, several
    winners give the `", "`-join of their non-empty messages in order -/
def mergeMsgs : List (Option String) → Option String
  | [m] => m
  | ms => some (joinStrs (truthyList ms))

theorem join2_mergeMsgs (ms : List (Option String)) (m : Option String) (h : ms ≠ []) :
    join2 (mergeMsgs ms) m = mergeMsgs (ms ++ [m]) := by
  match ms, h with
  | [a], _ => simp [mergeMsgs, join2]
  | a :: b :: rest, _ =>
    have e1 : mergeMsgs (a :: b :: rest) = some (joinStrs (truthyList (a :: b :: rest))) := rfl
    have e2 : mergeMsgs (a :: b :: rest ++ [m]) =
        some (joinStrs (truthyList (a :: b :: rest ++ [m]))) := by
      simp [mergeMsgs]
    rw [e1, e2, truthyList_append]
    generalize hT : truthyList (a :: b :: rest) = T
    have hTne : ∀ s ∈ T, s ≠ "" := by
      intro s hs; rw [← hT] at hs; exact truthyList_ne_empty _ s hs
    simp only [join2]
    congr 1
    by_cases hTe : T = []
    · subst hTe
      cases m with
      | none => simp [truthyList, joinStrs]
      | some c => by_cases hc : c = "" <;> simp [truthyList, joinStrs, hc]
    · have hJ := joinStrs_ne_empty T hTe hTne
      cases m with
      | none => simp [truthyList, joinStrs, hJ]
      | some c =>
        by_cases hc : c = ""
        · simp [truthyList, joinStrs, hJ, hc]
        · simp [truthyList, joinStrs, hJ, hc, joinStrs_snoc T c hTe]

/-! ### pairwise combine -/

theorem combine_cls (a b : Outcome α) : (a.combine b).cls = maxCls a.cls b.cls := by
  cases a <;> cases b <;> simp [Outcome.combine, Outcome.cls, maxCls, Cls.rank]

theorem combine_lt (a b : Outcome α) (h : a.cls.rank < b.cls.rank) : a.combine b = b := by
  cases a <;> cases b <;> simp_all [Outcome.combine, Outcome.cls, Cls.rank]

theorem maxCls_rank (a b : Cls) : (maxCls a b).rank = max a.rank b.rank := by
  unfold maxCls; split <;> omega

theorem rank_inj {a b : Cls} (h : a.rank = b.rank) : a = b := by
  cases a <;> cases b <;> simp_all [Cls.rank]

theorem fold_cls_rank (acc : Outcome α) (xs : List (Outcome α)) :
    (xs.foldl Outcome.combine acc).cls.rank =
      xs.foldl (fun n o => max n o.cls.rank) acc.cls.rank := by
  induction xs generalizing acc with
  | nil => rfl
  | cons x xs ih => simp only [List.foldl_cons]; rw [ih, combine_cls, maxCls_rank]

theorem foldl_max_ge (n : Nat) (xs : List (Outcome α)) :
    n ≤ xs.foldl (fun n o => max n o.cls.rank) n ∧
    ∀ x ∈ xs, x.cls.rank ≤ xs.foldl (fun n o => max n o.cls.rank) n := by
  induction xs generalizing n with
  | nil => simp
  | cons x xs ih =>
    simp only [List.foldl_cons, List.mem_cons]
    have := ih (max n x.cls.rank)
    refine ⟨by omega, ?_⟩
    intro y hy
    rcases hy with rfl | hy
    · omega
    · exact this.2 y hy

theorem foldl_max_mem (n : Nat) (xs : List (Outcome α)) :
    xs.foldl (fun n o => max n o.cls.rank) n = n ∨
    ∃ x ∈ xs, x.cls.rank = xs.foldl (fun n o => max n o.cls.rank) n := by
  induction xs generalizing n with
  | nil => simp
  | cons x xs ih =>
    simp only [List.foldl_cons]
    rcases ih (max n x.cls.rank) with h | ⟨y, hy, hyr⟩
    · rw [h]
      by_cases hc : n < x.cls.rank
      · right; exact ⟨x, by simp, by omega⟩
      · left; omega
    · right; exact ⟨y, by simp [hy], hyr⟩

/-! ### folding from an accumulator that already has the winning class -/

/-- all further elements are at most as severe as the accumulator -/
def Dominated (acc : Outcome α) (xs : List (Outcome α)) : Prop :=
  ∀ x ∈ xs, x.cls.rank ≤ acc.cls.rank

theorem dominated_cons {acc x : Outcome α} {xs : List (Outcome α)} (h : Dominated acc (x :: xs)) :
    (acc.combine x).cls = acc.cls ∧ Dominated (acc.combine x) xs := by
  have hx := h x (by simp)
  have hc : (acc.combine x).cls = acc.cls := by
    rw [combine_cls]; unfold maxCls; split
    · omega
    · rfl
  refine ⟨hc, ?_⟩
  intro y hy
  rw [hc]; exact h y (by simp [hy])

theorem fold_dominated_cls (acc : Outcome α) (xs : List (Outcome α)) (h : Dominated acc xs) :
    (xs.foldl Outcome.combine acc).cls = acc.cls := by
  induction xs generalizing acc with
  | nil => rfl
  | cons x xs ih =>
    have := dominated_cons h
    simp only [List.foldl_cons]; rw [ih _ this.2, this.1]

/-- the elements of class `c`, in order -/
def winners (c : Cls) (xs : List (Outcome α)) : List (Outcome α) := xs.filter (·.cls == c)

theorem cls_beq_false {a b : Cls} (h : a ≠ b) : (a == b) = false := by
  cases a <;> cases b <;> first | rfl | exact absurd rfl h

theorem cls_beq_true {a b : Cls} (h : a = b) : (a == b) = true := by
  subst h; cases a <;> rfl

theorem winners_cons_eq {c : Cls} {x : Outcome α} (xs : List (Outcome α)) (h : x.cls = c) :
    winners c (x :: xs) = x :: winners c xs := by
  simp [winners, cls_beq_true h]

theorem winners_cons_ne {c : Cls} {x : Outcome α} (xs : List (Outcome α)) (h : x.cls ≠ c) :
    winners c (x :: xs) = winners c xs := by
  simp [winners, cls_beq_false h]

/-- Ok accumulator: values accumulate in order -/
theorem fold_ok_vals (acc : Outcome α) (xs : List (Outcome α)) (hc : acc.cls = .ok)
    (h : Dominated acc xs) :
    (xs.foldl Outcome.combine acc).vals = acc.vals ++ xs.flatMap Outcome.vals := by
  induction xs generalizing acc with
  | nil => simp
  | cons x xs ih =>
    have hd := dominated_cons h
    simp only [List.foldl_cons, List.flatMap_cons]
    rw [ih _ (hd.1.trans hc) hd.2, ← List.append_assoc]
    congr 1
    have hx := h x (by simp)
    cases acc <;> simp [Outcome.cls] at hc
    cases x <;> simp_all [Outcome.combine, Outcome.vals, Outcome.cls, Cls.rank, unwrapData]

/-- Retry accumulator: delay is the running `delayOp`, message/location merge over the Retry elements -/
theorem fold_retry (d : Int) (ms ls : List (Option String)) (hms : ms ≠ []) (hls : ls ≠ [])
    (xs : List (Outcome α))
    (h : Dominated (Outcome.retry d (mergeMsgs ms) (mergeMsgs ls) : Outcome α) xs) :
    xs.foldl Outcome.combine (Outcome.retry d (mergeMsgs ms) (mergeMsgs ls)) =
      Outcome.retry ((winners .retry xs).foldl (fun a o => delayOp a (o.delay?.getD 0)) d)
        (mergeMsgs (ms ++ (winners .retry xs).map Outcome.msg))
        (mergeMsgs (ls ++ (winners .retry xs).map Outcome.loc)) := by
  induction xs generalizing d ms ls with
  | nil => simp [winners]
  | cons x xs ih =>
    have hx := h x (by simp)
    have hd := dominated_cons h
    simp only [List.foldl_cons]
    cases x with
    | retry d' m' l' =>
      have e : (Outcome.retry d (mergeMsgs ms) (mergeMsgs ls) : Outcome α).combine
          (Outcome.retry d' m' l') =
          Outcome.retry (delayOp d d') (mergeMsgs (ms ++ [m'])) (mergeMsgs (ls ++ [l'])) := by
        simp [Outcome.combine, join2_mergeMsgs _ _ hms, join2_mergeMsgs _ _ hls]
      rw [e] at hd ⊢
      rw [ih _ _ _ (by simp) (by simp) hd.2, winners_cons_eq (c := .retry) xs rfl]
      simp [Outcome.delay?, Outcome.msg, Outcome.loc, List.append_assoc]
    | permFail m' l' => simp [Outcome.cls, Cls.rank] at hx
    | depSkip m' l' =>
      have e : (Outcome.retry d (mergeMsgs ms) (mergeMsgs ls) : Outcome α).combine
          (Outcome.depSkip m' l') = Outcome.retry d (mergeMsgs ms) (mergeMsgs ls) := by
        simp [Outcome.combine]
      rw [e] at hd ⊢
      rw [ih _ _ _ hms hls hd.2, winners_cons_ne xs (by simp [Outcome.cls])]
    | skip m' l' =>
      have e : (Outcome.retry d (mergeMsgs ms) (mergeMsgs ls) : Outcome α).combine
          (Outcome.skip m' l') = Outcome.retry d (mergeMsgs ms) (mergeMsgs ls) := by
        simp [Outcome.combine]
      rw [e] at hd ⊢
      rw [ih _ _ _ hms hls hd.2, winners_cons_ne xs (by simp [Outcome.cls])]
    | ok dd l' =>
      have e : (Outcome.retry d (mergeMsgs ms) (mergeMsgs ls) : Outcome α).combine
          (Outcome.ok dd l') = Outcome.retry d (mergeMsgs ms) (mergeMsgs ls) := by
        simp [Outcome.combine]
      rw [e] at hd ⊢
      rw [ih _ _ _ hms hls hd.2, winners_cons_ne xs (by simp [Outcome.cls])]

/-- PermFail accumulator -/
theorem fold_permFail (ms ls : List (Option String)) (hms : ms ≠ []) (hls : ls ≠ [])
    (xs : List (Outcome α)) :
    xs.foldl Outcome.combine (Outcome.permFail (mergeMsgs ms) (mergeMsgs ls)) =
      Outcome.permFail
        (mergeMsgs (ms ++ (winners .permFail xs).map Outcome.msg))
        (mergeMsgs (ls ++ (winners .permFail xs).map Outcome.loc)) := by
  induction xs generalizing ms ls with
  | nil => simp [winners]
  | cons x xs ih =>
    simp only [List.foldl_cons]
    cases x with
    | permFail m' l' =>
      have e : (Outcome.permFail (mergeMsgs ms) (mergeMsgs ls) : Outcome α).combine
          (Outcome.permFail m' l') =
          Outcome.permFail (mergeMsgs (ms ++ [m'])) (mergeMsgs (ls ++ [l'])) := by
        simp [Outcome.combine, join2_mergeMsgs _ _ hms, join2_mergeMsgs _ _ hls]
      rw [e, ih _ _ (by simp) (by simp), winners_cons_eq (c := .permFail) xs rfl]
      simp [Outcome.msg, Outcome.loc, List.append_assoc]
    | retry d' m' l' =>
      have e : (Outcome.permFail (mergeMsgs ms) (mergeMsgs ls) : Outcome α).combine
          (Outcome.retry d' m' l') = Outcome.permFail (mergeMsgs ms) (mergeMsgs ls) := by
        simp [Outcome.combine]
      rw [e, ih _ _ hms hls, winners_cons_ne xs (by simp [Outcome.cls])]
    | depSkip m' l' =>
      have e : (Outcome.permFail (mergeMsgs ms) (mergeMsgs ls) : Outcome α).combine
          (Outcome.depSkip m' l') = Outcome.permFail (mergeMsgs ms) (mergeMsgs ls) := by
        simp [Outcome.combine]
      rw [e, ih _ _ hms hls, winners_cons_ne xs (by simp [Outcome.cls])]
    | skip m' l' =>
      have e : (Outcome.permFail (mergeMsgs ms) (mergeMsgs ls) : Outcome α).combine
          (Outcome.skip m' l') = Outcome.permFail (mergeMsgs ms) (mergeMsgs ls) := by
        simp [Outcome.combine]
      rw [e, ih _ _ hms hls, winners_cons_ne xs (by simp [Outcome.cls])]
    | ok dd l' =>
      have e : (Outcome.permFail (mergeMsgs ms) (mergeMsgs ls) : Outcome α).combine
          (Outcome.ok dd l') = Outcome.permFail (mergeMsgs ms) (mergeMsgs ls) := by
        simp [Outcome.combine]
      rw [e, ih _ _ hms hls, winners_cons_ne xs (by simp [Outcome.cls])]

/-! ### splitting a list at the first element of the winning class -/

theorem fold_below (n : Nat) (acc : Outcome α) (pre : List (Outcome α))
    (ha : acc.cls.rank < n) (hp : ∀ x ∈ pre, x.cls.rank < n) :
    (pre.foldl Outcome.combine acc).cls.rank < n := by
  induction pre generalizing acc with
  | nil => simpa
  | cons x xs ih =>
    simp only [List.foldl_cons]
    apply ih
    · rw [combine_cls, maxCls_rank]
      have := hp x (by simp); omega
    · intro y hy; exact hp y (by simp [hy])

/-- any list with an element of rank `n` that is maximal splits at the first such element -/
theorem split_first (n : Nat) (xs : List (Outcome α)) (hmax : ∀ x ∈ xs, x.cls.rank ≤ n)
    (hex : ∃ x ∈ xs, x.cls.rank = n) :
    ∃ pre w post, xs = pre ++ w :: post ∧ w.cls.rank = n ∧
      (∀ x ∈ pre, x.cls.rank < n) ∧ (∀ x ∈ post, x.cls.rank ≤ n) := by
  induction xs with
  | nil => obtain ⟨x, hx, _⟩ := hex; simp at hx
  | cons y ys ih =>
    by_cases hy : y.cls.rank = n
    · exact ⟨[], y, ys, rfl, hy, by simp, fun x hx => hmax x (by simp [hx])⟩
    · have hylt : y.cls.rank < n := by have := hmax y (by simp); omega
      obtain ⟨x, hx, hxn⟩ := hex
      have hxys : x ∈ ys := by
        simp only [List.mem_cons] at hx
        rcases hx with rfl | hx
        · exact absurd hxn hy
        · exact hx
      obtain ⟨pre, w, post, e, hw, hpre, hpost⟩ :=
        ih (fun x hx => hmax x (by simp [hx])) ⟨x, hxys, hxn⟩
      refine ⟨y :: pre, w, post, by simp [e], hw, ?_, hpost⟩
      intro z hz
      simp only [List.mem_cons] at hz
      rcases hz with rfl | hz
      · exact hylt
      · exact hpre z hz

/-- folding from `DepSkip()` over `pre ++ w :: post` restarts at `w` -/
theorem fold_split (pre post : List (Outcome α)) (w : Outcome α)
    (hw : 0 < w.cls.rank) (hpre : ∀ x ∈ pre, x.cls.rank < w.cls.rank) :
    fold (pre ++ w :: post) = post.foldl Outcome.combine w := by
  unfold fold
  rw [List.foldl_append, List.foldl_cons]
  congr 1
  apply combine_lt
  exact fold_below _ _ _ (by simpa [Outcome.cls, Cls.rank] using hw) hpre

theorem winners_split (c : Cls) (pre post : List (Outcome α)) (w : Outcome α)
    (hw : w.cls = c) (hpre : ∀ x ∈ pre, x.cls.rank < c.rank) :
    winners c (pre ++ w :: post) = w :: winners c post := by
  unfold winners
  rw [List.filter_append, List.filter_cons]
  have : pre.filter (·.cls == c) = [] := by
    rw [List.filter_eq_nil_iff]
    intro x hx
    have := hpre x hx
    have hne : x.cls ≠ c := by intro e; rw [e] at this; omega
    simp [cls_beq_false hne]
  simp [this, cls_beq_true hw]

/-! ## the join cuts nothing, at any length (round 6) -/

theorem sep_length : sep.length = 2 := by decide

/-- `", ".join` cuts nothing: the joined text is as long as all its parts and the separators between them -/
theorem joinStrs_length : ∀ (l : List String),
    (joinStrs l).length = (l.map String.length).sum + 2 * (l.length - 1)
  | [] => by simp [joinStrs]
  | [a] => by simp [joinStrs]
  | a :: b :: rest => by
    have ih := joinStrs_length (b :: rest)
    simp only [joinStrs, String.length_append, ih, sep_length, List.map_cons, List.sum_cons, List.length_cons]
    omega

/-- every joined string is found, whole, inside the joined text -/
theorem joinStrs_contains : ∀ (l : List String) (m : String), m ∈ l →
    ∃ pre post, joinStrs l = pre ++ m ++ post
  | [], m, h => by simp at h
  | [a], m, h => by
    have : m = a := by simpa using h
    subst this
    exact ⟨"", "", by simp [joinStrs]⟩
  | a :: b :: rest, m, h => by
    rcases List.mem_cons.1 h with e | h'
    · subst e
      exact ⟨"", sep ++ joinStrs (b :: rest), by simp [joinStrs, String.append_assoc]⟩
    · obtain ⟨pre, post, e⟩ := joinStrs_contains (b :: rest) m h'
      exact ⟨a ++ sep ++ pre, post, by simp [joinStrs, e, String.append_assoc]⟩

theorem mem_truthyList : ∀ (ms : List (Option String)) (s : String),
    s ∈ truthyList ms ↔ (some s ∈ ms ∧ s ≠ "")
  | [], s => by simp [truthyList]
  | none :: rest, s => by simp [truthyList, mem_truthyList rest s]
  | some t :: rest, s => by
    have ih := mem_truthyList rest s
    by_cases ht : t = ""
    · subst ht
      simp only [truthyList, bne_self_eq_false, Bool.false_eq_true, ↓reduceIte, ih, List.mem_cons,
        Option.some.injEq]
      grind
    · simp only [truthyList, bne_iff_ne, ne_eq, ht, not_false_eq_true, ↓reduceIte, List.mem_cons, ih,
        Option.some.injEq]
      grind

/-- the merged message of the winners contains every non-empty winner message, whole -/
theorem mergeMsgs_contains (ms : List (Option String)) (s : String) (h : some s ∈ ms) (hs : s ≠ "") :
    ∃ t pre post, mergeMsgs ms = some t ∧ t = pre ++ s ++ post := by
  match ms, h with
  | [m], h =>
    have : m = some s := by simpa [eq_comm] using h
    subst this
    exact ⟨s, "", "", rfl, by simp⟩
  | [], h => simp at h
  | a :: b :: rest, h =>
    obtain ⟨pre, post, e⟩ := joinStrs_contains (truthyList (a :: b :: rest)) s
      ((mem_truthyList _ s).2 ⟨h, hs⟩)
    exact ⟨_, pre, post, rfl, e⟩

end Koreo.Result
