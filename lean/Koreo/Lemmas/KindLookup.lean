/-
  Invariant of the discovery lock table when the lock is filed under the key of the result
  (`Cfg.lk` injective): whoever waits, waits on a lookup of ITS OWN key.
-/
import Koreo.KindLookup

namespace Koreo.KindLookup

/-- event `ev` belongs to a lookup of key `k` which is in flight, or has ended with `k` remembered -/
def Good (c : Cfg) (s : St) (k : Key) (ev : Nat) : Prop :=
  s.reqs ev = some (.owner k) ∨ (s.isSet ev = true ∧ s.plural k = some (c.srv k))

structure Inv (c : Cfg) (s : St) : Prop where
  plural_ok : ∀ k p, s.plural k = some p → p = c.srv k
  waiting_ok : ∀ r k ev, s.reqs r = some (.waiting k ev) → Good c s k ev
  locks_ok : ∀ l ev, s.locks l = some ev → ∃ k, c.lk k = l ∧ Good c s k ev
  done_ok : ∀ r k p, s.reqs r = some (.done k p) → p = some (c.srv k)
  set_done : ∀ ev, s.isSet ev = true → ∃ k p, s.reqs ev = some (.done k p)

theorem inv_cold (c : Cfg) : Inv c cold := by
  constructor <;> intros <;> simp_all [cold]

theorem upd_same {α β : Type} [DecidableEq α] (f : α → β) (a : α) (b : β) : upd f a b a = b := by
  simp [upd]

theorem upd_other {α β : Type} [DecidableEq α] (f : α → β) (a x : α) (b : β) (h : x ≠ a) :
    upd f a b x = f x := by
  simp [upd, h]

/-- `Good` survives a request table update at a request that was not an owner, when nothing else changes -/
theorem good_of_reqs_upd (c : Cfg) (s : St) (r : Nat) (q : Option Req) (k : Key) (ev : Nat)
    (hr : ∀ k', s.reqs r ≠ some (.owner k')) (h : Good c s k ev) :
    Good c { s with reqs := upd s.reqs r q } k ev := by
  rcases h with h | h
  · left
    have : ev ≠ r := by
      intro e; subst e; exact hr k h
    simp [upd, this, h]
  · right; exact h

theorem inv_step (c : Cfg) (hinj : ∀ a b, c.lk a = c.lk b → a = b) (s s' : St) (e : Ev)
    (hi : Inv c s) (h : step c s e = some s') : Inv c s' := by
  cases e with
  | call r k =>
    simp only [step] at h
    cases hr : s.reqs r with
    | some q => simp [hr] at h
    | none =>
      have hfresh : ∀ k', s.reqs r ≠ some (.owner k') := by simp [hr]
      simp only [hr] at h
      cases hp : s.plural k with
      | some p =>
        simp only [hp, Option.some.injEq] at h
        subst h
        constructor
        · exact hi.plural_ok
        · intro r' k' ev hw
          by_cases e : r' = r
          · subst e; simp [upd] at hw
          · simp only [upd, e, if_false] at hw
            exact good_of_reqs_upd c s r _ k' ev hfresh (hi.waiting_ok r' k' ev hw)
        · intro l ev hl
          obtain ⟨k', hk', hg⟩ := hi.locks_ok l ev hl
          exact ⟨k', hk', good_of_reqs_upd c s r _ k' ev hfresh hg⟩
        · intro r' k' p' hd
          by_cases e : r' = r
          · subst e
            simp only [upd, if_true, Option.some.injEq, Req.done.injEq] at hd
            obtain ⟨rfl, rfl⟩ := hd
            rw [hi.plural_ok k p hp]
          · simp only [upd, e, if_false] at hd
            exact hi.done_ok r' k' p' hd
        · intro ev hs
          obtain ⟨k', p', hd⟩ := hi.set_done ev hs
          have : ev ≠ r := by intro e; subst e; simp [hr] at hd
          exact ⟨k', p', by simp [upd, this, hd]⟩
      | none =>
        simp only [hp] at h
        cases hl : s.locks (c.lk k) with
        | some ev0 =>
          simp only [hl, Option.some.injEq] at h
          subst h
          constructor
          · exact hi.plural_ok
          · intro r' k' ev hw
            by_cases e : r' = r
            · subst e
              simp only [upd, if_true, Option.some.injEq, Req.waiting.injEq] at hw
              obtain ⟨rfl, rfl⟩ := hw
              obtain ⟨k', hk', hg⟩ := hi.locks_ok _ _ hl
              have : k' = k := hinj _ _ hk'
              subst this
              exact good_of_reqs_upd c s r' _ k' ev0 hfresh hg
            · simp only [upd, e, if_false] at hw
              exact good_of_reqs_upd c s r _ k' ev hfresh (hi.waiting_ok r' k' ev hw)
          · intro l ev hl'
            obtain ⟨k', hk', hg⟩ := hi.locks_ok l ev hl'
            exact ⟨k', hk', good_of_reqs_upd c s r _ k' ev hfresh hg⟩
          · intro r' k' p' hd
            by_cases e : r' = r
            · subst e; simp [upd] at hd
            · simp only [upd, e, if_false] at hd
              exact hi.done_ok r' k' p' hd
          · intro ev hs
            obtain ⟨k', p', hd⟩ := hi.set_done ev hs
            have : ev ≠ r := by intro e; subst e; simp [hr] at hd
            exact ⟨k', p', by simp [upd, this, hd]⟩
        | none =>
          simp only [hl, Option.some.injEq] at h
          subst h
          have hgood : ∀ k' ev, Good c s k' ev →
              Good c { s with locks := upd s.locks (c.lk k) (some r),
                              reqs := upd s.reqs r (some (.owner k)) } k' ev := by
            intro k' ev hg
            rcases hg with hg | hg
            · left
              have : ev ≠ r := by intro e; subst e; simp [hr] at hg
              simp [upd, this, hg]
            · right; exact hg
          constructor
          · exact hi.plural_ok
          · intro r' k' ev hw
            by_cases e : r' = r
            · subst e; simp [upd] at hw
            · simp only [upd, e, if_false] at hw
              exact hgood k' ev (hi.waiting_ok r' k' ev hw)
          · intro l ev hl'
            by_cases e : l = c.lk k
            · subst e
              simp only [upd, if_true, Option.some.injEq] at hl'
              subst hl'
              exact ⟨k, rfl, Or.inl (by simp [upd])⟩
            · simp only [upd, e, if_false] at hl'
              obtain ⟨k', hk', hg⟩ := hi.locks_ok l ev hl'
              exact ⟨k', hk', hgood k' ev hg⟩
          · intro r' k' p' hd
            by_cases e : r' = r
            · subst e; simp [upd] at hd
            · simp only [upd, e, if_false] at hd
              exact hi.done_ok r' k' p' hd
          · intro ev hs
            obtain ⟨k', p', hd⟩ := hi.set_done ev hs
            have : ev ≠ r := by intro e; subst e; simp [hr] at hd
            exact ⟨k', p', by simp [upd, this, hd]⟩
  | answer r =>
    simp only [step] at h
    cases hr : s.reqs r with
    | none => simp [hr] at h
    | some q =>
      cases q with
      | waiting k ev => simp [hr] at h
      | done k p => simp [hr] at h
      | owner k =>
        simp only [hr, Option.some.injEq] at h
        subst h
        have hgood : ∀ k' ev, Good c s k' ev →
            (upd s.reqs r (some (Req.done k (some (c.srv k)))) ev = some (.owner k') ∨
             (upd s.isSet r true ev = true ∧ upd s.plural k (some (c.srv k)) k' = some (c.srv k'))) := by
          intro k' ev hg
          rcases hg with hg | hg
          · by_cases e : ev = r
            · subst e
              rw [hr] at hg
              simp only [Option.some.injEq, Req.owner.injEq] at hg
              subst hg
              right; simp [upd]
            · left; simp [upd, e, hg]
          · right
            refine ⟨by by_cases e : ev = r <;> simp [upd, e, hg.1], ?_⟩
            by_cases e : k' = k
            · subst e; simp [upd]
            · simp [upd, e, hg.2]
        constructor
        · intro k' p hp
          by_cases e : k' = k
          · subst e; simp [upd] at hp; exact hp.symm
          · simp only [upd, e, if_false] at hp
            exact hi.plural_ok k' p hp
        · intro r' k' ev hw
          by_cases e : r' = r
          · subst e; simp [upd] at hw
          · simp only [upd, e, if_false] at hw
            exact hgood k' ev (hi.waiting_ok r' k' ev hw)
        · intro l ev hl
          have hl0 : s.locks l = some ev := by
            cases hrel : c.release with
            | false => simpa [hrel] using hl
            | true =>
              simp only [hrel, if_true] at hl
              by_cases e : l = c.lk k
              · subst e; simp [upd] at hl
              · simpa [upd, e] using hl
          obtain ⟨k', hk', hg⟩ := hi.locks_ok l ev hl0
          exact ⟨k', hk', hgood k' ev hg⟩
        · intro r' k' p' hd
          by_cases e : r' = r
          · subst e
            simp only [upd, if_true, Option.some.injEq, Req.done.injEq] at hd
            obtain ⟨rfl, rfl⟩ := hd
            rfl
          · simp only [upd, e, if_false] at hd
            exact hi.done_ok r' k' p' hd
        · intro ev hs
          by_cases e : ev = r
          · subst e; exact ⟨k, some (c.srv k), by simp [upd]⟩
          · simp only [upd, e, if_false] at hs
            obtain ⟨k', p', hd⟩ := hi.set_done ev hs
            exact ⟨k', p', by simp [upd, e, hd]⟩
  | wake r =>
    simp only [step] at h
    cases hr : s.reqs r with
    | none => simp [hr] at h
    | some q =>
      cases q with
      | owner k => simp [hr] at h
      | done k p => simp [hr] at h
      | waiting k ev0 =>
        simp only [hr] at h
        cases hs0 : s.isSet ev0 with
        | false => simp [hs0] at h
        | true =>
          simp only [hs0, if_true, Option.some.injEq] at h
          subst h
          have hnot : ∀ k', s.reqs r ≠ some (.owner k') := by simp [hr]
          constructor
          · exact hi.plural_ok
          · intro r' k' ev hw
            by_cases e : r' = r
            · subst e; simp [upd] at hw
            · simp only [upd, e, if_false] at hw
              exact good_of_reqs_upd c s r _ k' ev hnot (hi.waiting_ok r' k' ev hw)
          · intro l ev hl
            obtain ⟨k', hk', hg⟩ := hi.locks_ok l ev hl
            exact ⟨k', hk', good_of_reqs_upd c s r _ k' ev hnot hg⟩
          · intro r' k' p' hd
            by_cases e : r' = r
            · subst e
              simp only [upd, if_true, Option.some.injEq, Req.done.injEq] at hd
              obtain ⟨rfl, rfl⟩ := hd
              rcases hi.waiting_ok r' k ev0 hr with hg | hg
              · obtain ⟨k2, p2, hd2⟩ := hi.set_done ev0 hs0
                rw [hd2] at hg; simp at hg
              · exact hg.2
            · simp only [upd, e, if_false] at hd
              exact hi.done_ok r' k' p' hd
          · intro ev hs
            obtain ⟨k', p', hd⟩ := hi.set_done ev hs
            by_cases e : ev = r
            · subst e; exact ⟨k, s.plural k, by simp [upd]⟩
            · exact ⟨k', p', by simp [upd, e, hd]⟩

theorem inv_run (c : Cfg) (hinj : ∀ a b, c.lk a = c.lk b → a = b) (σ : List Ev) :
    ∀ (s s' : St), Inv c s → run c s σ = some s' → Inv c s' := by
  induction σ with
  | nil => intro s s' hi h; simp only [run, Option.some.injEq] at h; subst h; exact hi
  | cons e es ih =>
    intro s s' hi h
    simp only [run] at h
    cases hs : step c s e with
    | none => simp [hs] at h
    | some s1 =>
      simp only [hs] at h
      exact ih s1 s' (inv_step c hinj s s1 e hi hs) h

end Koreo.KindLookup
