/-
  Helper lemmas for C06/C08: the payload pipeline of `Koreo.ResourceFn` step by step, and the
  shape of the one request a reconcile may send.  Core Lean only.
-/
import Koreo.Lemmas.Identity
import Koreo.ResourceFn
namespace Koreo.Rf
open Koreo JVal Koreo.Identity Koreo.Payload Koreo.ResourceFn

/-- whatever the template and the overlay steps are, a materialised target carries the identity -/
theorem materialise_pinned (t : Target) (tmpl : JVal) (steps : List Step) {e : JVal}
    (h : materialise (forced t) tmpl steps = some e) : Pinned t e := by
  unfold materialise at h
  by_cases hs : steps.isEmpty = true
  · simp [hs] at h; subst h; exact pinned_deepOverlay_forced _ t
  · simp [hs] at h
    obtain ⟨r, _, rfl⟩ := h
    exact pinned_deepOverlay_forced _ t

theorem withOwner_pinned (t : Target) {so : Bool} {src ref v v' : JVal}
    (h : withOwner so src ref v = some v') (hp : Pinned t v) : Pinned t v' := by
  unfold withOwner at h
  cases so with
  | false => simp at h; subst h; exact hp
  | true =>
    simp only [if_true] at h
    cases hr : updatedOwnerRefs src ref with
    | none => simp [hr] at h
    | some refs =>
      simp [hr] at h
      exact pinned_setMetaKey t h (by decide) (by decide) hp

/-- the create payload carries the identity whatever create.overlay does -/
theorem createPayload_pinned (t : Target) (enc : JVal → String) (view : JVal) (cov : Option Step) (so : Bool)
    (ref : JVal) {p : JVal} (h : createPayload enc (forced t) view cov so ref = some p) : Pinned t p := by
  unfold createPayload at h
  cases hv : applyCreateOv cov view with
  | none => rw [hv] at h; simp at h
  | some v =>
    rw [hv] at h
    simp only [Option.bind_some] at h
    cases hw : withOwner so (deepOverlay v (forced t)) ref (deepOverlay v (forced t)) with
    | none => rw [hw] at h; simp at h
    | some w =>
      rw [hw] at h
      simp only [Option.bind_some] at h
      exact pinned_prepareForApi t h (withOwner_pinned t hw (pinned_deepOverlay_forced v t))

theorem patchView_pinned (t : Target) (expected live ref : JVal) (so r : Bool) {w : JVal}
    (he : Pinned t expected) (h : patchView expected live ref so r = some w) : Pinned t w := by
  unfold patchView at h
  by_cases hc : (so && !r) = true
  · simp only [hc, if_true] at h
    exact withOwner_pinned t h he
  · simp only [hc] at h
    exact pinned_dropMetaKey t h (by decide) (by decide) he

theorem patchPayload_pinned (t : Target) (enc : JVal → String) (expected live ref : JVal) (so r : Bool) {p : JVal}
    (he : Pinned t expected) (h : patchPayload enc expected live ref so r = some p) : Pinned t p := by
  unfold patchPayload at h
  cases hw : patchView expected live ref so r with
  | none => rw [hw] at h; simp at h
  | some w =>
    rw [hw] at h
    simp only [Option.bind_some] at h
    exact pinned_prepareForApi t h (patchView_pinned t expected live ref so r he hw)

/-! ## the POST -/

theorem createRequest_spec (t : Target) (c : ApiClass) (defNs : String) (hv : c.ver = t.ver) (hk : c.kind = t.kind)
    {p : JVal} {req : Request} (hp : Pinned t p) (h : createRequest c defNs p t.ns = some req) :
    req.method = .post ∧ req.plural = c.plural ∧ req.version = c.ver ∧ req.name = none ∧
    (∃ b, req.body = some b ∧ Pinned t b ∧
      req.nsArg = if c.namespaced then some ((metaKey "namespace" b).getD (.str defNs)) else none) := by
  unfold createRequest at h
  cases hn : krNew p t.ns with
  | none => simp [hn] at h
  | some o =>
    simp [hn] at h
    subst h
    have hpo := pinned_krRaw t c hv hk o (pinned_krNew t hn hp)
    exact ⟨rfl, rfl, rfl, rfl, _, rfl, hpo, by simp [krNamespace]⟩

/-- kr8s adds nothing to a pinned payload: the namespace its constructor writes and the
    kind/apiVersion its `raw` getter re-imposes are already there with the same values, so the
    body of the POST is the payload `_prepare_for_api` returned — the one its annotation records -/
theorem createRequest_body_eq (t : Target) (c : ApiClass) (defNs : String) (hv : c.ver = t.ver) (hk : c.kind = t.kind)
    {p : JVal} {req : Request} (hp : Pinned t p) (h : createRequest c defNs p t.ns = some req) :
    req.body = some p := by
  obtain ⟨h1, h2, h3, h4⟩ := hp
  unfold createRequest at h
  cases p with
  | obj kvs =>
    have hraw : krRaw c (.obj kvs) = .obj kvs := by
      simp only [getKey] at h1 h2
      rw [← hv] at h1; rw [← hk] at h2
      simp only [krRaw]
      rw [insert_of_lookup h2, insert_of_lookup h1]
    cases hns : t.ns with
    | none =>
      rw [hns] at h
      simp only [krNew, Option.map_some, Option.some.injEq] at h
      subst h
      simp [hraw]
    | some n =>
      rw [hns] at h
      have hn := h4 n hns
      simp only [metaKey, getKey] at hn
      cases hm : JVal.lookup "metadata" kvs with
      | none => simp [hm] at hn
      | some mv =>
        cases mv with
        | obj m =>
          simp only [hm, Option.bind_some, getKey] at hn
          have hset : setMetaKey "namespace" (.str n) (.obj kvs) = some (.obj kvs) := by
            simp only [setMetaKey, hm]
            rw [insert_of_lookup hn, insert_of_lookup hm]
          simp only [krNew, hset, Option.map_some, Option.some.injEq] at h
          subst h
          simp [hraw]
        | _ => simp [hm, getKey] at hn
  | _ => simp [getKey] at h1

/-! ## what a reconcile can send -/

/-- the load as the model performs it -/
def loadedOf (rf : Rf) (stored : Option JVal) : Option JVal := stored.bind fun o => krLoaded rf.api o rf.ns

/-- every request of `reconcileKrm` is the POST of a create payload (object absent), the PATCH of
    a patch payload against the loaded object, or a DELETE of the loaded object -/
theorem request_cases (enc : JVal → String) (defNs : String) (cmp : JVal → JVal → Bool)
    (rf : Rf) (owner : Owner) (stored : Option JVal) (req : Request)
    (h : (reconcileKrm enc defNs cmp rf owner stored).request = some req) :
    (loadedOf rf stored = none ∧ rf.readonly = false ∧ rf.createEnabled = true ∧ rf.deleteIfExists = false ∧
      ∃ view p, materialise (forced rf.target) rf.tmpl rf.steps = some view ∧
        createPayload enc (forced rf.target) view rf.createOv (rf.owned && owner.ns == rf.ns) owner.ref = some p ∧
        createRequest rf.api defNs p rf.ns = some req) ∨
    (∃ live expected p, loadedOf rf stored = some live ∧ rf.readonly = false ∧ rf.deleteIfExists = false ∧
        rf.policy = .patch ∧
        materialise (forced rf.target) rf.tmpl rf.steps = some expected ∧
        patchPayload enc expected live owner.ref (rf.owned && owner.ns == rf.ns)
          (if (rf.owned && owner.ns == rf.ns) then ownerReffed live owner.ref else true) = some p ∧
        patchRequest rf.api defNs live p = some req) ∨
    (∃ live, loadedOf rf stored = some live ∧ deleteRequest rf.api defNs live = some req) := by
  obtain ⟨api, name, ns, ro, ow, ce, de, pol, tmpl, steps, cov⟩ := rf
  unfold reconcileKrm at h
  simp only [loadedOf]
  simp only [] at h
  cases hl : (stored.bind fun o => krLoaded api o ns) with
  | none =>
    rw [hl] at h
    simp only [] at h
    cases de with
    | true => simp at h
    | false =>
      simp only [Bool.false_eq_true, if_false] at h
      cases hrc : (ro || !ce) with
      | true => simp [hrc] at h
      | false =>
        simp only [hrc, Bool.false_eq_true, if_false] at h
        have hro : ro = false ∧ ce = true := by cases ro <;> cases ce <;> simp_all
        left
        refine ⟨rfl, hro.1, hro.2, rfl, ?_⟩
        cases hm : materialise (forced (Rf.target ⟨api, name, ns, ro, ow, ce, false, pol, tmpl, steps, cov⟩)) tmpl steps with
        | none => rw [hm] at h; simp [failedRun] at h
        | some view =>
          rw [hm] at h
          simp only [Option.bind_some] at h
          cases hp : createPayload enc (forced (Rf.target ⟨api, name, ns, ro, ow, ce, false, pol, tmpl, steps, cov⟩))
              view cov (ow && owner.ns == ns) owner.ref with
          | none => rw [hp] at h; simp [failedRun] at h
          | some p =>
            rw [hp] at h
            simp only [Option.bind_some] at h
            cases hq : createRequest api defNs p ns with
            | none => rw [hq] at h; simp [failedRun] at h
            | some r =>
              rw [hq] at h
              simp at h
              subst h
              exact ⟨view, p, rfl, hp, hq⟩
  | some live =>
    rw [hl] at h
    simp only [] at h
    cases de with
    | true =>
      simp only [if_true] at h
      right; right
      cases hq : deleteRequest api defNs live with
      | none => rw [hq] at h; simp [failedRun] at h
      | some r => rw [hq] at h; simp at h; subst h; exact ⟨live, rfl, hq⟩
    | false =>
      simp only [Bool.false_eq_true, if_false] at h
      cases ro with
      | true => simp at h
      | false =>
        simp only [Bool.false_eq_true, if_false] at h
        cases hm : materialise (forced (Rf.target ⟨api, name, ns, false, ow, ce, false, pol, tmpl, steps, cov⟩)) tmpl steps with
        | none => rw [hm] at h; simp [failedRun] at h
        | some expected =>
          rw [hm] at h
          simp only [] at h
          generalize hre : (if (ow && owner.ns == ns) = true then ownerReffed live owner.ref else true) = reffed at h
          cases hc : (cmp expected live && reffed) with
          | true => simp [hc] at h
          | false =>
            simp only [hc, Bool.false_eq_true, if_false] at h
            cases pol with
            | never => simp at h
            | recreate =>
              simp only [] at h
              right; right
              cases hq : deleteRequest api defNs live with
              | none => rw [hq] at h; simp [failedRun] at h
              | some r => rw [hq] at h; simp at h; subst h; exact ⟨live, rfl, hq⟩
            | patch =>
              simp only [] at h
              right; left
              cases hp : patchPayload enc expected live owner.ref (ow && owner.ns == ns) reffed with
              | none => rw [hp] at h; simp [failedRun] at h
              | some p =>
                rw [hp] at h
                simp only [Option.bind_some] at h
                cases hq : patchRequest api defNs live p with
                | none => rw [hq] at h; simp [failedRun] at h
                | some r =>
                  rw [hq] at h
                  simp at h
                  subst h
                  exact ⟨live, expected, p, rfl, rfl, rfl, rfl, rfl, by rw [hre]; exact hp, hq⟩

/-- a request of `reconcile` is a request of `reconcileKrm` (the gates in front send nothing) -/
theorem request_of_reconcile {enc : JVal → String} {defNs : String} {cmp : JVal → JVal → Bool} {pp : Bool}
    {rf : Rf} {owner : Owner} {stored : Option JVal} {req : Request}
    (h : (reconcile enc defNs cmp pp rf owner stored).request = some req) :
    (reconcileKrm enc defNs cmp rf owner stored).request = some req := by
  unfold reconcile at h
  cases pp <;> simp at h
  by_cases hw : rf.api.namespaced = true ∧ rf.ns = none
  · simp [hw] at h
  · simpa [hw] using h

end Koreo.Rf
